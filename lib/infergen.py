"""Generated straight-line programs (literals, arrays, hashes, lookups, reassignment, growth, builtin calls with a
declared return type) and the type each `dbtp` must print, by the reference rules of the property."""

SCALARS = [("1", "Integer"), ("2", "Integer"), ('"s"', "String"), ('"abc"', "String"), ("1.5", "Float"), (":a", "Symbol"),
           ("nil", "NilClass"), ("true", "Bool"), ("false", "Bool")]


def union(types):
    out = []
    for t in types:
        for x in (t[1] if isinstance(t, tuple) and t[0] == "Union" else [t]):
            if x not in out:
                out.append(x)
    return out[0] if len(out) == 1 else ("Union", out)


def render(t):
    if isinstance(t, str):
        return t
    if t[0] == "Union":
        return "Union<%s>" % " ".join(render(x) for x in t[1])
    if t[0] == "Array":
        return "Array<%s>" % (" ".join(render(x) for x in t[1]) if t[1] else "untyped")
    if t[0] == "Hash":
        return "Hash"
    raise ValueError(t)


def elems(types):
    out = []
    for t in types:
        if t not in out:
            out.append(t)
    return out


class Gen:
    def __init__(self, r):
        self.r = r
        self.lines = []
        self.expect = []          # (row, rendered type, note)
        self.env = {}             # var -> type ; hashes: ("Hash", {key: type}) kept apart
        self.hashes = {}
        self.n = 0

    def fresh(self, stem):
        self.n += 1
        return "%s%d" % (stem, self.n)

    def scalar(self):
        return self.r.choice(SCALARS)

    def array_literal(self, depth=0):
        r = self.r
        parts, types = [], []
        nested = False
        for _ in range(r.randint(1, 4)):
            if depth == 0 and not nested and r.random() < 0.3:     # one nested literal at most: several merge into one Array
                nested = True
                txt, t = self.array_literal(1)
            else:
                txt, t = self.scalar()
            parts.append(txt); types.append(t)
        sep = r.choice([", ", ", ", ","])
        return "[" + sep.join(parts) + "]", ("Array", elems(types))

    def emit(self, text, t=None, note=""):
        self.lines.append(text)
        if t is not None:
            self.expect.append((len(self.lines), render(t), note))

    def step(self):
        r = self.r
        x = r.random()
        if x < 0.15:
            txt, t = self.scalar()
            self.emit("dbtp %s" % txt, t, "literal")
        elif x < 0.3:
            txt, t = self.array_literal()
            if r.random() < 0.5:
                v = self.fresh("a"); self.emit("%s = %s" % (v, txt)); self.env[v] = t
                self.emit("dbtp %s" % v, t, "array variable")
            else:
                self.emit("dbtp %s" % txt, t, "array literal")
        elif x < 0.36:
            # a hash whose values are arrays of different element types; an operation that unifies the values (a lookup
            # with a key the hash does not have, delete, a block over the pairs) must leave every stored value as it was
            v = self.fresh("g")
            keys = r.sample(["a", "b", "c", "k"], r.randint(2, 3))
            pool = [("[1]", ("Array", ["Integer"])), ('["s"]', ("Array", ["String"])), ("[1.5]", ("Array", ["Float"])),
                    ("[:a]", ("Array", ["Symbol"])), ('[1, "s"]', ("Array", ["Integer", "String"]))]
            vals = {k: r.choice(pool) for k in keys}
            self.emit("%s = {%s}" % (v, ", ".join("%s: %s" % (k, vals[k][0]) for k in keys)))
            for k in keys:
                self.emit("dbtp %s[:%s]" % (v, k), vals[k][1], "hash lookup")
            op = r.choice(["missing", "delete", "each", "values"])
            if op == "missing":
                self.emit("%s = %s[:qq]" % (self.fresh("u"), v))
            elif op == "delete":
                self.emit("%s = %s.delete(:qq)" % (self.fresh("u"), v))
            elif op == "values":
                # the arrays merge position by position: checked as one array holding every element type
                held = []
                for k in keys:
                    for e in vals[k][1][1]:
                        if e not in held:
                            held.append(e)
                self.emit("dbtp %s.values" % v, ("Array", [("Array", sorted(held))]), "KeyValueArray of arrays (element types as a set)")
            else:
                self.emit("%s.each do |%s, %s|" % (v, self.fresh("bk"), self.fresh("bv")))
                self.emit("end")
            for k in keys:
                self.emit("dbtp %s[:%s]" % (v, k), vals[k][1], "hash lookup after a unifying operation")
        elif x < 0.45:
            v = self.fresh("h")
            keys = r.sample(["a", "b", "c", "k", "zz"], r.randint(1, 4))
            vals = {k: self.scalar() for k in keys}
            self.emit("%s = {%s}" % (v, ", ".join("%s: %s" % (k, vals[k][0]) for k in keys)))
            self.hashes[v] = {k: vals[k][1] for k in keys}
            self.emit("dbtp %s" % v, "Hash", "hash variable")
        elif x < 0.6 and self.hashes:
            v = r.choice(sorted(self.hashes))
            h = self.hashes[v]
            if r.random() < 0.35:
                k = r.choice(["a", "b", "n", "k"]); txt, t = self.scalar()
                self.emit("%s[:%s] = %s" % (v, k, txt)); h[k] = t
            k = r.choice(sorted(h))
            self.emit("dbtp %s[:%s]" % (v, k), h[k], "hash lookup")
        elif x < 0.72:
            v = r.choice(sorted(self.env)) if self.env and r.random() < 0.5 else self.fresh("x")
            txt, t = self.scalar() if r.random() < 0.7 else self.array_literal()
            self.emit("%s = %s" % (v, txt)); self.env[v] = t
            self.emit("dbtp %s" % v, t, "reassigned variable")
        elif x < 0.85:
            arrs = [v for v in self.env if isinstance(self.env[v], tuple) and self.env[v][0] == "Array"]
            if not arrs:
                return
            v = r.choice(sorted(arrs)); txt, t = self.scalar()
            op = r.choice(["push", "<<"])
            self.emit("%s.push(%s)" % (v, txt) if op == "push" else "%s << %s" % (v, txt))
            self.env[v] = ("Array", elems(self.env[v][1] + [t]))
            self.emit("dbtp %s" % v, self.env[v], "array growth")
        else:
            arrs = [v for v in self.env if isinstance(self.env[v], tuple) and self.env[v][0] == "Array" and self.env[v][1]]
            pick = r.random()
            if arrs and pick < 0.5:
                v = r.choice(sorted(arrs))
                scal = [e for e in self.env[v][1] if isinstance(e, str)]
                if len(scal) == len(self.env[v][1]):
                    self.emit("dbtp %s.first" % v, union(scal + ["NilClass"]), "OptionalUnify")
                    self.emit("dbtp %s" % v, self.env[v], "receiver after first")
            elif arrs and pick < 0.62:
                v = r.choice(sorted(arrs))
                scal = [e for e in self.env[v][1] if isinstance(e, str)]
                if len(scal) == len(self.env[v][1]):
                    which = r.choice(["uniq", "at", "last", "last1", "shift", "dup"])
                    if which == "uniq":
                        self.emit("dbtp %s.uniq" % v, self.env[v], "Self")
                    elif which == "at":
                        self.emit("dbtp %s.at(0)" % v, union(scal + ["NilClass"]), "OptionalUnify")
                    elif which == "last":
                        self.emit("dbtp %s.last" % v, union(scal + ["NilClass"]), "conditional OptionalUnify")
                    elif which == "last1":
                        self.emit("dbtp %s.last(1)" % v, self.env[v], "conditional Self")
                    elif which == "dup":
                        self.emit("dbtp %s.dup" % v, self.env[v], "Self")
                    else:
                        self.emit("dbtp %s.shift" % v, union(scal), "conditional Unify")
                    self.emit("dbtp %s" % v, self.env[v], "receiver after a call")
            elif self.hashes and pick < 0.7:
                v = r.choice(sorted(self.hashes))
                vals = elems(list(self.hashes[v].values()))
                if r.random() < 0.5:
                    self.emit("dbtp %s.values" % v, ("Array", vals), "KeyValueArray")
                else:
                    self.emit("dbtp %s.delete(:%s)" % (v, r.choice(sorted(self.hashes[v]))), union(vals + ["NilClass"]), "Union<Unify NilClass>")
            elif pick < 0.75:
                self.emit("dbtp (1..3).first", union(["Integer", "NilClass"]), "conditional OptionalUnify")
                self.emit("dbtp (1..3).first(2)", ("Array", ["Integer"]), "conditional SelfArray")
            elif pick < 0.8:
                self.emit('dbtp "s".upcase', "String", "declared return")
                self.emit("dbtp 1.to_s", "String", "declared return")
            else:
                self.emit("dbtp 1 + 1", "Integer", "declared return")
                self.emit("dbtp 1.5 + 1", "Float", "declared return")


def gen_program(r, steps=12):
    g = Gen(r)
    for _ in range(steps):
        g.step()
        # a bystander: some variable or stored hash value the last step did not assign still has its type
        if r.random() < 0.35:
            if g.env and r.random() < 0.6:
                v = r.choice(sorted(g.env))
                g.emit("dbtp %s" % v, g.env[v], "bystander variable")
            elif g.hashes:
                v = r.choice(sorted(g.hashes))
                if g.hashes[v]:
                    k = r.choice(sorted(g.hashes[v]))
                    g.emit("dbtp %s[:%s]" % (v, k), g.hashes[v][k], "bystander hash value")
    return "\n".join(g.lines) + "\n", g.expect
