"""Correspondence for conditioningMethodReturn (Model/CondReturn.v): declared parameters (optional, union, plain, untyped),
a conditional return type with 2-3 alternatives, 0-3 arguments (a block among them at times); the alternative picked — or the
panic when the code indexes past the alternatives — against the model."""
import json

from lib import common as C
from lib import corr
from lib import tygen as G
from lib.flow import Failure
from lib.execcorr import brief, SPECIALS


def gen_param(r):
    x = r.random()
    if x < 0.35:
        return G.with_flags(G.INT_ANY(), hd=True, bi=True)
    if x < 0.55:
        return G.with_flags(G.UNION([G.gen_scalar(r, True) for _ in range(2)]), bi=True)
    if x < 0.65:
        return G.with_flags(G.UNTYPED(), bi=True)
    return G.with_flags(G.gen_scalar(r, True), bi=True)


def part_cond_return(ctx, part):
    r = ctx.rng("condreturn")
    cases = []
    for _ in range(ctx.n(400, 4000)):
        params = [gen_param(r) for _ in range(r.choice([1, 1, 2]))]
        ret = G.UNION([r.choice(SPECIALS + [lambda: G.gen_scalar(r, True)])() for _ in range(r.choice([2, 2, 3]))])
        args = [G.gen_scalar(r, True) for _ in range(r.choice([0, 1, 1, 2, 3]))]
        if r.random() < 0.15:
            args.append(G.BLOCK())
        cases.append({"params": params, "ret": ret, "args": args})
    outs = C.vh_batch([{"op": "cond_return", "spec": c} for c in cases])
    terms, kept = [], []
    for c, o in zip(cases, outs):
        part.evaluations += 1
        if "t" not in o and "panic" not in o:
            part.notes.append("the harness has no cond_return op (hook missing)")
            part.mismatches.append({"fn": "VerifConditioningMethodReturn", "detail": json.dumps(o)[:200]})
            return
        part.count("panic" if "panic" in o else "picked")
        if len(c["params"]) > 1 or len(c["args"]) > 1:
            part.nontrivial.add(json.dumps(c, sort_keys=True))
        got = "None" if "panic" in o else "(Some %s)" % C.coq_ty(o["t"])
        names = C.coq_list([C.coq_str("p%d" % i) for i in range(len(c["params"]))])
        terms.append("(%s, %s, %s, %s, %s)" % (C.coq_list([C.coq_ty(p) for p in c["params"]]), C.coq_ty(c["ret"]), C.coq_list([C.coq_ty(a) for a in c["args"]]), names, got))
        kept.append((c, o))
        part.sample({"params": [brief(p) + ("?" if p.get("hd") else "") for p in c["params"]], "ret": brief(c["ret"]), "args": [brief(a) for a in c["args"]],
                     "picked": "panic" if "panic" in o else brief(o["t"])})
    bad = corr.coq_mismatches(["Model.CondReturn"], "list ty * ty * list ty * list string * option ty",
                              "fun c => let '(params, ret, args, names, got) := c in "
                              "match cond_return params ret args (set_dargs (set_meth (set_frame ret \"Builtin\") \"m\") names), got with "
                              "| Some a, Some b => ty_eqb a b | None, None => true | _, _ => false end", terms, chunk=200)
    for i in bad:
        c, o = kept[i]
        part.mismatches.append({"fn": "conditioningMethodReturn", "params": [brief(p) for p in c["params"]], "ret": brief(c["ret"]),
                                "args": [brief(a) for a in c["args"]], "impl": "panic" if "panic" in o else brief(o["t"]), "spec": c})
    part.agreed += len(terms) - len(bad)
