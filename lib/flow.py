"""The decision procedure shared by every property check (DESIGN 3.4)."""
import json
import os
import time
import traceback

from lib import common as C


class Failure:
    """A concrete input on which the implementation violates the property (or a broken tie)."""

    def __init__(self, kind, what, data, concrete=True):
        self.kind = kind          # short classifier used by known-finding matchers
        self.what = what          # human-readable description
        self.data = data          # JSON-serialisable replay data
        self.concrete = concrete  # True: a real failing input; False: broken proof/tie only

    def to_json(self):
        return {"kind": self.kind, "what": self.what, "concrete": self.concrete, "data": self.data}


class Part:
    """Outcome of one component (correspondence / exploration)."""

    def __init__(self, name):
        self.name = name
        self.evaluations = 0
        self.nontrivial = set()
        self.agreed = 0
        self.mismatches = []      # model≠impl disagreements (not necessarily violations)
        self.failures = []        # Failure objects: property predicate false on the implementation
        self.samples = []
        self.histogram = {}
        self.notes = []

    def count(self, key, n=1):
        self.histogram[key] = self.histogram.get(key, 0) + n

    def sample(self, x, limit=4):
        if len(self.samples) < limit:
            self.samples.append(x)


class Ctx:
    def __init__(self, pid, tier, seed, prep):
        self.pid, self.tier, self.seed, self.prep = pid, tier, seed, prep
        self.quick = tier == "quick"

    def rng(self, salt=""):
        return C.rng_for(self.pid, self.seed, salt)

    def n(self, quick, thorough):
        return quick if self.quick else thorough


def matches_finding(fail, finding):
    m = finding.get("matcher", {})
    if m.get("kind") and m["kind"] != fail.kind:
        return False
    for k, v in m.get("data", {}).items():
        if fail.data.get(k) != v:
            return False
    return True


def run_property(pid, mod, tier, seed):
    t0 = time.time()
    os.makedirs(C.EVID, exist_ok=True)
    prep = C.prepare()
    ctx = Ctx(pid, tier, seed, prep)
    relv = "Properties/%s.v" % pid
    broken = []          # names of theorems / ties that no longer check
    # ---- proofs
    names = C.theorem_names(relv) if os.path.exists(os.path.join(C.COQ, relv)) else []
    assum = {}
    if not prep.go_ok:
        broken.append("build: /repo does not compile with -tags verif")
    if not prep.gen_ok:
        broken.append("translator: tools/gen could not read the tables from the current source")
    if not prep.vo_ok(relv):
        broken.append("proof: %s does not compile against the regenerated tables" % relv)
    else:
        assum = C.print_assumptions(relv, names)
        for n in names:
            if assum.get(n) != "closed":
                allowed = getattr(mod, "ALLOWED_AXIOMS", [])
                extra = [a for a in (assum.get(n) or []) if not any(a.startswith(x) for x in allowed)]
                if extra:
                    broken.append("assumptions: %s depends on %s" % (n, extra))
    bad = C.grep_forbidden()
    if bad:
        broken.append("forbidden vernacular: %s" % bad[:5])
    deps_ok = all(prep.vo_ok(v) for v in getattr(mod, "REQUIRES", []))
    if not deps_ok:
        broken.append("model: %s does not compile" % [v for v in mod.REQUIRES if not prep.vo_ok(v)])
    obligations = len(names) + len(getattr(mod, "TABLE_OBLIGATIONS", []))
    discharged = sum(1 for n in names if assum.get(n) == "closed" or
                     (isinstance(assum.get(n), list) and assum.get(n) and not any("<" in a for a in assum[n])
                      and not any(n in b for b in broken)))
    if prep.vo_ok(relv):
        discharged += len(getattr(mod, "TABLE_OBLIGATIONS", []))

    # ---- correspondence + exploration
    parts = []
    failures = []
    if prep.go_ok:
        for fn in getattr(mod, "PARTS", []):
            part = Part(fn.__name__)
            try:
                fn(ctx, part)
            except Exception as e:  # a crashed harness is a broken tie, not a pass
                part.mismatches.append({"harness_exception": repr(e), "trace": traceback.format_exc()[-1500:]})
            parts.append(part)
            if part.mismatches:
                broken.append("correspondence: %s (%d disagreement(s))" % (part.name, len(part.mismatches)))
            failures.extend(part.failures)
    # ---- search for a concrete failing input when something is broken
    if broken and prep.go_ok and hasattr(mod, "search"):
        sp = Part("search")
        try:
            mod.search(ctx, sp, [m for p in parts for m in p.mismatches])
        except Exception as e:
            sp.notes.append("search crashed: %r" % (e,))
        parts.append(sp)
        failures.extend(sp.failures)

    # ---- known findings
    findings = C.load_findings(pid)
    open_findings = [f for f in findings if f.get("status") == "open"]
    unmatched = []
    hit = {}
    for f in failures:
        m = next((k for k in open_findings if matches_finding(f, k)), None)
        if m is None:
            unmatched.append(f)
        else:
            hit.setdefault(m["id"], []).append(f)
    # replay every open finding's stored witness so that the KNOWN-FINDING line reflects this run
    known_lines = []
    for k in open_findings:
        still = None
        if hasattr(mod, "replay_finding"):
            try:
                still = mod.replay_finding(ctx, k)
            except Exception as e:
                still = None
                k = dict(k, what=k["what"] + " (replay crashed: %r)" % (e,))
        if still or hit.get(k["id"]):
            known_lines.append("KNOWN-FINDING: property=%s %s" % (pid, k["what"]))
    # broken proofs/ties that are explained by an open finding's declared scope do not count
    violation = None
    if unmatched:
        f = unmatched[0]
        path = os.path.join(C.REPLAY, "%s_%s.json" % (pid, tier))
        with open(path, "w") as fh:
            json.dump({"property": pid, "failure": f.to_json(), "others": [x.to_json() for x in unmatched[1:10]],
                       "broken": broken}, fh, indent=1)
        violation = "VIOLATION property=%s replay=%s" % (pid, path)
    elif broken:
        path = os.path.join(C.REPLAY, "%s_%s.json" % (pid, tier))
        with open(path, "w") as fh:
            json.dump({"property": pid, "no_failing_input_found": True, "broken": broken,
                       "mismatches": [m for p in parts for m in p.mismatches][:10],
                       "make_log_tail": prep.log[-3000:]}, fh, indent=1, default=str)
        violation = "VIOLATION property=%s replay=%s no-failing-input-found" % (pid, path)

    # ---- evidence
    evals = sum(p.evaluations for p in parts)
    nontriv = sum(len(p.nontrivial) for p in parts)
    ev = {
        "property_id": pid, "tier": tier, "seed": seed, "level": "proof",
        "coverage": {
            "obligations": max(obligations, 1) if names else 0,
            "discharged": discharged,
            "checker_cmd": "make -C coq -k -j16 (coqc 8.16.1, full .vo build) ; coqc -Q coq RT <Print Assumptions %s> ; coqc -Q coq RT cases.v (vm_compute)" % " ".join(names[:6]),
            "trusted_base": getattr(mod, "TRUSTED", []) + [
                "Coq 8.16.1 kernel and vm_compute", "harness/cmd/gen translator + lib/gen2coq.py",
                "correspondence harness (harness/cmd/vh, lib/*.py)"],
            "theorems": {n: assum.get(n, "not built") for n in names},
            "table_obligations": getattr(mod, "TABLE_OBLIGATIONS", []),
            "evaluations": evals,
            "distinct_nontrivial": nontriv,
            "rule": getattr(mod, "RULE", ""),
            "samples": [s for p in parts for s in p.samples][:12] or ["(no case generated)"],
            "traces_validated_against_impl": sum(p.agreed for p in parts),
            "parts": {p.name: {"evaluations": p.evaluations, "distinct_nontrivial": len(p.nontrivial),
                               "agreed": p.agreed, "mismatches": len(p.mismatches),
                               "failures": len(p.failures), "histogram": p.histogram, "notes": p.notes}
                      for p in parts},
            "partial_or_refuted": getattr(mod, "PARTIAL", []),
            "known_findings_replayed": [k["id"] for k in open_findings],
            "broken": broken,
        },
        "assumptions": getattr(mod, "ASSUMPTIONS", []),
        "wall_s": round(time.time() - t0, 2),
        "violations": (1 if violation else 0),
    }
    with open(os.path.join(C.EVID, pid + ".json"), "w") as fh:
        json.dump(ev, fh, indent=1, default=str)
    for l in known_lines:
        print(l)
    if violation:
        print(violation)
        return 1
    print("OK property=%s tier=%s theorems=%d/%d cases=%d nontrivial=%d wall=%.1fs" % (
        pid, tier, discharged, obligations, evals, nontriv, time.time() - t0))
    return 0
