"""Generated RBS AST documents (the JSON that rbs2json's embedded Ruby script prints), the Coq rendering of
their signatures, and the calls an RBS signature allows."""
from lib import common as C


def ci(name, args=None):
    return {"class": "class_instance", "name": name, "args": args or []}


# (AST type, a Ruby value of that type)
TYPES = [
    (lambda: ci("::Integer"), "1"), (lambda: ci("Integer"), "1"), (lambda: ci("::String"), '"s"'), (lambda: ci("Symbol"), ":a"),
    (lambda: ci("::Float"), "1.5"), (lambda: {"class": "bool"}, "true"), (lambda: {"class": "untyped"}, "1"),
    (lambda: {"class": "optional", "type": ci("::Integer")}, "1"), (lambda: {"class": "optional", "type": ci("String")}, "nil"),
    (lambda: {"class": "union", "types": [ci("::Integer"), ci("::String")]}, '"s"'),
    (lambda: ci("::Array", [ci("::Integer")]), "[1]"), (lambda: {"class": "alias", "name": "int"}, "1"),
    (lambda: {"class": "alias", "name": "string"}, '"s"'), (lambda: {"class": "literal", "literal": ":ok"}, ":ok"),
    (lambda: {"class": "literal", "literal": "42"}, "42"), (lambda: {"class": "alias", "name": "size"}, "1"),   # declared alias
    (lambda: {"class": "variable", "name": "T"}, "1"), (lambda: {"class": "alias", "name": "loop_a"}, "1"), (lambda: {"class": "tuple", "types": [ci("Integer")]}, "[1]"),
    (lambda: {"class": "union", "types": [{"class": "literal", "literal": ":a"}, {"class": "literal", "literal": ":b"}, {"class": "nil"}]}, ":a"),
]
RETURNS = [lambda: {"class": "void"}, lambda: ci("::Integer"), lambda: {"class": "self"}, lambda: {"class": "instance"},
           lambda: {"class": "optional", "type": ci("::String")}, lambda: {"class": "bool"}, lambda: {"class": "nil"}]


def gen_param(r, name):
    t, v = r.choice(TYPES)
    return {"type": t(), "name": name}, v


def gen_functype(r, heavy_kw=False):
    nreq, nopt = r.choice([0, 1, 1, 2]), r.choice([0, 0, 1, 2])
    rest = r.random() < 0.2
    ntrail = r.choice([0, 0, 1]) if (rest or (nopt and r.random() < 0.5)) else 0
    nkr = r.choice([0, 0, 1, 2, 4] if heavy_kw else [0, 0, 0, 1, 2])
    nko = r.choice([0, 0, 1, 3] if heavy_kw else [0, 0, 0, 1])
    vals = {"req": [], "opt": [], "trail": [], "kwreq": {}, "kwopt": {}}
    ft = {"required_positionals": [], "optional_positionals": [], "rest_positionals": None, "trailing_positionals": [],
          "required_keywords": {}, "optional_keywords": {}, "rest_keywords": None, "return_type": r.choice(RETURNS)()}
    for i in range(nreq):
        p, v = gen_param(r, "a%d" % i); ft["required_positionals"].append(p); vals["req"].append(v)
    for i in range(nopt):
        p, v = gen_param(r, "o%d" % i); ft["optional_positionals"].append(p); vals["opt"].append(v)
    if rest:
        ft["rest_positionals"] = {"type": {"class": "untyped"}, "name": "rest"}
    for i in range(ntrail):
        p, v = gen_param(r, "t%d" % i); ft["trailing_positionals"].append(p); vals["trail"].append(v)
    names = r.sample(["zeta", "alpha", "mode", "beta", "key", "depth", "width", "omega", "a", "ab"], nkr + nko)
    for n in names[:nkr]:
        p, v = gen_param(r, n); ft["required_keywords"][n] = p; vals["kwreq"][n] = v
    for n in names[nkr:]:
        p, v = gen_param(r, n); ft["optional_keywords"][n] = p; vals["kwopt"][n] = v
    if r.random() < 0.1:
        ft["rest_keywords"] = {"type": {"class": "untyped"}, "name": "opts"}
    return ft, vals


def gen_document(r, nmeth=6):
    """(AST document, methods) — methods: [{name, singleton, ft, vals, overloads}] of class Widget."""
    members = [{"member": "method_definition", "name": "initialize", "kind": "instance", "visibility": "public", "comment": None,
                "overloads": [{"method_type": {"type_params": [], "type": gen_functype(r)[0] if False else
                               {"required_positionals": [], "optional_positionals": [], "rest_positionals": None, "trailing_positionals": [],
                                "required_keywords": {}, "optional_keywords": {}, "rest_keywords": None, "return_type": {"class": "void"}},
                               "block": None}}]},
               {"declaration": "alias", "name": "size", "type": ci("::Integer"), "member": ""},
               # aliases that name each other (rbs parse accepts them, rbs validate does not): they resolve to nothing
               {"declaration": "alias", "name": "loop_a", "type": {"class": "alias", "name": "loop_b"}, "member": ""},
               {"declaration": "alias", "name": "loop_b", "type": {"class": "alias", "name": "loop_a"}, "member": ""}]
    methods = []
    for i in range(nmeth):
        ft, vals = gen_functype(r, heavy_kw=r.random() < 0.4)
        singleton = r.random() < 0.3
        block = None
        if r.random() < 0.2:
            block = {"type": {"required_positionals": [{"type": ci("::Integer"), "name": "x"}], "optional_positionals": [], "rest_positionals": None,
                              "trailing_positionals": [], "required_keywords": {}, "optional_keywords": {}, "rest_keywords": None,
                              "return_type": {"class": "void"}}, "required": r.random() < 0.5}
        m = {"member": "method_definition", "name": "m%d" % i, "kind": "singleton" if singleton else "instance",
             "visibility": r.choice(["public", "public", "public", "private"]),
             "comment": {"string": "<!-- rdoc-file=x.c -->\nDoc of m%d" % i} if r.random() < 0.3 else None,
             "overloads": [{"method_type": {"type_params": [], "type": ft, "block": block}}]}
        members.append(m)
        methods.append({"name": "m%d" % i, "singleton": singleton, "ft": ft, "vals": vals, "private": m["visibility"] == "private"})
        if r.random() < 0.15 and m["visibility"] == "public":
            members.append({"member": "alias", "new_name": "al%d" % i, "old_name": "m%d" % i, "kind": "singleton" if singleton else "instance"})
            methods.append({"name": "al%d" % i, "singleton": singleton, "ft": ft, "vals": vals, "private": False, "alias_of": "m%d" % i})
    if r.random() < 0.4:       # aliases written before their targets (three of them: any map over them has 6 orders)
        fw = [{"member": "alias", "new_name": "fwd%d" % j, "old_name": "m%d" % r.randrange(nmeth), "kind": "instance"} for j in range(3)]
        members[2:2] = fw
    members.append({"member": "attr_reader", "name": "label", "type": ci("::String"), "ivar_name": None, "kind": "instance"})
    members.append({"declaration": "class", "name": "Part", "members": [
        {"member": "method_definition", "name": "weight", "kind": "instance", "visibility": "public", "comment": None,
         "overloads": [{"method_type": {"type_params": [], "type": dict(gen_functype(r)[0], **{"required_keywords": {}, "optional_keywords": {}}), "block": None}}]}],
        "super_class": None, "type_params": [], "member": ""})
    doc = [{"declaration": "class", "name": "Widget", "type_params": [], "members": members,
            "super_class": r.choice([None, {"name": "::Object", "args": []}]), "comment": None}]
    if r.random() < 0.3:
        doc.append({"declaration": "module", "name": "Helper", "type_params": [], "members": [], "super_class": None, "comment": None})
    return doc, methods


# ------------------------------------------------------------------ Coq rendering

def coq_rtype(t):
    return "(RT %s %s %s %s %s %s)" % (
        C.coq_str(t.get("class", "")), C.coq_str(t.get("name", "")), C.coq_list([coq_rtype(a) for a in t.get("args") or []]),
        C.coq_opt(coq_rtype(t["type"]) if t.get("type") else None), C.coq_list([coq_rtype(a) for a in t.get("types") or []]),
        C.coq_str(t.get("literal", "")))


def coq_param(p):
    return "(Build_rparam %s %s)" % (C.coq_opt(coq_rtype(p["type"]) if p.get("type") else None), C.coq_str(p.get("name", "")))


def coq_functype(ft, order):
    kw = lambda d: C.coq_list(["(%s, %s)" % (C.coq_str(k), coq_param(d[k])) for k in order(list(d))])
    return "(Build_functype %s %s %s %s %s %s %s)" % (
        C.coq_list([coq_param(p) for p in ft["required_positionals"]]), C.coq_list([coq_param(p) for p in ft["optional_positionals"]]),
        C.coq_opt(coq_param(ft["rest_positionals"]) if ft["rest_positionals"] else None),
        C.coq_list([coq_param(p) for p in ft["trailing_positionals"]]), kw(ft["required_keywords"]), kw(ft["optional_keywords"]),
        C.coq_opt(coq_param(ft["rest_keywords"]) if ft["rest_keywords"] else None))


# ------------------------------------------------------------------ calls

def calls_for(r, m):
    """[(argument text, allowed by the RBS signature?, note)]"""
    ft, v = m["ft"], m["vals"]
    nreq, nopt, ntr = len(v["req"]), len(v["opt"]), len(v["trail"])
    rest = ft["rest_positionals"] is not None
    out = []
    kwreq = ", ".join("%s: %s" % (k, val) for k, val in sorted(v["kwreq"].items()))
    for k in range(0, nreq + nopt + ntr + 3):
        if k < nreq:
            pos = v["req"][:k]
        else:
            extra = k - nreq - ntr
            if extra < 0:
                pos = v["req"] + v["trail"][:k - nreq]
            else:
                mid = v["opt"][:min(extra, nopt)] + ["1"] * max(0, extra - nopt)
                pos = v["req"] + mid + v["trail"]
        ok = (nreq + ntr <= k) and (rest or k <= nreq + nopt + ntr)
        args = ", ".join(pos + ([kwreq] if kwreq else []))
        out.append((args, ok, "k=%d" % k))
    base = v["req"] + v["trail"]
    if v["kwreq"]:
        miss = sorted(v["kwreq"])[0]
        kws = ", ".join("%s: %s" % (k, val) for k, val in sorted(v["kwreq"].items()) if k != miss)
        out.append((", ".join(base + ([kws] if kws else [])), False, "missing keyword %s" % miss))
    if v["kwopt"]:
        some = sorted(v["kwopt"])[:r.randint(1, len(v["kwopt"]))]
        kws = ", ".join(["%s: %s" % (k, val) for k, val in sorted(v["kwreq"].items())] + ["%s: %s" % (k, v["kwopt"][k]) for k in some])
        out.append((", ".join(base + [kws]), True, "optional keywords %s" % some))
    return out
