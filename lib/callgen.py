"""Generated configurations (classes K, L, parent P) and straight-line programs calling their methods,
with, per call row, the declaration and the argument types — the inputs of the Coq call spec."""
import json

from lib import common as C
from lib import tygen as G

# declared parameter types: (JSON "type" value, is it an object class?)
DECL_TYPES = ["Int", "String", "Float", "Symbol", "Bool", "NilClass", "Untyped", "Array", "Hash", "K", "L",
              ["Int", "String"], ["Int", "Float"], ["Int", "String", "Symbol"], ["K", "NilClass"],
              ["String", "NilClass"], ["K", "L"], "Int|String", "?Int", ["Symbol", "String"]]

# argument expressions: (ruby text, setup lines needed, type as VerifT)
VALUES = [
    ("1", G.INT_LIT()), ('"s"', G.STRING("s")), (":a", G.SYMBOL(":a")), ("1.5", G.FLOAT_LIT()), ("nil", G.NIL()),
    ("true", G.BOOL()), ("[1]", G.ARRAY([G.INT_LIT()])), ("{a: 1}", G.HASH([G.KEYVALUE("a", G.INT_LIT())])),
    ("k", G.OBJECT("K")), ("l", G.OBJECT("L")),
    ("u_is", G.UNION([G.INT_LIT(), G.STRING("s")])), ("u_if", G.UNION([G.INT_LIT(), G.FLOAT_LIT()])),
    ("u_kn", G.UNION([G.OBJECT("K"), G.NIL()])), ("u_ln", G.UNION([G.OBJECT("L"), G.NIL()])),
    ("u_sn", G.UNION([G.STRING("s"), G.NIL()])), ("u_kl", G.UNION([G.OBJECT("K"), G.OBJECT("L")])),
    ("u_iss", G.UNION([G.INT_LIT(), G.STRING("s"), G.SYMBOL(":a")])), ("u_sy", G.UNION([G.SYMBOL(":a"), G.STRING("s")])),
]
SETUP = ["k = K.new", "l = L.new", "c = true", 'u_is = c ? 1 : "s"', "u_if = c ? 1 : 1.5", "u_kn = c ? k : nil",
         "u_ln = c ? l : nil", 'u_sn = c ? "s" : nil', "u_kl = c ? k : l", 'u_is0 = c ? 1 : "s"', "u_iss = c ? u_is0 : :a",
         'u_sy = c ? :a : "s"']


def decl_json(t, default=False):
    d = {"type": t}
    if default:
        d["is_default"] = True
    return d


def gen_method(r, name):
    n = r.choice([0, 1, 1, 2, 2, 3])
    nopt = r.choice([0, 0, 0, 1, 2]) if n else 0
    args = []
    for i in range(n):
        args.append(decl_json(r.choice(DECL_TYPES), default=(i >= n - nopt)))
    ret = r.choice(["Int", "String", "Untyped", "NilClass", "Self", ["Int", "NilClass"]])
    return {"name": name, "arguments": args, "return_type": {"type": ret}}


def gen_config(r, nmeth=8):
    """Returns (config files dict, methods of K incl. inherited ones from P)."""
    km = [gen_method(r, "m%d" % i) for i in range(nmeth)]
    pm = [gen_method(r, "p%d" % i) for i in range(3)]
    new = lambda c: [{"name": "new", "arguments": [], "return_type": {"type": [c]}}]
    files = {
        "zz_k.json": json.dumps({"frame": "Builtin", "class": "K", "extends": ["P"], "instance_methods": km, "class_methods": new("K")}),
        "zz_l.json": json.dumps({"frame": "Builtin", "class": "L", "instance_methods": [
            {"name": "lm", "arguments": [], "return_type": {"type": "Int"}}], "class_methods": new("L")}),
        "zz_p.json": json.dumps({"frame": "Builtin", "class": "P", "instance_methods": pm, "class_methods": new("P")}),
    }
    return files, km + pm


def jarg_coq(a):
    t = a.get("type")
    types = [t] if isinstance(t, str) else list(t or [])
    return "(mkarg %s %s %s %s)" % (C.coq_list([C.coq_str(s) for s in types]), C.coq_str(a.get("key", "")),
                                    C.coq_bool(a.get("is_asterisk", False)), C.coq_bool(a.get("is_default", False)))


def fitting_values(r, decl):
    """Values that look plausible for a declared type (to keep most calls valid)."""
    t = decl["type"]
    names = [t] if isinstance(t, str) else t
    flat = []
    for n in names:
        flat.extend(n.lstrip("?*").split("|"))
    pool = []
    for n in flat:
        pool += {"Int": ["1", "u_if"], "String": ['"s"'], "Float": ["1.5"], "Symbol": [":a"], "Bool": ["true"],
                 "NilClass": ["nil"], "Untyped": ["1", '"s"', "k"], "Array": ["[1]"], "Hash": ["{a: 1}"], "K": ["k"],
                 "L": ["l"]}.get(n, [])
    if len(flat) > 1:
        pool += ["u_is", "u_kn", "u_sn", "u_kl", "u_iss", "u_sy", "u_ln"]
    return pool or ["1"]


def gen_program(r, methods, ncalls=14, valid_bias=0.6):
    """Returns (source text, calls) where calls = [{row, method, args:[(text, ty)], receiver}]."""
    lines = list(SETUP)
    calls = []
    vals = dict(VALUES)
    for _ in range(ncalls):
        m = r.choice(methods)
        decls = m["arguments"]
        mode = r.random()
        nreq = len([d for d in decls if not d.get("is_default")])
        if mode < valid_bias:
            n = r.randint(nreq, len(decls))
        elif mode < valid_bias + (1 - valid_bias) / 2:
            n = r.choice([max(0, nreq - 1), len(decls) + 1])
        else:
            n = r.randint(0, len(decls) + 1)
        args = []
        for i in range(n):
            if i < len(decls) and r.random() < max(0.7, valid_bias):
                txt = r.choice(fitting_values(r, decls[i]))
            else:
                txt = r.choice(VALUES)[0]
            args.append((txt, vals[txt]))
        lines.append("k.%s(%s)" % (m["name"], ", ".join(a[0] for a in args)))
        calls.append({"row": len(lines), "method": m, "args": args})
    return "\n".join(lines) + "\n", calls
