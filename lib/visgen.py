"""Generated class / module bodies with visibility sections, and what Ruby says about each definition."""


def gen_body(r, prefix, allow_singleton=True):
    """items: ('private'|'protected'|'public',) | ('def', name, shape) | ('defself', name, shape) | ('singleton', [sitems])
    | ('privdef', name, shape)  — `private def name`  | ('privsym', [names]) — `private :a, :b` (names defined earlier)"""
    items = []
    n = [0]

    def name(stem):
        n[0] += 1
        return "%s%s%d" % (prefix, stem, n[0])

    def shape():
        return r.choice(["plain", "plain", "args", "endless", "endless_args", "multiline", "obj"])

    for _ in range(r.randint(3, 8)):
        x = r.random()
        if x < 0.25:
            items.append((r.choice(["private", "private", "protected", "public"]),))
        elif x < 0.55:
            items.append(("def", name("i"), shape()))
        elif x < 0.62:
            items.append(("privdef", name("p"), r.choice(["plain", "args", "multiline", "obj"])))
        elif x < 0.67:
            earlier = [i[1] for i in items if i[0] == "def"]
            if earlier:
                items.append(("privsym", r.sample(earlier, r.randint(1, min(2, len(earlier))))))
        elif x < 0.8:
            items.append(("defself", name("s"), shape()))
        elif allow_singleton:
            body = []
            for _ in range(r.randint(1, 4)):
                if r.random() < 0.3:
                    body.append((r.choice(["private", "private", "protected", "public"]),))
                elif r.random() < 0.15:
                    body.append(("privdef", name("q"), r.choice(["plain", "args"])))
                else:
                    body.append(("def", name("t"), r.choice(["plain", "args", "endless"])))
            items.append(("singleton", body))
    if not any(i[0] == "def" for i in items):
        items.append(("def", name("i"), "plain"))
    return items


def render_def(lines, indent, name, shape, is_self, prefix=""):
    pad = "  " * indent
    full = ("self." if is_self else "") + name
    row = len(lines) + 1
    if shape == "plain":
        lines += [pad + "def %s" % full, pad + "  1", pad + "end"]
        arity = 0
    elif shape == "obj":       # returns an object of a class of another namespace
        lines += [pad + "def %s" % full, pad + "  Receipt.new", pad + "end"]
        arity = 0
    elif shape == "args":
        lines += [pad + "def %s(a, b)" % full, pad + "  a", pad + "end"]
        arity = 2
    elif shape == "endless":
        lines += [pad + "def %s = 1" % full]
        arity = 0
    elif shape == "endless_args":
        lines += [pad + "def %s(a) = a" % full]
        arity = 1
    else:
        lines += [pad + "def %s(a," % full, pad + "    b)", pad + "  a", pad + "end"]
        arity = 2
    if prefix:
        lines[row - 1] = pad + prefix + lines[row - 1][len(pad):]
    return row, arity


RECEIPT = ["class Receipt", "  def total", "    1", "  end", "end"]


def render(kind, cname, items, wrap=None):
    """(lines, defs) — defs: [{name, row, class_method, vis, arity}] with Ruby's visibility.
    wrap: the name of a module the class is nested in."""
    lines = list(RECEIPT) + (["module %s" % wrap] if wrap else []) + ["%s %s" % (kind, cname)]
    defs = []
    vis = "public"
    for it in items:
        if it[0] in ("private", "protected", "public"):
            lines.append("  " + it[0])
            vis = it[0]
        elif it[0] == "def":
            row, ar = render_def(lines, 1, it[1], it[2], False)
            defs.append({"name": it[1], "row": row, "class_method": False, "vis": vis, "arity": ar})
        elif it[0] == "defself":
            row, ar = render_def(lines, 1, it[1], it[2], True)
            defs.append({"name": it[1], "row": row, "class_method": True, "vis": "public", "arity": ar})
        elif it[0] == "privdef":
            row, ar = render_def(lines, 1, it[1], it[2], False, prefix="private ")
            defs.append({"name": it[1], "row": row, "class_method": False, "vis": "private", "arity": ar})
        elif it[0] == "privsym":
            lines.append("  private " + ", ".join(":" + n for n in it[1]))      # the -i tag is the one at the definition
            for d in defs:
                if d["name"] in it[1] and not d["class_method"]:
                    d["call_vis"] = "private"
        else:
            lines.append("  class << self")
            svis = "public"
            for s in it[1]:
                if s[0] == "def":
                    row, ar = render_def(lines, 2, s[1], s[2], False)
                    defs.append({"name": s[1], "row": row, "class_method": True, "vis": svis, "arity": ar})
                elif s[0] == "privdef":
                    row, ar = render_def(lines, 2, s[1], s[2], False, prefix="private ")
                    defs.append({"name": s[1], "row": row, "class_method": True, "vis": "private", "arity": ar})
                else:
                    lines.append("    " + s[0])
                    svis = s[0]
            lines.append("  end")
    lines.append("end")
    if wrap:
        lines.append("end")
    return lines, defs


def coq_items(items):
    out = []
    for it in items:
        if it[0] == "private":
            out.append("IPrivate")
        elif it[0] == "protected":
            out.append("IProtected")
        elif it[0] == "public":
            out.append("IPublic")
        elif it[0] == "def":
            out.append('(IDef "%s")' % it[1])
        elif it[0] == "defself":
            out.append('(IDefSelf "%s")' % it[1])
        elif it[0] == "privdef":
            out.append('(IPrivateDef "%s")' % it[1])
        elif it[0] == "privsym":
            out.append('(IPrivateSym [%s])' % "; ".join('"%s"' % n for n in it[1]))
        else:
            body = ["SPrivate" if s[0] == "private" else "SProtected" if s[0] == "protected" else "SPublic" if s[0] == "public"
                    else '(SPrivateDef "%s")' % s[1] if s[0] == "privdef" else '(SDef "%s")' % s[1] for s in it[1]]
            out.append("(ISingleton [%s])" % "; ".join(body))
    return "[%s]" % "; ".join(out)
