"""Loader correspondence: the world the real loader builds from a generated .ti-config directory (snapshot hook) against
Model/Loader.v `load` on the same class definitions."""
import json

from lib import common as C
from lib import corr
from lib import cfggen as CG
from lib.callgen import jarg_coq


def jret_coq(ret):
    t = ret.get("type")
    types = [t] if isinstance(t, str) else list(t or [])
    return "(mkret %s %s %s %s)" % (C.coq_list([C.coq_str(s) for s in types]), C.coq_bool(ret.get("is_conditional", False)),
                                    C.coq_bool(ret.get("is_destructive", False)), C.coq_bool(ret.get("is_capture_owner", False)))


def mdecl_coq(m):
    return "(mk_mdecl fixed_cfg %s %s %s %s)" % (C.coq_str(m["name"]), C.coq_list([jarg_coq(a) for a in m.get("arguments") or []]),
                                                jret_coq(m.get("return_type") or {}), C.coq_list([C.coq_str(b) for b in m.get("block_parameters") or []]))


def classdef_coq(cd):
    consts = C.coq_list(["(%s, parse_return_type %s)" % (C.coq_str(c["name"]), jret_coq(c["return_type"])) for c in cd.get("constants") or []])
    return ("{| cd_frame := %s; cd_class := %s; cd_ims := %s; cd_cms := %s; cd_consts := %s; cd_extends := %s |}" % (
        C.coq_str(cd["frame"]), C.coq_str(cd["class"]), C.coq_list([mdecl_coq(m) for m in cd.get("instance_methods") or []]),
        C.coq_list([mdecl_coq(m) for m in cd.get("class_methods") or []]), consts,
        C.coq_list([C.coq_str(e) for e in cd.get("extends") or []])))


def clear_method_fields(t):
    t = dict(t)
    t.update({"frame": "", "meth": "", "dargs": [], "df": "", "dc": "", "bec": "", "st": False, "ovs": []})
    return t


def impl_view(snap, classes):
    """{(frame,class,method,static): [ (name, [arg T...], ret T) ... ]} for the generated classes, from the snapshot."""
    vals = {}
    for e in snap["tframe"]:
        if e["variable"]:
            vals[(e["frame"], e["class"], e["method"], e["variable"], e["static"])] = e["t"]
    own = set((c["frame"], c["class"]) for c in classes)
    view = {}
    for e in snap["tframe"]:
        if e["variable"] or not e["method"] or (e["frame"], e["class"]) not in own:
            continue
        decls = []
        for t in [e["t"]] + list(e["t"]["ovs"] or []):
            args = []
            for d in t["dargs"] or []:
                name = d[:-1] if d.endswith(":") and len(d) > 1 else d
                vt = vals.get((e["frame"], e["class"], e["method"], name.lstrip("*") if name.startswith("*") else name, e["static"]))
                if d.endswith(":") and len(d) > 1:
                    args.append({"kw": d, "t": vt})
                else:
                    args.append({"kw": "", "t": vt})
            decls.append((args, clear_method_fields(t)))
        view[(e["frame"], e["class"], e["method"], e["static"])] = decls
    return view


def coq_expected(view):
    items = []
    for (f, c, m, s), decls in sorted(view.items()):
        ds = []
        for args, ret in decls:
            if any(a["t"] is None for a in args):
                return None
            al = C.coq_list(["(MakeKeyValue %s %s)" % (C.coq_str(a["kw"]), C.coq_ty(a["t"])) if a["kw"] else C.coq_ty(a["t"]) for a in args])
            ds.append("{| md_name := %s; md_args := %s; md_ret := %s; md_bps := [] |}" % (C.coq_str(m), al, C.coq_ty(ret)))
        items.append("((%s, %s, %s, %s), %s)" % (C.coq_str(f), C.coq_str(c), C.coq_str(m), C.coq_bool(s), C.coq_list(ds)))
    return C.coq_list(items)


def edges_expected(snap, classes):
    own = set((c["frame"], c["class"]) for c in classes)
    items = []
    for key, parents in sorted(snap["inheritance"].items()):
        parts = key.split("|")
        if (parts[0], parts[1]) in own and len(parts) == 2:
            items.append("((%s, %s), %s)" % (C.coq_str(parts[0]), C.coq_str(parts[1]),
                                            C.coq_list(["(%s, %s)" % (C.coq_str(p["Frame"]), C.coq_str(p["Class"])) for p in parents])))
    return C.coq_list(items)


DEFS = '''
Definition check (cds : list classdef) (ms : list (mkey * list mdecl)) (es : list (node * list node)) (bc : list string) : bool :=
  let w := load cds in
  forallb (fun kv => list_eqb mdecl_eqb (methods_at w (fst kv)) (snd kv)) ms &&
  forallb (fun kv => nodes_eqb (edges_at w (fst kv)) (snd kv)) es &&
  list_eqb String.eqb (w_builtin w) bc.
'''


def part_loader_corr(ctx, part, split=True):
    n = ctx.n(40, 400)
    terms, kept = [], []

    def one(i):
        r = C.rng_for(ctx.pid, ctx.seed, "ld%d" % i)
        classes = CG.gen_classes(r)
        defs = list(classes)
        if split and r.random() < 0.6:
            k = r.randrange(len(defs))
            defs = defs[:k] + defs[k + 1:] + CG.split_class(r, defs[k], r.choice([2, 3]))
        r.shuffle(defs)
        files = CG.to_files(defs)
        with C.Workdir(config_dir=None, extra_config=files) as wd:
            snap = C.vh_batch([{"op": "snapshot", "builtin_only": False}], cwd=wd.path)[0]
        order = [json.loads(files[k]) for k in sorted(files)]      # filepath.Glob order = sorted names
        return classes, order, snap

    for classes, order, snap in C.pmap(one, range(n), par=8):
        part.evaluations += 1
        view = impl_view(snap, classes)
        exp = coq_expected(view)
        if exp is None:
            part.mismatches.append({"fn": "loader", "why": "a declared parameter has no entry in TFrame", "classes": [c["class"] for c in classes]})
            continue
        if len(order) > len(classes) or any(c.get("extends") for c in classes):
            part.nontrivial.add(json.dumps(order, sort_keys=True))
        part.count("files=%d" % len(order))
        bc = [c for c in snap["builtin_classes"]]
        terms.append("(%s, %s, %s, %s)" % (C.coq_list([classdef_coq(cd) for cd in order]), exp, edges_expected(snap, classes),
                                           C.coq_list([C.coq_str(x) for x in bc])))
        kept.append(order)
        part.sample({"files": len(order), "classes": [c["class"] for c in classes], "methods": len(view)})
    bad = corr.coq_mismatches(["Model.Loader", "Proofs.C21P"], "list classdef * list (mkey * list mdecl) * list (node * list node) * list string",
                              "fun c => let '(cds, ms, es, bc) := c in check cds ms es bc", terms, defs=DEFS, chunk=40)
    for i in bad:
        part.mismatches.append({"fn": "loadBuiltinFromJSON", "files": kept[i]})
    part.agreed = len(terms) - len(bad)
