"""End-to-end part shared by C07 and C08: generated configuration + straight-line program; the spec
predicates (Model/CallSpec.v) are evaluated in Coq on the declarations the loader model parses from the
same JSON, and compared with the rows on which ti prints a diagnostic."""
import json
import re

from lib import common as C
from lib import corr
from lib import callgen as CG
from lib.flow import Failure


def spec_verdicts(calls):
    """[(certainly_fails, certainly_fits)] per call, computed by vm_compute."""
    terms = []
    for c in calls:
        decl = C.coq_list([CG.jarg_coq(a) for a in c["method"]["arguments"]])
        args = C.coq_list([C.coq_ty(t) for _, t in c["args"]])
        terms.append("(%s, %s)" % (decl, args))
    text = ("From RT Require Import Model.Config Model.CallSpec Proofs.C21P.\nImport ListNotations.\nOpen Scope string_scope.\n"
            "Definition calls : list (list jarg * list ty) :=\n [%s].\n"
            "Definition verdicts := Eval vm_compute in String.concat \"\" (map (fun c => let p := parse_arguments fixed_cfg (fst c) in "
            "((if certainly_fails p (snd c) then \"1\" else \"0\") ++ (if certainly_fits p (snd c) then \"1\" else \"0\"))%%string) calls).\nPrint verdicts.\n" % ";\n  ".join(terms))
    rc, out = C.coqc_eval(text)
    if rc != 0:
        raise RuntimeError("coqc failed: " + out[-1500:])
    m = re.search(r'verdicts\s*=\s*"([01\s]*)"', out)
    bits = re.sub(r'\s', '', m.group(1)) if m else ""
    if len(bits) != 2 * len(calls):
        raise RuntimeError("cannot parse verdicts: %r" % out[-400:])
    pairs = [("true" if bits[2 * i] == "1" else "false", "true" if bits[2 * i + 1] == "1" else "false") for i in range(len(calls))]
    return [(a == "true", b == "true") for a, b in pairs]


def diag_rows(out):
    rows = {}
    for l in out.split("\n"):
        m = re.match(r'^[^:]+:::(\d+):::(.*)$', l)
        if m:
            rows.setdefault(int(m.group(1)), []).append(m.group(2))
    return rows


def run_round(ctx, r, part, want):
    files, methods = CG.gen_config(r)
    prog, calls = CG.gen_program(r, methods, ncalls=ctx.n(14, 30), valid_bias=0.97 if want == "C08" else 0.6)
    verdicts = spec_verdicts(calls)
    with C.Workdir(extra_config=files) as wd:
        f = wd.write(prog, "t.rb")
        res = wd.ti([f])
    if res.crashed or res.timeout:
        part.failures.append(Failure("crash_or_hang", "ti crashed or hung on a generated straight-line program",
                                     {"program": prog, "config": files, "stderr": res.err[-500:], "out": res.out[-300:]}))
        return
    rows = diag_rows(res.out)
    first_fail = min([c["row"] for c, (bad, _) in zip(calls, verdicts) if bad] or [10 ** 9])
    for c, (bad, good) in zip(calls, verdicts):
        part.evaluations += 1
        sig = json.dumps([c["method"]["arguments"], [a[0] for a in c["args"]]])
        part.count("certainly_fails" if bad else "certainly_fits" if good else "unconstrained")
        line = prog.split("\n")[c["row"] - 1]
        if want == "C07" and bad:
            part.nontrivial.add(sig)
            if c["row"] in rows:
                part.agreed += 1
            else:
                part.failures.append(Failure("missed_definite_error", "no diagnostic on row %d: %s (declared %s)" % (
                    c["row"], line, json.dumps(c["method"]["arguments"])),
                    {"program": prog, "config": files, "row": c["row"], "line": line, "decl": c["method"]["arguments"], "out": res.out}))
        if want == "C08" and good and c["row"] < first_fail:
            part.nontrivial.add(sig)
            if c["row"] not in rows:
                part.agreed += 1
            else:
                part.failures.append(Failure("false_alarm", "diagnostic on row %d for a call that certainly fits: %s -> %s (declared %s)" % (
                    c["row"], line, rows[c["row"]], json.dumps(c["method"]["arguments"])),
                    {"program": prog, "config": files, "row": c["row"], "line": line, "decl": c["method"]["arguments"], "out": res.out}))
        part.sample({"row": c["row"], "line": line, "declared": c["method"]["arguments"], "certainly_fails": bad,
                     "certainly_fits": good, "ti": rows.get(c["row"], [])})


def part_e2e(want):
    def part_end_to_end(ctx, part):
        r = ctx.rng("e2e" + want)
        rounds = ctx.n(12, 120)
        C.pmap(lambda i: run_round(ctx, C.rng_for(ctx.pid, ctx.seed, "e2e%d" % i), part, want), range(rounds), par=6)
    part_end_to_end.__name__ = "part_end_to_end"
    return part_end_to_end
