"""Structured generator of Ruby programs in the fragment ti analyses regularly (DESIGN Appendix A).

A program is a tree: Block = [Stmt]; Stmt = Simple(text) | Compound(header, [(Block, separator-or-footer)]).
Identifiers are written as placeholders  <v:name>  <m:name>  <c:Name>  so that a renaming is a dictionary, and
every statement knows the rows it occupies after rendering, so that layout edits, splits and insertions are
performed on the tree and not on text."""
import re


class Simple:
    def __init__(self, text, kind="stmt"):
        self.text, self.kind = text, kind

    def lines(self, indent):
        return [("  " * indent) + l for l in self.text.split("\n")]


class Compound:
    """header / body / (mid / body)* / footer, e.g. if..elsif..else..end, def..end, class..end, do |x| .. end"""

    def __init__(self, header, bodies, mids, footer="end", kind="compound"):
        self.header, self.bodies, self.mids, self.footer, self.kind = header, bodies, mids, footer, kind

    def lines(self, indent):
        out = [("  " * indent) + self.header]
        for i, b in enumerate(self.bodies):
            out += render_block(b, indent + 1)
            if i < len(self.mids):
                out.append(("  " * indent) + self.mids[i])
        out.append(("  " * indent) + self.footer)
        return out


def render_block(block, indent=0):
    out = []
    for s in block:
        out += s.lines(indent)
    return out


PH = re.compile(r'<([vmc]):([A-Za-z0-9_]+)>')


def names_in(text):
    return set((m.group(1), m.group(2)) for m in PH.finditer(text))


def subst(text, mapping=None):
    mapping = mapping or {}
    return PH.sub(lambda m: mapping.get((m.group(1), m.group(2)), m.group(2)), text)


def render_with_boundaries(block, indent=0, lines=None, bounds=None):
    """Rendered lines plus the line indexes at which a statement of some body starts or a body ends
    (every statement boundary, at every nesting level)."""
    if lines is None:
        lines, bounds = [], []
    for s in block:
        bounds.append(len(lines))
        if isinstance(s, Simple):
            lines += s.lines(indent)
        else:
            lines.append(("  " * indent) + s.header)
            for i, b in enumerate(s.bodies):
                render_with_boundaries(b, indent + 1, lines, bounds)
                bounds.append(len(lines))
                if i < len(s.mids):
                    lines.append(("  " * indent) + s.mids[i])
            lines.append(("  " * indent) + s.footer)
    if indent == 0:
        bounds.append(len(lines))
    return lines, bounds


def render(block, mapping=None):
    return subst("\n".join(render_block(block)) + "\n", mapping)


def all_names(block):
    return names_in("\n".join(render_block(block)))


# ------------------------------------------------------------------ expression / statement generators

LITS = ["1", "2", "1.5", '"s"', '"abc"', ":a", "nil", "true", "false"]
LIT_TYPES = {"1": "Integer", "2": "Integer", "1.5": "Float", '"s"': "String", '"abc"': "String", ":a": "Symbol",
             "nil": "NilClass", "true": "Bool", "false": "Bool"}


class Gen:
    def __init__(self, r, prefix=""):
        self.r = r
        self.n = 0
        self.prefix = prefix
        self.vars = []      # placeholder names of locals defined so far at the current level
        self.methods = []   # (name, arity)
        self.classes = []   # names

    def fresh(self, kind, base):
        self.n += 1
        return "%s%s%d" % (self.prefix, base, self.n)

    def lit(self):
        return self.r.choice(LITS)

    def expr(self, depth=0):
        r = self.r
        x = r.random()
        if x < 0.35 or depth > 1:
            return self.lit()
        if x < 0.55 and self.vars:
            return "<v:%s>" % r.choice(self.vars)
        if x < 0.65:
            return "[%s]" % ", ".join(self.lit() for _ in range(r.randint(1, 3)))
        if x < 0.72:
            return "{a: %s, b: %s}" % (self.lit(), self.lit())
        if x < 0.82:
            return "%s + %s" % (r.choice(["1", "2", "1.5"]), r.choice(["1", "2"]))
        if x < 0.9 and self.methods:
            name, ar = r.choice(self.methods)
            return "<m:%s>(%s)" % (name, ", ".join(self.lit() for _ in range(ar)))
        # (an index on an arbitrary variable — `x = 1.5; x["key"]` — was generated here at first: it is ill-typed Ruby,
        # ti gives it no value at all, and the value of the statement before it then becomes the method's result)
        return r.choice(['"s".upcase', "[1, 2].first", '"abc".upcase', "1.to_s", "[1, 2].first", ":a.to_s"])

    def assign(self):
        v = self.fresh("v", "x")
        e = self.expr()
        self.vars.append(v)
        return Simple("<v:%s> = %s" % (v, e), "assign")

    def dbtp(self):
        if self.vars and self.r.random() < 0.7:
            return Simple("dbtp <v:%s>" % self.r.choice(self.vars), "dbtp")
        return Simple("dbtp %s" % self.expr(), "dbtp")

    def union_var(self):
        v = self.fresh("v", "u")
        a, b = self.r.sample(['1', '"s"', 'nil', ':a', '1.5'], 2)
        c = self.fresh("v", "c")
        self.vars.append(v)
        return [Simple("<v:%s> = true" % c, "assign"), Simple("<v:%s> = <v:%s> ? %s : %s" % (v, c, a, b), "assign")], v, (a, b)

    def conditional(self):
        stmts, v, (a, b) = self.union_var()
        kind = self.r.choice(["nil?", "is_a"])
        if "nil" in (a, b) and kind == "nil?":
            cond = "<v:%s>.nil?" % v
        else:
            cls = LIT_TYPES[a] if LIT_TYPES[a] != "NilClass" else LIT_TYPES[b]
            cond = "<v:%s>.is_a?(%s)" % (v, cls)
        then_b = [Simple("dbtp <v:%s>" % v, "dbtp")] + ([self.assign()] if self.r.random() < 0.5 else [])
        else_b = [Simple("dbtp <v:%s>" % v, "dbtp")]
        kw = self.r.choice(["if", "if", "unless"])
        return stmts + [Compound("%s %s" % (kw, cond), [then_b, else_b], ["else"], kind="if"),
                        Simple("dbtp <v:%s>" % v, "dbtp")]

    def block_stmt(self):
        p = self.fresh("v", "e")
        recv = self.r.choice(["[1, 2, 3]", '["a", "b"]', "[1, \"s\"]", "(1..3)"])
        body = [Simple("dbtp <v:%s>" % p, "dbtp")]
        if self.r.random() < 0.5:
            body.append(Simple("<v:%s> = <v:%s>" % (self.fresh("v", "y"), p), "assign"))
        if self.r.random() < 0.5:
            return [Compound("%s.each do |<v:%s>|" % (recv, p), [body], [], kind="block")]
        return [Compound("%s.each { |<v:%s>|" % (recv, p), [body], [], footer="}", kind="block")]

    def union_block_stmt(self):
        """a block call on a receiver of union type (Array or Range)"""
        u = self.fresh("v", "ur")
        c = self.fresh("v", "c")
        p = self.fresh("v", "e")
        self.vars.append(u)
        body = [Simple("dbtp <v:%s>" % p, "dbtp")]
        if self.r.random() < 0.5:
            body.insert(0, Simple("<v:%s> = 1" % self.fresh("v", "y"), "assign"))
        return [Simple("<v:%s> = true" % c, "assign"), Simple("<v:%s> = <v:%s> ? [1, 2] : (1..3)" % (u, c), "assign"),
                Compound("<v:%s>.each do |<v:%s>|" % (u, p), [body], [], kind="block")]

    def nested_block_stmt(self):
        """a block whose body holds a block call on a union-typed receiver"""
        p = self.fresh("v", "e")
        inner = self.union_block_stmt()
        body = [Simple("<v:%s> = <v:%s>" % (self.fresh("v", "y"), p), "assign")] + inner + [Simple("dbtp <v:%s>" % p, "dbtp")]
        return [Compound("[1, 2, 3].each do |<v:%s>|" % p, [body], [], kind="block")]

    def method_def(self):
        name = self.fresh("m", "meth")
        ar = self.r.choice([0, 1, 1, 2])
        params = [self.fresh("v", "p") for _ in range(ar)]
        saved = self.vars
        self.vars = list(params)
        body = [self.assign() for _ in range(self.r.randint(0, 2))]
        body.append(Simple(self.expr(), "expr"))
        self.vars = saved
        self.methods.append((name, ar))
        return [Compound("def <m:%s>(%s)" % (name, ", ".join("<v:%s>" % p for p in params)) if ar else "def <m:%s>" % name,
                         [body], [], kind="def")]

    def class_def(self):
        cname = self.fresh("c", "Klass")
        saved_m, saved_v = self.methods, self.vars
        self.methods, self.vars = [], []
        members = []
        mnames = []
        for _ in range(self.r.randint(1, 3)):
            d = self.method_def()
            mnames.append(self.methods[-1])
            members += d
            if self.r.random() < 0.25:
                members.append(Simple(self.r.choice(["private", "protected", "public"]), "visibility"))
        self.methods, self.vars = saved_m, saved_v
        parent = ""
        if self.classes and self.r.random() < 0.4:
            parent = " < <c:%s>" % self.r.choice(self.classes)
        self.classes.append(cname)
        out = [Compound("class <c:%s>%s" % (cname, parent), [members], [], kind="class")]
        obj = self.fresh("v", "o")
        self.vars.append(obj)
        out.append(Simple("<v:%s> = <c:%s>.new" % (obj, cname), "assign"))
        name, ar = self.r.choice(mnames)
        out.append(Simple("dbtp <v:%s>.<m:%s>(%s)" % (obj, name, ", ".join(self.lit() for _ in range(ar))), "dbtp"))
        return out

    def module_def(self):
        mname = self.fresh("c", "Modul")
        saved_classes = self.classes
        self.classes = []
        inner = self.class_def()
        cls = inner[0]
        cname = self.classes[-1]
        self.classes = saved_classes
        out = [Compound("module <c:%s>" % mname, [[cls]], [], kind="module")]
        obj = self.fresh("v", "o")
        self.vars.append(obj)
        out.append(Simple("<v:%s> = <c:%s>::<c:%s>.new" % (obj, mname, cname), "assign"))
        out.append(Simple("dbtp <v:%s>" % obj, "dbtp"))
        if self.r.random() < 0.5:
            out.append(Simple("dbtp <c:%s>.new" % cname, "dbtp"))      # unqualified: not visible at top level
        return out

    def kw_method(self):
        """a method with keyword parameters (one optional) and a call passing them in some order"""
        name = self.fresh("m", "kwm")
        ks = [self.fresh("v", "k") for _ in range(self.r.choice([2, 2, 3]))]
        params = ", ".join("<v:%s>:%s" % (k, " 1" if i == len(ks) - 1 and self.r.random() < 0.5 else "") for i, k in enumerate(ks))
        body = [Simple("dbtp <v:%s>" % ks[0], "dbtp"), Simple("<v:%s>" % ks[-1], "expr")]
        order = list(ks)
        self.r.shuffle(order)
        vals = {k: self.r.choice(["1", '"s"', ":a", "1.5"]) for k in ks}
        call = "<m:%s>(%s)" % (name, ", ".join("<v:%s>: %s" % (k, vals[k]) for k in order))
        return [Compound("def <m:%s>(%s)" % (name, params), [body], [], kind="def"), Simple("dbtp " + call, "dbtp")]

    def block_method(self):
        """a method with an explicit block parameter"""
        name = self.fresh("m", "blk")
        b = self.fresh("v", "b")
        body = [Simple("<v:%s>.call(1)" % b, "expr")]
        return [Compound("def <m:%s>(&<v:%s>)" % (name, b), [body], [], kind="def"),
                Simple("dbtp <m:%s> { |<v:%s>| <v:%s> }" % (name, self.fresh("v", "e"), "e%d" % self.n), "dbtp")]

    def error_stmt(self):
        return Simple(self.r.choice(["1.nope", '"s".zork(1)', "[1].first(1, 2, 3)", "undefined_thing_zz", "1 + \"s\""]), "error")

    def program(self, size=10, features=("assign", "dbtp", "cond", "block", "def", "class", "error")):
        r = self.r
        out = []
        for _ in range(size):
            f = r.choice(features)
            if f == "assign":
                out.append(self.assign())
            elif f == "dbtp":
                out.append(self.dbtp())
            elif f == "cond":
                out += self.conditional()
            elif f == "block":
                out += self.block_stmt()
            elif f == "def":
                out += self.method_def()
                name, ar = self.methods[-1]
                out.append(Simple("dbtp <m:%s>(%s)" % (name, ", ".join(self.lit() for _ in range(ar))), "dbtp"))
            elif f == "class":
                out += self.class_def()
            elif f == "module":
                out += self.module_def()
            elif f == "nblock":
                out += self.nested_block_stmt()
            elif f == "ublock":
                out += self.union_block_stmt()
            elif f == "kwdef":
                out += self.kw_method()
            elif f == "blockdef":
                out += self.block_method()
            elif f == "error":
                out.append(self.error_stmt())
        return out


def gen_program(r, size=10, prefix="", features=None):
    g = Gen(r, prefix)
    return g.program(size, features or ("assign", "dbtp", "cond", "block", "def", "class", "error", "assign", "dbtp")), g
