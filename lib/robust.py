"""Robustness exploration shared by C01 / C02 / C04 and the driver correspondence (M10)."""
import json
import os
import re

from lib import common as C
from lib import corr
from lib import rbgen
from lib.flow import Failure
from props import c03

DIAG = re.compile(r'^t\.rb:::\d+:::')
INFO = re.compile(r'^@t\.rb:::\d+:::')
RECORD = re.compile(r'^[%@$]')


def gen_inputs(ctx, salt, n_gold, n_gen):
    """(name, bytes): prefixes, token-level mutations, malformed streams."""
    r = ctx.rng(salt)
    out = []
    for s in c03.EOF_SPECIALS:
        out.append(("special", s.encode("utf-8", "surrogateescape")))
    # every one-byte file, and the proper prefixes of multi-byte sequences (a byte order mark, CJK, emoji)
    for b in range(256):
        out.append(("byte", bytes([b])))
    for seq in (b"\xef\xbb\xbf", b"\xe3\x81\x82", b"\xf0\x9f\x98\x80", b"\xc3\xa9"):
        for k in range(2, len(seq) + 1):
            out.append(("byte", seq[:k]))
            out.append(("byte", seq[:k] + b"x = 1\ndbtp x\n"))
    probes = os.path.join(C.CORPUS, "probes")
    for f in sorted(os.listdir(probes)):
        if f.endswith(".rb"):
            out.append(("probe:" + f, open(os.path.join(probes, f), "rb").read()))
    srcs = [(os.path.basename(p), open(p, "rb").read()) for p in r.sample(C.golden_programs(), n_gold)]
    for i in range(n_gen):
        rr = C.rng_for(ctx.pid, ctx.seed, "%s-gen%d" % (salt, i))
        prog, _ = rbgen.gen_program(rr, size=rr.randint(5, 12), features=("assign", "dbtp", "cond", "block", "def", "class", "module", "error"))
        srcs.append(("gen%d" % i, rbgen.render(prog).encode()))
    for name, src in srcs:
        if not src:
            continue
        for _ in range(3):
            out.append((name + "@prefix", src[:r.randrange(len(src) + 1)]))
        lines = src.split(b"\n")
        k = r.randrange(len(lines) + 1)
        out.append((name + "@lineprefix", b"\n".join(lines[:k])))
        for _ in range(2):
            b = bytearray(src)
            for _ in range(r.randint(1, 3)):
                if not b:
                    break
                i = r.randrange(len(b))
                op = r.random()
                if op < 0.4:
                    b[i:i + 1] = c03.to_bytes([r.choice(c03.ALPHABET)])
                elif op < 0.7:
                    del b[i:i + r.randint(1, 6)]
                else:
                    b[i:i] = c03.to_bytes([r.choice(c03.ALPHABET)])
            out.append((name + "@mutation", bytes(b)))
    out.append(("cycle", b"module Ma\n  include Mb\n  def fa\n    1\n  end\nend\nmodule Mb\n  include Ma\nend\nclass Cc\n  include Ma\nend\nCc.new.fa\nCc.new.nothing\nMa.zz\n"))
    out.append(("cycle", b"class Aa < Bb\n  def foo\n    1\n  end\nend\nclass Bb < Aa\nend\nAa.new.foo\nAa.new.bar\nmodule Mm\n  include Mm\nend\n"))
    return out


def classify(res, line_ok):
    if res.crashed:
        loc = re.findall(r'\n\t(/repo/[^\s]+)', res.err)
        return "crash", (loc[0] if loc else res.err.strip().split("\n")[0][:120])
    if res.timeout:
        return "hang", "prints timeout (confirmed by re-running alone)"
    if res.rc != 0:
        return "status", "exit status %d" % res.rc
    for l in res.lines:
        if not line_ok(l):
            return "badline", repr(l[:100])
    return None, None


def sweep(ctx, part, inputs, modes, line_ok, want):
    """want: set of failure kinds this property reports (others are only counted)."""
    def one(item):
        name, src = item
        res = []
        with C.Workdir() as wd:
            f = wd.write(src, "t.rb")
            for mode in modes(src):
                res.append((mode, wd.ti([f] + mode)))
        return name, src, res

    for name, src, res in C.pmap(one, inputs, par=8):
        for mode, x in res:
            part.evaluations += 1
            part.count(name.split("@")[-1].split(":")[0])
            kind, what = classify(x, line_ok)
            if len(src) > 8:
                part.nontrivial.add((src, tuple(mode)))
            if kind is None:
                part.agreed += 1
                continue
            part.count("saw_" + kind)
            if kind in want:
                part.failures.append(Failure(kind, "ti %s on %s: %s" % (" ".join(mode), name, what),
                                             {"source_b64": __import__("base64").b64encode(src).decode(), "mode": mode, "what": what,
                                              "stderr": x.err[-600:], "stdout": x.out[-300:]}))
        if len(part.samples) < 4:
            part.sample({"input": name, "bytes": len(src), "tail": src[-40:].decode("utf-8", "replace"), "modes": [" ".join(m) for m, _ in res]})


# ---------------------------------------------------------------------------------- driver correspondence

def gen_script(r, nlines):
    """Lines of a hook-driven script and, per line, the steps the loop performs on it."""
    lines, steps = [], []
    row = 0
    for i in range(nlines):
        row += 1
        k = r.random()
        if k < 0.35:
            lines.append("v%d = %d" % (i, r.randint(0, 99)))
            steps.append((row, "OOk", [(row, "bind: Integer")]))
        elif k < 0.55:
            msg = r.choice(["boom", "bad thing", "x:::y", "e\rr", "q"]) + str(i)
            lines.append('__verif_error__ "%s"' % msg)
            steps.append((row, ("OErr", msg), []))
        elif k < 0.7:
            msg = r.choice(["kaboom", "index out of range [3]", "nil map"]) + str(i)
            lines.append('__verif_panic__ "%s"' % msg)
            steps.append((row, ("OPanic", msg), []))
        elif k < 0.85:
            lines.append("")
        else:
            lines.append("# comment %d" % i)
        steps.append((row, "OOk", []))          # the newline token of this row
    steps.append((row + 1, "OOk", []))          # Eval(nil) at end of stream
    return "\n".join(lines) + "\n", steps


def coq_steps(steps):
    items = []
    for row, out, infos in steps:
        o = "OOk" if out == "OOk" else "(%s %s)" % (out[0], C.coq_str(out[1]))
        items.append("{| st_row := (%d)%%Z; st_out := %s; st_infos := %s |}" % (
            row, o, C.coq_list(["((%d)%%Z, %s)" % (r_, C.coq_str(t)) for r_, t in infos])))
    return C.coq_list(items)


def parse_lines(out, fname):
    items = []
    for l in out.split("\n"):
        if not l:
            continue
        m = re.match(r'^(@?)(.*?):::(\d+):::(.*)$', l)
        if not m:
            return None
        kind = "LInfo" if m.group(1) else "LDiag"
        items.append("(%s %s (%d)%%Z %s)" % (kind, C.coq_str(m.group(2)), int(m.group(3)), C.coq_str(m.group(4))))
    return C.coq_list(items)


DRIVER_DEFS = '''
Definition line_eqb (a b : line) : bool :=
  match a, b with
  | LDiag f r m, LDiag f' r' m' | LInfo f r m, LInfo f' r' m' => String.eqb f f' && Z.eqb r r' && String.eqb m m'
  | _, _ => false
  end.
'''


def part_driver_corr(ctx, part):
    n = ctx.n(30, 300)

    def one(i):
        r = C.rng_for(ctx.pid, ctx.seed, "drv%d" % i)
        tsrc, tsteps = gen_script(r, r.randint(1, 9))
        pre = [gen_script(r, r.randint(1, 4)) for _ in range(r.choice([0, 0, 1, 2]))]
        flag_i = r.random() < 0.5
        with C.Workdir() as wd:
            wd.write(tsrc, "t.rb")
            names = []
            for j, (psrc, _) in enumerate(pre):
                names.append(wd.write(psrc, "pre%d.rb" % j))
            if names:
                wd.write(json.dumps({"preload": names}), ".ti-loader.json")
            x = wd.ti(["t.rb"] + (["-i"] if flag_i else []))
        return tsrc, tsteps, pre, flag_i, x

    terms, kept = [], []
    for tsrc, tsteps, pre, flag_i, x in C.pmap(one, range(n), par=8):
        part.evaluations += 1
        part.nontrivial.add(tsrc + str(flag_i) + str(len(pre)))
        part.count("preloads=%d" % len(pre))
        part.count("-i" if flag_i else "plain")
        if x.crashed or x.timeout or x.rc != 0:
            part.failures.append(Failure("crash" if x.crashed else "hang" if x.timeout else "status",
                                         "ti fails on a hook-driven script", {"script": tsrc, "stderr": x.err[-400:], "stdout": x.out[-200:]}))
            continue
        exp = parse_lines(x.out, "t.rb")
        if exp is None:
            part.failures.append(Failure("badline", "ti prints a line that is neither diagnostic nor hint", {"script": tsrc, "stdout": x.out[-400:]}))
            continue
        pl = C.coq_list(["(%s, fun _ : string => %s)" % (C.coq_str("pre%d.rb" % j), coq_steps(ps)) for j, (_, ps) in enumerate(pre)])
        terms.append("(%s, %s, %s, %s)" % (C.coq_bool(flag_i), pl, coq_steps(tsteps), exp))
        kept.append((tsrc, flag_i, x.out))
        part.sample({"script": tsrc, "-i": flag_i, "preloads": len(pre), "stdout": x.out})
    bad = corr.coq_mismatches(
        ["Model.Driver"], "bool * list (string * source) * stream * list line",
        "fun c => let '(fi, pre, st, exp) := c in "
        "list_eqb line_eqb (fst (fst (run_driver {| fl_define_info := fi |} pre (\"t.rb\", fun _ => st) []))) exp",
        terms, defs=DRIVER_DEFS, chunk=60)
    for i in bad:
        part.mismatches.append({"fn": "main/evaluationLoop", "script": kept[i][0], "-i": kept[i][1], "stdout": kept[i][2]})
    part.agreed += len(terms) - len(bad)
