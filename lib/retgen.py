"""Method bodies made of expression statements, returns, blocks and lambdas (Model/Returns.v), as Ruby and as Coq terms."""
from lib import common as C

LIT = {"Integer": "1", "String": '"s"', "Float": "1.5", "Symbol": ":a", "NilClass": "nil",
       "Zka": "Zka.new", "Zkb": "Zkb.new"}      # two user classes; arrays occur as block values (one kind: Array<Integer>)
PREAMBLE = ["class Zka", "end", "class Zkb", "end"]
BLOCKS = [("[1].each do |zb%d|", "end", "Array<Integer>"), ("3.times do |zb%d|", "end", "Integer"),
          ("[1].each { |zb%d|", "}", "Array<Integer>")]
LAMBDAS = [("zl%d = lambda do |zx%d|", "end"), ("zl%d = lambda { |zx%d|", "}"), ("zl%d = ->(zx%d) {", "}")]


def gen_body(r, depth=0, n=None):
    """[('expr', cls) | ('return', cls) | ('block', form, body) | ('lambda', form, body)]"""
    n = n if n is not None else r.randint(1, 4)
    out = []
    for _ in range(n):
        k = r.random()
        if k < 0.3:
            out.append(("expr", r.choice(list(LIT))))
        elif k < 0.6:
            out.append(("return", r.choice(list(LIT))))
        elif k < 0.8 and depth < 2:
            out.append(("block", r.randrange(len(BLOCKS)), gen_body(r, depth + 1, r.randint(1, 3))))
        elif depth < 2:
            out.append(("lambda", r.randrange(len(LAMBDAS)), gen_body(r, depth + 1, r.randint(1, 3))))
        else:
            out.append(("return", r.choice(list(LIT))))
    return out


def render(body, indent, counter):
    lines = []
    pad = "  " * indent
    for s in body:
        if s[0] == "expr":
            lines.append(pad + LIT[s[1]])
        elif s[0] == "return":
            lines.append(pad + "return " + LIT[s[1]])
        elif s[0] == "block":
            counter[0] += 1
            head, foot, _ = BLOCKS[s[1]]
            lines.append(pad + head % counter[0])
            lines += render(s[2], indent + 1, counter)
            lines.append(pad + foot)
        else:
            counter[0] += 1
            head, foot = LAMBDAS[s[1]]
            lines.append(pad + head % (counter[0], counter[0]))
            lines += render(s[2], indent + 1, counter)
            lines.append(pad + foot)
    return lines


def coq_body(body):
    items = []
    for s in body:
        if s[0] == "expr":
            items.append("RExpr %s" % C.coq_str(s[1]))
        elif s[0] == "return":
            items.append("RReturn %s" % C.coq_str(s[1]))
        elif s[0] == "block":
            items.append("RBlock %s %s" % (coq_body(s[2]), C.coq_str(BLOCKS[s[1]][2])))
        else:
            items.append("RLambda %s" % coq_body(s[2]))
    return C.coq_list(items)


def reference(body):
    """the returns outside lambdas in order (first occurrences) and the last value: the exact answer by Ruby's rules"""
    def outer(b):
        out = []
        for s in b:
            if s[0] == "return":
                out.append(s[1])
            elif s[0] == "block":
                out += outer(s[2])
        return out
    def value(s):
        return s[1] if s[0] in ("expr", "return") else (BLOCKS[s[1]][2] if s[0] == "block" else "Proc")
    seq = outer(body) + [value(body[-1]) if body else "NilClass"]
    res = []
    for c in seq:
        if c not in res:
            res.append(c)
    return res


def program(body, name="zm"):
    lines = PREAMBLE + ["def %s" % name] + render(body, 1, [0]) + ["end", "dbtp %s" % name]
    return "\n".join(lines) + "\n", len(lines)


def has(body, kind):
    return any(s[0] == kind or (s[0] in ("block", "lambda") and has(s[2], kind)) for s in body)


ARRAYS = [("[1]", "Integer"), ('["a"]', "String"), ("[1.5]", "Float"), ("[:a]", "Symbol"), ('[1, "a"]', "Integer String")]


def array_returns(r):
    """def with 2-3 array results of different element types: the call has ONE array type holding all of them"""
    picks = r.sample(ARRAYS, r.choice([2, 2, 3]))
    lines = ["def zarr(k)"]
    for txt, _ in picks[:-1]:
        lines.append("  return %s%s" % (txt, r.choice(["", " if k"])))
    lines += ["  " + picks[-1][0], "end", "dbtp zarr(true)"]
    elems = []
    for _, t in picks:
        for e in t.split(" "):
            if e not in elems:
                elems.append(e)
    return "\n".join(lines) + "\n", len(lines), "Array<%s>" % " ".join(elems)
