"""Generated programs with user-defined methods and several call sites, and what the property demands of each dbtp:
the union of the argument types over all call sites for a parameter, the union of the body's result and the explicit
returns for a call."""

VALS = [("1", "Integer"), ('"s"', "String"), ("1.5", "Float"), (":a", "Symbol")]
TYPE_OF = dict((t, v) for v, t in VALS)


def fmt(types):
    """a set of class names -> the set itself (order of variants is not compared)"""
    return frozenset(types)


def parse(s):
    import re
    if s is None:
        return None
    m = re.match(r'^Union<(.*)>$', s)
    return frozenset(m.group(1).split(" ")) if m else frozenset([s])


class Meth:
    def __init__(self, name, pos, default, kw):
        self.name, self.pos, self.default, self.kw = name, pos, default, kw     # default: (name, type) or None; kw: (name, required?, type) or None
        self.sites = []        # per call site: {param name: type}
        self.site_places = []  # "early" | "top" | "late"
        self.ret_lits = []     # types of explicit returns
        self.result = None     # ("param", name) | ("lit", type)


def gen_program(r):
    n = r.randint(1, 4)
    meths = []
    for i in range(n):
        pos = ["p%d%d" % (i, j) for j in range(r.choice([1, 1, 2]))]
        default = ("d%d" % i, r.choice(VALS)[1]) if r.random() < 0.4 else None
        kw = ("k%d" % i, r.random() < 0.5, r.choice(VALS)[1]) if r.random() < 0.4 else None
        m = Meth("um%d" % i, pos, default, kw)
        m.result = ("param", r.choice(pos)) if r.random() < 0.6 else ("lit", r.choice(VALS)[1])
        if r.random() < 0.4:
            m.ret_lits.append(r.choice(VALS)[1])
        meths.append(m)

    place = ["top"]

    def call_text(m):
        site = {}
        args = []
        for p in m.pos:
            t = r.choice(VALS)[1]; site[p] = t; args.append(TYPE_OF[t])
        if m.default:
            if r.random() < 0.5:
                t = r.choice(VALS)[1]; site[m.default[0]] = t; args.append(TYPE_OF[t])
            else:
                site[m.default[0]] = m.default[1]
        if m.kw:
            if m.kw[1] or r.random() < 0.6:
                t = r.choice(VALS)[1]; site[m.kw[0]] = t; args.append("%s: %s" % (m.kw[0], TYPE_OF[t]))
            else:
                site[m.kw[0]] = m.kw[2]
        m.sites.append(site)
        m.site_places.append(place[0])
        return "%s(%s)" % (m.name, ", ".join(args))

    lines = []
    probes = []        # (row, kind, method, param or None)
    callers = []
    # a caller method defined BEFORE the callees it calls
    if r.random() < 0.6:
        place[0] = "early"
        lines.append("def early_caller")
        for m in r.sample(meths, min(len(meths), r.randint(1, 2))):
            lines.append("  " + call_text(m))
        lines += ["  1", "end"]
        callers.append("early_caller")
    place[0] = "top"
    for m in meths:
        params = list(m.pos)
        if m.default:
            params.append("%s = %s" % (m.default[0], TYPE_OF[m.default[1]]))
        if m.kw:
            params.append("%s:%s" % (m.kw[0], "" if m.kw[1] else " " + TYPE_OF[m.kw[2]]))
        if r.random() < 0.3:                 # a call site written before the definition
            place[0] = "early"
            lines.append("dbtp " + call_text(m))
            place[0] = "top"
            probes.append((len(lines), "call_before_def", m, None))
        lines.append("def %s(%s)" % (m.name, ", ".join(params)))
        for p in m.pos + ([m.default[0]] if m.default else []) + ([m.kw[0]] if m.kw else []):
            lines.append("  dbtp %s" % p)
            probes.append((len(lines), "param", m, p))
        for t in m.ret_lits:
            lines += ["  if %s" % m.pos[0], "    return %s" % TYPE_OF[t], "  end"]
        lines.append("  " + (m.result[1] if m.result[0] == "param" else TYPE_OF[m.result[1]]))
        lines.append("end")
        for _ in range(r.randint(1, 3)):
            lines.append("dbtp " + call_text(m))
            probes.append((len(lines), "call", m, None))
    if r.random() < 0.6:
        place[0] = "late"
        lines.append("def late_caller")
        for m in r.sample(meths, min(len(meths), r.randint(1, 2))):
            lines.append("  " + call_text(m))
        lines += ["  1", "end"]
        callers.append("late_caller")
    for c in callers:
        lines.append("%s()" % c)
    return "\n".join(lines) + "\n", probes


def optional_types(probe):
    """types that may or may not be reported: the type of a default value that every call site overrides"""
    row, kind, m, p = probe
    if kind == "param":
        if m.default and m.default[0] == p:
            return frozenset([m.default[1]])
        if m.kw and m.kw[0] == p and not m.kw[1]:
            return frozenset([m.kw[2]])
    elif m.result[0] == "param":
        return optional_types((row, "param", m, m.result[1]))
    return frozenset()


def expected(probe):
    row, kind, m, p = probe
    if kind == "param":
        return frozenset(s[p] for s in m.sites)
    out = set(m.ret_lits)
    if m.result[0] == "lit":
        out.add(m.result[1])
    else:
        out |= set(s[m.result[1]] for s in m.sites)
    return frozenset(out)


def round_heuristic_shape(probe):
    """the kept finding: a call site inside a method defined before the callee, a third (or later) parameter, and at
    least two earlier parameters whose types differ between that site and another one"""
    row, kind, m, p = probe
    names = m.pos + ([m.default[0]] if m.default else []) + ([m.kw[0]] if m.kw else [])
    if kind != "param":
        if m.result[0] != "param":
            return False
        p = m.result[1]
    idx = names.index(p)
    for i, place in enumerate(m.site_places):
        if place != "early":
            continue
        for j, other in enumerate(m.sites):
            if j != i and sum(1 for q in names if m.sites[i][q] != other[q]) >= 3:
                return True
    return False
