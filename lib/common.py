"""Shared machinery: paths, build/prepare step, Coq runner, ti runner, evidence, findings."""
import fcntl
import hashlib
import json
import os
import random
import re
import shutil
import subprocess
import sys
import tempfile
import time
from concurrent.futures import ThreadPoolExecutor

VERIF = os.path.dirname(os.path.dirname(os.path.abspath(__file__)))
REPO = os.environ.get("VERIF_REPO", "/repo")
BUILD = os.path.join(VERIF, "build")
BIN = os.path.join(BUILD, "bin")
COQ = os.path.join(VERIF, "coq")
EVID = os.path.join(VERIF, "evidence")
CORPUS = os.path.join(VERIF, "corpus")
REPLAY = os.path.join(BUILD, "replay")

GOENV = dict(os.environ)
GOENV.update({"GOFLAGS": "-mod=mod", "GOPROXY": "off"})
GOENV.pop("GOTOOLCHAIN", None)
GOENV.pop("GOSUMDB", None)
# keep GOTOOLCHAIN at its default (auto): go.mod needs the cached 1.24.5 toolchain.

TI = os.path.join(BIN, "ti")
VH = os.path.join(BIN, "vh")
GEN = os.path.join(BIN, "gen")
RBS2JSON = os.path.join(BIN, "ti-rbs2json")
C2JSON = os.path.join(BIN, "ti-c2json")

MAXPAR = int(os.environ.get("VERIF_PAR", "10"))


def log(*a):
    print(*a, file=sys.stderr, flush=True)


def sh(cmd, cwd=None, env=None, timeout=1800, inp=None):
    p = subprocess.run(cmd, cwd=cwd, env=env, input=inp, stdout=subprocess.PIPE,
                       stderr=subprocess.STDOUT, timeout=timeout, shell=isinstance(cmd, str))
    return p.returncode, p.stdout.decode("utf-8", "replace")


# --------------------------------------------------------------------------- repo hash

def repo_hash():
    """Hash of /repo's working tree: tracked + untracked non-ignored files."""
    rc, out = sh(["git", "-C", REPO, "ls-files", "-co", "--exclude-standard", "-z"])
    files = sorted(f for f in out.split("\0") if f)
    h = hashlib.sha256()
    for f in files:
        p = os.path.join(REPO, f)
        if f.startswith("test/") and not f.startswith("test/.ti-config"):
            continue  # golden programs are data for the corpus, not code
        try:
            with open(p, "rb") as fh:
                data = fh.read()
        except OSError:
            data = b"<missing>"
        h.update(f.encode() + b"\0" + hashlib.sha256(data).digest())
    # the framework's own sources influence the build too
    for root in ("harness", "coq", "lib"):
        for dp, dn, fn in os.walk(os.path.join(VERIF, root)):
            dn.sort()
            for f in sorted(fn):
                if f.endswith((".go", ".v", ".mod", ".sum", "_CoqProject")) and f != "Generated.v":
                    with open(os.path.join(dp, f), "rb") as fh:
                        h.update(f.encode() + hashlib.sha256(fh.read()).digest())
    return h.hexdigest()


# --------------------------------------------------------------------------- prepare

class Prep:
    def __init__(self, d):
        self.d = d

    @property
    def go_ok(self):
        return self.d.get("go_ok", False)

    @property
    def gen_ok(self):
        return self.d.get("gen_ok", False)

    def vo_ok(self, relv):
        """True iff coq/<relv> compiled in the last make."""
        return relv in self.d.get("vo_ok", [])

    @property
    def log(self):
        return self.d.get("log", "")


def _write_if_changed(path, text):
    try:
        with open(path) as fh:
            if fh.read() == text:
                return False
    except OSError:
        pass
    with open(path, "w") as fh:
        fh.write(text)
    return True


def coq_sources():
    with open(os.path.join(COQ, "_CoqProject")) as fh:
        return [l.strip() for l in fh if l.strip().endswith(".v")]


def prepare(force=False):
    """Build binaries (hooks on), regenerate Generated.v, make the Coq project. Cached by hash."""
    os.makedirs(BIN, exist_ok=True)
    os.makedirs(REPLAY, exist_ok=True)
    lock = open(os.path.join(BUILD, ".lock"), "w")
    fcntl.flock(lock, fcntl.LOCK_EX)
    try:
        h = repo_hash()
        stamp = os.path.join(BUILD, "stamp.json")
        if not force and os.path.exists(stamp):
            try:
                d = json.load(open(stamp))
                if d.get("hash") == h and all(os.path.exists(x) for x in (TI, VH, GEN)):
                    return Prep(d)
            except Exception:
                pass
        t0 = time.time()
        d = {"hash": h, "go_ok": False, "gen_ok": False, "vo_ok": [], "log": ""}
        logs = []
        # 1. binaries from the current working tree, hooks enabled
        ok = True
        for out, pkg in ((TI, "."), (RBS2JSON, "./cmd/rbs2json"), (C2JSON, "./cmd/c2json")):
            rc, o = sh(["go", "build", "-tags", "verif", "-o", out, pkg], cwd=REPO, env=GOENV)
            logs.append(o)
            ok = ok and rc == 0
        hdir = os.path.join(VERIF, "harness")
        shutil.copy(os.path.join(REPO, "go.sum"), os.path.join(hdir, "go.sum")) if os.path.exists(
            os.path.join(REPO, "go.sum")) else None
        for out, pkg in ((VH, "./cmd/vh"), (GEN, "./cmd/gen")):
            rc, o = sh(["go", "build", "-tags", "verif", "-o", out, pkg], cwd=hdir, env=GOENV)
            logs.append(o)
            ok = ok and rc == 0
        d["go_ok"] = ok
        # 2. translator
        if ok:
            rc, o = sh([GEN, REPO], cwd=REPO, env=GOENV)
            if rc == 0:
                try:
                    with open(os.path.join(BUILD, "gen.json"), "w") as fh:
                        fh.write(o)
                    from lib import gen2coq
                    _write_if_changed(os.path.join(COQ, "Generated.v"), gen2coq.render(json.loads(o)))
                    d["gen_ok"] = True
                except Exception as e:  # noqa
                    logs.append("gen2coq failed: %r" % (e,))
            else:
                logs.append("gen failed:\n" + o)
        # 3. Coq project: full .vo build, -k so independent files still build
        if not os.path.exists(os.path.join(COQ, "Makefile")) or \
                os.path.getmtime(os.path.join(COQ, "Makefile")) < os.path.getmtime(os.path.join(COQ, "_CoqProject")):
            sh(["coq_makefile", "-f", "_CoqProject", "-o", "Makefile"], cwd=COQ)
        rc, o = sh("timeout 1500 make -k -j16 2>&1", cwd=COQ, timeout=1600)
        logs.append(o)
        for v in coq_sources():
            vo = os.path.join(COQ, v[:-2] + ".vo")
            src = os.path.join(COQ, v)
            if os.path.exists(vo) and os.path.exists(src) and os.path.getmtime(vo) >= os.path.getmtime(src):
                d["vo_ok"].append(v)
        # a .vo is only trusted if make did not report an error for it
        for m in re.finditer(r'File "\./([^"]+\.v)", line \d+, characters [\d-]+:\s*\nError', o):
            if m.group(1) in d["vo_ok"]:
                d["vo_ok"].remove(m.group(1))
        d["make_rc"] = rc
        d["log"] = "\n".join(logs)[-20000:]
        d["prepare_s"] = round(time.time() - t0, 1)
        with open(stamp, "w") as fh:
            json.dump(d, fh)
        return Prep(d)
    finally:
        fcntl.flock(lock, fcntl.LOCK_UN)
        lock.close()


# --------------------------------------------------------------------------- Coq runner

def coqc_eval(text, name="cases", timeout=900, keep=None):
    """Compile a scratch .v file against the project; return (rc, output)."""
    d = tempfile.mkdtemp(prefix="coqcase_", dir=BUILD)
    try:
        p = os.path.join(d, name + ".v")
        with open(p, "w") as fh:
            fh.write(text)
        rc, out = sh(["timeout", str(timeout), "coqc", "-Q", COQ, "RT", p], cwd=d, timeout=timeout + 30)
        if keep:
            shutil.copy(p, keep)
        return rc, out
    finally:
        shutil.rmtree(d, ignore_errors=True)


def theorem_names(relv):
    src = open(os.path.join(COQ, relv)).read()
    return re.findall(r'^\s*(?:Theorem|Lemma|Corollary|Example)\s+([A-Za-z0-9_\']+)', src, re.M)


FORBIDDEN = re.compile(r'\b(Admitted|admit|Axiom|Axioms|Parameter|Parameters|Conjecture|Conjectures|'
                       r'Unset\s+Guard|bypass_check|Admit\s+Obligations|type-in-type|impredicative-set|'
                       r'Unset\s+Positivity|Unset\s+Universe)\b')


def strip_coq_comments(s):
    out = []
    depth = 0
    i = 0
    instr = False
    while i < len(s):
        if not instr and s.startswith("(*", i):
            depth += 1
            i += 2
            continue
        if not instr and depth and s.startswith("*)", i):
            depth -= 1
            i += 2
            continue
        if depth == 0:
            if s[i] == '"':
                instr = not instr
            out.append(s[i])
        i += 1
    return "".join(out)


def grep_forbidden():
    """Return list of (file, word) for forbidden vernacular anywhere in the development."""
    bad = []
    for v in coq_sources():
        p = os.path.join(COQ, v)
        if not os.path.exists(p):
            continue
        src = strip_coq_comments(open(p).read())
        src = re.sub(r'"[^"]*"', '""', src)
        for m in FORBIDDEN.finditer(src):
            # `Variable`/`Hypothesis`/`Context` are only allowed inside sections: checked separately
            bad.append((v, m.group(0)))
        # Variable/Hypothesis outside a section
        depth = 0
        for line in src.split("\n"):
            if re.match(r'\s*Section\s+\w+', line):
                depth += 1
            elif re.match(r'\s*End\s+\w+', line) and depth > 0:
                depth -= 1
            elif depth == 0 and re.match(r'\s*(Variable|Variables|Hypothesis|Hypotheses|Context)\b', line):
                bad.append((v, line.strip()))
    return bad


def print_assumptions(relv, names):
    """Return {theorem: 'closed' | [axioms]} via one coqc call on compiled .vo files."""
    mod = "RT." + relv[:-2].replace("/", ".")
    text = "Require Import %s.\n" % mod
    for n in names:
        text += 'Print Assumptions %s.\n' % n
    rc, out = coqc_eval(text, name="assum")
    res = {}
    if rc != 0:
        return {n: ["<coqc failed: %s>" % out[-300:]] for n in names}
    # Outputs appear in order, one block per command
    blocks = re.split(r'(?=Closed under the global context|Axioms:)', out)
    blocks = [b for b in blocks if b.startswith("Closed under") or b.startswith("Axioms:")]
    for n, b in zip(names, blocks):
        if b.startswith("Closed under"):
            res[n] = "closed"
        else:
            res[n] = [l.strip() for l in b.split("\n")[1:] if l.strip() and not l.startswith(" " * 4)]
    for n in names:
        res.setdefault(n, ["<no output>"])
    return res


# --------------------------------------------------------------------------- Coq term printer

def coq_str(s):
    """Coq string term for a python str or bytes (bytes semantics, like Go strings)."""
    b = s.encode("utf-8", "surrogateescape") if isinstance(s, str) else bytes(s)
    if all(32 <= c < 127 for c in b):
        return '"' + b.decode().replace('"', '""') + '"'
    return "(bs [" + ";".join(str(c) for c in b) + "]%N)"


def coq_bool(b):
    return "true" if b else "false"


def coq_list(items):
    return "[" + "; ".join(items) + "]"


def coq_opt(x):
    return "None" if x is None else "(Some %s)" % x


TAGS = {0: "NIL", 257: "INT", 258: "UNKNOWN", 259: "STRING", 260: "BOOL", 261: "FLOAT", 262: "UNTYPED",
        263: "ARRAY", 264: "HASH", 265: "UNION", 266: "OBJECT", 267: "BLOCK", 268: "CLASS", 269: "SELF",
        270: "SYMBOL", 271: "KEYVALUE", 272: "CONST", 273: "RANGE", 274: "UNIFY", 275: "OPTIONAL_UNIFY",
        276: "BLOCK_RESULT_ARRAY", 277: "SELF_ARRAY", 278: "ARGUMENT", 279: "UNIFY_ARGUMENT",
        280: "KEYVALUE_ARRAY", 281: "FLATTEN", 282: "ITEM", 283: "OWNER"}
TAGCODE = {v: k for k, v in TAGS.items()}


def coq_ty(t):
    """Coq term of type ty from a VerifT JSON projection."""
    if t is None:
        return "nil_ptr"
    vk = {"nil": "VNil", "int64": "VInt64", "float64": "VFloat64", "t": "VT", "other": "VOther"}.get(t["vk"])
    if t["vk"] == "str":
        vk = "(VStr %s)" % coq_str(t["vs"])
    fl = "(Flags %s)" % " ".join(coq_bool(t[k]) for k in ("hd", "bi", "inf", "ast", "cond", "des", "cap", "ro", "bg", "st"))
    return "(Ty %s %s %s %s %s %s %s %s %s %s %s %s %s %s %s)" % (
        TAGS[t["tag"]], coq_str(t["cls"]), vk, coq_opt(coq_ty(t["vt"]) if t.get("vt") else None),
        coq_str(t["key"]), coq_str(t["frame"]), coq_str(t["meth"]),
        coq_list([coq_str(x) for x in t["dargs"] or []]), fl,
        coq_str(t["bec"]), coq_str(t["df"]), coq_str(t["dc"]),
        coq_list([coq_ty(x) for x in t["vars"] or []]),
        coq_list([coq_ty(x) for x in t["bps"] or []]),
        coq_list([coq_ty(x) for x in t["ovs"] or []]))


# --------------------------------------------------------------------------- harness / ti runners

def vh_batch(reqs, cwd=None, timeout=600):
    """Send JSON requests to the harness; return the answers (one per request).
    A request on which the real code does not terminate is answered {"hang": true}: the harness exits
    there and is restarted on the remaining requests."""
    answers = []
    d = cwd or tempfile.mkdtemp(prefix="vh_", dir=BUILD)
    try:
        todo = list(reqs)
        while todo:
            inp = "\n".join(json.dumps(r) for r in todo).encode() + b"\n"
            p = subprocess.run([VH], cwd=d, input=inp, stdout=subprocess.PIPE, stderr=subprocess.PIPE, timeout=timeout)
            outs = [json.loads(l) for l in p.stdout.decode("utf-8", "replace").split("\n") if l.strip()]
            answers.extend(outs)
            if len(outs) == len(todo):
                break
            if outs and outs[-1].get("hang"):
                todo = todo[len(outs):]
                continue
            raise RuntimeError("harness answered %d of %d requests: rc=%s stderr=%s" % (
                len(outs), len(todo), p.returncode, p.stderr.decode("utf-8", "replace")[-2000:]))
        return answers
    finally:
        if cwd is None:
            shutil.rmtree(d, ignore_errors=True)


class TiResult:
    __slots__ = ("rc", "out", "err", "timeout")

    def __init__(self, rc, out, err):
        self.rc, self.out, self.err = rc, out, err
        self.timeout = (rc == 1 and out.strip().endswith("timeout"))

    @property
    def crashed(self):
        return self.rc not in (0, 1) or "panic:" in self.err or "fatal error:" in self.err or "goroutine " in self.err

    @property
    def lines(self):
        return [l for l in self.out.split("\n") if l != ""]


def run_ti_once(args, cwd, env=None, binary=None, wall=20):
    e = dict(os.environ)
    if env:
        e.update(env)
    try:
        p = subprocess.run([binary or TI] + list(args), cwd=cwd, env=e, stdout=subprocess.PIPE,
                           stderr=subprocess.PIPE, timeout=wall)
        return TiResult(p.returncode, p.stdout.decode("utf-8", "surrogateescape"),
                        p.stderr.decode("utf-8", "replace"))
    except subprocess.TimeoutExpired:
        return TiResult(1, "timeout\n", "wall-clock kill")


def run_ti(args, cwd, env=None, confirm_timeout=True):
    """Run ti; a `timeout` answer is re-run alone (global lock) before it is believed."""
    r = run_ti_once(args, cwd, env)
    if r.timeout and confirm_timeout:
        with open(os.path.join(BUILD, ".solo"), "w") as lk:
            fcntl.flock(lk, fcntl.LOCK_EX)
            for _ in range(3):
                time.sleep(0.05)
                r = run_ti_once(args, cwd, env)
                if not r.timeout:
                    break
            fcntl.flock(lk, fcntl.LOCK_UN)
    return r


def pmap(f, items, par=None):
    with ThreadPoolExecutor(max_workers=par or MAXPAR) as ex:
        return list(ex.map(f, items))


SHIPPED_CONFIG = os.path.join(REPO, "test", ".ti-config")


class Workdir:
    """A temp dir with a .ti-config; files are written into it and ti is run there."""

    def __init__(self, config_dir=SHIPPED_CONFIG, extra_config=None, config_files=None):
        self.path = tempfile.mkdtemp(prefix="wd_", dir=BUILD)
        cfg = os.path.join(self.path, ".ti-config")
        if config_files is not None:
            os.makedirs(cfg)
            for name, text in config_files.items():
                with open(os.path.join(cfg, name), "w") as fh:
                    fh.write(text)
        elif config_dir:
            shutil.copytree(config_dir, cfg)
        else:
            os.makedirs(cfg)
        for name, text in (extra_config or {}).items():
            with open(os.path.join(cfg, name), "w") as fh:
                fh.write(text)
        self.n = 0

    def write(self, text, name=None):
        if name is None:
            self.n += 1
            name = "f%d.rb" % self.n
        mode = "wb" if isinstance(text, bytes) else "w"
        with open(os.path.join(self.path, name), mode) as fh:
            fh.write(text)
        return name

    def ti(self, args, env=None):
        return run_ti(args, self.path, env)

    def close(self):
        shutil.rmtree(self.path, ignore_errors=True)

    def __enter__(self):
        return self

    def __exit__(self, *a):
        self.close()


def golden_programs():
    d = os.path.join(REPO, "test")
    return sorted(os.path.join(d, f) for f in os.listdir(d) if f.endswith(".rb"))


# --------------------------------------------------------------------------- findings

def load_findings(pid):
    p = os.path.join(VERIF, "known_findings.json")
    if not os.path.exists(p):
        return []
    return [f for f in json.load(open(p)).get("findings", []) if pid in f.get("properties", [f.get("property")])]


# --------------------------------------------------------------------------- rng

def rng_for(pid, seed, salt=""):
    return random.Random("%s/%s/%s" % (pid, seed, salt))
