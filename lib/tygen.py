"""Generator of base.T values (as VerifT JSON projections) shaped like the ones ti's factories build."""
import copy


def T(tag, cls, vk="str", vs="", **kw):
    t = {"tag": tag, "cls": cls, "vk": vk, "vs": vs if vk == "str" else "", "vt": None, "key": "", "frame": "",
         "meth": "", "dargs": [], "hd": False, "bi": False, "inf": False, "ast": False, "cond": False, "des": False,
         "cap": False, "ro": False, "bg": False, "st": False, "bec": "", "df": "", "dc": "", "vars": [], "bps": [],
         "ovs": []}
    t.update(kw)
    return t


NIL = lambda: T(0, "NilClass", vs="nil")
INT_LIT = lambda: T(257, "Integer", vk="int64")
INT_ANY = lambda: T(257, "Integer", vk="other")
FLOAT_LIT = lambda: T(261, "Float", vk="float64")
FLOAT_ANY = lambda: T(261, "Float", vk="other")
STRING = lambda s="String": T(259, "String", vs=s)
SYMBOL = lambda s="symbol": T(270, "Symbol", vs=s)
BOOL = lambda: T(260, "Bool", vs="bool")
UNTYPED = lambda: T(262, "Untyped", vs="untyped")
UNKNOWN = lambda: T(258, "Unknown", vs="unknown")
IDENT = lambda s="foo": T(258, "Identifier", vs=s)
RANGE = lambda: T(273, "Range", vs="range")
BLOCK = lambda: T(267, "Block", vs="block")
OBJECT = lambda c="K", frame="": T(266, c, vs=c, frame=frame)
CLASS = lambda c="K": T(268, c, vs=c)
ARRAY = lambda vs=(): T(263, "Array", vs="array", vars=list(vs))
HASH = lambda vs=(): T(264, "Hash", vs="hash", vars=list(vs))
UNION = lambda vs=(): T(265, "Union", vs="union", vars=list(vs))


def KEYVALUE(key, v):
    return T(271, "KeyValue", vk="t", key=key, vt=v)


SPECIALS = [lambda: T(269, "Self", vs="self"), lambda: T(274, "Unify", vs="unify"),
            lambda: T(275, "OptiionalUnify", vs="optionalUnify"), lambda: T(277, "SelfArray", vs="selfArray"),
            lambda: T(278, "Argument", vs="argument"), lambda: T(280, "KeyValueArray", vs="keyValueArray")]

SCALARS = [NIL, INT_LIT, INT_ANY, FLOAT_LIT, FLOAT_ANY, STRING, lambda: STRING("abc"), SYMBOL, lambda: SYMBOL(":a"),
           BOOL, UNTYPED, UNKNOWN, IDENT, RANGE, lambda: OBJECT("K"), lambda: OBJECT("L"),
           lambda: OBJECT("K", "Ns"), lambda: CLASS("K"), BLOCK]
COMMON = [NIL, INT_LIT, INT_ANY, FLOAT_LIT, STRING, SYMBOL, BOOL, lambda: OBJECT("K"), lambda: OBJECT("L"), UNTYPED]


def gen_scalar(r, common=False):
    return r.choice(COMMON if common else SCALARS)()


def gen_ty(r, depth=0, common=False):
    x = r.random()
    if depth >= 2 or x < 0.45:
        return gen_scalar(r, common)
    if x < 0.65:
        return ARRAY([gen_ty(r, depth + 1, common) for _ in range(r.choice([0, 1, 1, 2, 3]))])
    if x < 0.8:
        keys = r.sample(["a", "b", "c", "k"], r.choice([0, 1, 2, 3]))
        return HASH([KEYVALUE(k, gen_ty(r, depth + 1, common)) for k in keys])
    n = r.choice([1, 2, 2, 3])
    return UNION([gen_ty(r, depth + 1, common) for _ in range(n)])


def gen_union_of_scalars(r, n=None):
    n = n or r.choice([2, 2, 3])
    return UNION([gen_scalar(r, True) for _ in range(n)])


def with_flags(t, **kw):
    t = copy.deepcopy(t)
    t.update(kw)
    return t
