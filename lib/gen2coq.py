"""Prints the translator's JSON (harness/cmd/gen) as coq/Generated.v."""
from lib.common import coq_str, coq_ty, coq_list


def render(g):
    out = []
    w = out.append
    w("(* GENERATED on every run by harness/cmd/gen + lib/gen2coq.py from /repo's working tree.")
    w("   Do not edit. *)")
    w("From RT Require Import Model.Ty.")
    w("Open Scope string_scope.")
    w("")
    w("(* builtin/defined_type.go: ConvertToBuiltinT's case labels, each evaluated by the real function *)")
    w("Definition builtin_table : list (string * ty) :=")
    w("  " + coq_list(["(%s, %s)" % (coq_str(n), coq_ty(t)) for n, t in g["builtin_table"]]) + ".")
    w("")
    w("Definition all_type_names : list string :=")
    w("  " + coq_list([coq_str(n) for n in g["all_type_names"]]) + ".")
    w("")
    w("Definition NilT : ty := %s." % coq_ty(g["nil_t"]))
    w("")
    w("(* lexer.Advance: runes emitted as their own token code; parser.Read: accepted punctuation *)")
    w("Definition lexer_single_tokens : list N := %s%%N." % coq_list([str(x) for x in g["lexer_single"]]))
    w("Definition lexer_emits_dot : bool := %s." % ("true" if g["lexer_dot"] else "false"))
    w("Definition parser_puncts : list N := %s%%N." % coq_list([str(x) for x in g["parser_puncts"]]))
    w("Definition ident_nonchars : list N := %s%%N." % coq_list([str(x) for x in g["ident_nonchars"]]))
    w("")
    w("(* base/type.go token constants (EOS is -1) *)")
    w("Definition token_consts : list (string * Z) :=")
    w("  " + coq_list(["(%s, %d)" % (coq_str(k), v) for k, v in sorted(g["token_consts"].items())]) + "%Z.")
    w("")
    w("(* every `for ... range <map>` in the three main packages: (file, function, n-th in function, expr) *)")
    w("Definition map_range_sites : list (string * string * nat * string) :=")
    w("  " + coq_list(["(%s, %s, %d, %s)" % (coq_str(s["file"]), coq_str(s["func"]), s["nth"], coq_str(s["expr"]))
                        for s in g["map_range_sites"]]) + ".")
    w("")
    return "\n".join(out)
