"""Generator of configured-method signatures and call argument lists for checkAndPropagateArgs."""
from lib import tygen as G

PARAM_TYPES = [
    ("Int", G.INT_ANY), ("String", G.STRING), ("Float", G.FLOAT_ANY), ("Symbol", G.SYMBOL), ("Bool", G.BOOL),
    ("NilClass", G.NIL), ("Untyped", G.UNTYPED), ("K", lambda: G.OBJECT("K")), ("L", lambda: G.OBJECT("L")),
    ("Array", G.ARRAY), ("Hash", G.HASH),
    ("Int|String", lambda: G.UNION([G.INT_ANY(), G.STRING()])),
    ("Int|Float", lambda: G.UNION([G.INT_ANY(), G.FLOAT_ANY()])),
    ("Int|String|Symbol", lambda: G.UNION([G.INT_ANY(), G.STRING(), G.SYMBOL()])),
    ("K|NilClass", lambda: G.UNION([G.OBJECT("K"), G.NIL()])),
    ("String|NilClass", lambda: G.UNION([G.STRING(), G.NIL()])),
    ("Int|Untyped", lambda: G.UNION([G.INT_ANY(), G.UNTYPED()])),
]
ARG_VALUES = [G.INT_LIT, lambda: G.STRING("s"), G.FLOAT_LIT, lambda: G.SYMBOL(":a"), G.BOOL, G.NIL, G.UNTYPED,
              lambda: G.OBJECT("K"), lambda: G.OBJECT("L"), lambda: G.ARRAY([G.INT_LIT()]), lambda: G.HASH([]),
              lambda: G.UNION([G.INT_LIT(), G.STRING("s")]), lambda: G.UNION([G.INT_LIT(), G.FLOAT_LIT()]),
              lambda: G.UNION([G.OBJECT("K"), G.NIL()]), lambda: G.UNION([G.OBJECT("L"), G.NIL()]),
              lambda: G.UNION([G.STRING("s"), G.NIL()]), lambda: G.UNION([G.INT_LIT(), G.STRING("s"), G.SYMBOL(":a")]),
              lambda: G.UNION([G.INT_LIT(), G.UNTYPED()]), G.IDENT, G.BLOCK, G.RANGE]


FIT = {
    "Int": [G.INT_LIT], "String": [lambda: G.STRING("s")], "Float": [G.FLOAT_LIT], "Symbol": [lambda: G.SYMBOL(":a")],
    "Bool": [G.BOOL], "NilClass": [G.NIL], "Untyped": [G.INT_LIT, lambda: G.OBJECT("K")], "K": [lambda: G.OBJECT("K")],
    "L": [lambda: G.OBJECT("L")], "Array": [lambda: G.ARRAY([G.INT_LIT()])], "Hash": [lambda: G.HASH([])],
}


def fitting(r, tn):
    names = tn.split("|")
    pool = []
    for n in names:
        pool += FIT.get(n, [])
    if len(names) > 1 and r.random() < 0.4:
        vs = [r.choice(FIT[n])() for n in r.sample(names, r.randint(2, len(names))) if n in FIT]
        if len(vs) >= 2:
            return G.UNION(vs)
    return r.choice(pool or [G.INT_LIT])()


def pick(r, tn):
    return fitting(r, tn) if r.random() < 0.75 else r.choice(ARG_VALUES)()


def builtin(t, hd=False, ast=False):
    t = dict(t)
    t["bi"] = True
    t["hd"] = hd
    t["ast"] = ast
    return t


def gen_signature(r):
    """Returns (dargs, params{name->T}, meta list of (kind, name, type-name))."""
    dargs, params, meta = [], {}, []
    n = 0

    def fresh():
        nonlocal n
        n += 1
        return "var%d" % n

    shape = r.random()
    for _ in range(r.choice([0, 1, 1, 2, 2, 3])):
        tn, f = r.choice(PARAM_TYPES)
        name = fresh()
        dargs.append(name)
        params[name] = builtin(f())
        meta.append(("req", name, tn))
    for _ in range(r.choice([0, 0, 1, 2])):
        tn, f = r.choice(PARAM_TYPES)
        name = fresh()
        dargs.append(name)
        params[name] = builtin(f(), hd=True)
        meta.append(("opt", name, tn))
    if shape < 0.25:
        tn, f = r.choice(PARAM_TYPES)
        name = fresh()
        dargs.append("*" + name)
        params[name] = builtin(f(), ast=True)
        meta.append(("rest", name, tn))
        for _ in range(r.choice([0, 0, 1])):
            tn, f = r.choice(PARAM_TYPES)
            name = fresh()
            dargs.append(name)
            params[name] = builtin(f())
            meta.append(("post", name, tn))
    for key in r.sample(["a", "b", "c", "k", "k2", "a1", "zz"], r.choice([0, 0, 1, 2, 3])):
        tn, f = r.choice(PARAM_TYPES)
        hd = r.random() < 0.5
        dargs.append(key + ":")
        params[key] = builtin(f(), hd=hd)
        meta.append(("key_opt" if hd else "key_req", key, tn))
    if shape > 0.9:
        dargs.append("**opts")
        meta.append(("kwrest", "opts", ""))
    return dargs, params, meta


def gen_call(r, meta):
    """An argument list that is mostly valid for the signature, perturbed in one way some of the time."""
    pos, kws = [], []
    mode = r.random()
    for kind, name, tn in meta:
        if kind in ("req", "post"):
            pos.append(pick(r, tn))
        elif kind == "opt" and r.random() < 0.5:
            pos.append(pick(r, tn))
        elif kind == "rest":
            for _ in range(r.choice([0, 1, 2, 3])):
                pos.append(pick(r, tn))
        elif kind in ("key_req", "key_opt"):
            if kind == "key_req" or r.random() < 0.5:
                kws.append(G.KEYVALUE(name + ":", pick(r, tn)))
        elif kind == "kwrest":
            for k in r.sample(["x", "y", "q"], r.choice([0, 1, 2])):
                kws.append(G.KEYVALUE(k + ":", r.choice(ARG_VALUES)()))
    if mode < 0.15 and pos:
        pos.pop(r.randrange(len(pos)))
    elif mode < 0.3:
        pos.insert(r.randrange(len(pos) + 1), r.choice(ARG_VALUES)())
    elif mode < 0.4 and kws:
        kws.pop(r.randrange(len(kws)))
    elif mode < 0.5:
        kws.append(G.KEYVALUE(r.choice(["u:", "a:", "k:"]), r.choice(ARG_VALUES)()))
    seen, uniq = set(), []
    for k in kws:
        if k["key"] not in seen:
            seen.add(k["key"])
            uniq.append(k)
    r.shuffle(uniq)
    return pos + uniq
