"""Generated .ti-config class sets (extends chains, overloads, split-able declarations) and probe programs that call
every declared method with accepted and rejected arguments."""
import json

TYPES = ["Int", "String", "Float", "Symbol", "Bool", "NilClass", ["Int", "String"], "Untyped", "Array"]
RETS = ["Int", "String", "Float", "Symbol", "Bool", "NilClass", "Self", ["Int", "NilClass"], "Untyped"]
VALUES = ["1", '"s"', "1.5", ":a", "true", "nil", "[1]"]


def gen_method(r, name):
    n = r.choice([0, 1, 1, 2])
    args = [{"type": r.choice(TYPES)} for _ in range(n)]
    if args and r.random() < 0.3:
        args[-1]["is_default"] = True
    return {"name": name, "arguments": args, "return_type": {"type": r.choice(RETS)}}


def qual(cd):
    return cd["class"] if cd["frame"] == "Builtin" else cd["frame"] + "::" + cd["class"]


def ctor(cd):
    # `new` with a namespaced return type is not resolved by ti; other class methods are
    return "new" if cd["frame"] == "Builtin" else "make"


def gen_classes(r, prefix="Cz", nclasses=None, frame=None):
    """A list of class definitions (dicts) with extends chains and some overloads.  Class names are prefix+letter."""
    n = nclasses or r.randint(2, 4)
    names = [prefix + chr(ord("a") + i) for i in range(n)]
    classes = []
    shared = ["sm0", "sm1", "sm2", "to_s", "inspect"]
    frame = frame or r.choice(["Builtin", "Builtin", "Vq"])
    for i, cn in enumerate(names):
        methods = []
        for j in range(r.randint(1, 4)):
            methods.append(gen_method(r, "%s_m%d" % (cn.lower(), j)))
        # names shared along the chain (override) and overloads (same name twice in one class)
        for sname in r.sample(shared, r.randint(0, 2)):
            methods.append(gen_method(r, sname))
        if r.random() < 0.4 and methods:
            m = dict(gen_method(r, methods[0]["name"]))
            methods.append(m)
        cd = {"frame": frame, "class": cn, "instance_methods": methods}
        cd["class_methods"] = [{"name": ctor(cd), "arguments": [], "return_type": {"type": [qual(cd)]}}]
        if i > 0 and r.random() < 0.7:
            cd["extends"] = [names[r.randrange(i)]]
            if i > 1 and r.random() < 0.2:
                other = names[r.randrange(i)]
                if other not in cd["extends"]:
                    cd["extends"].append(other)
        if r.random() < 0.3:
            cd["constants"] = [{"name": "LIMIT", "return_type": {"type": "Int"}}]
        classes.append(cd)
    return classes


def split_class(r, cd, parts=2):
    """Split one class's declarations across several definitions (same frame/class)."""
    # overloads of one method stay together and in their declared order (their order is part of the declaration)
    groups = {}
    for m in cd.get("instance_methods", []):
        groups.setdefault(m["name"], []).append(m)
    gl = list(groups.values())
    r.shuffle(gl)
    cut = sorted(r.sample(range(len(gl) + 1), min(parts - 1, len(gl) + 1)))
    gb = [0] + cut + [len(gl)]
    ims, bounds = [], [0]
    for i in range(len(gb) - 1):
        for g in gl[gb[i]:gb[i + 1]]:
            ims += g
        bounds.append(len(ims))
    while len(bounds) < parts + 1:
        bounds.append(len(ims))
    pieces = []
    keys_once = [k for k in ("class_methods", "extends", "constants") if k in cd]
    owner = {k: r.randrange(parts) for k in keys_once}
    for i in range(parts):
        p = {"frame": cd["frame"], "class": cd["class"], "instance_methods": ims[bounds[i]:bounds[i + 1]] if i + 1 < len(bounds) else []}
        for k in keys_once:
            if owner[k] == i:
                p[k] = cd[k]
        pieces.append(p)
    return pieces


def to_files(defs, names=None):
    files = {}
    for i, d in enumerate(defs):
        fn = (names[i] if names else "zz%02d_%s.json" % (i, d["class"].lower()))
        files[fn] = json.dumps(d)
    return files


def probe_program(r, classes, per_method=2):
    lines = []
    for cd in classes:
        v = "o_" + cd["class"].lower()
        lines.append("%s = %s.%s" % (v, qual(cd), ctor(cd)))
    names = {}
    for cd in classes:
        for m in cd["instance_methods"]:
            names.setdefault(m["name"], m)
    for cd in classes:
        v = "o_" + cd["class"].lower()
        for mname, m in sorted(names.items()):
            for _ in range(per_method):
                n = r.choice([len(m["arguments"]), len(m["arguments"]), max(0, len(m["arguments"]) - 1), len(m["arguments"]) + 1])
                lines.append("dbtp %s.%s(%s)" % (v, mname, ", ".join(r.choice(VALUES) for _ in range(n))))
        if "constants" in cd:
            lines.append("dbtp %s::LIMIT" % qual(cd))
    return "\n".join(lines) + "\n"
