"""Correspondence for the resolution of declared block parameters against the receiver (Model/BlockParams.v):
Do.appendParameterBeforeTypeCalculate folded over the declared list, for generated receivers (arrays, arrays of arrays,
hashes, ranges, strings, scalars, unions), declared lists over Unify / Flatten / Item / Self / UnifyArgument / arrays and
unions of them / plain types, 0-3 block variables; resolved parameters and the receiver afterwards vs the model."""
import json

from lib import common as C
from lib import corr
from lib import tygen as G
from lib.flow import Failure
from lib.execcorr import brief

UNIFY = lambda: G.T(274, "Unify", vs="unify")
FLATTEN = lambda: G.T(281, "Flatten", vs="flatten")
ITEM = lambda: G.T(282, "Item", vs="item")
SELF = lambda: G.T(269, "Self", vs="self")
UARG = lambda: G.T(279, "UnifyArgument", vs="unifyArgument")


def gen_declared(r):
    n = r.choice([1, 1, 2, 2, 3])
    out = []
    for _ in range(n):
        x = r.random()
        if x < 0.3:
            out.append(UNIFY())
        elif x < 0.5:
            out.append(FLATTEN())
        elif x < 0.6:
            out.append(ITEM())
        elif x < 0.68:
            out.append(SELF())
        elif x < 0.74:
            out.append(UARG())
        elif x < 0.84:
            out.append(G.ARRAY([r.choice([UNIFY, lambda: G.gen_scalar(r, True)])() for _ in range(r.choice([1, 2]))]))
        elif x < 0.92:
            out.append(G.UNION([r.choice([UNIFY, lambda: G.gen_scalar(r, True)])() for _ in range(2)]))
        else:
            out.append(G.gen_scalar(r, True))
    return out


def gen_recv(r):
    x = r.random()
    sc = lambda: G.gen_scalar(r, True)
    if x < 0.3:
        return G.ARRAY([sc() for _ in range(r.choice([0, 1, 2, 3]))])
    if x < 0.55:
        return G.ARRAY([G.ARRAY([sc() for _ in range(r.choice([1, 2, 2, 3]))]) for _ in range(r.choice([1, 2, 3]))])
    if x < 0.65:
        return G.ARRAY([G.ARRAY([sc(), sc()]), sc()])
    if x < 0.8:
        keys = r.sample(["a", "b", "c"], r.choice([0, 1, 2, 3]))
        return G.HASH([G.KEYVALUE(k, sc()) for k in keys])
    if x < 0.88:
        return G.ARRAY([G.OBJECT("K"), G.OBJECT("L")])
    if x < 0.94:
        return r.choice([G.RANGE, lambda: G.STRING("s"), G.INT_LIT])()
    return G.UNION([sc() for _ in range(2)])


def part_block_params(ctx, part):
    r = ctx.rng("blockparams")
    cases = []
    for _ in range(ctx.n(500, 5000)):
        decl, recv = gen_declared(r), gen_recv(r)
        if recv["tag"] == 264:
            decl = [d for d in decl if d["tag"] != 282] or [UNIFY()]          # Item on a hash draws a fresh symbol id: not modelled
        cases.append({"declared": decl, "recv": recv, "count": r.choice([0, 1, 1, 2, 2, 3]), "args": [G.ARRAY([G.gen_scalar(r, True) for _ in range(r.choice([1, 2]))])]})
    outs = C.vh_batch([{"op": "block_params", "spec": c} for c in cases])
    terms, kept = [], []
    for c, o in zip(cases, outs):
        part.evaluations += 1
        if "panic" in o:
            part.failures.append(Failure("block_params_panic", "appendParameterBeforeTypeCalculate panics: %s" % o["panic"][:200], {"spec": c}))
            continue
        if "recv" not in o:
            part.notes.append("the harness has no block_params op (hook missing)")
            part.mismatches.append({"fn": "VerifBlockParameters", "detail": json.dumps(o)[:200]})
            return
        for d in c["declared"]:
            part.count(d["cls"])
        if any(d["tag"] == 281 for d in c["declared"]) and c["count"] >= 2:
            part.nontrivial.add(json.dumps(c, sort_keys=True))
        params = o.get("params") or []
        terms.append("(%d, %s, %s, %s, %s, %s)" % (c["count"], C.coq_list([C.coq_ty(a) for a in c["args"]]), C.coq_ty(c["recv"]),
                                                   C.coq_list([C.coq_ty(d) for d in c["declared"]]), C.coq_list([C.coq_ty(p) for p in params]), C.coq_ty(o["recv"])))
        kept.append((c, o))
        part.sample({"recv": brief(c["recv"]), "declared": [brief(d) for d in c["declared"]], "count": c["count"], "params": [brief(p) for p in params]})
    bad = corr.coq_mismatches(["Model.BlockParams"], "nat * list ty * ty * list ty * list ty * ty",
                              "fun c => let '(count, args, recv, decl, got, recv') := c in "
                              "list_eqb ty_eqb (resolve_params count args recv decl) got && ty_eqb recv recv'", terms, chunk=200)
    for i in bad:
        c, o = kept[i]
        part.mismatches.append({"fn": "Do.appendParameterBeforeTypeCalculate", "recv": brief(c["recv"]), "declared": [brief(d) for d in c["declared"]],
                                "count": c["count"], "impl": [brief(p) for p in o.get("params") or []], "recv_after": brief(o["recv"]), "spec": c})
    part.agreed += len(terms) - len(bad)
