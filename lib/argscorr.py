"""Hook-level correspondences shared by C07, C08, C14 (and C12): checkArgType, checkAndPropagateArgs,
the argument sorters — model evaluated by vm_compute on the inputs the real functions ran on."""
import json

from lib import common as C
from lib import corr
from lib import tygen as G
from lib import argsgen as A
from lib.flow import Failure

VARIANT = "fixed_args"


def kind(e):
    if e == "":
        return "COk"
    if e.startswith("type mismatch"):
        return "(CErr ETypeMismatch)"
    if e.startswith("too few"):
        return "(CErr ETooFew)"
    if e.startswith("too many"):
        return "(CErr ETooMany)"
    if e.endswith("is extra argument"):
        return "(CErr EExtraArg)"
    if ": is not defined expected" in e:
        return "(CErr ENamedMissing)"
    if " is not defined expected" in e:
        return "(CErr ENotDefined)"
    if e.startswith("expected keyvalue"):
        return "(CErr EKwargsExpected)"
    return "CUnsupported"


def brief(x):
    if x is None:
        return None
    if x["tag"] == 271:
        return {x["key"]: brief(x["vt"])}
    if x["vars"]:
        return {C.TAGS[x["tag"]]: [brief(y) for y in x["vars"]]}
    return x["cls"] if x["tag"] != 258 else "ident"


def part_check_arg_type(ctx, part):
    r = ctx.rng("cat")
    n = ctx.n(700, 8000)
    pairs = []
    decls = [f() for _, f in A.PARAM_TYPES]
    args = [f() for f in A.ARG_VALUES]
    for d in decls:
        for a in args:
            pairs.append((d, a))
    while len(pairs) < n:
        pairs.append((G.gen_ty(r, common=True), G.gen_ty(r, common=True)))
    outs = C.vh_batch([{"op": "check_arg_type", "d": d, "a": a} for d, a in pairs])
    terms = []
    for (d, a), o in zip(pairs, outs):
        part.evaluations += 1
        key = json.dumps([brief(d), brief(a)])
        if d["tag"] == 265 or a["tag"] == 265 or d["tag"] == 266:
            part.nontrivial.add(key)
        part.count("err" if o.get("err") else "ok")
        terms.append("(%s, %s, %s)" % (C.coq_ty(d), C.coq_ty(a), C.coq_bool(o.get("err", "") == "")))
        part.sample({"declared": brief(d), "argument": brief(a), "impl_error": o.get("err", "")})
    bad = corr.coq_mismatches(["Model.Args"], "ty * ty * bool",
                              "fun c => let '(d, a, ok) := c in Bool.eqb (check_arg_type %s d a) ok" % VARIANT, terms)
    for i in bad:
        part.mismatches.append({"fn": "checkArgType", "declared": brief(pairs[i][0]), "argument": brief(pairs[i][1]),
                                "d": pairs[i][0], "a": pairs[i][1]})
    part.agreed = len(terms) - len(bad)


RUN_DEFS = '''
Fixpoint tbl_eqb (a b : list (string * ty)) : bool :=
  match a, b with
  | [], [] => true
  | (k1,v1)::r1, (k2,v2)::r2 => String.eqb k1 k2 && ty_eqb v1 v2 && tbl_eqb r1 r2
  | _, _ => false end.
Definition sort_tbl (t : list (string * ty)) := sort_by fst t.
Fixpoint run (cr ra : bool) (dargs : list string) (t : list (string*ty)) (calls : list (list ty)) (exp : list (cres * list (string*ty))) : bool :=
  match calls, exp with
  | [], [] => true
  | c :: cs, (er, et) :: es =>
      let '(r, t') := check_args %s cr ra dargs t c in
      cres_eqb r er && tbl_eqb (sort_tbl t') et && run cr ra dargs t' cs es
  | _, _ => false end.
'''


def gen_cases(r, n):
    cases = []
    for _ in range(n):
        dargs, params, meta = A.gen_signature(r)
        calls = [A.gen_call(r, meta) for _ in range(r.choice([1, 1, 2, 3]))]
        ret = G.UNTYPED() if r.random() < 0.1 else G.INT_ANY()
        cases.append({"frame": r.choice(["Builtin", "Builtin", "Builtin", ""]), "dargs": dargs, "params": params, "ret": ret, "calls": calls,
                      "round": r.choice(["check", "check", "check", "inference", "define", "collect"]), "static": False,
                      "meta": meta})
    return cases


def part_check_args(ctx, part):
    r = ctx.rng("cargs")
    cases = gen_cases(r, ctx.n(500, 6000))
    outs = C.vh_batch([{"op": "check_args", "spec": {k: v for k, v in c.items() if k != "meta"}} for c in cases])
    terms, kept = [], []
    for c, o in zip(cases, outs):
        part.evaluations += 1
        if "panic" in o:
            part.failures.append(Failure("check_args_panic", "checkAndPropagateArgs panics: %s" % o["panic"][:200],
                                         {"spec": {k: v for k, v in c.items() if k != "meta"}}))
            continue
        part.nontrivial.add(json.dumps([c["dargs"], [[brief(a) for a in call] for call in c["calls"]], c["round"]]))
        for e in o["errors"]:
            part.count(kind(e))
        part.count("params=%d" % len(c["dargs"]))
        tbl = C.coq_list(["(%s, %s)" % (C.coq_str(k), C.coq_ty(v)) for k, v in sorted(c["params"].items())])
        exp = C.coq_list(["(%s, %s)" % (kind(e), C.coq_list(["(%s, %s)" % (C.coq_str(k), C.coq_ty(v)) for k, v in sorted(p.items())]))
                          for e, p in zip(o["errors"], o["params"])])
        terms.append("(%s, %s, %s, %s, %s, %s)" % (
            C.coq_bool(c["round"] == "check"), C.coq_bool(c["ret"]["tag"] == 262 and c["frame"] != "Builtin"),
            C.coq_list([C.coq_str(d) for d in c["dargs"]]), tbl,
            C.coq_list([C.coq_list([C.coq_ty(a) for a in call]) for call in c["calls"]]), exp))
        kept.append((c, o))
        part.sample({"round": c["round"], "dargs": c["dargs"], "calls": [[brief(a) for a in call] for call in c["calls"]],
                     "impl_errors": o["errors"]})
    bad = corr.coq_mismatches(
        ["Model.Args"], "bool * bool * list string * list (string*ty) * list (list ty) * list (cres * list (string*ty))",
        "fun c => let '(cr, ra, dargs, t, calls, exp) := c in run cr ra dargs t calls exp", terms, defs=RUN_DEFS % VARIANT, chunk=150)
    for i in bad:
        c, o = kept[i]
        part.mismatches.append({"fn": "checkAndPropagateArgs", "round": c["round"], "dargs": c["dargs"],
                                "params": {k: brief(v) for k, v in c["params"].items()},
                                "calls": [[brief(a) for a in call] for call in c["calls"]], "impl_errors": o["errors"]})
    part.agreed = len(terms) - len(bad)
