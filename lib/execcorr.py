"""Correspondence for calculateExecutionType (Model/ExecType.v): receiver, declared return type (special types, unions and
arrays of them, plain types, `new`), 0-3 arguments and a block value; the resolved type and the receiver afterwards are
compared with the model by vm_compute."""
import json

from lib import common as C
from lib import corr
from lib import tygen as G
from lib.flow import Failure

BRA = lambda: G.T(276, "BlockResultArray", vs="blockResultArray")
SPECIALS = G.SPECIALS + [BRA]


def gen_ret(r, depth=0):
    x = r.random()
    if x < 0.45:
        return r.choice(SPECIALS)()
    if x < 0.6:
        return G.gen_scalar(r, True)
    if x < 0.8 and depth < 2:
        return G.UNION([gen_ret(r, depth + 1) for _ in range(r.choice([2, 2, 3]))])
    if depth < 2:
        return G.ARRAY([gen_ret(r, depth + 1) for _ in range(r.choice([1, 1, 2]))])
    return G.gen_scalar(r, True)


def gen_recv(r):
    x = r.random()
    if x < 0.35:
        return G.ARRAY([G.gen_scalar(r, True) for _ in range(r.choice([0, 1, 2, 3]))])
    if x < 0.5:
        return G.ARRAY([G.ARRAY([G.gen_scalar(r, True) for _ in range(r.choice([1, 2]))]) for _ in range(r.choice([1, 2]))])
    if x < 0.7:
        keys = r.sample(["a", "b", "c"], r.choice([0, 1, 2, 3]))
        return G.HASH([G.KEYVALUE(k, G.gen_scalar(r, True)) for k in keys])
    if x < 0.85:
        return G.gen_scalar(r, True)
    return G.UNION([G.gen_scalar(r, True) for _ in range(r.choice([2, 3]))])


def has_tag(t, tag):
    return t["tag"] == tag or any(has_tag(v, tag) for v in t.get("vars") or [])


def brief(t):
    if t is None:
        return None
    return t["cls"] + ("<" + " ".join(brief(v) for v in t.get("vars") or []) + ">" if t.get("vars") else "")


def part_exec_type(ctx, part):
    r = ctx.rng("exectype")
    cases = []
    for _ in range(ctx.n(500, 5000)):
        ret = gen_ret(r)
        if r.random() < 0.05:
            ret = G.with_flags(G.OBJECT("K"), meth="new", dargs=["a", "b"])
        while has_tag(ret, 276) and has_tag(ret, 278):      # Argument stores its value where BlockResultArray reads the block
            ret = gen_ret(r)
        blk = G.T(267, "Block", vk="t", vt=G.gen_scalar(r, True))
        if not has_tag(ret, 276) and r.random() < 0.5:
            blk = None
        recv = gen_recv(r)
        if has_tag(ret, 280) and recv["tag"] != 264:        # KeyValueArray is declared for hash methods only
            keys = r.sample(["a", "b", "c"], r.choice([0, 1, 2, 3]))
            recv = G.HASH([G.KEYVALUE(k, G.gen_scalar(r, True)) for k in keys])
        cases.append({"recv": recv, "ret": ret, "args": [G.gen_scalar(r, True) for _ in range(r.choice([0, 1, 1, 2, 3]))], "block": blk})
    outs = C.vh_batch([{"op": "exec_type", "spec": c} for c in cases])
    terms, kept = [], []
    for c, o in zip(cases, outs):
        part.evaluations += 1
        if "panic" in o:
            part.failures.append(Failure("exec_type_panic", "calculateExecutionType panics: %s" % o["panic"][:200], {"spec": c}))
            continue
        if "t" not in o:
            part.notes.append("the harness has no exec_type op (hook missing)")
            part.mismatches.append({"fn": "VerifCalculateExecutionType", "detail": json.dumps(o)[:200]})
            return
        for tag, name in ((269, "Self"), (274, "Unify"), (275, "OptionalUnify"), (277, "SelfArray"), (278, "Argument"), (280, "KeyValueArray"),
                          (276, "BlockResultArray"), (265, "union"), (263, "array")):
            if has_tag(c["ret"], tag):
                part.count(name)
        if c["ret"]["tag"] in (265, 263):
            part.nontrivial.add(json.dumps(c, sort_keys=True))
        blk = C.coq_ty(c["block"]) if c["block"] is not None else "zero_ty"
        terms.append("(%s, %s, %s, %s, %s, %s)" % (C.coq_ty(c["recv"]), C.coq_list([C.coq_ty(a) for a in c["args"]]), blk, C.coq_ty(c["ret"]),
                                                   C.coq_ty(o["t"]), C.coq_ty(o["recv"])))
        kept.append((c, o))
        part.sample({"recv": brief(c["recv"]), "ret": brief(c["ret"]), "args": [brief(a) for a in c["args"]], "resolved": brief(o["t"])})
    bad = corr.coq_mismatches(["Model.ExecType"], "ty * list ty * ty * ty * ty * ty",
                              "fun c => let '(recv, args, blk, ret, got, recv') := c in ty_eqb (ExecType recv args blk ret) got && ty_eqb recv recv'",
                              terms, chunk=200)
    for i in bad:
        c, o = kept[i]
        part.mismatches.append({"fn": "calculateExecutionType", "recv": brief(c["recv"]), "ret": brief(c["ret"]), "args": [brief(a) for a in c["args"]],
                                "impl": brief(o["t"]), "spec": c, "impl_t": o["t"]})
    part.agreed += len(terms) - len(bad)
