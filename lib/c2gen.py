"""Generated mruby / PicoRuby C bindings for ti-c2json, with the argument counts each binding accepts."""

FMT = {"i": ("Int", "1"), "f": ("Float", "1.5"), "s": ("String", '"s"'), "z": ("String", '"s"'), "S": ("String", '"s"'),
       "A": ("Array", "[1]"), "a": ("Array", "[1]"), "H": ("Hash", "hv"), "b": ("Bool", "true"), "n": ("Symbol", ":a"),
       "C": ("Untyped", "1"), "o": ("Untyped", '"s"')}
EXTRA = {"d": ("Untyped", "1"), "I": ("Untyped", "1"), "c": ("Untyped", "Widget")}


def gen_format(r, letters):
    nreq, nopt = r.choice([0, 1, 1, 2, 3]), r.choice([0, 0, 1, 2])
    req = [r.choice(letters) for _ in range(nreq)]
    opt = [r.choice(letters) for _ in range(nopt)]
    rest = r.random() < 0.25
    block = r.random() < 0.25
    s = ""
    for c in req:
        s += c + (r.choice(["", "", "!"]) if c in "SAHsz" else "")
    if opt or (r.random() < 0.2):
        s += "|"
        for c in opt:
            s += c + ("?" if r.random() < 0.2 else "")
    if rest:
        s += "*" + ("!" if r.random() < 0.2 else "")
    if block:
        s += "&" + ("!" if r.random() < 0.2 else "")
    vals = [dict(FMT, **EXTRA)[c][1] for c in req + opt]
    return s, {"req": nreq, "opt": nopt, "rest": rest, "post": 0, "vals": vals}


def gen_aspec(r):
    kind = r.choice(["none", "any", "counts", "counts", "counts", "counts"])
    if kind == "none":
        return "MRB_ARGS_NONE()", {"req": 0, "opt": 0, "rest": False, "post": 0}
    if kind == "any":
        return "MRB_ARGS_ANY()", {"req": 0, "opt": 0, "rest": True, "post": 0}
    req, opt, post = r.choice([0, 1, 1, 2, 3]), r.choice([0, 0, 1, 2]), r.choice([0, 0, 0, 1, 2])
    rest = r.random() < 0.35
    if not rest:
        post = 0
    block = r.random() < 0.3
    parts = []
    if req:
        parts.append("MRB_ARGS_REQ(%d)" % req)
    if opt:
        parts.append("MRB_ARGS_OPT(%d)" % opt)
    if rest:
        parts.append("MRB_ARGS_REST()")
    if post:
        parts.append("MRB_ARGS_POST(%d)" % post)
    if block:
        parts.append("MRB_ARGS_BLOCK()")
    if not parts:
        return "MRB_ARGS_NONE()", {"req": 0, "opt": 0, "rest": False, "post": 0}
    sep = r.choice(["|", " | ", "|\n                    "])
    return sep.join(parts), {"req": req, "opt": opt, "rest": rest, "post": post}


ASPEC0 = {"none": False, "any": False, "req": 0, "opt": 0, "rest": False, "post": 0, "block": False}


def parse_aspec(text):
    """The abstract MRB_ARGS words of a spec written by this generator (not by reading C in general)."""
    import re
    a = dict(ASPEC0)
    a["none"] = "MRB_ARGS_NONE()" in text
    a["any"] = "MRB_ARGS_ANY()" in text
    for k, w in (("req", "REQ"), ("opt", "OPT"), ("post", "POST")):
        m = re.search(r"MRB_ARGS_%s\((\d+)\)" % w, text)
        if m:
            a[k] = int(m.group(1))
    a["rest"] = "MRB_ARGS_REST()" in text
    a["block"] = "MRB_ARGS_BLOCK()" in text
    return a


def accepts(shape, k):
    lo = shape["req"] + shape["post"]
    return k >= lo and (shape["rest"] or k <= lo + shape["opt"])


def gen_source(r, nmeth=8, extra_letters=False):
    """Returns (C source, methods) — methods: [{name, shape, vals, style}]."""
    letters = list(FMT) + (list(EXTRA) if extra_letters else [])
    bodies, defs, methods = [], [], []
    for i in range(nmeth):
        name = "m%d" % i
        style = r.choice(["mrb_fmt", "mrb_fmt", "mrb_aspec", "mrb_aspec", "mrb_id", "mrbc"])
        fn = "widget_%s" % name
        if style == "mrbc":
            nargs = r.choice([0, 1, 2, 3])
            guards = sorted(r.sample(range(1, nargs + 1), r.choice([0, 0, 1, 2]) if nargs >= 2 else r.choice([0, 1]) if nargs else 0))
            kinds = [r.choice(["INT", "FLOAT", "STRING"]) for _ in range(nargs)]
            first_opt = guards[0] if guards else nargs + 1
            lines = []
            plain = set(j for j in range(1, nargs) if r.random() < 0.3)     # read as a raw value: a gap for the typed accessors
            for j in range(1, nargs + 1):
                get = "  %s v%d = GET_%s_ARG(%d);" % ({"INT": "int", "FLOAT": "double", "STRING": "const char *"}[kinds[j - 1]], j, kinds[j - 1], j)
                if j in plain:
                    get = "  mrbc_value raw%d = %s;" % (j, r.choice(["GET_ARG(%d)" % j, "v[%d]" % j]))
                if j >= first_opt:
                    lines.append("  if (argc >= %d) {\n  %s\n  }" % (j, get))
                else:
                    lines.append(get)
            bodies.append("static void\n%s(mrbc_vm *vm, mrbc_value v[], int argc)\n{\n%s\n  SET_INT_RETURN(1);\n}\n" % (fn, "\n".join(lines)))
            defs.append('  mrbc_define_method(vm, cls, "%s", %s);' % (name, fn))
            shape = {"req": first_opt - 1 if guards else nargs, "opt": nargs - (first_opt - 1) if guards else 0, "rest": False, "post": 0}
            vals = [{"INT": "1", "FLOAT": "1.5", "STRING": '"s"'}[k] if (j + 1) not in plain else "1" for j, k in enumerate(kinds)]
            methods.append({"name": name, "shape": shape, "vals": vals, "style": style, "detail": "GET_ARG x%d guards=%s" % (nargs, guards),
                            "aspec": ASPEC0, "fmt": None, "gets": [(kinds[j - 1], j) for j in range(1, nargs + 1) if j not in plain],
                            "guards": [j for j in range(1, nargs + 1) if j >= first_opt]})
            continue
        if style == "mrb_fmt":
            fmt, shape = gen_format(r, letters)
            vals = shape.pop("vals")
            aspec_parts = []
            if shape["req"]:
                aspec_parts.append("MRB_ARGS_REQ(%d)" % shape["req"])
            if shape["opt"]:
                aspec_parts.append("MRB_ARGS_OPT(%d)" % shape["opt"])
            if shape["rest"]:
                aspec_parts.append("MRB_ARGS_REST()")
            if "&" in fmt:
                aspec_parts.append("MRB_ARGS_BLOCK()")
            aspec = "|".join(aspec_parts) or "MRB_ARGS_NONE()"
            if aspec == "MRB_ARGS_NONE()":
                fmt, body = "", "  (void)self;"
            else:
                body = '  mrb_get_args(mrb, "%s", &a0);' % fmt
            detail = "fmt=%r aspec=%s" % (fmt, aspec)
        else:
            aspec, shape = gen_aspec(r)
            vals = ["1"] * 8
            body = "  mrb_int argc = mrb_get_argc(mrb);\n  (void)argc;"
            detail = "aspec=%s" % aspec
        bodies.append("static mrb_value\n%s(mrb_state *mrb, mrb_value self)\n{\n  mrb_value a0;\n%s\n  return mrb_fixnum_value(1);\n}\n" % (fn, body))
        if style == "mrb_id":
            defs.append("  mrb_define_class_method_id(mrb, cls, MRB_SYM(%s), %s, %s);" % (name, fn, aspec))
        else:
            defs.append('  mrb_define_class_method(mrb, cls, "%s", %s, %s);' % (name, fn, aspec))
        methods.append({"name": name, "shape": shape, "vals": vals, "style": style, "detail": detail,
                        "aspec": parse_aspec(aspec), "fmt": (fmt or None) if style == "mrb_fmt" else None, "gets": [], "guards": []})
    src = ('#include <mruby.h>\n\n' + "\n".join(bodies) +
           '\nvoid\nmrb_widget_gem_init(mrb_state *mrb)\n{\n  struct RClass *cls = mrb_define_class(mrb, "Widget", mrb->object_class);\n'
           + "\n".join(defs) + "\n}\n")
    return src, methods


def call_program(methods, kmax=6):
    """(ruby source, [(row, method index, k)])"""
    lines = ["hv = {a: 1}"]
    calls = []
    for mi, m in enumerate(methods):
        for k in range(kmax + 1):
            vals = (m["vals"] + ["1"] * kmax)[:k]
            lines.append("Widget.%s(%s)" % (m["name"], ", ".join(vals)))
            calls.append((len(lines), mi, k))
    return "\n".join(lines) + "\n", calls
