"""Generated programs with union-typed variables and nil? / is_a? conditionals, with the exact branch types."""

LIT = {"Integer": "1", "String": '"s"', "Float": "1.5", "NilClass": "nil", "Symbol": ":a"}


def render_type(vs):
    if not vs:
        return None
    return vs[0] if len(vs) == 1 else "Union<%s>" % " ".join(vs)


def gen_vars(r, n):
    """[(name, [classes])], setup lines"""
    lines = ["c = true"]
    out = []
    for i in range(n):
        k = r.choice([2, 2, 3])
        cl = r.sample(list(LIT), k)
        name = "x%d" % i
        if k == 2:
            lines.append("%s = c ? %s : %s" % (name, LIT[cl[0]], LIT[cl[1]]))
        else:
            lines.append("h%d = c ? %s : %s" % (i, LIT[cl[0]], LIT[cl[1]]))
            lines.append("%s = c ? h%d : %s" % (name, i, LIT[cl[2]]))
        out.append((name, cl))
    return out, lines


def test_text(t):
    v, c, neg = t
    s = "%s.nil?" % v if c == "NilClass" else "%s.is_a?(%s)" % (v, c)
    return ("!" if neg else "") + s


def admit(vs, tests, positive_kind=True):
    """variants admitted by a conjunction of tests (tests on this variable only)"""
    out = list(vs)
    for (_, c, neg) in tests:
        pos = (not neg) if positive_kind else neg
        out = [v for v in out if v == c] if pos else [v for v in out if v != c]
    return out


def gen_test(r, var, classes, allow_foreign=False):
    c = r.choice(classes)
    return (var, c, r.random() < 0.45)


class Prog:
    def __init__(self):
        self.lines = []
        self.expect = []     # (row, var, [classes] or None=don't care, note)

    def add(self, text, indent):
        self.lines.append("  " * indent + text)

    def probe(self, var, vs, indent, note):
        self.add("dbtp %s" % var, indent)
        self.expect.append((len(self.lines), var, vs, note))


def gen_conditional(r, p, env, indent, depth):
    """env: {var: [classes]} — the exact types at this point"""
    vars_ = [v for v in env if len(env[v]) >= 2]
    if not vars_:
        return
    form = r.choice(["if", "if", "if_else", "if_else", "unless", "unless_else", "and", "and", "and_else", "same_twice", "elsif", "elsif", "and_elsif"])
    if form in ("and", "and_else", "and_elsif") and len(vars_) < 2:
        form = "if_else"
    def body(types, note, ctx_env=None):
        for v in sorted(types):
            if types[v]:
                p.probe(v, types[v], indent + 1, note)
        if r.random() < 0.5:
            p.add("t%d = %s" % (len(p.lines), r.choice(["1", '"z"', "[1]"])), indent + 1)
        if depth < 2 and r.random() < 0.35:
            inner = dict(ctx_env or env)
            inner.update(types)
            gen_conditional(r, p, inner, indent + 1, depth + 1)
            for v in sorted(types):
                if types[v]:
                    p.probe(v, types[v], indent + 1, note + "/after-nested")
    if form in ("if", "if_else", "unless", "unless_else"):
        v = r.choice(vars_)
        t = gen_test(r, v, env[v])
        kw = "unless" if form.startswith("unless") else "if"
        p.add("%s %s" % (kw, test_text(t)), indent)
        then = admit(env[v], [t], positive_kind=(kw == "if"))
        body({v: then}, form + "/then")
        if form.endswith("_else"):
            p.add("else", indent)
            body({v: [c for c in env[v] if c not in then]}, form + "/else")
        p.add("end", indent)
    elif form in ("and", "and_else"):
        vs = r.sample(vars_, r.choice([2, 2, 3]) if len(vars_) >= 3 else 2)
        tests = [gen_test(r, v, env[v]) for v in vs]
        p.add("if " + " && ".join(test_text(t) for t in tests), indent)
        body({t[0]: admit(env[t[0]], [t]) for t in tests}, form + "/then")
        if form == "and_else":
            p.add("else", indent)
            body({t[0]: list(env[t[0]]) for t in tests}, form + "/else")
        p.add("end", indent)
    elif form == "same_twice":
        v = r.choice([x for x in vars_ if len(env[x]) >= 3] or vars_)
        cs = r.sample(env[v], 2)
        tests = [(v, cs[0], True), (v, cs[1], True)] if len(env[v]) >= 3 else [(v, cs[0], True), (v, cs[0], True)]
        p.add("if " + " && ".join(test_text(t) for t in tests), indent)
        body({v: admit(env[v], tests)}, form + "/then")
        p.add("end", indent)
    elif form in ("elsif", "and_elsif") and len(vars_) >= 2 and r.random() < 0.5:
        # every branch tests a variable of its own choice; a variable tested in an elsif only must be restored as well
        remaining = {v: list(env[v]) for v in vars_}
        n = r.choice([2, 3])
        for i in range(n):
            v = r.choice([x for x in vars_ if remaining[x]])
            t = gen_test(r, v, remaining[v])
            p.add(("if " if i == 0 else "elsif ") + test_text(t), indent)
            then = admit(remaining[v], [t])
            body({v: then}, "elsif_mixed" + ("/then" if i == 0 else "/elsif%d" % i), ctx_env=dict(env, **remaining))
            remaining[v] = [c for c in remaining[v] if c not in then]
        p.add("end", indent)
    else:   # elsif chains
        v = r.choice(vars_)
        remaining = list(env[v])
        first_and = form == "and_elsif"
        n = r.choice([2, 2, 3])
        for i in range(n):
            if not remaining:
                break
            if i == 0 and first_and:
                w = r.choice([x for x in vars_ if x != v])
                tests = [gen_test(r, v, env[v]), gen_test(r, w, env[w])]
                p.add("if " + " && ".join(test_text(t) for t in tests), indent)
                body({v: admit(remaining, [tests[0]]), w: admit(env[w], [tests[1]])}, form + "/then")
                continue
            t = gen_test(r, v, remaining)
            p.add(("if " if i == 0 else "elsif ") + test_text(t), indent)
            then = admit(remaining, [t])
            body({v: then}, form + ("/then" if i == 0 else "/elsif%d" % i))
            remaining = [c for c in remaining if c not in then]
        p.add("else", indent)
        body({v: remaining}, form + "/else")
        p.add("end", indent)


def gen_program(r):
    p = Prog()
    vars_, setup = gen_vars(r, r.randint(1, 3))
    p.lines += setup
    env = dict(vars_)
    for _ in range(r.randint(1, 3)):
        gen_conditional(r, p, env, 0, 0)
        for v in sorted(env):
            p.probe(v, env[v], 0, "after")
        if r.random() < 0.4:
            p.add("q%d = 2" % len(p.lines), 0)
    return "\n".join(p.lines) + "\n", p.expect
