"""Scenario families for C07 / C08 that the positional call spec does not reach: unions of object classes, constructors
with required parameters after a rejected call, overloads ending in a rest parameter, keyword arguments on union
receivers.  Each scenario is (configuration files, program, [(row, must_report)])."""
import json

from lib import common as C
from lib.flow import Failure


def cls(name, inst=(), new_args=(), extends=()):
    return json.dumps({"frame": "Builtin", "class": name, "extends": list(extends), "instance_methods": list(inst),
                       "class_methods": [{"name": "new", "arguments": list(new_args), "return_type": {"type": [name]}}]})


def meth(name, args, ret="Int"):
    return {"name": name, "arguments": args, "return_type": {"type": [ret]}}


def scen_object_unions(r):
    a, b, c, d = r.sample(["Apple", "Berry", "Cedar", "Daisy", "Elm", "Fig"], 4)
    decl = r.choice([[a, b], "%s|%s" % (a, b)])
    files = {"zz_%s.json" % n.lower(): cls(n) for n in (a, b, c, d)}
    files["zz_host.json"] = cls("Host", [meth("take", [{"type": decl}])])
    va, vb, vc, vd = ["v%d" % i for i in range(4)]
    lines = ["h = Host.new", "%s = %s.new" % (va, a), "%s = %s.new" % (vb, b), "%s = %s.new" % (vc, c), "%s = %s.new" % (vd, d), "q = true",
             "good = q ? %s : %s" % (va, vb), "bad = q ? %s : %s" % (vc, vd), "half = q ? %s : %s" % (va, vc)]
    checks = []
    for arg, must in r.sample([("good", False), ("bad", True), (va, False), (vc, True), ("bad", True), ("good", False)], 4):
        lines.append("h.take(%s)" % arg)
        checks.append((len(lines), must))
    return files, "\n".join(lines) + "\n", checks


def scen_constructor(r):
    req = r.choice([1, 2])
    args = [{"type": ["Int"]}] * req + ([{"type": ["Int"], "is_default": True}] if r.random() < 0.5 else [])
    files = {"zz_gadget.json": cls("Gadget", [meth("run", [])], new_args=args)}
    lines, checks = [], []
    def add(text, must):
        lines.append(text); checks.append((len(lines), must))
    add("Gadget.new(%s)" % ", ".join(["1"] * req), False)
    add("Gadget.new(%s)" % ", ".join(['"s"'] + ["1"] * (req - 1)), True)          # rejected: type mismatch
    add("Gadget.new", True)                                                          # rejected: too few
    add("Gadget.new(%s)" % ", ".join(["1"] * (len(args) + 1)), True)               # rejected: too many
    add("Gadget.new", True)
    add("Gadget.new(%s)" % ", ".join(["1"] * req), False)
    order = list(range(len(lines)))
    return files, "\n".join(lines) + "\n", checks


def scen_overload_rest(r):
    t1, t2, t3 = r.sample([("Int", "1"), ("String", '"a"'), ("Symbol", ":b"), ("Float", "1.5")], 3)
    m1 = meth("mix", [{"type": [t1[0]]}, {"type": [t2[0]]}])
    m2 = meth("mix", [{"type": [t1[0]]}, {"type": [t2[0]]}, {"type": [t3[0]], "is_asterisk": True}], ret="String")
    files = {"zz_mixer.json": cls("Mixer", [m1, m2])}
    lines = ["m = Mixer.new"]
    checks = []
    for extra in r.sample([0, 1, 2, 3], 3):
        lines.append("m.mix(%s)" % ", ".join([t1[1], t2[1]] + [t3[1]] * extra))
        checks.append((len(lines), False))
    lines.append("m.mix(%s)" % t1[1])
    checks.append((len(lines), True))
    return files, "\n".join(lines) + "\n", checks


def scen_union_receiver_keywords(r):
    k = r.choice(["depth", "mode", "k", "k2"])
    decl = [{"type": ["Int"]}, {"type": ["Int"], "key": k + ":"}]
    files = {"zz_left.json": cls("Left", [meth("go", decl)]), "zz_right.json": cls("Right", [meth("go", decl)])}
    lines = ["q = true", "l = Left.new", "rr = Right.new", "u = q ? l : rr"]
    checks = []
    for text, must in r.sample([("u.go(1, %s: 2)" % k, False), ("l.go(1, %s: 2)" % k, False), ('u.go(1, %s: "s")' % k, True),
                                ("u.go(1)", True), ("u.go(2, %s: 3)" % k, False)], 4):
        lines.append(text)
        checks.append((len(lines), must))
    return files, "\n".join(lines) + "\n", checks


def scen_layouts(r):
    """calls of the shipped configuration written over two lines, behind `;`, before `rescue`, in one-line blocks: a row
    entry may be a tuple of rows (the statement's lines): none of them may carry a diagnostic / one of them must"""
    lines, checks = ["n = 1", 's = "s"'], []
    def add(text, must):
        first = len(lines) + 1
        lines.extend(text.split("\n"))
        checks.append((tuple(range(first, len(lines) + 1)), must))
    forms = [
        ("a%d = n +\n  2", False), ("a%d = n *\n  2", False), ("a%d = n <\n  2", False), ("a%d = n ==\n  2", False),
        ('a%d = s +\n  "t"', False), ("a%d = n\n  .to_s", False), ("a%d = s\n  .upcase\n  .downcase", False),
        ("a%d = n.to_s rescue nil", False), ("a%d = n.to_s; b%d = 2", False), ("a%d = s.upcase; b%d = s.downcase; c%d = 1", False),
        ("[1, 2].each do |v%d| v%d.to_s end", False), ("[1, 2].each { |v%d| v%d.to_s }", False),
        ('a%d = n +\n  "t"', True), ("a%d = s +\n  2", True), ("a%d = n.to_s(\"x\"); b%d = 2", True), ('a%d = s.upcase(1, 2, 3) rescue nil', True),
    ]
    for i, (f, must) in enumerate(r.sample(forms, 8)):
        add(f.replace("%d", str(i)), must)
    return {}, "\n".join(lines) + "\n", checks


SCENARIOS = {"C07": [scen_object_unions, scen_constructor, scen_overload_rest, scen_union_receiver_keywords, scen_layouts],
             "C08": [scen_object_unions, scen_constructor, scen_overload_rest, scen_union_receiver_keywords, scen_layouts]}


def part_scenarios(want):
    def part_scenario_families(ctx, part):
        import re
        def one(i):
            r = C.rng_for(ctx.pid, ctx.seed, "scen%d" % i)
            fn = SCENARIOS[want][i % len(SCENARIOS[want])]
            files, prog, checks = fn(r)
            with C.Workdir(extra_config=files) as wd:
                x = wd.ti([wd.write(prog, "t.rb")])
            return fn.__name__, files, prog, checks, x

        for name, files, prog, checks, x in C.pmap(one, list(range(ctx.n(40, 300))), par=8):
            if x.timeout:
                continue
            rows = set(int(m.group(1)) for m in re.finditer(r'^t\.rb:::(\d+):::', x.out, re.M))
            for row, must in checks:
                if (want == "C07") != must:
                    continue            # C07 judges the calls that must be reported, C08 the ones that must not
                part.evaluations += 1
                part.count(name)
                part.nontrivial.add(prog + str(row))
                span = row if isinstance(row, tuple) else (row,)
                row = span[0]
                if any(x in rows for x in span) == must:
                    part.agreed += 1
                elif must:
                    part.failures.append(Failure("missed_definite_error", "%s: no diagnostic on row %d: %s" % (name, row, prog.split("\n")[row - 1]),
                                                 {"program": prog, "config": files, "row": row, "out": x.out}))
                else:
                    part.failures.append(Failure("false_alarm", "%s: diagnostic on row %d for a call the configuration accepts: %s" % (name, row, prog.split("\n")[row - 1]),
                                                 {"program": prog, "config": files, "row": row, "out": x.out}))
            part.sample({"scenario": name, "rows": len(checks)})
    part_scenario_families.__name__ = "part_scenario_families"
    return part_scenario_families
