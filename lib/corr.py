"""Run a correspondence: evaluate the model on the same inputs inside Coq (vm_compute)."""
import re
from lib import common as C


def coq_mismatches(imports, case_type, ok_fun, case_terms, defs="", chunk=400, keep=None):
    """Return sorted list of indexes i such that (ok_fun case_i) = false in the model.

    imports: list of module names (RT.Model.X); ok_fun: Coq term of type case_type -> bool."""
    bad = []
    for base in range(0, len(case_terms), chunk):
        part = case_terms[base:base + chunk]
        text = "From RT Require Import Model.Corr %s.\nImport ListNotations.\nOpen Scope string_scope.\n" % " ".join(imports)
        text += defs + "\n"
        text += "Definition cases : list (%s) :=\n [%s].\n" % (case_type, ";\n  ".join(part))
        text += "Definition bad := Eval vm_compute in mismatches (%s) cases.\nPrint bad.\n" % ok_fun
        rc, out = C.coqc_eval(text, keep=keep)
        if rc != 0:
            raise RuntimeError("coqc failed on cases.v: " + out[-1500:])
        m = re.search(r'bad\s*=\s*\[(.*?)\]', out, re.S)
        if not m:
            raise RuntimeError("cannot parse coqc output: " + out[-500:])
        body = m.group(1).strip()
        if body:
            bad.extend(base + int(x) for x in re.findall(r'\d+', body))
    return bad


def coq_eval_terms(imports, terms, defs=""):
    """Evaluate Coq terms with vm_compute and return the printed normal forms (one per term)."""
    text = "From RT Require Import %s.\nImport ListNotations.\nOpen Scope string_scope.\n%s\n" % (" ".join(imports), defs)
    for i, t in enumerate(terms):
        text += "Definition r%d := Eval vm_compute in (%s).\nPrint r%d.\n" % (i, t, i)
    rc, out = C.coqc_eval(text)
    if rc != 0:
        raise RuntimeError("coqc failed: " + out[-1500:])
    res = []
    for i in range(len(terms)):
        m = re.search(r'r%d\s*=\s*(.*?)\n\s*:\s' % i, out, re.S)
        res.append(m.group(1).strip() if m else None)
    return res
