"""Correspondence of the completion predicates and query printers (cmd/out.go) with Model/Suggest.v, Model/Query.v."""
import json

from lib import common as C
from lib import corr
from lib import tygen as G

FRAMES = ["", "", "Builtin", "M"]
CLASSES = ["A", "B", "C", "Mod", "Enumerable", "K", "String", ""]


def gen_map(r):
    nodes = [(r.choice(FRAMES), r.choice(CLASSES)) for _ in range(r.randint(1, 6))]
    edges = []
    for (f, c) in sorted(set(nodes)):
        ps = []
        for _ in range(r.choice([0, 1, 1, 2, 3])):
            pf, pc = r.choice(nodes) if r.random() < 0.7 else (r.choice(FRAMES), r.choice(CLASSES))
            kind = r.choice(["super", "super", "include", "extend"])
            ps.append({"frame": pf, "class": pc, "include": kind == "include", "extend": kind == "extend"})
        edges.append({"frame": f, "class": c, "parents": ps})
    builtin = r.sample(["A", "K", "String", "Enumerable", "Mod"], r.choice([0, 1, 2]))
    return edges, builtin


def gen_sig(r, classes=CLASSES):
    return {"method": r.choice(["m", "new", "each", "x=", "to_s"]), "detail": r.choice(["m() -> Integer", "m(Integer) -> String"]),
            "frame": r.choice(FRAMES), "class": r.choice(classes + ["Kernel"]), "static": r.random() < 0.4,
            "private": r.random() < 0.2, "file": r.choice(["unknown", "f.rb"]), "row": r.choice([0, 1, 12]),
            "doc": r.choice(["", "doc", "two\nlines"])}


def gen_target(r, depth=0):
    kind = r.choice(["object", "object", "class", "string", "int", "ident", "ident", "unknown", "self", "array", "nil", "union"])
    if kind == "union" and depth == 0:
        t = G.UNION([gen_target(r, 1) for _ in range(r.randint(1, 3))])
    else:
        cls = r.choice(CLASSES[:-1])
        t = {"object": lambda: G.OBJECT(cls, r.choice(FRAMES)), "class": lambda: G.CLASS(cls),
             "string": lambda: G.STRING(r.choice(["s", "", "Abc"])), "int": G.INT_LIT,
             "ident": lambda: G.IDENT(r.choice(["foo", "Foo", "", "ho", "K"])), "unknown": G.UNKNOWN,
             "self": lambda: G.T(269, "Self", vs="self"), "array": lambda: G.ARRAY([G.INT_LIT()]), "nil": G.NIL,
             "union": G.NIL}[kind]()
    t["bec"] = r.choice(["", "", "x", "Foo", "foo.bar", "K.new"])
    t["meth"] = r.choice(["", "", "m", "new"])
    t["df"] = r.choice(FRAMES)
    t["dc"] = r.choice(CLASSES)
    t["st"] = r.random() < 0.4
    t["dm"] = r.choice(["", "meth"])
    return t


def coq_map(edges):
    return C.coq_list(["((%s, %s), %s)" % (C.coq_str(e["frame"]), C.coq_str(e["class"]), C.coq_list(
        ["(Build_pnode %s %s %s %s)" % (C.coq_str(p["frame"]), C.coq_str(p["class"]), C.coq_bool(p["include"]), C.coq_bool(p["extend"]))
         for p in e["parents"]])) for e in edges])


def coq_sig(s):
    return "(Sig %s %s %s %s %s %s %s (%d)%%Z %s)" % (C.coq_str(s["method"]), C.coq_str(s["detail"]), C.coq_str(s["frame"]),
                                                       C.coq_str(s["class"]), C.coq_bool(s["static"]), C.coq_bool(s["private"]),
                                                       C.coq_str(s["file"]), s["row"], C.coq_str(s["doc"]))


def coq_target(t, rendered):
    return "(Build_target %s %s %s %s %s %s %s %s %s %s)" % (
        C.TAGS[t["tag"]], C.coq_str(rendered), C.coq_str(t["cls"]), C.coq_str(t["bec"]), C.coq_str(t["frame"]),
        C.coq_str(t["meth"]), C.coq_str(t["df"]), C.coq_str(t["dc"]), C.coq_str(t.get("dm", "")), C.coq_bool(t["st"]))


def req_target(t):
    return {k: v for k, v in t.items() if k != "dm"}


def part_parent_corr(ctx, part):
    r = ctx.rng("parent")
    cases = []
    for _ in range(ctx.n(400, 4000)):
        edges, builtin = gen_map(r)
        classes = [e["class"] for e in edges] + [p["class"] for e in edges for p in e["parents"]]
        s = gen_sig(r, classes or CLASSES)
        if r.random() < 0.6:     # aim at a class of the map
            pool = [(e["frame"], e["class"]) for e in edges] + [(p["frame"], p["class"]) for e in edges for p in e["parents"]]
            f, c = r.choice(pool)
            s["frame"], s["class"] = (r.choice([f, f, "Builtin"]), c)
            s["method"] = r.choice(["m", "m", "each", "new"])
        start = r.choice([(e["frame"], e["class"]) for e in edges])
        cases.append((edges, builtin, s, start, r.random() < 0.5))
    outs = C.vh_batch([{"op": "is_parent_class", "edges": e, "builtin": b, "sig": s, "frame": st[0], "class": st[1], "static": x}
                       for e, b, s, st, x in cases])
    terms = []
    for (e, b, s, st, x), o in zip(cases, outs):
        part.evaluations += 1
        if "r" not in o:
            part.mismatches.append({"fn": "isParentClass", "case": [e, b, s, st, x], "answer": o})
            continue
        part.count("true" if o["r"] else "false")
        if any(p["extend"] or p["include"] for ed in e for p in ed["parents"]):
            part.nontrivial.add(json.dumps([e, b, s, st, x], sort_keys=True))
        terms.append("(%s, %s, %s, (%s, %s), %s, %s)" % (coq_map(e), C.coq_list([C.coq_str(z) for z in b]), coq_sig(s),
                                                         C.coq_str(st[0]), C.coq_str(st[1]), C.coq_bool(x), C.coq_bool(o["r"])))
        part.sample({"edges": len(e), "static": x, "answer": o["r"]})
    bad = corr.coq_mismatches(["Model.Suggest"], "inh_map * list string * sig * (string * string) * bool * bool",
                              "fun c => let '(m, b, s, n, st, r) := c in Bool.eqb (IsParentClass m b s n st) r", terms, chunk=200)
    for i in bad:
        part.mismatches.append({"fn": "isParentClass", "case": cases[i][:5]})
    part.agreed = len(terms) - len(bad)


def part_is_suggest_corr(ctx, part):
    r = ctx.rng("suggest")
    cases = []
    for _ in range(ctx.n(500, 5000)):
        edges, builtin = gen_map(r)
        t = gen_target(r, depth=1)
        classes = [e["class"] for e in edges] + [t["cls"], t["dc"]]
        cases.append((edges, builtin, gen_sig(r, classes), t))
    outs = C.vh_batch([{"op": "is_suggest", "edges": e, "builtin": b, "sig": s, "target": req_target(t), "dm": t["dm"]}
                       for e, b, s, t in cases])
    terms = []
    kept = []
    for (e, b, s, t), o in zip(cases, outs):
        part.evaluations += 1
        if "r" not in o:
            part.mismatches.append({"fn": "isSuggest", "case": [e, b, s, t], "answer": o})
            continue
        part.count("listed" if o["r"] else "filtered")
        part.count("tag_" + C.TAGS[t["tag"]])
        if o["r"]:
            part.nontrivial.add(json.dumps([e, b, s, t], sort_keys=True))
        terms.append("(%s, %s, %s, %s, Some %s, Some (%s, %s), %s)" % (
            coq_map(e), C.coq_list([C.coq_str(z) for z in b]), coq_sig(s), coq_target(t, o["str"]), C.coq_bool(o["r"]),
            C.coq_str(o["oc"]), C.coq_bool(o["st"]), C.coq_bool(o["ko"])))
        kept.append((e, b, s, t, o))
        part.sample({"target_tag": C.TAGS[t["tag"]], "rendered": o["str"], "sig_class": s["class"], "listed": o["r"]})
    bad = corr.coq_mismatches(
        ["Model.Suggest"], "inh_map * list string * sig * target * option bool * option (string * bool) * bool",
        "fun c => let '(m, b, s, t, r, oc, ko) := c in "
        "match is_suggest true true m b t s, r with Some x, Some y => Bool.eqb x y | _, _ => false end && "
        "match calc_object_class true t, oc with Some (a, x), Some (a', y) => String.eqb a a' && Bool.eqb x y | _, _ => false end && "
        "Bool.eqb (is_suggest_kernel_or_object t (s_class s)) ko", terms, chunk=200)
    for i in bad:
        part.mismatches.append({"fn": "isSuggest/calculateObjectClassAndIsStatic", "case": kept[i][:4], "go": kept[i][4]})
    part.agreed = len(terms) - len(bad)


def part_print_corr(ctx, part):
    """PrintSuggestionsForLsp / PrintHover / PrintAllDefinitionsForLsp against Model/Query.v, line for line."""
    r = ctx.rng("print")
    cases = []
    for _ in range(ctx.n(240, 2400)):
        edges, builtin = gen_map(r)
        t = gen_target(r)
        classes = [e["class"] for e in edges] + [t["cls"], t["dc"], "Kernel", ""]
        sigs = [gen_sig(r, classes) for _ in range(r.randint(0, 7))]
        mode = r.choice(["suggest", "suggest", "hover", "define"])
        glob = G.T(259, "String", vs="s", meth=r.choice(["m", "each", ""]), dc=r.choice(classes))
        cases.append((edges, builtin, sigs, t, mode, glob))
    outs = C.vh_batch([{"op": "print_query", "mode": m, "edges": e, "builtin": b, "sigs": s, "target": req_target(t),
                        "dm": t["dm"], "glob": g} for e, b, s, t, m, g in cases])
    terms, kept = [], []
    for (e, b, sigs, t, mode, g), o in zip(cases, outs):
        part.evaluations += 1
        if "lines" not in o:
            part.mismatches.append({"fn": "print_" + mode, "case": [e, b, sigs, t, g], "answer": o})
            continue
        part.count(mode)
        part.count("lines_%s" % ("0" if not o["lines"] else "1-5" if len(o["lines"]) <= 5 else "6+"))
        if o["lines"]:
            part.nontrivial.add(json.dumps([e, b, sigs, t, mode], sort_keys=True))
        # DefinedMethod is not part of the projection: the harness sets it on the target only, the variants have none
        variants = [coq_target(dict(v, dm=""), vs) for v, vs in zip(t.get("vars") or [], o["vstrs"])] if t["tag"] == 265 else []
        terms.append("(%s, %s, %s, %s, %s, (%s, %s), (%s, %s), %s, %s)" % (
            {"suggest": "QSuggest", "hover": "QHover", "define": "QDefine"}[mode], coq_map(e),
            C.coq_list([C.coq_str(z) for z in b]), coq_target(t, o["str"]), C.coq_list(variants),
            C.coq_bool(t["tag"] == 265), C.coq_bool(o["is_identifier"]), C.coq_str(g["dc"]), C.coq_str(g["meth"]),
            C.coq_list(["(%s, %s)" % (coq_sig(s), C.coq_str(str(s["row"]))) for s in sigs]),
            C.coq_list([C.coq_str(l) for l in o["lines"]])))
        kept.append((e, b, sigs, t, mode, g, o))
        part.sample({"mode": mode, "target_tag": C.TAGS[t["tag"]], "lines": o["lines"][:2]})
    fn = ("fun c => let '(mode, m, b, t, vs, (u, idt), (gdc, gm), sigs, lines) := c in "
          "match mode with "
          "| QSuggest => match print_suggestions true true m b t u idt vs (map fst sigs) with "
          "              | Some texts => list_eqb String.eqb texts lines | None => false end "
          "| QHover => list_eqb String.eqb (print_hover gdc gm (map fst sigs)) lines "
          "| QDefine => match print_definitions t sigs m, lines with "
          "             | a :: ra, b :: rb => String.eqb a b && list_eqb String.eqb (sort str_leb ra) (sort str_leb rb) "
          "             | _, _ => false end "
          "end")
    bad = corr.coq_mismatches(["Model.Query", "Proofs.SortP"],
                              "qmode * inh_map * list string * target * list target * (bool * bool) * (string * string) * list (sig * string) * list string",
                              fn, terms, chunk=100)
    for i in bad:
        part.mismatches.append({"fn": "print_" + kept[i][4], "case": kept[i][:6], "go_lines": kept[i][6]["lines"][:20]})
    part.agreed = len(terms) - len(bad)
