"""Generated programs with known call sites, for --llm-nav."""


class Prog:
    def __init__(self, r):
        self.r = r
        self.lines = []
        self.sites = []            # (row, callee method name, caller method or None, caller class or None)
        self.funcs = []            # top-level functions: (name, arity)
        self.classes = []          # {name, parent, inst: [(name, arity)], static: [(name, arity)]}
        self.n = 0

    def fresh(self, stem):
        self.n += 1
        return "%s%d" % (stem, self.n)

    def emit(self, text, indent):
        self.lines.append("  " * indent + text)
        return len(self.lines)


def call_expr(p, ctx, depth=0):
    """(text, [callee names in evaluation order]) — a call available in ctx = (class or None, 'inst'|'static'|None)"""
    r = p.r
    cands = []
    cls, kind = ctx
    if cls is None:              # calls of top-level functions from class bodies are not resolved by ti at all: not generated
        for f, ar in p.funcs:
            cands.append(("%s(%%s)" % f, f, ar))
    for c in p.classes:
        for m, ar in c["static"]:
            cands.append(("%s.%s(%%s)" % (c["name"], m), m, ar))
            if cls == c["name"] and kind == "static":
                cands.append(("self.%s(%%s)" % m, m, ar))
                cands.append(("%s(%%s)" % m, m, ar))
        if cls and kind == "inst" and (cls == c["name"] or c["name"] in ancestors(p, cls)):
            for m, ar in c["inst"]:
                cands.append(("%s(%%s)" % m, m, ar))            # implicit receiver, own or inherited
                cands.append(("self.%s(%%s)" % m, m, ar))
    if not cands:
        return None
    fmt, name, ar = r.choice(cands)
    args, inner = [], []
    for _ in range(ar):
        if depth < 1 and r.random() < 0.35:
            sub = call_expr(p, ctx, depth + 1)
            if sub:
                args.append(sub[0]); inner += sub[1]
                continue
        args.append(r.choice(["1", "2", "3"]))
    return fmt % ", ".join(args), [name] + inner


def ancestors(p, cname):
    out = []
    c = next(x for x in p.classes if x["name"] == cname)
    while c["parent"]:
        out.append(c["parent"])
        c = next(x for x in p.classes if x["name"] == c["parent"])
    return out


def body(p, ctx, indent, caller):
    """statements with calls; caller = (method name or None, class name or None)"""
    r = p.r
    for _ in range(r.randint(1, 4)):
        e = call_expr(p, ctx)
        if not e:
            break
        text, names = e
        form = r.choice(["stmt", "assign", "if", "if_elsif", "unless", "block", "sum", "while"])
        def site(row, ns):
            for n in ns:
                p.sites.append((row, n, caller[0], caller[1]))
        if form == "stmt":
            site(p.emit(text, indent), names)
        elif form == "assign":
            site(p.emit("v%d = %s" % (len(p.lines), text), indent), names)
        elif form == "sum":
            e2 = call_expr(p, ctx)
            site(p.emit("w%d = %s + %s" % (len(p.lines), text, e2[0]), indent), names + e2[1])
        elif form == "if":
            site(p.emit("if %s > 0" % text, indent), names)
            p.emit("z%d = 1" % len(p.lines), indent + 1)
            p.emit("end", indent)
        elif form == "if_elsif":
            site(p.emit("if %s > 5" % text, indent), names)
            p.emit("z%d = 1" % len(p.lines), indent + 1)
            e2 = call_expr(p, ctx)
            site(p.emit("elsif %s > 1" % e2[0], indent), e2[1])
            p.emit("z%d = 2" % len(p.lines), indent + 1)
            p.emit("end", indent)
        elif form == "while":
            site(p.emit("while %s > 9" % text, indent), names)
            p.emit("z%d = 1" % len(p.lines), indent + 1)
            p.emit("end", indent)
        elif form == "unless":
            site(p.emit("unless %s > 5" % text, indent), names)
            p.emit("z%d = 1" % len(p.lines), indent + 1)
            p.emit("end", indent)
        else:
            p.emit("[1, 2].each do |e%d|" % len(p.lines), indent)
            site(p.emit(text, indent + 1), names)
            p.emit("end", indent)
    p.emit("1", indent)


def gen_program(r):
    p = Prog(r)
    for _ in range(r.randint(1, 2)):
        name, ar = p.fresh("fn"), r.choice([0, 1, 2])
        p.emit("def %s%s" % (name, "(%s)" % ", ".join("a%d" % i for i in range(ar)) if ar else ""), 0)
        body(p, (None, None), 1, (name, None))
        p.emit("end", 0)
        p.funcs.append((name, ar))
    for ci in range(r.randint(1, 3)):
        cname = "Kl%d" % ci
        parent = r.choice([c["name"] for c in p.classes]) if p.classes and r.random() < 0.5 else None
        c = {"name": cname, "parent": parent, "inst": [], "static": []}
        p.classes.append(c)
        p.emit("class %s%s" % (cname, " < %s" % parent if parent else ""), 0)
        for _ in range(r.randint(1, 3)):
            static = r.random() < 0.35
            name, ar = p.fresh("cm" if static else "im"), r.choice([0, 1, 2])
            p.emit("def %s%s%s" % ("self." if static else "", name, "(%s)" % ", ".join("a%d" % i for i in range(ar)) if ar else ""), 1)
            body(p, (cname, "static" if static else "inst"), 2, (name, cname))
            p.emit("end", 1)
            (c["static"] if static else c["inst"]).append((name, ar))
        p.emit("end", 0)
    # top-level uses, explicit receivers
    for c in p.classes:
        p.emit("o_%s = %s.new" % (c["name"].lower(), c["name"]), 0)
        chain = [c["name"]] + ancestors(p, c["name"])
        for k in chain:
            for m, ar in next(x for x in p.classes if x["name"] == k)["inst"]:
                if r.random() < 0.6:
                    row = p.emit("o_%s.%s(%s)" % (c["name"].lower(), m, ", ".join(["1"] * ar)), 0)
                    p.sites.append((row, m, None, None))
    body(p, (None, None), 0, (None, None))
    return "\n".join(p.lines) + "\n", p
