"""Generated block calls over arrays, hashes, ranges, strings and integers, with the type every dbtp must print."""

# receiver text, method, declared parameter types as rendered
CALLS = [
    ("[1, 2]", "each", ["Integer"]), ('[1, "s"]', "each", ["Union<Integer String>"]), ('["a", "b"]', "each", ["String"]),
    ("[1, 2]", "each_with_index", ["Integer", "Integer"]), ('[1.5, "s"]', "each_with_index", ["Union<Float String>", "Integer"]),
    ("[1, 2]", "each_index", ["Integer"]), ("(1..3)", "each", ["Integer"]), ('"ab"', "each_char", ["String"]),
    ('"ab"', "each_byte", ["Integer"]), ("3", "times", ["Integer"]), ('{a: 1, b: "s"}', "each", ["untyped", "Union<Integer String>"]),
    ("{a: 1.5}", "each", ["untyped", "Float"]), ('[[1, "a"], [2, "b"]]', "each", ["Integer", "String"]),
    ('{a: 1}.merge({b: "s"})', None, ["Symbol", "Integer", "String"]),            # a dynamic strategy (Hash#merge)
    ("[]", "each", ["untyped"]), ("[Zk.new, Zk.new]", "each", ["Zk"]), ("{n: 1}", "each_with_index", ["Integer", "Integer"]),
    ("ur0", "each", ["Integer"]),                                                  # a union receiver: Array or Range
    ("ur1", "each", ["Union<Integer Float>"]),                                     # Range or Array<Float>
    ("ur2", "each_with_index", ["Union<String Symbol>", "Integer"]),               # Array<String> or Array<Symbol>: not a union receiver for ti
    ("ur3", "each", ["Union<untyped Integer>", "Union<Float NilClass>"]),         # Hash (key untyped, value) or Array: surplus is nil per variant
    ("ur4", "each", ["Union<Float untyped>", "Union<NilClass String>"]),          # the same with the Array first
]
VALS = [("1", "Integer"), ('"s"', "String"), ("1.5", "Float"), (":a", "Symbol")]


class Gen:
    def __init__(self, r):
        self.r = r
        self.lines = []
        self.expect = []
        self.n = 0

    def fresh(self, stem):
        self.n += 1
        return "%s%d" % (stem, self.n)

    def emit(self, text, indent):
        self.lines.append("  " * indent + text)

    def probe(self, var, t, indent, note):
        self.emit("dbtp %s" % var, indent)
        self.expect.append((len(self.lines), t, note))

    def block(self, env, indent, depth):
        """env: {var: type} visible here; returns nothing (a block leaves env as it found it, except assignments to
        variables that exist outside)"""
        r = self.r
        recv, meth, decl = r.choice(CALLS)
        nparams = r.choice([0, 1, 1, 2, 2, 3])
        params = []
        for i in range(nparams):
            if env and r.random() < 0.3 and not recv.startswith("ur"):
                cand = [v for v in env if v not in params]
                if cand:
                    params.append(r.choice(sorted(cand)))      # shadows an outer variable
                    continue
            params.append(self.fresh("p"))
        if recv.startswith("[[") and nparams == 1:
            decl = ["Array<Integer String>"]            # one parameter takes the pair itself
        braces = r.random() < 0.3 and depth == 0
        head = "%s%s %s%s" % (recv, "." + meth if meth else "", "{" if braces else "do", " |%s|" % ", ".join(params) if params else "")
        self.emit(head, indent)
        inner = dict(env)
        for i, p in enumerate(params):
            inner[p] = decl[i] if i < len(decl) else "NilClass"
        for p in params:
            self.probe(p, inner[p], indent + 1, "parameter of a union receiver" if recv.startswith("ur") else "parameter")
        locals_ = []
        for _ in range(r.randint(0, 2)):
            v = self.fresh("loc")
            txt, t = r.choice(VALS)
            self.emit("%s = %s" % (v, txt), indent + 1)
            inner[v] = t
            locals_.append(v)
            self.probe(v, t, indent + 1, "block local inside")
        if depth < 2 and r.random() < 0.5:
            self.block(inner, indent + 1, depth + 1)
            for v in sorted(inner):
                if v in locals_ or v in params:
                    self.probe(v, inner[v], indent + 1, "after nested block")
        if r.random() < 0.3 and locals_:
            v = self.fresh("loc")
            self.emit("%s = 1" % v, indent + 1)
            locals_.append(v)
        self.emit("}" if braces else "end", indent)
        for v in sorted(env):
            self.probe(v, env[v], indent, "outer variable after block")
        for v in locals_:
            self.probe(v, "Unknown", indent, "block local after block")


def gen_program(r):
    g = Gen(r)
    g.emit("class Zk", 0)
    g.emit("end", 0)
    env = {}
    for _ in range(r.randint(0, 2)):
        v = g.fresh("x")
        txt, t = r.choice(VALS)
        g.emit("%s = %s" % (v, txt), 0)
        env[v] = t
    g.emit("cu0 = true", 0)
    g.emit("ur0 = cu0 ? [1, 2] : (1..3)", 0)
    g.emit("ur1 = cu0 ? (1..3) : [1.5]", 0)
    g.emit('ur2 = cu0 ? ["a"] : [:b]', 0)
    g.emit("ur3 = cu0 ? {a: 1.5} : [1]", 0)
    g.emit('ur4 = cu0 ? [1.5, 2.5] : {a: "s"}', 0)
    if r.random() < 0.5:
        g.emit('w0 = "warm".upcase', 0)          # an ordinary call resolved earlier in the file
        env["w0"] = "String"
    for _ in range(r.randint(1, 3)):
        g.block(env, 0, 0)
    return "\n".join(g.lines) + "\n", g.expect
