"""Generated class hierarchies with a completion query, and an independent oracle (Ruby's method lookup) for
which of the generated methods the receiver can answer."""

VIS = ["public", "private", "protected"]


class World:
    def __init__(self):
        self.modules = []   # {name, inst:[names], static:[names]}
        self.classes = []   # {name, ns, parent, includes, extends, inst:[(name, vis)], static:[names]}
        self.counter = 0

    def fresh(self, stem):
        self.counter += 1
        return "zq%d_%s" % (self.counter, stem)


def gen_world(r, nmod=None, ncls=None):
    w = World()
    for i in range(nmod if nmod is not None else r.randint(1, 3)):
        w.modules.append({"name": "Mod%d" % i, "inst": [w.fresh("mi") for _ in range(r.randint(1, 2))],
                          "static": [w.fresh("ms") for _ in range(r.choice([0, 0, 1]))]})
    for i in range(ncls if ncls is not None else r.randint(2, 5)):
        parent = r.choice(w.classes)["name"] if w.classes and r.random() < 0.6 else None
        mods = [m["name"] for m in w.modules]
        inc = r.sample(mods, r.choice([0, 0, 1, 1, 2]) if len(mods) > 1 else r.choice([0, 1]))
        ext = r.sample(mods, r.choice([0, 0, 0, 1]))
        inst = []
        for _ in range(r.randint(1, 3)):
            inst.append((w.fresh("i"), "public"))
        if r.random() < 0.6:
            for _ in range(r.choice([1, 1, 2, 3])):
                inst.append((w.fresh("pv"), "private"))
        if r.random() < 0.3:
            inst.append((w.fresh("pt"), "protected"))
        if r.random() < 0.25:
            inc = inc + ["Enumerable"]          # a configured module
        w.classes.append({"name": "Cls%d" % i, "parent": parent, "includes": inc, "extends": ext, "inst": inst,
                          "ext_first": r.random() < 0.5,
                          # how the private methods are made private: a section, `private def m`, `private :m`
                          "vis_style": r.choice(["sections", "sections", "private_def", "private_sym"]),
                          "static": [w.fresh("s") for _ in range(r.choice([0, 1, 1, 2]))]})
    return w


def render_instance_methods(c):
    """the instance methods of a class body; the private ones by a section, by `private def m` or by `private :m`
    (in the last two styles the definitions that follow stay public)"""
    lines = []
    style = c.get("vis_style", "sections")
    privs = [n for n, v in c["inst"] if v == "private"]
    if style == "private_def":
        for n in privs:
            lines += ["  private def %s" % n, "    1", "  end"]
    elif style == "private_sym" and privs:
        for n in privs:
            lines += ["  def %s" % n, "    1", "  end"]
        lines.append("  private " + ", ".join(":" + n for n in privs))
    for vis in VIS:
        ms = [n for n, v in c["inst"] if v == vis]
        if not ms or (vis == "private" and style != "sections"):
            continue
        if vis != "public":
            lines.append("  " + vis)
        for n in ms:
            lines += ["  def %s" % n, "    1", "  end"]
    return lines


def render_world(w, query_class=None, query_kind=None, query_text=None):
    """Source lines.  query_kind in {None, 'inst_body', 'static_body'} puts query_text as the body of a fresh
    method of query_class (defined last in that class)."""
    lines = []
    for m in w.modules:
        lines.append("module %s" % m["name"])
        for n in m["inst"]:
            lines += ["  def %s" % n, "    1", "  end"]
        for n in m["static"]:
            lines += ["  def self.%s" % n, "    1", "  end"]
        lines.append("end")
    qrow = None
    for c in w.classes:
        lines.append("class %s%s" % (c["name"], " < %s" % c["parent"] if c["parent"] else ""))
        mix = [("extend", x) for x in c["extends"]] + [("include", x) for x in c["includes"]]
        if not c.get("ext_first"):
            mix = mix[len(c["extends"]):] + mix[:len(c["extends"])]
        for kw, x in mix:
            lines.append("  %s %s" % (kw, x))
        for n in c["static"]:
            lines += ["  def self.%s" % n, "    1", "  end"]
        lines += render_instance_methods(c)
        if query_class == c["name"] and query_kind:
            lines.append("  public")
            lines.append("  def %sqmeth" % ("self." if query_kind == "static_body" else ""))
            lines.append("    " + query_text)
            qrow = len(lines)
            lines.append("  end")
        lines.append("end")
    return lines, qrow


def cls(w, name):
    return next(c for c in w.classes if c["name"] == name)


CONFIGURED = {"Enumerable": {"name": "Enumerable", "inst": ["collect", "each_with_index"], "static": []}}


def mod(w, name):
    if name in CONFIGURED:
        return CONFIGURED[name]
    return next(m for m in w.modules if m["name"] == name)


def superchain(w, name):
    out = []
    while name:
        out.append(name)
        name = cls(w, name)["parent"]
    return out


def all_names(w):
    s = set()
    for m in w.modules:
        s.update(m["inst"]); s.update(m["static"])
    for c in w.classes:
        s.update(n for n, _ in c["inst"]); s.update(c["static"])
    s.update(["collect", "each_with_index"])
    return s


def oracle(w, cname, kind):
    """(must, may): generated method names that must be listed, and those that may be (don't-care).
    kind: 'instance' (explicit instance receiver, outside the class), 'class' (the class itself),
          'implicit_inst' / 'implicit_static' (bare identifier inside a method of the class)."""
    must, may = set(), set()
    chain = superchain(w, cname)
    if kind in ("instance", "implicit_inst"):
        for k in chain:
            c = cls(w, k)
            for n, v in c["inst"]:
                if v == "public":
                    must.add(n)
                elif v == "protected":
                    (must if kind == "implicit_inst" and k == cname else may).add(n)
                else:   # private
                    if kind == "implicit_inst":
                        (must if k == cname else may).add(n)
            for mname in c["includes"]:
                must.update(mod(w, mname)["inst"])
        if kind == "implicit_inst":
            may.add("qmeth")
    else:
        for k in chain:
            c = cls(w, k)
            must.update(c["static"])
            for mname in c["extends"]:
                must.update(mod(w, mname)["inst"])
        if kind == "implicit_static":
            may.add("qmeth")
    return must, may
