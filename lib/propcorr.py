"""Correspondence for propagationForCalledTo on a parameter of a user-defined method (Model/Propagate.v): one parameter,
an initial table entry (absent, or a type with flags and a Round tag), 1-4 call sites evaluated in one round; after every
call the error kind, the parameter's type and its Round tag are compared with the model (vm_compute)."""
import json

from lib import common as C
from lib import corr
from lib import tygen as G
from lib.flow import Failure

ROUNDS = ["define", "collect", "inference", "check"]
ARGS = [G.INT_LIT, lambda: G.STRING("s"), G.FLOAT_LIT, lambda: G.SYMBOL(":a"), G.BOOL, G.NIL, lambda: G.OBJECT("K"), lambda: G.OBJECT("L"),
        G.UNTYPED, lambda: G.UNION([G.INT_LIT(), G.STRING("s")]), lambda: G.ARRAY([G.INT_LIT()])]

DEFS = '''
Definition ekind_of (accepted : bool) (old : option pentry) (a : ty) : bool :=
  if accepted then true else match old with Some (dt, _) => check_arg_type fixed_args dt a | None => true end.
Fixpoint prun (bm : bool) (round : string) (e : option pentry) (calls : list ty) (exp : list (bool * option (ty * string))) : bool :=
  match calls, exp with
  | [], [] => true
  | a :: cs, (ok, ee) :: es =>
      let '(acc, e') := propagate fixed_prop bm round e a in
      Bool.eqb (ekind_of acc e a) ok &&
      match e', ee with
      | Some (t1, r1), Some (t2, r2) => ty_eqb t1 t2 && String.eqb r1 r2
      | None, None => true
      | _, _ => false
      end && prun bm round e' cs es
  | _, _ => false end.
'''


def gen_entry(r):
    k = r.random()
    if k < 0.2:
        return None, ""
    if k < 0.55:
        t = r.choice(ARGS[:8])()
    elif k < 0.8:
        t = G.UNION([f() for f in r.sample(ARGS[:8], 2)])
    elif k < 0.9:
        t = G.UNION([G.UNTYPED(), r.choice(ARGS[:8])()])
    else:
        t = G.UNION([f() for f in r.sample(ARGS[:8], 3)])
    t = G.with_flags(t, inf=r.random() < 0.6, hd=r.random() < 0.25)
    return t, r.choice(["", "", "define", "collect", "inference", "check"])


def part_propagate(ctx, part):
    r = ctx.rng("propagate")
    cases = []
    for _ in range(ctx.n(400, 4000)):
        t, dr = gen_entry(r)
        rnd = r.choice(ROUNDS)
        calls = [[r.choice(ARGS)()] for _ in range(r.choice([1, 2, 2, 3, 4]))]
        spec = {"frame": "", "dargs": ["p0"], "params": ({"p0": t} if t is not None else {}), "ret": G.INT_ANY(), "calls": calls,
                "round": rnd, "static": False, "param_rounds": ({"p0": dr} if t is not None else {})}
        cases.append((spec, t, dr, rnd, calls))
    outs = C.vh_batch([{"op": "check_args", "spec": c[0]} for c in cases])
    terms, kept = [], []
    for (spec, t, dr, rnd, calls), o in zip(cases, outs):
        part.evaluations += 1
        if "panic" in o:
            part.failures.append(Failure("check_args_panic", "checkAndPropagateArgs panics: %s" % o["panic"][:200], {"spec": spec}))
            continue
        if "rounds" not in o or o["rounds"] is None:
            part.notes.append("the harness does not report Round tags (hook without param_rounds)")
            part.mismatches.append({"fn": "VerifCheckArgs", "detail": "no `rounds` in the answer"})
            return
        part.count("entry=" + ("absent" if t is None else "union" if t["tag"] == 265 else "single"))
        part.count("round_tag=" + ("same" if dr == rnd else "none" if dr == "" else "other"))
        if len(calls) > 1 or (t is not None and dr not in ("", rnd)):
            part.nontrivial.add(json.dumps([t, dr, rnd, calls], sort_keys=True))
        exp = []
        for e, p, rr in zip(o["errors"], o["params"], o["rounds"]):
            ent = "None" if "p0" not in p else "(Some (%s, %s))" % (C.coq_ty(p["p0"]), C.coq_str(rr.get("p0", "")))
            exp.append("(%s, %s)" % (C.coq_bool(e == ""), ent))
            part.count("accepted" if e == "" else "reported")
        entry = "None" if t is None else "(Some (%s, %s))" % (C.coq_ty(t), C.coq_str(dr))
        terms.append("(%s, %s, %s, %s)" % (C.coq_str(rnd), entry, C.coq_list([C.coq_ty(c[0]) for c in calls]), C.coq_list(exp)))
        kept.append((spec, o))
        part.sample({"entry": None if t is None else G_brief(t), "entry_round": dr, "round": rnd, "args": [G_brief(c[0]) for c in calls],
                     "errors": o["errors"]})
    bad = corr.coq_mismatches(["Model.Propagate"], "string * option pentry * list ty * list (bool * option (ty * string))",
                              "fun c => let '(rnd, e, calls, exp) := c in prun false rnd e calls exp", terms, defs=DEFS, chunk=150)
    for i in bad:
        spec, o = kept[i]
        part.mismatches.append({"fn": "propagationForCalledTo", "spec": spec, "impl": o})
    part.agreed += len(terms) - len(bad)


def G_brief(t):
    if t["tag"] == 265:
        return "Union<%s>%s" % (" ".join(v["cls"] for v in t.get("vars", [])), "".join(k for k in ("inf", "hd") if t.get(k)))
    return t["cls"] + "".join(k for k in ("inf", "hd") if t.get(k))
