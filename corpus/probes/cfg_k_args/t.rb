k = K.new
l = L.new
k.req1
k.req1(1)
k.req1(1, 2)
k.req1("s")
k.opt(1)
k.opt(1, 2)
k.opt(1, 2, 3)
k.opt
k.rest
k.rest(1, 2, 3)
k.rest(1, "s")
k.kw(a: 1)
k.kw(b: "s")
k.kw(b: "s", a: 1)
k.kw(a: 1, c: 2)
k.kw(1)
u = k ? 1 : "s"
k.un(u)
k.un(1.5)
k.ob(l)
k.ob(k)
k.ob(nil)
k.ob(1)
dbtp k.un(1)
dbtp k.ob(k)
k.nope
