a = 1
s = "x"
f = 1.5
arr = [1, 2]
dbtp a + 1
dbtp a + f
dbtp s + "y"
dbtp s.length
dbtp s.upcase.length
dbtp arr.first
dbtp arr.push("s")
dbtp arr
dbtp [1, "a", :b, nil, 1.5, true]
dbtp arr.map { |x| x.to_s }
h = {a: 1, "b" => "s"}
dbtp h[:a]
dbtp h["b"]
dbtp h[:zz]
dbtp h.keys
dbtp h.values
u = a ? s : nil
dbtp u
dbtp u.to_s
dbtp (a ? 1 : 2)
dbtp a.to_s.to_sym
dbtp s.to_i + a
dbtp arr.length.to_s
dbtp s.split(",")
dbtp s.split(",").first
dbtp a.times
dbtp a == 1
dbtp !a
dbtp a.nil?
dbtp arr << 2.5
dbtp arr[0]
dbtp s[0]
x = y = 3
dbtp x
dbtp 1..2
dbtp :sym
dbtp nil
dbtp true
