a = [1]
a.replace
