class A < B
end
class B < A
end
A.new.foo
