k = K.new
dbtp k.m
c = true
u = c ? K.new : L.new
dbtp u.m
dbtp k.m
