def helper(x)
  x + 1
end




zz = 5
