y = helper(2)
dbtp y
"s".nope
