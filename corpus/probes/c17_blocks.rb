a = [1, "s"]
x = 1.5
a.each do |x|
  dbtp x
  t = 1
end
dbtp x
dbtp t
a.each_with_index { |v, i, z| dbtp i; dbtp z }
h = {k: 1}
h.each do |k, v|
  dbtp k
  dbtp v
end
"abc".each_char { |c| dbtp c }
(1..3).each { |n| dbtp n }
