p1 = P.new
q = Q.new
dbtp p1.pm
dbtp q.pm("s")
dbtp p1.pm("s")
