k = K.new
k.q1
k.q2
k.q1(1)
k.q2(1)
k.s1(1, 2)
k.s2(1, 2)
dbtp k.r1
dbtp k.r2
dbtp k.a1
dbtp k.a2
k.
