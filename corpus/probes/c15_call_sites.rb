def f(x)
  dbtp x
  x
end
def g(y)
  dbtp y
  y + 1
end
f(1)
f("s")
r = f(2.5)
dbtp r
g(1)
g("s")
def h(z = 1)
  dbtp z
  return "a" if z
  2
end
dbtp h
dbtp h("q")
