module M
  class A
    def foo
      1
    end
  end
end
class B
  def foo
    1
  end
end
a = M::A.new
b = B.new
dbtp a.foo
dbtp b.foo
dbtp b.nil?
dbtp a.nil?
dbtp a.to_s
