def x.y
end
