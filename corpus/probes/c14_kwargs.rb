def f(a:, b: 2, c:)
  dbtp a
  dbtp c
end
f(a: 1, c: "s")
f(c: "s", a: 1)
f(c: "s", b: 3, a: 1)
f(b: 3)
f(d: 1, a: 2, c: 3)
