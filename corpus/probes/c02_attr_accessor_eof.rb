class A
  attr_accessor :a