x = 1
1.nope