class Foo
  def bar(x)
    x + 1
  end
end
f = Foo.new
dbtp f.bar(1)
f.baz
