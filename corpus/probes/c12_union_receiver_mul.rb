x = 1 ? "a" : 1
q = 2
w = 3
r = x * q
dbtp r
z = 2 * w
dbtp z
