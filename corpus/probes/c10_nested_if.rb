x = 1 ? nil : "s"
y = 1 ? 1 : "t"
if x.nil?
  dbtp x
  if y.is_a?(String)
    dbtp y
  end
  dbtp x
else
  dbtp x
end
dbtp x
dbtp y
