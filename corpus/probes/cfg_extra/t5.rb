class Widget
  def hello
    1
  end
end
class Gadget < Widget
end
dbtp Gadget.new.hello
module Ns
  class Widget
    def other
      "s"
    end
  end
end
dbtp Ns::Widget.new.other
