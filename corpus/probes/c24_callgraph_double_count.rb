def ok(v)
  true
end
def caller1
  if ok(1)
    ok(2)
  end
  x = ok(3) ? 1 : 2
  [1].each { |q| ok(q) }
end
ok(4)
caller1
