class Base
  def hello
    1
  end
end
class Kid < Base
end
class Base2
  def hello
    1
  end
end
class Kid2 < Base2
end
dbtp Kid.new.hello
dbtp Kid2.new.hello
k = Kid.new
k2 = Kid2.new
dbtp k.hello
dbtp k2.hello
