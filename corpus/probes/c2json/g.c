static mrb_value
f_req_opt(mrb_state *mrb, mrb_value self)
{
  mrb_int a, b;
  mrb_get_args(mrb, "i|i", &a, &b);
  return mrb_fixnum_value(a);
}

static mrb_value
f_blk(mrb_state *mrb, mrb_value self)
{
  return mrb_nil_value();
}

static mrb_value
f_rest(mrb_state *mrb, mrb_value self)
{
  return mrb_nil_value();
}

void mrb_init(mrb_state *mrb) {
  struct RClass *c = mrb_define_class(mrb, "Gx", mrb->object_class);
  mrb_define_method(mrb, c, "req_opt", f_req_opt, MRB_ARGS_REQ(1)|MRB_ARGS_OPT(1));
  mrb_define_method(mrb, c, "blk", f_blk, MRB_ARGS_REQ(1)|MRB_ARGS_BLOCK());
  mrb_define_method(mrb, c, "rest", f_rest, MRB_ARGS_REQ(1)|MRB_ARGS_REST());
}
