class Animal
  def initialize(name)
    @name = name
  end

  def speak(times)
    "x" * times
  end

  def self.create
    Animal.new("a")
  end

  private

  def secret
    1
  end
end

class Dog < Animal
  def bark
    speak(2)
  end
end

d = Dog.new("x")
d.bark
d.speak(3)
a = Animal.create
a.
