c = 1
x = c ? nil : (c ? "s" : 1)
dbtp x
if x.is_a?(String)
  dbtp x
elsif x.nil?
  dbtp x
else
  dbtp x
end
dbtp x
unless x.nil?
  dbtp x
else
  dbtp x
end
dbtp x
y = c ? nil : "t"
if !x.nil? && y.is_a?(String)
  dbtp x
  dbtp y
else
  dbtp x
  dbtp y
end
dbtp x
dbtp y
if x.nil?
  x = 5
end
dbtp x
