x = 5
[1, 2].each { |v| dbtp v }
dbtp x
