a = 1
`ls`
1.nope
