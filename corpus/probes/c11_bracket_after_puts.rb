x = 5
puts x
[1, 2].each { |v| dbtp v }
dbtp x
