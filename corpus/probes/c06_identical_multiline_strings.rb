a = "x
y"
b = "x
y"
1.nope
