class A
  def pub1
    1
  end

  private

  def priv1
    1
  end

  class << self
    def cm1
      1
    end

    private

    def cm2
      1
    end
  end

  def after1
    1
  end

  public

  def pub2
    1
  end

  protected

  def prot1
    1
  end
end

class B
  def b1
    1
  end
end
