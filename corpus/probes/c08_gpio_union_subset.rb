a = 1
b = "s"
c = [1, "x"]
h = {k: 1, j: "s"}
dbtp a
dbtp b
dbtp c
dbtp h
dbtp h[:k]
dbtp c[0]
x = a ? 1 : "s"
dbtp x
y = x.to_s
dbtp y
a.upcase
b.upcase(1)
b + 1
1 + "s"
z = 2 * a
dbtp z
q = GPIO.new(x, 1)
dbtp q
