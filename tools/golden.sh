#!/bin/bash
# Regression guard used before every `fix:` commit: the 585 golden programs with ti built,
# then the pinned baseline (ti absent).  The binary is always removed afterwards.
set -u
export GOFLAGS=-mod=mod GOPROXY=off
cd /repo || exit 2
trap 'rm -f /repo/ti' EXIT
go build -o /repo/ti . || { echo "BUILD FAILED"; exit 2; }
go test ./test/... -count=1 -vet=off -parallel 4 -json 2>/dev/null > /tmp/golden.$$.json
python3 - /tmp/golden.$$.json <<'PY'
import json,sys
p=f=0; failed=[]
for l in open(sys.argv[1]):
    try: e=json.loads(l)
    except: continue
    if e.get("Test") and e.get("Action") in ("pass","fail"):
        if e["Action"]=="pass": p+=1
        else: f+=1; failed.append(e["Test"])
import subprocess
still=[]
if failed:
    # the 500 ms watchdog fires spuriously under load: a failing test is re-run alone before it counts
    for t in failed:
        r=subprocess.run(["go","test","./test/...","-count=1","-vet=off","-parallel","1","-run","^%s$"%t],cwd="/repo",stdout=subprocess.PIPE,stderr=subprocess.STDOUT)
        if r.returncode!=0: still.append(t)
    p+=len(failed)-len(still); f=len(still)
print("golden(with ti): pass=%d fail=%d %s"%(p,f,still[:10]))
PY
rm -f /repo/ti /tmp/golden.$$.json
go test ./... -count=1 -vet=off -json 2>/dev/null > /tmp/base.$$.json
python3 - /tmp/base.$$.json <<'PY'
import json,sys
base=set(json.load(open('/root/.vp/BASELINE.json'))['stable_pass'])
ok=set()
for l in open(sys.argv[1]):
    try: e=json.loads(l)
    except: continue
    if e.get("Test") and e.get("Action")=="pass": ok.add(e["Package"]+"::"+e["Test"])
missing=sorted(base-ok)
print("baseline(no ti): %d/%d pinned tests pass %s"%(len(base&ok),len(base),missing[:5]))
sys.exit(1 if missing else 0)
PY
rc=$?
rm -f /tmp/base.$$.json
exit $rc
