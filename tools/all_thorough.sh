#!/bin/bash
cd /verif
out=build/thorough.tsv; : > $out
for p in C21 C26 C25 C16 C27 C17 C10 C09 C15 C22 C24 C12 C23 C13 C11 C14 C07 C08 C19 C20 C18 C06 C03 C02 C01 C05 C04; do
  s=$(date +%s)
  res=$(./check $p --tier thorough 2>&1 | grep -E "^(OK|VIOLATION)" | tail -1 | cut -c1-140)
  e=$(date +%s)
  echo -e "$p\t$((e-s))s\t$res" >> $out
  cp evidence/$p.json build/evidence_thorough_$p.json 2>/dev/null
  cp build/replay/${p}_thorough.json build/replay_keep_${p}_thorough.json 2>/dev/null
done
echo done >> $out
