#!/bin/bash
# Confirms a seeded change: applies cleanly, compiles, passes the pinned baseline and the 585 goldens (ti built),
# and its demo exits 0 on HEAD binaries and 1 on patched binaries.  Usage: verify_seeded.sh <dir with patch.diff demo.sh>
set -u
export GOFLAGS=-mod=mod GOPROXY=off
D=$(readlink -f "$1"); N=$(basename "$D")
W=/tmp/seedchk/$N; rm -rf "$W"; mkdir -p /tmp/seedchk
git -C /repo worktree add -q --detach "$W/src" HEAD || exit 2
trap 'git -C /repo worktree remove --force "$W/src" 2>/dev/null; rm -rf "$W"' EXIT
mkdir -p "$W/head" "$W/mut"
( cd "$W/src" && go build -o "$W/head/ti" . && go build -o "$W/head/ti-rbs2json" ./cmd/rbs2json && go build -o "$W/head/ti-c2json" ./cmd/c2json ) || { echo "$N: HEAD build failed"; exit 2; }
( cd "$W/src" && git apply "$D/patch.diff" ) || { echo "$N: PATCH DOES NOT APPLY"; exit 3; }
( cd "$W/src" && go build ./... && go build -tags verif ./... && go build -o "$W/mut/ti" . && go build -o "$W/mut/ti-rbs2json" ./cmd/rbs2json && go build -o "$W/mut/ti-c2json" ./cmd/c2json ) || { echo "$N: patched build failed"; exit 3; }
# baseline form (a): ti absent
BASE=$(cd "$W/src" && go test ./... -count=1 -vet=off -json 2>/dev/null | python3 -c "
import json,sys
base=set(json.load(open('/root/.vp/BASELINE.json'))['stable_pass']); ok=set()
for l in sys.stdin:
    try: e=json.loads(l)
    except: continue
    if e.get('Test') and e.get('Action')=='pass': ok.add(e['Package']+'::'+e['Test'])
print(len(base&ok))")
# form (b): ti built
cp "$W/mut/ti" "$W/src/ti"
GOLD=$(cd "$W/src" && go test ./test/... -count=1 -vet=off -parallel 4 -json 2>/dev/null | python3 -c "
import json,sys
p=f=0
for l in sys.stdin:
    try: e=json.loads(l)
    except: continue
    if e.get('Test') and e.get('Action')=='pass': p+=1
    if e.get('Test') and e.get('Action')=='fail': f+=1
print('%d/%d'%(p,p+f))")
rm -f "$W/src/ti"
sed "s#/tmp/mut/[A-Z0-9]*/test/.ti-config#/repo/test/.ti-config#g; s#/tmp/mut/[A-Z0-9]*/#/repo/#g" "$D/demo.sh" > "$W/demo.sh"; chmod +x "$W/demo.sh"
bash "$W/demo.sh" "$W/head" >/dev/null 2>&1; H=$?
bash "$W/demo.sh" "$W/mut" >/dev/null 2>&1; M=$?
echo "$N: baseline=$BASE/67 golden=$GOLD demo(head)=$H demo(mut)=$M"
