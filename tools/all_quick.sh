#!/bin/bash
# every quick check once, sequentially (the way `vp check` runs them); results in build/quick.tsv
cd /verif
out=build/quick.tsv; : > $out
./check prepare > /dev/null 2>&1
for p in C01 C02 C03 C04 C05 C06 C07 C08 C09 C10 C11 C12 C13 C14 C15 C16 C17 C18 C19 C20 C21 C22 C23 C24 C25 C26 C27; do
  s=$(date +%s)
  res=$(./check $p --tier quick 2>&1 | grep -E "^(OK|VIOLATION)" | tail -1 | cut -c1-160)
  e=$(date +%s)
  echo -e "$p\t$((e-s))s\t$res" >> $out
done
echo done >> $out
