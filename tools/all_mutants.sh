#!/bin/bash
# Applies every seeded change in turn (the ported patch when the original no longer applies), runs the quick check of
# its property and records the verdict in build/mutants.tsv
cd /verif
out=build/mutants.tsv; : > $out
for d in seeded/_incoming/*/ seeded/C*/; do
  [ -d "$d" ] || continue
  n=$(basename $d); prop=${n:0:3}
  [ -f "$d/patch.diff" ] || continue
  cd /repo; git checkout -q -- . ; git clean -fdq
  patchfile="$d/patch.diff"; [ -f "/verif/$d/patch_ported.diff" ] && patchfile="/verif/$d/patch_ported.diff"
  how=clean
  if ! git apply "/verif/${patchfile#/verif/}" 2>/dev/null; then
    if patch -p1 --fuzz=3 -s < "/verif/${patchfile#/verif/}" >/dev/null 2>&1; then how=fuzz; else how=noapply; fi
  fi
  find /repo -name '*.orig' -o -name '*.rej' | xargs -r rm -f
  cd /verif
  if [ $how = noapply ]; then echo -e "$n\t$prop\tnoapply\t-" >> $out; git -C /repo checkout -q -- .; continue; fi
  if ! (cd /repo && GOFLAGS=-mod=mod GOPROXY=off go build ./... >/dev/null 2>&1); then echo -e "$n\t$prop\t$how\tdoes-not-compile" >> $out; git -C /repo checkout -q -- .; continue; fi
  cp "evidence/$prop.json" "build/evidence_$prop.keep" 2>/dev/null
  res=$(./check $prop --tier quick 2>&1 | grep -E "^(OK|VIOLATION)" | tail -1 | cut -c1-120)
  [ -f "build/evidence_$prop.keep" ] && mv "build/evidence_$prop.keep" "evidence/$prop.json"
  echo -e "$n\t$prop\t$how\t$res" >> $out
  git -C /repo checkout -q -- . ; git -C /repo clean -fdq
done
./check prepare >/dev/null 2>&1
echo done >> $out
