#!/bin/bash
cd /verif
out=build/thorough_sel.tsv; : > $out
for p in "$@"; do
  s=$(date +%s)
  res=$(./check $p --tier thorough 2>&1 | grep -E "^(OK|VIOLATION)" | tail -1 | cut -c1-160)
  e=$(date +%s)
  echo -e "$p\t$((e-s))s\t$res" >> $out
  cp build/replay/${p}_thorough.json build/replay_keep_${p}_thorough.json 2>/dev/null
done
echo done >> $out
