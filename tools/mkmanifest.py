#!/usr/bin/env python3
"""Writes MANIFEST.json from props/*.py metadata (MANIFEST dict in each module)."""
import importlib
import json
import os
import sys

ROOT = os.path.dirname(os.path.dirname(os.path.abspath(__file__)))
sys.path.insert(0, ROOT)
ALL = ["C%02d" % i for i in range(1, 28)]

checks, na = [], []
for pid in ALL:
    p = os.path.join(ROOT, "props", pid.lower() + ".py")
    if not os.path.exists(p):
        na.append({"property_id": pid, "reason": "no check built yet for this property (machinery in progress; see DESIGN.md section 6 for the plan)"})
        continue
    mod = importlib.import_module("props." + pid.lower())
    m = getattr(mod, "MANIFEST")
    checks.append({
        "property_id": pid,
        "quick_cmd": "./check %s --tier quick" % pid,
        "thorough_cmd": "./check %s --tier thorough" % pid,
        "evidence_file": "/verif/evidence/%s.json" % pid,
        "replay_cmd_template": "./check %s --replay {path}" % pid,
        "engine": "coq-proof+correspondence",
        "level_claimed": {"category": "proof", "text": m["text"], "design_ref": "DESIGN.md section 6, %s" % pid},
        "level_note": m["note"],
        "technique": m["technique"],
    })

hooks = os.popen("git -C /repo log --format=%H --grep='^verif hooks' ").read().split()
man = {
    "version": 1,
    "setup_cmd": "./check prepare",
    "hooks": {
        "guard": "verif",
        "enable": "go build -tags verif (new files only, each starting with //go:build verif)",
        "baseline_off_cmd": "cd /repo && GOFLAGS=-mod=mod GOPROXY=off go test -json -vet=off -count=1 -timeout 25m ./...",
        "source_commits": hooks,
        "add_only": True,
    },
    "engines": [{
        "name": "coq-proof+correspondence", "path": "/verif/coq",
        "serves_properties": [c["property_id"] for c in checks],
        "kind_free_text": "Coq 8.16.1 theorems over hand-written Gallina models of ruby-ti's pure cores plus tables regenerated "
                          "from source (harness/cmd/gen); models tied to the code on every run by differential execution "
                          "(vm_compute inside coqc vs the real functions/binaries built from /repo with -tags verif)",
    }],
    "checks": checks,
    "notes": "Every check first runs the shared prepare step (rebuilds binaries/harness from /repo's working tree, regenerates "
             "coq/Generated.v, full make of the Coq project; cached by a hash of the working tree).",
    "not_applicable": na,
}
json.dump(man, open(os.path.join(ROOT, "MANIFEST.json"), "w"), indent=1)
print("checks:", len(checks), "not_applicable:", len(na))
