#!/bin/bash
# Independent re-check of the compiled development (thorough tier, once per tree): coqchk over every Properties module.
cd /verif/coq || exit 2
mods=$(ls Properties/*.v | sed 's#/#.#; s#\.v$##; s#^#RT.#' | tr '\n' ' ')
timeout 3000 coqchk -silent -o -Q . RT $mods 2>&1 | tail -40
