#!/bin/bash
# usage: tools/trymut.sh <seeded dir> <property id>...   — apply a seeded change to /repo, run the quick checks, undo.
d=$(readlink -f "$1"); shift
cd /repo || exit 2
if ! git diff --quiet; then echo "repo dirty"; exit 2; fi
pf="$d/patch.diff"; [ -f "$d/patch_ported.diff" ] && pf="$d/patch_ported.diff"   # the port to the repaired tree, when there is one
if ! git apply "$pf" 2>/dev/null; then
  if ! patch -p1 --fuzz=3 -s < "$pf"; then echo "PATCH-DOES-NOT-APPLY $d"; git checkout -- .; git clean -fdq -e ti; exit 3; fi
  echo "(applied with fuzz)"
fi
cd /verif
for p in "$@"; do
  # the evidence file must describe the unchanged tree: keep the clean one aside while the change is applied
  cp "evidence/$p.json" "build/evidence_$p.keep" 2>/dev/null
  ./check "$p" --tier quick 2>&1 | grep -E "^(OK|VIOLATION|KNOWN)" | cut -c1-220
  [ -f "build/evidence_$p.keep" ] && mv "build/evidence_$p.keep" "evidence/$p.json"
done
git -C /repo checkout -- . ; git -C /repo clean -fdq
./check prepare >/dev/null 2>&1
find /repo -name '*.orig' -o -name '*.rej' | xargs -r rm -f
