#!/usr/bin/env python3
"""Builds seeded/<id>/ from seeded/_incoming/<id>/ and the verdicts in build/mutants.tsv (later lines win)."""
import json
import os
import shutil
import subprocess
import sys

V = "/verif"
head = subprocess.run(["git", "-C", "/repo", "rev-parse", "--short", "HEAD"], capture_output=True, text=True).stdout.strip()
verdicts = {}
for f in ("build/mutants.tsv", "build/mutants_retest.tsv"):
    p = os.path.join(V, f)
    if os.path.exists(p):
        for l in open(p):
            parts = l.rstrip("\n").split("\t")
            if len(parts) == 4:
                verdicts[parts[0]] = parts
OBSOLETE = {
    "C05B": "no longer applies after the comparator repair (05d6d0f); ported by hand its effect is harmless: the property holds with it",
    "C20A": "neutralised by repair 9dffcb3 (own-class overloads): the property holds with it",
    "C04B": "neutralised by repair cc24199 (records are escaped onto one line): its demo holds on HEAD + patch",
}
inc = os.path.join(V, "seeded", "_incoming")
for n in sorted(os.listdir(inc)):
    src = os.path.join(inc, n)
    dst = os.path.join(V, "seeded", n)
    os.makedirs(dst, exist_ok=True)
    for f in ("patch.diff", "patch_ported.diff"):
        if os.path.exists(os.path.join(src, f)):
            shutil.copy(os.path.join(src, f), os.path.join(dst, f))
    demo = open(os.path.join(src, "demo.sh")).read().replace("/tmp/mut/%s/test/.ti-config" % n[:3], "/repo/test/.ti-config")
    open(os.path.join(dst, "demo.sh"), "w").write(demo)
    os.chmod(os.path.join(dst, "demo.sh"), 0o755)
    meta = json.load(open(os.path.join(src, "meta.json")))
    v = verdicts.get(n)
    out = {
        "id": n, "property": n[:3],
        "what_it_breaks": meta.get("what_it_breaks"), "needs_to_manifest": meta.get("needs_to_manifest"),
        "authored_by": "a sub-agent given only the property text and a scratch worktree (how_verified below is its own account)",
        "how_verified_by_author": meta.get("how_verified"),
        "files_changed": meta.get("files_changed"),
        "what_i_ran": "git -C /repo apply <patch> (patch_ported.diff when the original no longer applies to %s); ./check %s --tier quick; "
                      "git -C /repo checkout -- . ; ./check prepare" % (head, n[:3]),
    }
    if n in OBSOLETE:
        out["status"] = "obsolete"
        out["result"] = OBSOLETE[n]
    elif v is None:
        out["status"] = "not-run"
    else:
        how, res = v[2], v[3]
        out["applied"] = how
        out["check_output"] = res
        if res.startswith("VIOLATION") and "no-failing-input-found" in res:
            out["status"] = "caught (a proof or correspondence breaks; no concrete failing input found)"
        elif res.startswith("VIOLATION"):
            out["status"] = "caught (concrete failing input in the replay file)"
        elif res.startswith("OK"):
            out["status"] = "missed"
        else:
            out["status"] = res
    json.dump(out, open(os.path.join(dst, "meta.json"), "w"), indent=1)
print("wrote", len(os.listdir(inc)), "directories")
