(* C25 (continued): convertType terminates on every document — type aliases that name each other included *)
From RT Require Import Model.Rbs2Json.
From Coq Require Import Lia.

Fixpoint rsize (t : rtype) : nat :=
  let 'RT _ _ args inner types _ := t in
  S ((fix go (l : list rtype) : nat := match l with [] => 0 | x :: r => rsize x + go r end) args
     + match inner with Some i => rsize i | None => 0 end
     + (fix go (l : list rtype) : nat := match l with [] => 0 | x :: r => rsize x + go r end) types).
Fixpoint lsize (l : list rtype) : nat := match l with [] => 0 | x :: r => rsize x + lsize r end.
Fixpoint asize (al : list (string * rtype)) : nat := match al with [] => 0 | (_, v) :: r => rsize v + asize r end.

Lemma lsize_fix l : (fix go (l : list rtype) : nat := match l with [] => 0 | x :: r => rsize x + go r end) l = lsize l.
Proof. induction l as [|x r IH]; [reflexivity | cbn [lsize]; rewrite <- IH; reflexivity]. Qed.
Lemma rsize_eq c n args inner types lit :
  rsize (RT c n args inner types lit) = S (lsize args + match inner with Some i => rsize i | None => 0 end + lsize types).
Proof. cbn [rsize]. rewrite !lsize_fix. reflexivity. Qed.

Lemma alias_remove_size al k : asize (alias_remove al k) <= asize al.
Proof. induction al as [|[k' v] r IH]; cbn [alias_remove asize]; [lia|]. destruct (String.eqb k k'); cbn [asize]; lia. Qed.
Lemma alias_get_size al k r : alias_get al k = Some r -> rsize r + asize (alias_remove al k) <= asize al.
Proof.
  induction al as [|[k' v] t IH]; cbn [alias_get alias_remove asize]; [discriminate|].
  destruct (String.eqb k k').
  - intros H; inversion H; subst. pose proof (alias_remove_size t k). lia.
  - intros H. specialize (IH H). cbn [asize]. lia.
Qed.

Theorem convert_type_total f : forall al cname t, rsize t + asize al < f -> convert_type f al cname t <> None.
Proof.
  induction f as [|f IH]; intros al cname t Hf; [lia|].
  destruct t as [cls name args inner types lit]. rewrite rsize_eq in Hf. cbn [convert_type].
  repeat match goal with
         | |- (if ?c then _ else _) <> None => destruct c
         | |- Some _ <> None => discriminate
         end.
  - (* Array[T] *)
    destruct args as [|a r]; [discriminate|]. cbn [lsize] in Hf.
    pose proof (IH al cname a ltac:(lia)) as Ha. destruct (convert_type f al cname a) as [[|x [|y l]]|]; try discriminate. congruence.
  - (* optional *)
    destruct inner as [i|]; [|discriminate].
    pose proof (IH al cname i ltac:(lia)) as Hi. destruct (convert_type f al cname i); [discriminate | congruence].
  - (* union *)
    assert (G : forall l acc, lsize l + asize al < f -> acc <> None ->
                fold_left (fun acc ut => match acc, convert_type f al cname ut with
                                         | Some a, Some ts => Some (dedup_append a (if is_symbol_literal ut then map (fun _ => "Symbol"%string) ts else ts))
                                         | _, _ => None end) l acc <> None).
    { induction l as [|u r IHl]; intros acc Hl Hacc; cbn [fold_left]; [exact Hacc|]. cbn [lsize] in Hl.
      apply IHl; [lia|]. destruct acc as [a|]; [|congruence].
      pose proof (IH al cname u ltac:(lia)) as Hu. destruct (convert_type f al cname u); [discriminate | congruence]. }
    apply G; [lia | discriminate].
  - (* a declared alias *)
    destruct (alias_get al name) as [r|] eqn:Eg; [|discriminate].
    apply IH. pose proof (alias_get_size al name r Eg). lia.
  - (* intersection *)
    destruct types as [|x r]; [discriminate|]. cbn [lsize] in Hf. apply IH. lia.
Qed.
