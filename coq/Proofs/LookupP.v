(* C16: the ancestor walk of method lookup terminates on every inheritance map and only ever answers with a class
   or module that Ruby's lookup reaches *)
From RT Require Import Model.Lookup Proofs.SuggestP.
From Coq Require Import Lia.

Section P.
  Variables (has : node -> bool -> bool) (builtin : list string) (m : inh_map).

  Lemma first_found_total {A} (step : A -> list node -> option (option node * list node)) (k : nat) :
    (forall p uv, List.length uv <= k -> exists r uv', step p uv = Some (r, uv') /\ List.length uv' <= List.length uv) ->
    forall ps uv, List.length uv <= k -> exists r uv', first_found step ps uv = Some (r, uv') /\ List.length uv' <= List.length uv.
  Proof.
    intros Hs ps; induction ps as [|p r IH]; intros uv Hk; cbn [first_found].
    - exists None, uv; split; [reflexivity | lia].
    - destruct (Hs p uv Hk) as [res [uv' [E Hl]]]; rewrite E. destruct res as [x|].
      + exists (Some x), uv'; split; [reflexivity | exact Hl].
      + destruct (IH uv' ltac:(lia)) as [r2 [uv2 [E2 Hl2]]]. exists r2, uv2; split; [exact E2 | lia].
  Qed.

  Lemma plookup_total f : forall static uv n, List.length uv < f ->
    exists r uv', plookup has builtin f m static uv n = Some (r, uv') /\ List.length uv' <= List.length uv.
  Proof.
    induction f as [|f IH]; intros static uv n Hf; [lia|]. cbn [plookup].
    destruct (mem_fc n uv) eqn:Hm; cbn [negb]; [|exists None, uv; split; [reflexivity | lia]].
    pose proof (remove_length_lt _ _ Hm) as Hlt.
    match goal with |- context [first_found ?st _ _] =>
      destruct (first_found_total st (List.length (remove_fc n uv))) with (ps := parents_of m n) (uv := remove_fc n uv) as [r [uv' [E Hl]]] end.
    - intros p uv1 H1.
      assert (Hrec : forall st n', exists r uv', plookup has builtin f m st uv1 n' = Some (r, uv') /\ List.length uv' <= List.length uv1)
        by (intros; apply IH; lia).
      destruct (pn_extend p).
      + destruct (has (norm builtin (pn_node p)) false && static); [eexists _, uv1; split; [reflexivity | lia]|].
        destruct static; [apply Hrec | eexists _, uv1; split; [reflexivity | lia]].
      + destruct (pn_include p).
        * destruct (has (norm builtin (pn_node p)) false && negb static); [eexists _, uv1; split; [reflexivity | lia]|].
          destruct (negb static); [apply Hrec | eexists _, uv1; split; [reflexivity | lia]].
        * destruct (has (pn_node p) static); [eexists _, uv1; split; [reflexivity | lia] | apply Hrec].
    - apply le_n.
    - exists r, uv'; split; [exact E | lia].
  Qed.

  Lemma first_found_sound {A} (step : A -> list node -> option (option node * list node)) (P : A -> node -> Prop) :
    forall ps, (forall p uv x uv', In p ps -> step p uv = Some (Some x, uv') -> P p x) ->
    forall uv x uv', first_found step ps uv = Some (Some x, uv') -> exists p, In p ps /\ P p x.
  Proof.
    induction ps as [|p r IH]; intros Hs uv x uv'; cbn [first_found]; [discriminate|].
    destruct (step p uv) as [[[y|] uv1]|] eqn:E; [| |discriminate].
    - intros H; inversion H; subst. exists p. split; [left; reflexivity | eapply Hs; [left; reflexivity | exact E]].
    - intros H. destruct (IH (fun q a b c Hq => Hs q a b c (or_intror Hq)) _ _ _ H) as [q [Hq Pq]]. exists q; split; [right; exact Hq | exact Pq].
  Qed.

  Lemma plookup_sound f : forall static uv n x uv',
    plookup has builtin f m static uv n = Some (Some x, uv') -> answers has builtin m static n x.
  Proof.
    induction f as [|f IH]; intros static uv n x uv'; cbn [plookup]; [discriminate|].
    destruct (mem_fc n uv); cbn [negb]; [|discriminate].
    intros H. apply first_found_sound with (P := fun p x => In p (parents_of m n) /\ answers has builtin m static n x) in H.
    - destruct H as [p [_ [_ A]]]. exact A.
    - intros p uv1 y uv2 Hp Hs. split; [exact Hp|].
      destruct (pn_extend p) eqn:Ee.
      + destruct (has (norm builtin (pn_node p)) false && static) eqn:Eh.
        * inversion Hs; subst. apply andb_true_iff in Eh as [H1 H2]. subst static. apply a_extend; assumption.
        * destruct static; [|discriminate]. eapply a_extend_up; [exact Hp | exact Ee | exact (IH _ _ _ _ _ Hs)].
      + destruct (pn_include p) eqn:Ei.
        * destruct (has (norm builtin (pn_node p)) false && negb static) eqn:Eh.
          -- inversion Hs; subst. apply andb_true_iff in Eh as [H1 H2]. apply negb_true_iff in H2. subst static. apply a_include; assumption.
          -- destruct static; cbn [negb] in Hs; [discriminate|]. eapply a_include_up; [exact Hp | exact Ee | exact Ei | exact (IH _ _ _ _ _ Hs)].
        * destruct (has (pn_node p) static) eqn:Eh.
          -- inversion Hs; subst. apply a_super; assumption.
          -- eapply a_super_up; [exact Hp | exact Ee | exact Ei | exact (IH _ _ _ _ _ Hs)].
  Qed.
End P.
