(* C16: the ancestor walk of method lookup terminates on every inheritance map and only ever answers with a class
   or module that Ruby's lookup reaches *)
From RT Require Import Model.Lookup Proofs.SuggestP.
From Coq Require Import Lia.

Section P.
  Variables (has : node -> bool -> bool) (builtin : list string) (m : inh_map).

  Lemma first_found_total {A} (step : A -> list node -> option (option node * list node)) (k : nat) :
    (forall p uv, List.length uv <= k -> exists r uv', step p uv = Some (r, uv') /\ List.length uv' <= List.length uv) ->
    forall ps uv, List.length uv <= k -> exists r uv', first_found step ps uv = Some (r, uv') /\ List.length uv' <= List.length uv.
  Proof.
    intros Hs ps; induction ps as [|p r IH]; intros uv Hk; cbn [first_found].
    - exists None, uv; split; [reflexivity | lia].
    - destruct (Hs p uv Hk) as [res [uv' [E Hl]]]; rewrite E. destruct res as [x|].
      + exists (Some x), uv'; split; [reflexivity | exact Hl].
      + destruct (IH uv' ltac:(lia)) as [r2 [uv2 [E2 Hl2]]]. exists r2, uv2; split; [exact E2 | lia].
  Qed.

  Lemma plookup_total f : forall static uv n, List.length uv < f ->
    exists r uv', plookup has builtin f m static uv n = Some (r, uv') /\ List.length uv' <= List.length uv.
  Proof.
    induction f as [|f IH]; intros static uv n Hf; [lia|]. cbn [plookup].
    destruct (mem_fc n uv) eqn:Hm; cbn [negb]; [|exists None, uv; split; [reflexivity | lia]].
    pose proof (remove_length_lt _ _ Hm) as Hlt.
    destruct (first_found_total (lstep has builtin (plookup has builtin f m) static) (List.length (remove_fc n uv)))
      with (ps := parents_of m n) (uv := remove_fc n uv) as [r [uv' [E Hl]]].
    - intros p uv1 H1.
      assert (Hrec : forall st n', exists r uv', plookup has builtin f m st uv1 n' = Some (r, uv') /\ List.length uv' <= List.length uv1)
        by (intros; apply IH; lia).
      unfold lstep. destruct (pn_extend p).
      + destruct (has (norm builtin (pn_node p)) false && static); [eexists _, uv1; split; [reflexivity | lia]|].
        destruct static; [apply Hrec | eexists _, uv1; split; [reflexivity | lia]].
      + destruct (pn_include p).
        * destruct (has (norm builtin (pn_node p)) false && negb static); [eexists _, uv1; split; [reflexivity | lia]|].
          destruct (negb static); [apply Hrec | eexists _, uv1; split; [reflexivity | lia]].
        * destruct (has (pn_node p) static); [eexists _, uv1; split; [reflexivity | lia] | apply Hrec].
    - apply le_n.
    - exists r, uv'; split; [exact E | lia].
  Qed.

  Lemma first_found_sound {A} (step : A -> list node -> option (option node * list node)) (P : A -> node -> Prop) :
    forall ps, (forall p uv x uv', In p ps -> step p uv = Some (Some x, uv') -> P p x) ->
    forall uv x uv', first_found step ps uv = Some (Some x, uv') -> exists p, In p ps /\ P p x.
  Proof.
    induction ps as [|p r IH]; intros Hs uv x uv'; cbn [first_found]; [discriminate|].
    destruct (step p uv) as [[[y|] uv1]|] eqn:E; [| |discriminate].
    - intros H; inversion H; subst. exists p. split; [left; reflexivity | eapply Hs; [left; reflexivity | exact E]].
    - intros H. destruct (IH (fun q a b c Hq => Hs q a b c (or_intror Hq)) _ _ _ H) as [q [Hq Pq]]. exists q; split; [right; exact Hq | exact Pq].
  Qed.

  Lemma plookup_sound f : forall static uv n x uv',
    plookup has builtin f m static uv n = Some (Some x, uv') -> answers has builtin m static n x.
  Proof.
    induction f as [|f IH]; intros static uv n x uv'; cbn [plookup]; [discriminate|].
    destruct (mem_fc n uv); cbn [negb]; [|discriminate].
    intros H. apply first_found_sound with (P := fun p x => In p (parents_of m n) /\ answers has builtin m static n x) in H.
    - destruct H as [p [_ [_ A]]]. exact A.
    - intros p uv1 y uv2 Hp Hs. split; [exact Hp|]. unfold lstep in Hs.
      destruct (pn_extend p) eqn:Ee.
      + destruct (has (norm builtin (pn_node p)) false && static) eqn:Eh.
        * inversion Hs; subst. apply andb_true_iff in Eh as [H1 H2]. subst static. apply a_extend; assumption.
        * destruct static; [|discriminate]. eapply a_extend_up; [exact Hp | exact Ee | exact (IH _ _ _ _ _ Hs)].
      + destruct (pn_include p) eqn:Ei.
        * destruct (has (norm builtin (pn_node p)) false && negb static) eqn:Eh.
          -- inversion Hs; subst. apply andb_true_iff in Eh as [H1 H2]. apply negb_true_iff in H2. subst static. apply a_include; assumption.
          -- destruct static; cbn [negb] in Hs; [discriminate|]. eapply a_include_up; [exact Hp | exact Ee | exact Ei | exact (IH _ _ _ _ _ Hs)].
        * destruct (has (pn_node p) static) eqn:Eh.
          -- inversion Hs; subst. apply a_super; assumption.
          -- eapply a_super_up; [exact Hp | exact Ee | exact Ei | exact (IH _ _ _ _ _ Hs)].
  Qed.
End P.

(* ---------------------------------------------------------------- C27: a class elsewhere does not interfere *)
Section Decoy.
  Variables (has : node -> bool -> bool) (builtin : list string).

  Lemma parents_of_app m d x : ~ In x (map fst d) -> parents_of (m ++ d) x = parents_of m x.
  Proof.
    intros H. induction m as [|[k ps] r IH]; cbn [app parents_of].
    - induction d as [|[k ps] r IHd]; [reflexivity|]. cbn [parents_of]. cbn [map fst] in H.
      destruct (fc_eqb x k) eqn:E; [apply fc_eqb_eq in E; subst; exfalso; apply H; left; reflexivity|].
      apply IHd. intro Hc. apply H. right. exact Hc.
    - destruct (fc_eqb x k); [reflexivity | exact IH].
  Qed.

  Lemma first_found_ext {A} (s1 s2 : A -> list node -> option (option node * list node)) (Q : list node -> Prop) :
    (forall p uv, Q uv -> forall r uv', s1 p uv = Some (r, uv') -> Q uv') ->
    forall ps, (forall p uv, In p ps -> Q uv -> s1 p uv = s2 p uv) ->
    forall uv, Q uv -> first_found s1 ps uv = first_found s2 ps uv.
  Proof.
    intros HQ ps; induction ps as [|p r IH]; intros He uv Hq; cbn [first_found]; [reflexivity|].
    rewrite <- (He p uv (or_introl eq_refl) Hq).
    destruct (s1 p uv) as [[[x|] uv1]|] eqn:E; try reflexivity.
    apply IH; [intros q u Hq2 Hu; apply He; [right; exact Hq2 | exact Hu] | exact (HQ p uv Hq _ _ E)].
  Qed.

  Lemma first_found_uv_incl {A} (step : A -> list node -> option (option node * list node)) :
    (forall p uv r uv', step p uv = Some (r, uv') -> incl uv' uv) ->
    forall ps uv r uv', first_found step ps uv = Some (r, uv') -> incl uv' uv.
  Proof.
    intros Hs ps; induction ps as [|p q IH]; intros uv r uv'; cbn [first_found].
    - intros H; inversion H; subst. apply incl_refl.
    - destruct (step p uv) as [[[x|] uv1]|] eqn:E; [| |discriminate].
      + intros H; inversion H; subst. exact (Hs _ _ _ _ E).
      + intros H. eapply incl_tran; [exact (IH _ _ _ H) | exact (Hs _ _ _ _ E)].
  Qed.

  Lemma remove_incl n uv : incl (remove_fc n uv) uv.
  Proof. intros x Hx. apply mem_fc_in. apply mem_fc_in in Hx. rewrite mem_remove in Hx. apply andb_true_iff in Hx; tauto. Qed.

  Lemma lstep_incl rec static p uv1 r uv2 :
    (forall st u n r u', rec st u n = Some (r, u') -> incl u' u) ->
    lstep has builtin rec static p uv1 = Some (r, uv2) -> incl uv2 uv1.
  Proof.
    intros Hr. unfold lstep.
    destruct (pn_extend p).
    - destruct (has (norm builtin (pn_node p)) false && static); [intros E; inversion E; subst; apply incl_refl|].
      destruct static; [apply Hr | intros E; inversion E; subst; apply incl_refl].
    - destruct (pn_include p).
      + destruct (has (norm builtin (pn_node p)) false && negb static); [intros E; inversion E; subst; apply incl_refl|].
        destruct (negb static); [apply Hr | intros E; inversion E; subst; apply incl_refl].
      + destruct (has (pn_node p) static); [intros E; inversion E; subst; apply incl_refl | apply Hr].
  Qed.

  Lemma plookup_uv_incl m f : forall static uv n r uv', plookup has builtin f m static uv n = Some (r, uv') -> incl uv' uv.
  Proof.
    induction f as [|f IH]; intros static uv n r uv'; cbn [plookup]; [discriminate|].
    destruct (mem_fc n uv); cbn [negb]; [|intros H; inversion H; subst; apply incl_refl].
    intros H. eapply incl_tran; [|apply (remove_incl n uv)].
    eapply first_found_uv_incl; [|exact H].
    intros p uv1 r1 uv2. apply lstep_incl. exact IH.
  Qed.

  (* classes and edges registered under nodes that the walk cannot meet change nothing *)
  Theorem plookup_decoy m d f : forall static uv n,
    (forall x, In x uv -> ~ In x (map fst d)) ->
    plookup has builtin f (m ++ d) static uv n = plookup has builtin f m static uv n.
  Proof.
    induction f as [|f IH]; intros static uv n Hd; cbn [plookup]; [reflexivity|].
    destruct (mem_fc n uv) eqn:Hm; cbn [negb]; [|reflexivity].
    rewrite (parents_of_app m d n) by (apply Hd; apply mem_fc_in; exact Hm).
    apply first_found_ext with (Q := fun u => forall x, In x u -> ~ In x (map fst d)).
    - intros p u Hu r u' E x Hx. apply Hu.
      exact (lstep_incl _ _ _ _ _ _ (plookup_uv_incl (m ++ d) f) E x Hx).
    - intros p u _ Hu. unfold lstep.
      destruct (pn_extend p); [destruct (has (norm builtin (pn_node p)) false && static); [reflexivity|]; destruct static; [apply IH; exact Hu | reflexivity]|].
      destruct (pn_include p); [destruct (has (norm builtin (pn_node p)) false && negb static); [reflexivity|]; destruct (negb static); [apply IH; exact Hu | reflexivity]|].
      destruct (has (pn_node p) static); [reflexivity | apply IH; exact Hu].
    - intros x Hx. apply Hd. exact (remove_incl n uv x Hx).
  Qed.
End Decoy.
