(* C06 (token layer): the row the parser reports is one plus the line breaks consumed so far — a line break
   token adds one, a freshly lexed string literal adds the line breaks it contains, a replayed token adds nothing. *)
From RT Require Import Model.Lexer Model.Parser.
Open Scope Z_scope.

Section Rows.
  Variable is_uspace is_udigit is_uupper is_ulower : N -> bool.
  Variable V : lex_variant.
  Variable bc : list (list N).

  Definition breaks_of (r : read_result) (replayed : bool) : Z :=
    match r with
    | RTok (KPunct c) _ => if (N.eqb c ch_nl) && negb replayed then 1 else 0
    | RTok (KString s) _ => if replayed then 0 else count_nl s
    | _ => 0
    end.

  Lemma get_token_rows fuel p p' :
    get_token is_uspace is_udigit V fuel p = Some p' ->
    prow p' = prow p + (if pungot p then 0 else if (ptoken p' =? Z.of_N ch_nl) then 1 else 0) /\
    preplayed p' = pungot p.
  Proof.
    unfold get_token. destruct (pungot p) eqn:Eu.
    - intros H. inversion H. cbn. split; [lia|reflexivity].
    - destruct (advance is_uspace is_udigit V fuel (lx p)) as [[[|] l']|]; try discriminate.
      + destruct (tok l' =? Z.of_N ch_nl) eqn:E; intros H; inversion H; cbn [prow ptoken preplayed]; rewrite ?E; split; try reflexivity; lia.
      + intros H. inversion H. cbn [prow ptoken preplayed]. change (T_EOS =? Z.of_N ch_nl) with false. split; [lia|reflexivity].
  Qed.

  (* one Read: the reported row moves by exactly the line breaks the token stands for *)
  Theorem read_row_accounting fuel p r p' :
    parser_read is_uspace is_udigit is_uupper is_ulower V bc fuel p = Some (r, p') ->
    r <> RError ->
    prow p' = prow p + breaks_of r (pungot p).
  Proof.
    unfold parser_read. destruct (get_token is_uspace is_udigit V fuel p) as [p1|] eqn:Eg; [|discriminate].
    destruct (get_token_rows _ _ _ Eg) as [Hrow Hrep].
    destruct (ptoken p1 =? T_INT) eqn:E1.
    { destruct (val (lx p1)); intros H; inversion H; subst; intros Hne; try congruence; cbn [breaks_of finish prow].
      apply Z.eqb_eq in E1. rewrite E1 in Hrow. change (T_INT =? Z.of_N ch_nl) with false in Hrow. destruct (pungot p); lia. }
    destruct (ptoken p1 =? T_FLOAT) eqn:E2.
    { intros H; inversion H; subst; intros _; cbn [breaks_of finish prow].
      apply Z.eqb_eq in E2. rewrite E2 in Hrow. change (T_FLOAT =? Z.of_N ch_nl) with false in Hrow. destruct (pungot p); lia. }
    destruct (ptoken p1 =? T_STRING) eqn:E3.
    { apply Z.eqb_eq in E3. rewrite E3 in Hrow. change (T_STRING =? Z.of_N ch_nl) with false in Hrow.
      destruct (val (lx p1)); intros H; inversion H; subst; intros Hne; try congruence; cbn [breaks_of finish prow].
      rewrite Hrep. destruct (pungot p); lia. }
    destruct (ptoken p1 =? T_NIL) eqn:E4.
    { intros H; inversion H; subst; intros _; cbn [breaks_of finish prow].
      apply Z.eqb_eq in E4. rewrite E4 in Hrow. change (T_NIL =? Z.of_N ch_nl) with false in Hrow. destruct (pungot p); lia. }
    destruct (ptoken p1 =? T_UNKNOWN) eqn:E5.
    { apply Z.eqb_eq in E5. rewrite E5 in Hrow. change (T_UNKNOWN =? Z.of_N ch_nl) with false in Hrow.
      destruct (val (lx p1)); intros H; inversion H; subst; intros Hne; try congruence.
      cbn [finish prow]. unfold classify.
      repeat match goal with |- context [if ?b then _ else _] => destruct b end; cbn [breaks_of]; destruct (pungot p); lia. }
    destruct (ptoken p1 =? T_EOS) eqn:E6.
    { intros H; inversion H; subst; intros _; cbn [breaks_of].
      apply Z.eqb_eq in E6. rewrite E6 in Hrow. change (T_EOS =? Z.of_N ch_nl) with false in Hrow. destruct (pungot p); lia. }
    destruct ((0 <? ptoken p1) && accepted_punct V (Z.to_N (ptoken p1))) eqn:E7; intros H; inversion H; subst; [|congruence].
    intros _. cbn [breaks_of finish prow]. apply andb_true_iff in E7 as [Hpos _]. apply Z.ltb_lt in Hpos.
    replace (N.eqb (Z.to_N (ptoken p1)) ch_nl) with (ptoken p1 =? Z.of_N ch_nl).
    - destruct (pungot p); cbn [negb andb]; [rewrite andb_false_r; lia|]. rewrite andb_true_r. exact Hrow.
    - destruct (ptoken p1 =? Z.of_N ch_nl) eqn:E.
      + apply Z.eqb_eq in E. rewrite E. reflexivity.
      + symmetry. apply N.eqb_neq. intros Hc. apply Z.eqb_neq in E. apply E. rewrite <- Hc. rewrite Z2N.id; lia.
  Qed.
End Rows.
