(* C06 (token layer): the row the parser reports is one plus the line breaks consumed so far — a line break
   token adds one, a freshly lexed string literal adds the line breaks it contains, a replayed token adds nothing. *)
From RT Require Import Model.Lexer Model.Parser.
Open Scope Z_scope.

Section Rows.
  Variable is_uspace is_udigit is_uupper is_ulower : N -> bool.
  Variable V : lex_variant.
  Variable bc : list (list N).

  Definition breaks_of (r : read_result) (replayed : bool) : Z :=
    match r with
    | RTok (KPunct c) _ => if (N.eqb c ch_nl) && negb replayed then 1 else 0
    | RTok (KString s) _ => if replayed then 0 else count_nl s
    | _ => 0
    end.

  Lemma get_token_rows fuel p p' :
    get_token is_uspace is_udigit V fuel p = Some p' ->
    prow p' = prow p + (if pungot p then 0 else if (ptoken p' =? Z.of_N ch_nl) then 1 else 0) /\
    preplayed p' = pungot p.
  Proof.
    unfold get_token. destruct (pungot p) eqn:Eu.
    - intros H. inversion H. cbn. split; [lia|reflexivity].
    - destruct (advance is_uspace is_udigit V fuel (lx p)) as [[[|] l']|]; try discriminate.
      + destruct (tok l' =? Z.of_N ch_nl) eqn:E; intros H; inversion H; cbn [prow ptoken preplayed]; rewrite ?E; split; try reflexivity; lia.
      + intros H. inversion H. cbn [prow ptoken preplayed]. change (T_EOS =? Z.of_N ch_nl) with false. split; [lia|reflexivity].
  Qed.

  (* one Read: the reported row moves by exactly the line breaks the token stands for *)
  Theorem read_row_accounting fuel p r p' :
    parser_read is_uspace is_udigit is_uupper is_ulower V bc fuel p = Some (r, p') ->
    r <> RError ->
    prow p' = prow p + breaks_of r (pungot p).
  Proof.
    unfold parser_read. destruct (get_token is_uspace is_udigit V fuel p) as [p1|] eqn:Eg; [|discriminate].
    destruct (get_token_rows _ _ _ Eg) as [Hrow Hrep].
    destruct (ptoken p1 =? T_INT) eqn:E1.
    { destruct (val (lx p1)); intros H; inversion H; subst; intros Hne; try congruence; cbn [breaks_of finish prow].
      apply Z.eqb_eq in E1. rewrite E1 in Hrow. change (T_INT =? Z.of_N ch_nl) with false in Hrow. destruct (pungot p); lia. }
    destruct (ptoken p1 =? T_FLOAT) eqn:E2.
    { intros H; inversion H; subst; intros _; cbn [breaks_of finish prow].
      apply Z.eqb_eq in E2. rewrite E2 in Hrow. change (T_FLOAT =? Z.of_N ch_nl) with false in Hrow. destruct (pungot p); lia. }
    destruct (ptoken p1 =? T_STRING) eqn:E3.
    { apply Z.eqb_eq in E3. rewrite E3 in Hrow. change (T_STRING =? Z.of_N ch_nl) with false in Hrow.
      destruct (val (lx p1)); intros H; inversion H; subst; intros Hne; try congruence; cbn [breaks_of finish prow].
      rewrite Hrep. destruct (pungot p); lia. }
    destruct (ptoken p1 =? T_NIL) eqn:E4.
    { intros H; inversion H; subst; intros _; cbn [breaks_of finish prow].
      apply Z.eqb_eq in E4. rewrite E4 in Hrow. change (T_NIL =? Z.of_N ch_nl) with false in Hrow. destruct (pungot p); lia. }
    destruct (ptoken p1 =? T_UNKNOWN) eqn:E5.
    { apply Z.eqb_eq in E5. rewrite E5 in Hrow. change (T_UNKNOWN =? Z.of_N ch_nl) with false in Hrow.
      destruct (val (lx p1)); intros H; inversion H; subst; intros Hne; try congruence.
      cbn [finish prow]. unfold classify.
      repeat match goal with |- context [if ?b then _ else _] => destruct b end; cbn [breaks_of]; destruct (pungot p); lia. }
    destruct (ptoken p1 =? T_EOS) eqn:E6.
    { intros H; inversion H; subst; intros _; cbn [breaks_of].
      apply Z.eqb_eq in E6. rewrite E6 in Hrow. change (T_EOS =? Z.of_N ch_nl) with false in Hrow. destruct (pungot p); lia. }
    destruct ((0 <? ptoken p1) && accepted_punct V (Z.to_N (ptoken p1))) eqn:E7; intros H; inversion H; subst; [|congruence].
    intros _. cbn [breaks_of finish prow]. apply andb_true_iff in E7 as [Hpos _]. apply Z.ltb_lt in Hpos.
    replace (N.eqb (Z.to_N (ptoken p1)) ch_nl) with (ptoken p1 =? Z.of_N ch_nl).
    - destruct (pungot p); cbn [negb andb]; [rewrite andb_false_r; lia|]. rewrite andb_true_r. exact Hrow.
    - destruct (ptoken p1 =? Z.of_N ch_nl) eqn:E.
      + apply Z.eqb_eq in E. rewrite E. reflexivity.
      + symmetry. apply N.eqb_neq. intros Hc. apply Z.eqb_neq in E. apply E. rewrite <- Hc. rewrite Z2N.id; lia.
  Qed.
End Rows.

(* ---- the whole token stream: the row reported at every Read is the start row plus the line breaks of the tokens
   read so far, for every source text and every length of the stream ---- *)
Section Stream.
  Variable is_uspace is_udigit is_uupper is_ulower : N -> bool.
  Variable V : lex_variant.
  Variable bc : list (list N).

  Lemma get_token_clears fuel p p' : get_token is_uspace is_udigit V fuel p = Some p' -> pungot p' = false.
  Proof.
    unfold get_token. destruct (pungot p); [intros H; inversion H; reflexivity|].
    destruct (advance is_uspace is_udigit V fuel (lx p)) as [[[|] l']|]; [| |discriminate].
    - destruct (tok l' =? Z.of_N ch_nl); intros H; inversion H; reflexivity.
    - intros H; inversion H; reflexivity.
  Qed.

  Lemma read_clears fuel p r p' :
    parser_read is_uspace is_udigit is_uupper is_ulower V bc fuel p = Some (r, p') -> pungot p' = false.
  Proof.
    unfold parser_read. destruct (get_token is_uspace is_udigit V fuel p) as [p1|] eqn:Eg; [|discriminate].
    pose proof (get_token_clears _ _ _ Eg) as Hc.
    repeat match goal with
           | |- context [if ?b then _ else _] => destruct b
           | |- context [match val ?l with _ => _ end] => destruct (val l)
           end; intros H; inversion H; subst; cbn [finish pungot]; exact Hc.
  Qed.

  (* rows_from row l: every entry's row is the previous row plus the breaks of its own token *)
  Fixpoint rows_from (row : Z) (l : list (read_result * Z * Z)) : Prop :=
    match l with
    | [] => True
    | (r, row', _) :: t => row' = row + breaks_of r false /\ rows_from row' t
    end.

  Theorem read_all_rows n fuel : forall p l,
    read_all is_uspace is_udigit is_uupper is_ulower V bc n fuel p = Some l ->
    pungot p = false ->
    (forall x, In x l -> fst (fst x) <> RError) ->
    rows_from (prow p) l.
  Proof.
    induction n as [|n IH]; intros p l; cbn [read_all]; [intros H; inversion H; intros; exact I|].
    destruct (parser_read is_uspace is_udigit is_uupper is_ulower V bc fuel p) as [[r p']|] eqn:Er; [|discriminate].
    intros H Hu Hne.
    assert (Hrow : r <> RError -> prow p' = prow p + breaks_of r false).
    { intros Hr. rewrite (read_row_accounting _ _ _ _ _ _ _ _ _ _ Er Hr), Hu. reflexivity. }
    destruct r as [k sp| |].
    - destruct (read_all is_uspace is_udigit is_uupper is_ulower V bc n fuel p') as [t|] eqn:Et; [|discriminate].
      inversion H; subst. cbn [rows_from]. split.
      + apply Hrow. discriminate.
      + apply (IH p' t Et (read_clears _ _ _ _ Er)). intros x Hx. apply Hne. right; exact Hx.
    - inversion H; subst. cbn [rows_from]. split; [apply Hrow; discriminate | exact I].
    - exfalso. inversion H; subst. apply (Hne (RError, prow p', perror_row p')); [left; reflexivity | reflexivity].
  Qed.

  (* closed form: the row of the k-th Read *)
  Fixpoint total_breaks (l : list (read_result * Z * Z)) : Z :=
    match l with [] => 0 | (r, _, _) :: t => breaks_of r false + total_breaks t end.

  Lemma rows_from_last row l : rows_from row l ->
    forall k, (k <= List.length l)%nat ->
    List.last (map (fun x => snd (fst x)) (firstn k l)) row = row + total_breaks (firstn k l).
  Proof.
    revert row. induction l as [|[[r row'] e] t IH]; intros row Hr k Hk.
    - rewrite firstn_nil. cbn. lia.
    - destruct k as [|k]; [cbn; lia|]. cbn [rows_from] in Hr. destruct Hr as [E Ht].
      cbn [firstn map total_breaks fst snd]. cbn [List.length] in Hk.
      specialize (IH row' Ht k ltac:(lia)).
      destruct (map (fun x => snd (fst x)) (firstn k t)) as [|y ys] eqn:Em.
      + cbn [List.last] in *. lia.
      + change (List.last (row' :: y :: ys) row) with (List.last (y :: ys) row).
        assert (Hl : forall d1 d2, List.last (y :: ys) d1 = List.last (y :: ys) d2).
        { clear. revert y. induction ys as [|z zs IHz]; intros y d1 d2; [reflexivity|].
          change (List.last (z :: zs) d1 = List.last (z :: zs) d2). apply IHz. }
        rewrite (Hl row row'). lia.
  Qed.
End Stream.
