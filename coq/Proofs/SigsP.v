(* C05: the listing orders are canonical; the map-range sites of the source are the audited ones *)
From Coq Require Import Permutation.
From RT Require Import Model.Sigs Proofs.SortP Proofs.ArgsP Generated.

Lemma str_order : total_order str_leb.
Proof.
  split.
  - exact str_leb_total.
  - exact str_leb_trans.
  - exact str_leb_antisym.
Qed.

Lemma z_order : total_order Z.leb.
Proof.
  split.
  - intros a b H. apply Z.leb_gt in H. apply Z.leb_le. lia.
  - intros a b c H1 H2. apply Z.leb_le in H1, H2. apply Z.leb_le. lia.
  - intros a b H1 H2. apply Z.leb_le in H1, H2. lia.
Qed.

Lemma rest_order : total_order rest_le.
Proof.
  unfold rest_le. repeat (apply lex_total_order; try exact str_order; try exact bool_le_order; try exact z_order).
Qed.

Lemma key_order : total_order key_le.
Proof.
  unfold key_le. apply lex_total_order; [exact str_order|]. apply lex_total_order; [exact str_order|].
  apply lex_total_order; [exact str_order|exact rest_order].
Qed.

Lemma key_by_method_inj a b : key_by_method a = key_by_method b -> a = b.
Proof. destruct a, b. unfold key_by_method, rest_key. cbn. intros H. inversion H. subst. reflexivity. Qed.
Lemma key_by_class_inj a b : key_by_class a = key_by_class b -> a = b.
Proof. destruct a, b. unfold key_by_class, rest_key. cbn. intros H. inversion H. subst. reflexivity. Qed.

Lemma le_by_method_order : total_order le_by_method.
Proof. exact (inj_total_order key_by_method key_le key_by_method_inj key_order). Qed.
Lemma le_by_class_order : total_order le_by_class.
Proof. exact (inj_total_order key_by_class key_le key_by_class_inj key_order). Qed.

(* whatever order the map iteration delivers the signatures in, the sorted listings are the same *)
Theorem sorted_by_method_canonical vals vals' : Permutation vals vals' -> sorted_by_method vals = sorted_by_method vals'.
Proof. apply sort_perm. exact le_by_method_order. Qed.
Theorem sorted_by_class_canonical vals vals' : Permutation vals vals' -> sorted_by_class vals = sorted_by_class vals'.
Proof. apply sort_perm. exact le_by_class_order. Qed.

(* the source's map-range sites are exactly the audited ones *)
Definition site_eqb (a : string * string * nat * string * site_class) (b : string * string * nat * string) : bool :=
  let '(f, g, n, e, _) := a in let '(f', g', n', e') := b in
  String.eqb f f' && String.eqb g g' && Nat.eqb n n' && String.eqb e e'.
Fixpoint sites_eqb (a : list (string * string * nat * string * site_class)) (b : list (string * string * nat * string)) : bool :=
  match a, b with
  | [], [] => true
  | x :: r, y :: s => site_eqb x y && sites_eqb r s
  | _, _ => false
  end.

Lemma sites_audited : sites_eqb audited_sites map_range_sites = true.
Proof. vm_compute. reflexivity. Qed.
