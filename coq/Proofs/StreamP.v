(* C02 / C03 / C06: the whole token stream as the evaluation loop sees it (read_all, the function the correspondence
   runs against parser.Read): on every source text it is total with fuel linear in the length of the text, it ends
   with end-of-stream after at most 3*|s|+4 Reads, it never contains `read error`, and its rows are the line breaks
   read so far. *)
From RT Require Import Model.Lexer Model.Parser Proofs.LexerP Proofs.ParserP Proofs.RowsP.
From Coq Require Import Lia.

Section Whole.
  Variable is_uspace is_udigit is_uupper is_ulower : N -> bool.
  Variable bc : list (list N).
  Hypothesis Hsp0 : is_uspace 0%N = false.
  Hypothesis Hdg0 : is_udigit 0%N = false.
  Hypothesis Hsp_dot : is_uspace ch_dot = false.
  Hypothesis Hdg_plain : forall c, is_udigit c = true ->
    ((c =? 120) || (c =? 111) || (c =? 98))%N = false /\ (c =? ch_under)%N = false /\ (c =? ch_dot)%N = false.

  Notation rall := (read_all is_uspace is_udigit is_uupper is_ulower fixed_lex bc).
  Notation pread := (parser_read is_uspace is_udigit is_uupper is_ulower fixed_lex bc).

  Definition is_tok (x : read_result * Z * Z) : Prop := exists k sp, fst (fst x) = RTok k sp.

  Lemma read_all_ok n : forall fuel p,
    inv is_udigit (rd (lx p)) -> pwf p -> pungot p = false ->
    (phi (rd (lx p)) < n)%nat -> (phi (rd (lx p)) + 3 < fuel)%nat ->
    exists toks row erow, rall n fuel p = Some (toks ++ [(REos, row, erow)]) /\
                          Forall is_tok toks /\ (List.length toks <= phi (rd (lx p)))%nat.
  Proof.
    induction n as [|n IH]; intros fuel p Hi Hw Hu Hn Hf; [lia|]. cbn [read_all].
    destruct (parser_read_ok is_uspace is_udigit is_uupper is_ulower fixed_lex bc eq_refl eq_refl eq_refl
                Hsp0 Hdg0 Hsp_dot Hdg_plain fuel p Hi Hw Hf) as (r & p' & Hr & Hne & Hi' & Hw' & Hle & Hlt & _).
    rewrite Hr. destruct r as [k sp| |].
    - assert (Hdec : (phi (rd (lx p')) < phi (rd (lx p)))%nat) by (apply Hlt; [exact Hu | discriminate]).
      destruct (IH fuel p' Hi' Hw' (read_clears _ _ _ _ _ _ _ _ _ _ Hr)) as (toks & row & erow & Hs & Hall & Hlen); [lia|lia|].
      rewrite Hs. exists ((RTok k sp, prow p', perror_row p') :: toks), row, erow.
      split; [reflexivity|]. split; [constructor; [exists k, sp; reflexivity | exact Hall] | cbn [List.length]; lia].
    - exists [], (prow p'), (perror_row p'). split; [reflexivity|]. split; [constructor | cbn; lia].
    - exfalso. apply Hne. reflexivity.
  Qed.

  (* every source text: the stream is total, ends with end-of-stream, holds tokens only before that, and is short *)
  Theorem read_all_total s :
    exists toks row erow,
      rall (3 * List.length s + 4) (3 * List.length s + 7) (ps_new s) = Some (toks ++ [(REos, row, erow)]) /\
      Forall is_tok toks /\ (List.length toks <= 3 * List.length s + 3)%nat.
  Proof.
    pose proof (phi_new s) as Hphi.
    destruct (read_all_ok (3 * List.length s + 4) (3 * List.length s + 7) (ps_new s)) as (toks & row & erow & Hs & Hall & Hlen).
    - left. reflexivity.
    - right; left. reflexivity.
    - reflexivity.
    - cbn [ps_new lx]. lia.
    - cbn [ps_new lx]. lia.
    - exists toks, row, erow. split; [exact Hs|]. split; [exact Hall|]. cbn [ps_new lx] in Hlen. lia.
  Qed.

  (* ... and its rows are exactly the line breaks read so far, from row 1 *)
  Theorem read_all_rows_total s :
    exists l, rall (3 * List.length s + 4) (3 * List.length s + 7) (ps_new s) = Some l /\
              rows_from 1%Z l /\ (List.length l <= 3 * List.length s + 4)%nat.
  Proof.
    destruct (read_all_total s) as (toks & row & erow & Hs & Hall & Hlen).
    exists (toks ++ [(REos, row, erow)]). split; [exact Hs|]. split.
    - apply (read_all_rows is_uspace is_udigit is_uupper is_ulower fixed_lex bc _ _ _ _ Hs); [reflexivity|].
      intros x Hx. apply in_app_or in Hx. destruct Hx as [Hx|[Hx|[]]].
      + rewrite Forall_forall in Hall. destruct (Hall x Hx) as (k & sp & E). rewrite E. discriminate.
      + subst x. discriminate.
    - rewrite app_length. cbn [List.length]. lia.
  Qed.
End Whole.
