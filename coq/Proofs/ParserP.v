(* Token-stream theorems: totality, token bound, full consumption, no `read error`. *)
From RT Require Import Model.Lexer Model.Parser Proofs.LexerP.
Open Scope N_scope.

Section Stream.
  Variable is_uspace is_udigit is_uupper is_ulower : N -> bool.
  Variable V : lex_variant.
  Variable builtin_classes : list (list N).
  Hypothesis Hfix_eof : fix_eof V = true.
  Hypothesis Hfix_nul : fix_nul V = true.
  Hypothesis Hfix_bt : fix_backtick V = true.
  Hypothesis Hsp0 : is_uspace 0 = false.
  Hypothesis Hdg0 : is_udigit 0 = false.
  Hypothesis Hsp_dot : is_uspace ch_dot = false.
  Hypothesis Hdg_plain : forall c, is_udigit c = true ->
    ((c =? 120) || (c =? 111) || (c =? 98)) = false /\ (c =? ch_under) = false /\ (c =? ch_dot) = false.

  Notation adv := (advance is_uspace is_udigit V).
  Notation Inv := (inv is_udigit).

  (* the lexer driven to end of stream: at most n tokens *)
  Fixpoint lex_all (n fuel : nat) (l : lexer) : option (list lexer * lexer) :=
    match n with
    | O => None
    | S n' =>
        match adv fuel l with
        | None => None
        | Some (false, l') => Some ([], l')
        | Some (true, l') =>
            match lex_all n' fuel l' with
            | Some (ts, lf) => Some (l' :: ts, lf)
            | None => None
            end
        end
    end.

  Lemma lex_all_ok n : forall fuel l, Inv (rd l) -> (phi (rd l) < n)%nat -> (phi (rd l) + 3 < fuel)%nat ->
    exists ts lf, lex_all n fuel l = Some (ts, lf) /\ (length ts <= phi (rd l))%nat /\
                  rd_eof (rd lf) = true /\ Forall tok_wf ts.
  Proof.
    induction n as [|n IH]; intros fuel l Hi Hn Hf; [lia|]. cbn [lex_all].
    destruct (advance_ok is_uspace is_udigit V Hfix_eof Hfix_nul Hsp0 Hdg0 Hsp_dot Hdg_plain fuel l Hi Hf)
      as (b & l' & Ha & Hi' & Ht & Hfalse).
    rewrite Ha. destruct b.
    - destruct (Ht eq_refl) as [Hlt Hwf].
      destruct (IH fuel l' Hi') as (ts & lf & Hs & Hlen & Heof & Hall); [lia|lia|].
      rewrite Hs. exists (l' :: ts), lf. split; [reflexivity|]. split; [cbn [length]; lia|].
      split; [exact Heof|constructor; assumption].
    - exists [], l'. split; [reflexivity|]. split; [cbn; lia|]. split; [apply Hfalse; reflexivity|constructor].
  Qed.

  Lemma length_normalize_eof s : (length (normalize_eof s) <= length s + 1)%nat.
  Proof.
    unfold normalize_eof. destruct s as [|x r]; [cbn; lia|].
    destruct (last (x :: r) 0 =? 10); [lia|]. rewrite app_length. cbn [length]. lia.
  Qed.

  Lemma phi_new s : (phi (rd (lx_new s)) <= 3 * length s + 3)%nat.
  Proof.
    unfold phi, lx_new, rd_new. cbn [rd rest hist ungot cur length]. pose proof (length_normalize_eof s). lia.
  Qed.

  (* C03 (a)+(b): every rune sequence is tokenized with fuel linear in its length, into at most
     3*|s|+3 tokens, and end of stream is answered only when every rune has been consumed *)
  Theorem lexer_total s :
    exists ts lf, lex_all (3 * length s + 4) (3 * length s + 7) (lx_new s) = Some (ts, lf) /\
                  (length ts <= 3 * length s + 3)%nat /\
                  rest (rd lf) = [] /\ hist (rd lf) = [] /\ ungot (rd lf) = false /\
                  Forall tok_wf ts.
  Proof.
    pose proof (phi_new s) as Hphi.
    destruct (lex_all_ok (3 * length s + 4) (3 * length s + 7) (lx_new s)) as (ts & lf & Hs & Hlen & Heof & Hall).
    - left. reflexivity.
    - lia.
    - lia.
    - exists ts, lf. split; [exact Hs|]. split; [lia|].
      unfold rd_eof in Heof. destruct (rest (rd lf)); [|discriminate]. destruct (hist (rd lf)); [|discriminate].
      destruct (ungot (rd lf)); [discriminate|]. repeat split; auto.
  Qed.

  (* ---- parser.Read never answers `read error` ---- *)
  Notation pread := (parser_read is_uspace is_udigit is_uupper is_ulower V builtin_classes).
  Notation gtok := (get_token is_uspace is_udigit V).

  Definition tv_ok (t : Z) (v : tokval) : Prop :=
    t = T_EOS \/ t = T_NIL \/ t = T_FLOAT \/
    (t = T_INT /\ exists z, v = VIntLit z) \/
    (t = T_STRING /\ exists s, v = VStrLit s) \/
    (t = T_UNKNOWN /\ exists s, v = VId s) \/
    (exists c, t = Z.of_N c /\ (existsb (N.eqb c) single_tokens = true \/ c = ch_dot)).

  Definition pwf (p : parser) : Prop := tv_ok (ptoken p) (val (lx p)).

  Lemma tok_wf_tv l : tok_wf l -> tv_ok (tok l) (val l).
  Proof.
    unfold tok_wf, tv_ok. intros [H|[H|[H|[H|H]]]].
    - right; right; right; left; exact H.
    - right; right; left; apply H.
    - right; right; right; right; left; exact H.
    - destruct H as [[H|H] Hv]; [right; right; right; right; right; left; split; assumption|right; left; exact H].
    - right; right; right; right; right; right; exact H.
  Qed.

  Lemma tok_wf_not_eos l : tok_wf l -> tok l <> T_EOS.
  Proof.
    unfold tok_wf, T_EOS. intros [H|[H|[H|[H|H]]]].
    - destruct H as [H _]; rewrite H; discriminate.
    - destruct H as [H _]; rewrite H; discriminate.
    - destruct H as [H _]; rewrite H; discriminate.
    - destruct H as [[H|H] _]; rewrite H; discriminate.
    - destruct H as (c & H & _). rewrite H. lia.
  Qed.

  Lemma get_token_ok fuel p :
    Inv (rd (lx p)) -> pwf p -> (phi (rd (lx p)) + 3 < fuel)%nat ->
    exists p', gtok fuel p = Some p' /\ Inv (rd (lx p')) /\ pwf p' /\ (phi (rd (lx p')) <= phi (rd (lx p)))%nat /\
               (pungot p = false -> ptoken p' <> T_EOS -> (phi (rd (lx p')) < phi (rd (lx p)))%nat) /\
               (pungot p = false -> ptoken p' = T_EOS -> rd_eof (rd (lx p')) = true).
  Proof.
    intros Hi Hw Hf. unfold get_token. destruct (pungot p) eqn:Eu.
    - eexists; split; [reflexivity|]. cbn [lx rd ptoken val]. unfold pwf in *. cbn [lx ptoken val].
      repeat split; auto; try discriminate.
    - destruct (advance_ok is_uspace is_udigit V Hfix_eof Hfix_nul Hsp0 Hdg0 Hsp_dot Hdg_plain fuel (lx p) Hi Hf)
        as (b & l' & Ha & Hi' & Ht & Hfalse).
      rewrite Ha. destruct b.
      + destruct (Ht eq_refl) as [Hlt Hwf]. pose proof (tok_wf_not_eos _ Hwf) as Hne. apply tok_wf_tv in Hwf.
        destruct (tok l' =? Z.of_N ch_nl)%Z; (eexists; split; [reflexivity|]); unfold pwf; cbn [lx ptoken val];
          (split; [exact Hi'|]; split; [exact Hwf|]; split; [lia|]; split; [intros; exact Hlt|]);
          intros _ He; exfalso; apply Hne; exact He.
      + eexists; split; [reflexivity|]. unfold pwf; cbn [lx ptoken val].
        split; [exact Hi'|]. split; [left; reflexivity|].
        specialize (Hfalse eq_refl).
        assert (phi (rd l') = 0%nat) as Hz.
        { unfold rd_eof in Hfalse. unfold phi. destruct (rest (rd l')); [|discriminate].
          destruct (hist (rd l')); [|discriminate]. destruct (ungot (rd l')); [discriminate|reflexivity]. }
        split; [lia|]. split; [intros _ Hne; exfalso; apply Hne; reflexivity|]. intros _ _. exact Hfalse.
  Qed.

  Lemma finish_rd p : rd (lx (finish p)) = rd (lx p) /\ val (lx (finish p)) = val (lx p) /\ ptoken (finish p) = ptoken p.
  Proof. unfold finish. cbn. auto. Qed.

  Lemma single_or_dot_cases c :
    existsb (N.eqb c) single_tokens = true \/ c = ch_dot ->
    In c [ch_nl; ch_lp; ch_rp; ch_btick; ch_comma; ch_lc; ch_rc; ch_lb; ch_rb; ch_caret; ch_semi; ch_dot].
  Proof.
    intros [H| ->]; [|cbn; tauto].
    unfold single_tokens in H. cbn [existsb] in H.
    repeat (apply orb_true_iff in H; destruct H as [H|H]); try discriminate;
      apply N.eqb_eq in H; subst c; cbn; tauto.
  Qed.

  (* C03 (c): whatever the lexer emits, parser.Read builds a token of a defined kind *)
  Theorem parser_read_ok fuel p :
    Inv (rd (lx p)) -> pwf p -> (phi (rd (lx p)) + 3 < fuel)%nat ->
    exists r p', pread fuel p = Some (r, p') /\ r <> RError /\ Inv (rd (lx p')) /\ pwf p' /\
                 (phi (rd (lx p')) <= phi (rd (lx p)))%nat /\
                 (pungot p = false -> r <> REos -> (phi (rd (lx p')) < phi (rd (lx p)))%nat) /\
                 (pungot p = false -> r = REos -> rd_eof (rd (lx p')) = true).
  Proof.
    intros Hi Hw Hf. unfold parser_read.
    destruct (get_token_ok fuel p Hi Hw Hf) as (p1 & Hg & Hi1 & Hw1 & Hle & Hlt & Heos). rewrite Hg.
    unfold pwf in Hw1.
    destruct Hw1 as [Ht|[Ht|[Ht|[[Ht [z Hv]]|[[Ht [s0 Hv]]|[[Ht [s0 Hv]]|(c & Ht & Hc)]]]]]].
    - (* EOS *) rewrite Ht. cbn. do 2 eexists; split; [reflexivity|]. split; [discriminate|].
      split; [exact Hi1|]. split; [left; exact Ht|]. split; [exact Hle|].
      split; [intros _ H; exfalso; apply H; reflexivity|]. intros Hu _. apply Heos; assumption.
    - (* nil *) rewrite Ht. cbn. do 2 eexists; split; [reflexivity|]. split; [discriminate|].
      destruct (finish_rd p1) as (H1 & H2 & H3). rewrite H1. unfold pwf; rewrite H2, H3.
      split; [exact Hi1|]. split; [right; left; exact Ht|]. split; [exact Hle|].
      split; [intros Hu _; apply Hlt; [assumption|rewrite Ht; discriminate]|discriminate].
    - (* float *) rewrite Ht. cbn. do 2 eexists; split; [reflexivity|]. split; [discriminate|].
      destruct (finish_rd p1) as (H1 & H2 & H3). rewrite H1. unfold pwf; rewrite H2, H3.
      split; [exact Hi1|]. split; [right; right; left; exact Ht|]. split; [exact Hle|].
      split; [intros Hu _; apply Hlt; [assumption|rewrite Ht; discriminate]|discriminate].
    - (* int *) rewrite Ht, Hv. cbn. do 2 eexists; split; [reflexivity|]. split; [discriminate|].
      destruct (finish_rd p1) as (H1 & H2 & H3). rewrite H1. unfold pwf; rewrite H2, H3.
      split; [exact Hi1|]. split; [right; right; right; left; split; [exact Ht|eexists; exact Hv]|]. split; [exact Hle|].
      split; [intros Hu _; apply Hlt; [assumption|rewrite Ht; discriminate]|discriminate].
    - (* string *) rewrite Ht, Hv. cbn. do 2 eexists; split; [reflexivity|]. split; [discriminate|].
      cbn [finish lx rd val ptoken]. unfold pwf. cbn [lx ptoken val].
      split; [exact Hi1|]. split; [right; right; right; right; left; split; [reflexivity|eexists; exact Hv]|]. split; [exact Hle|].
      split; [intros Hu _; apply Hlt; [assumption|rewrite Ht; discriminate]|discriminate].
    - (* identifier *) rewrite Ht, Hv. cbn. do 2 eexists; split; [reflexivity|]. split; [discriminate|].
      destruct (finish_rd p1) as (H1 & H2 & H3). rewrite H1. unfold pwf; rewrite H2, H3.
      split; [exact Hi1|]. split; [right; right; right; right; right; left; split; [exact Ht|eexists; exact Hv]|]. split; [exact Hle|].
      split; [intros Hu _; apply Hlt; [assumption|rewrite Ht; discriminate]|discriminate].
    - (* single-rune tokens and '.' *)
      pose proof (single_or_dot_cases c Hc) as Hin.
      assert (Hacc : (ptoken p1 =? T_INT)%Z = false /\ (ptoken p1 =? T_FLOAT)%Z = false /\
                     (ptoken p1 =? T_STRING)%Z = false /\ (ptoken p1 =? T_NIL)%Z = false /\
                     (ptoken p1 =? T_UNKNOWN)%Z = false /\ (ptoken p1 =? T_EOS)%Z = false /\
                     ((0 <? ptoken p1)%Z && accepted_punct V (Z.to_N (ptoken p1))) = true).
      { rewrite Ht. cbn [In] in Hin.
        repeat (destruct Hin as [Hin|Hin]; [subst c; unfold accepted_punct; rewrite ?Hfix_bt; cbn; repeat split; reflexivity|]).
        contradiction. }
      destruct Hacc as (A1 & A2 & A3 & A4 & A5 & A6 & A7). rewrite A1, A2, A3, A4, A5, A6, A7.
      do 2 eexists; split; [reflexivity|]. split; [discriminate|].
      destruct (finish_rd p1) as (H1 & H2 & H3). rewrite H1. unfold pwf; rewrite H2, H3.
      split; [exact Hi1|]. split; [right; right; right; right; right; right; exists c; auto|]. split; [exact Hle|].
      split; [intros Hu _; apply Hlt; [assumption|]; apply Z.eqb_neq; exact A6|discriminate].
  Qed.

End Stream.

(* C11: a `[` that opens a line is read as "preceded by a space": it is never an index on the value of the
   previous line *)
Lemma bracket_at_line_head sp dg up lo V bc fuel p0 r p' :
  pungot p0 = false -> ((ptoken p0 =? Z.of_N ch_nl)%Z || negb (phas_token p0)) = true ->
  parser_read sp dg up lo V bc fuel p0 = Some (r, p') ->
  match r with RTok (KPunct c) b => c = ch_lb -> b = true | _ => True end.
Proof.
  intros Hu Hl. unfold parser_read.
  destruct (get_token sp dg V fuel p0) as [p|] eqn:G; [|discriminate].
  assert (Hlh : ptoken p = T_EOS \/ pline_head p = true).
  { unfold get_token in G. rewrite Hu, Hl in G.
    destruct (advance sp dg V fuel (lx p0)) as [[[|] l']|]; [| |discriminate].
    - destruct (tok l' =? Z.of_N ch_nl)%Z; inversion G; subst; right; reflexivity.
    - inversion G; subst. left. reflexivity. }
  destruct (ptoken p =? T_INT)%Z; [destruct (val (lx p)); intros H; inversion H; exact I|].
  destruct (ptoken p =? T_FLOAT)%Z; [intros H; inversion H; exact I|].
  destruct (ptoken p =? T_STRING)%Z; [destruct (val (lx p)); intros H; inversion H; exact I|].
  destruct (ptoken p =? T_NIL)%Z; [intros H; inversion H; exact I|].
  destruct (ptoken p =? T_UNKNOWN)%Z.
  { destruct (val (lx p)); intros H; inversion H; subst; try exact I.
    unfold classify. repeat match goal with |- context [if ?c then _ else _] => destruct c end; exact I. }
  destruct (ptoken p =? T_EOS)%Z eqn:Ee; [intros H; inversion H; exact I|].
  destruct ((0 <? ptoken p)%Z && accepted_punct V (Z.to_N (ptoken p))) eqn:Ea; [|intros H; inversion H; exact I].
  intros H. inversion H; subst. intros Hc.
  apply andb_true_iff in Ea as [Hpos _]. apply Z.ltb_lt in Hpos.
  destruct Hlh as [He|Hh]; [apply Z.eqb_neq in Ee; contradiction|].
  rewrite Hh, andb_true_r.
  assert (E : ptoken p = 91%Z) by (rewrite <- (Z2N.id (ptoken p)) by lia; rewrite Hc; reflexivity).
  rewrite E. apply orb_true_r.
Qed.
