(* C10: narrowing is exact in both branches and undone afterwards *)
From RT Require Import Model.Narrow.
From Coq Require Import Lia.

Lemma aget_aset_same {A} (m : amap A) k v : aget (aset m k v) k = Some v.
Proof. induction m as [|[k' v'] r IH]; cbn; [rewrite String.eqb_refl; reflexivity|].
  destruct (String.eqb k k') eqn:E; cbn; [rewrite String.eqb_refl; reflexivity | rewrite E; exact IH]. Qed.
Lemma aget_aset_other {A} (m : amap A) k k2 v : k2 <> k -> aget (aset m k v) k2 = aget m k2.
Proof.
  intros H. induction m as [|[k' v'] r IH]; cbn.
  - destruct (String.eqb_spec k2 k); [contradiction | reflexivity].
  - destruct (String.eqb_spec k k') as [->|N]; cbn.
    + destruct (String.eqb_spec k2 k'); [contradiction | reflexivity].
    + destruct (String.eqb k2 k'); [reflexivity | exact IH].
Qed.
Lemma ty_of_aset_same e x v : ty_of (aset e x v) x = v. Proof. unfold ty_of; rewrite aget_aset_same; reflexivity. Qed.
Lemma ty_of_aset_other e x y v : y <> x -> ty_of (aset e x v) y = ty_of e y.
Proof. intros H; unfold ty_of; rewrite aget_aset_other by exact H; reflexivity. Qed.

(* ---------------------------------------------------------------- restoration *)

(* the closures restore, per variable, the type captured by the FIRST test of that variable *)
Fixpoint first_capture (zs : list (string * vty)) (x : string) : option vty :=
  match zs with [] => None | (y, t) :: r => if String.eqb x y then Some t else first_capture r x end.

Lemma run_restores_spec zs : forall e x,
  ty_of (run_restores zs e) x = match first_capture zs x with Some t => t | None => ty_of e x end.
Proof.
  unfold run_restores. induction zs as [|[y t] r IH]; intros e x; cbn [rev fold_left first_capture]; [reflexivity|].
  rewrite fold_left_app. cbn [fold_left fst snd].
  destruct (String.eqb_spec x y) as [->|N].
  - apply ty_of_aset_same.
  - rewrite ty_of_aset_other by exact N. apply IH.
Qed.

(* a variable that the scan has not tested yet still has its type *)
Lemma set_ctx_other k t e s y : y <> t_var t -> ty_of (fst (set_ctx k t (e, s))) y = ty_of e y.
Proof.
  intros H. unfold set_ctx. destruct (match k with KIf => negb (t_neg t) | KUnless => t_neg t end); cbn [fst];
    apply ty_of_aset_other; exact H.
Qed.

Lemma first_capture_snoc l y v x : first_capture (l ++ [(y, v)]) x =
  match first_capture l x with Some w => Some w | None => if String.eqb x y then Some v else None end.
Proof. induction l as [|[z w] l IH]; cbn [app first_capture]; [reflexivity|]. destruct (String.eqb x z); [reflexivity | exact IH]. Qed.

Lemma scan_captures k c : forall es zs x,
  first_capture (snd (scan k c es zs)) x =
  match first_capture zs x with
  | Some t => Some t
  | None => if existsb (fun t => String.eqb x (t_var t)) c then Some (ty_of (fst es) x) else None
  end.
Proof.
  induction c as [|t r IH]; intros es zs x; cbn [scan existsb snd].
  - destruct (first_capture zs x); reflexivity.
  - rewrite IH, first_capture_snoc. destruct (first_capture zs x) as [v|]; [reflexivity|].
    destruct (String.eqb_spec x (t_var t)) as [->|N]; cbn [orb]; [reflexivity|].
    destruct es as [e s]. rewrite set_ctx_other by exact N. reflexivity.
Qed.

(* the scan and the else-branch narrowing touch tested variables only *)
Definition tested (c : list test) (x : string) : bool := existsb (fun t => String.eqb x (t_var t)) c.

Lemma scan_env_other k c : forall es zs x, tested c x = false ->
  ty_of (fst (fst (scan k c es zs))) x = ty_of (fst es) x.
Proof.
  induction c as [|t r IH]; intros es zs x H; cbn [scan fst]; [reflexivity|].
  unfold tested in H. cbn [existsb] in H. apply Bool.orb_false_iff in H as [H1 H2].
  rewrite IH by exact H2. destruct es as [e s]. apply set_ctx_other. apply String.eqb_neq. exact H1.
Qed.

Lemma set_ctx_orig_keys k t e s y : aget (orig (snd (set_ctx k t (e, s)))) y <> None ->
  aget (orig s) y <> None \/ y = t_var t.
Proof.
  unfold set_ctx. set (o' := match aget (orig s) (t_var t) with Some _ => orig s | None => aset (orig s) (t_var t) (ty_of e (t_var t)) end).
  assert (Ho : aget o' y <> None -> aget (orig s) y <> None \/ y = t_var t).
  { unfold o'. destruct (aget (orig s) (t_var t)); [left; assumption|]. intros H.
    destruct (String.eqb_spec y (t_var t)) as [->|N]; [right; reflexivity | left; rewrite aget_aset_other in H by exact N; exact H]. }
  destruct (match k with KIf => negb (t_neg t) | KUnless => t_neg t end); cbn [snd orig]; exact Ho.
Qed.

Lemma scan_orig_keys k c : forall es zs y, aget (orig (snd (fst (scan k c es zs)))) y <> None ->
  aget (orig (snd es)) y <> None \/ tested c y = true.
Proof.
  induction c as [|t r IH]; intros es zs y H; cbn [scan] in H; [left; exact H|].
  destruct (IH _ _ _ H) as [H1|H1].
  - destruct es as [e s]. destruct (set_ctx_orig_keys k t e s y H1) as [H2|H2]; [left; exact H2|].
    right. unfold tested. cbn [existsb]. rewrite H2, String.eqb_refl. reflexivity.
  - right. unfold tested in *. cbn [existsb]. rewrite H1. apply Bool.orb_true_r.
Qed.

Lemma narrowing_other e s x : aget (orig s) x = None -> ty_of (narrowing e s) x = ty_of e x.
Proof.
  unfold narrowing. generalize (narrow s). intros nr. revert e. induction (orig s) as [|[y ov] r IH]; intros e H; cbn [fold_left]; [reflexivity|].
  cbn [aget] in H. destruct (String.eqb_spec x y) as [->|N]; [discriminate|].
  rewrite IH by exact H. destruct (aget nr y); apply ty_of_aset_other; exact N.
Qed.

(* C10_restore *)
Theorem conditional_restores k c e x : ty_of (snd (conditional k c e)) x = ty_of e x.
Proof.
  unfold conditional, get_backup.
  pose proof (scan_captures k c (e, {| orig := orig empty_state; narrow := narrow empty_state; ifn := ifn empty_state; conj := 0; excl := narrow empty_state |}) [] x) as H.
  pose proof (scan_env_other k c (e, {| orig := orig empty_state; narrow := narrow empty_state; ifn := ifn empty_state; conj := 0; excl := narrow empty_state |}) [] x) as H2.
  pose proof (scan_orig_keys k c (e, {| orig := orig empty_state; narrow := narrow empty_state; ifn := ifn empty_state; conj := 0; excl := narrow empty_state |}) [] x) as H3.
  destruct (scan k c (e, {| orig := orig empty_state; narrow := narrow empty_state; ifn := ifn empty_state; conj := 0; excl := narrow empty_state |}) []) as [[e1 s1] zs].
  cbn [snd fst first_capture] in *. rewrite run_restores_spec, H.
  fold (tested c x) in *. destruct (tested c x) eqn:T; [reflexivity|].
  assert (Ho : aget (orig s1) x = None).
  { destruct (aget (orig s1) x) eqn:E; [|reflexivity]. exfalso. destruct H3 as [H3|H3]; [congruence | cbn in H3; congruence | discriminate]. }
  assert (Hn : forall s', orig s' = orig s1 -> ty_of (narrowing e1 s') x = ty_of e1 x).
  { intros s' Es. apply narrowing_other. rewrite Es. exact Ho. }
  destruct k; [destruct (Nat.ltb 1 (List.length c) && Nat.ltb 1 (conj s1))|]; rewrite Hn by reflexivity; apply H2; reflexivity.
Qed.

(* ---------------------------------------------------------------- exactness *)

(* what a test admits in its own branch / in the other branch, by set semantics on the variants *)
Definition positive (k : kind) (t : test) : bool := match k with KIf => negb (t_neg t) | KUnless => t_neg t end.
Definition admit_then (k : kind) (t : test) (ty : vty) : vty := if positive k t then [t_cls t] else minus ty [t_cls t].
Definition admit_else (k : kind) (t : test) (ty : vty) : vty := if positive k t then minus ty [t_cls t] else minus ty (minus ty [t_cls t]).

Definition fresh_for (s : nstate) (x : string) : Prop := aget (orig s) x = None /\ aget (ifn s) x = None /\ aget (narrow s) x = None /\ excl s = [].

Lemma set_ctx_own k t e s : fresh_for s (t_var t) ->
  let '(e', s') := set_ctx k t (e, s) in
  ty_of e' (t_var t) = admit_then k t (ty_of e (t_var t)) /\
  aget (orig s') (t_var t) = Some (ty_of e (t_var t)) /\
  aget (narrow s') (t_var t) = Some (if positive k t then [t_cls t] else minus (ty_of e (t_var t)) [t_cls t]).
Proof.
  intros [Ho [Hi [Hn He]]]. unfold set_ctx, admit_then, positive, lst. rewrite Ho, Hi, Hn, He.
  assert (Hm : forall l, minus l [] = l).
  { intros l. unfold minus. induction l as [|a l IH]; [reflexivity|]. cbn [filter]. replace (negb (mem a [])) with true by reflexivity. rewrite IH. reflexivity. }
  destruct (match k with KIf => negb (t_neg t) | KUnless => t_neg t end); cbn [app orig narrow ifn aget].
  - rewrite !aget_aset_same. cbn [uniq filter]. rewrite ty_of_aset_same. repeat split; reflexivity.
  - rewrite !aget_aset_same. rewrite ty_of_aset_same, Hm. repeat split; reflexivity.
Qed.

Lemma set_ctx_keeps k t e s y : y <> t_var t ->
  aget (orig (snd (set_ctx k t (e, s)))) y = aget (orig s) y /\
  aget (ifn (snd (set_ctx k t (e, s)))) y = aget (ifn s) y /\
  aget (narrow (snd (set_ctx k t (e, s)))) y = aget (narrow s) y /\
  excl (snd (set_ctx k t (e, s))) = excl s.
Proof.
  intros H. unfold set_ctx.
  assert (Ho : aget (match aget (orig s) (t_var t) with Some _ => orig s | None => aset (orig s) (t_var t) (ty_of e (t_var t)) end) y = aget (orig s) y).
  { destruct (aget (orig s) (t_var t)); [reflexivity | apply aget_aset_other; exact H]. }
  destruct (match k with KIf => negb (t_neg t) | KUnless => t_neg t end); cbn [snd orig ifn narrow excl];
    rewrite !aget_aset_other by exact H; repeat split; try reflexivity; exact Ho.
Qed.

(* tests about other variables leave a variable's type and its entries in the state alone *)
Lemma scan_keeps k r x : forall e s zs, ~ In x (map t_var r) ->
  let '(e', s', _) := scan k r (e, s) zs in
  ty_of e' x = ty_of e x /\ aget (orig s') x = aget (orig s) x /\ aget (narrow s') x = aget (narrow s) x /\ aget (ifn s') x = aget (ifn s) x.
Proof.
  induction r as [|t1 r IH]; intros e s zs Hni; cbn [scan]; [repeat split; reflexivity|].
  cbn [map] in Hni. assert (N : x <> t_var t1) by (intro Hc; apply Hni; left; symmetry; exact Hc).
  destruct (set_ctx k t1 (e, s)) as [e2 s2] eqn:E2.
  specialize (IH e2 s2 (zs ++ [(t_var t1, ty_of (fst (e, s)) (t_var t1))]) (fun H => Hni (or_intror H))).
  destruct (scan k r (e2, s2) (zs ++ [(t_var t1, ty_of (fst (e, s)) (t_var t1))])) as [[e3 s3] zs3].
  destruct IH as [I1 [I2 [I3 I4]]].
  pose proof (set_ctx_other k t1 e s x N) as H. rewrite E2 in H. cbn [fst] in H.
  destruct (set_ctx_keeps k t1 e s x N) as [K1 [K2 [K3 _]]]. rewrite E2 in K1, K2, K3. cbn [snd] in K1, K2, K3.
  rewrite I1, I2, I3, I4, H, K1, K2, K3. repeat split; reflexivity.
Qed.

(* after the scan of a condition whose variables are distinct, each tested variable has what its test admits, and
   the state remembers its original type and what the other branch excludes *)
Lemma scan_exact k c : forall e s zs, NoDup (map t_var c) -> (forall t, In t c -> fresh_for s (t_var t)) ->
  forall t, In t c ->
  let '(e', s', _) := scan k c (e, s) zs in
  ty_of e' (t_var t) = admit_then k t (ty_of e (t_var t)) /\
  aget (orig s') (t_var t) = Some (ty_of e (t_var t)) /\
  aget (narrow s') (t_var t) = Some (if positive k t then [t_cls t] else minus (ty_of e (t_var t)) [t_cls t]).
Proof.
  induction c as [|t0 r IH]; intros e s zs Hnd Hf t Hin; [destruct Hin|].
  cbn [scan]. cbn [map] in Hnd. inversion Hnd as [|? ? Hni Hnd']; subst.
  destruct (set_ctx k t0 (e, s)) as [e1 s1] eqn:E1.
  destruct Hin as [<-|Hin].
  - (* the test itself: later tests are about other variables *)
    pose proof (set_ctx_own k t0 e s (Hf t0 (or_introl eq_refl))) as Own. rewrite E1 in Own. destruct Own as [O1 [O2 O3]].
    pose proof (scan_keeps k r (t_var t0) e1 s1 (zs ++ [(t_var t0, ty_of (fst (e, s)) (t_var t0))]) Hni) as K.
    destruct (scan k r (e1, s1) (zs ++ [(t_var t0, ty_of (fst (e, s)) (t_var t0))])) as [[e3 s3] zs3].
    destruct K as [K1 [K2 [K3 _]]]. rewrite K1, K2, K3. repeat split; assumption.
  - (* a later test: the first one left its variable alone *)
    assert (N : t_var t <> t_var t0) by (intro Hc; apply Hni; rewrite <- Hc; apply in_map; exact Hin).
    specialize (IH e1 s1 (zs ++ [(t_var t0, ty_of (fst (e, s)) (t_var t0))]) Hnd').
    assert (Hf1 : forall t', In t' r -> fresh_for s1 (t_var t')).
    { intros t' Ht'. assert (N' : t_var t' <> t_var t0) by (intro Hc; apply Hni; rewrite <- Hc; apply in_map; exact Ht').
      destruct (set_ctx_keeps k t0 e s (t_var t') N') as [H1 [H2 [H3 H4]]]. rewrite E1 in H1, H2, H3, H4. cbn [snd] in H1, H2, H3, H4.
      destruct (Hf t' (or_intror Ht')) as [F1 [F2 [F3 F4]]]. unfold fresh_for. rewrite H1, H2, H3, H4. repeat split; assumption. }
    specialize (IH Hf1 t Hin).
    pose proof (set_ctx_other k t0 e s (t_var t) N) as He. rewrite E1 in He. cbn [fst] in He. rewrite He in IH. exact IH.
Qed.

Lemma fresh_empty x : fresh_for {| orig := orig empty_state; narrow := narrow empty_state; ifn := ifn empty_state; conj := 0; excl := narrow empty_state |} x.
Proof. repeat split. Qed.

(* C10_exact, the branch of the condition *)
Theorem conditional_then_exact k c e t : NoDup (map t_var c) -> In t c ->
  ty_of (fst (fst (conditional k c e))) (t_var t) = admit_then k t (ty_of e (t_var t)).
Proof.
  intros Hnd Hin. unfold conditional, get_backup.
  pose proof (scan_exact k c e {| orig := orig empty_state; narrow := narrow empty_state; ifn := ifn empty_state; conj := 0; excl := narrow empty_state |} []
                Hnd (fun t _ => fresh_empty (t_var t)) t Hin) as H.
  destruct (scan k c (e, {| orig := orig empty_state; narrow := narrow empty_state; ifn := ifn empty_state; conj := 0; excl := narrow empty_state |}) []) as [[e1 s1] zs].
  cbn [fst]. exact (proj1 H).
Qed.

(* narrowing at a variable the state knows *)
Lemma aset_keys_nodup {A} (m : amap A) k v : NoDup (map fst m) -> NoDup (map fst (aset m k v)).
Proof.
  induction m as [|[k' v'] r IH]; intros H; cbn [aset map]; [constructor; [intros [] | constructor]|].
  cbn [map fst] in H. inversion H as [|? ? Hn Hr]; subst.
  destruct (String.eqb_spec k k') as [->|N]; cbn [map fst]; [constructor; assumption|].
  constructor; [|apply IH; exact Hr]. intro Hc. apply Hn. clear -Hc N.
  induction r as [|[k2 v2] r IHr]; cbn [aset map fst] in *; [destruct Hc as [Hc|[]]; congruence|].
  destruct (String.eqb_spec k k2) as [->|N2]; cbn [map fst] in Hc; [destruct Hc as [Hc|Hc]; [congruence | right; exact Hc]|].
  destruct Hc as [Hc|Hc]; [left; exact Hc | right; apply IHr; exact Hc].
Qed.

Lemma narrowing_at e s x ov : NoDup (map fst (orig s)) -> aget (orig s) x = Some ov ->
  ty_of (narrowing e s) x = match aget (narrow s) x with None => ov | Some nv => minus ov nv end.
Proof.
  unfold narrowing. generalize (narrow s). intros nr. revert e.
  induction (orig s) as [|[y oy] r IH]; intros e Hnd H; [discriminate|].
  cbn [fold_left]. cbn [aget] in H. cbn [map fst] in Hnd. inversion Hnd as [|? ? Hn Hr]; subst.
  destruct (String.eqb_spec x y) as [->|N].
  - inversion H; subst oy.
    assert (G : forall l e0, ~ In y (map fst l) ->
                ty_of (fold_left (fun e1 kv => let '(x0, ov0) := kv in match aget nr x0 with None => aset e1 x0 ov0 | Some nv => aset e1 x0 (minus ov0 nv) end) l e0) y = ty_of e0 y).
    { induction l as [|[z oz] l IHl]; intros e0 Hz; cbn [fold_left]; [reflexivity|].
      cbn [map fst] in Hz. rewrite IHl by (intro; apply Hz; right; assumption).
      assert (y <> z) by (intro; apply Hz; left; symmetry; assumption).
      destruct (aget nr z); apply ty_of_aset_other; assumption. }
    rewrite G by exact Hn. destruct (aget nr y); apply ty_of_aset_same.
  - apply IH; assumption.
Qed.

Lemma set_ctx_orig_nodup k t e s : NoDup (map fst (orig s)) -> NoDup (map fst (orig (snd (set_ctx k t (e, s))))).
Proof.
  intros H. unfold set_ctx.
  assert (Ho : NoDup (map fst (match aget (orig s) (t_var t) with Some _ => orig s | None => aset (orig s) (t_var t) (ty_of e (t_var t)) end))).
  { destruct (aget (orig s) (t_var t)); [exact H | apply aset_keys_nodup; exact H]. }
  destruct (match k with KIf => negb (t_neg t) | KUnless => t_neg t end); cbn [snd orig]; exact Ho.
Qed.
Lemma scan_orig_nodup k c : forall es zs, NoDup (map fst (orig (snd es))) -> NoDup (map fst (orig (snd (fst (scan k c es zs))))).
Proof.
  induction c as [|t r IH]; intros es zs H; cbn [scan]; [exact H|]. apply IH. destruct es as [e s]. apply set_ctx_orig_nodup. exact H.
Qed.

(* C10_exact, the else branch of a single test: the complement *)
Theorem conditional_else_exact_single k t e :
  ty_of (snd (fst (conditional k [t] e))) (t_var t) = admit_else k t (ty_of e (t_var t)).
Proof.
  unfold conditional, get_backup.
  pose proof (scan_exact k [t] e {| orig := orig empty_state; narrow := narrow empty_state; ifn := ifn empty_state; conj := 0; excl := narrow empty_state |} []
                ltac:(constructor; [intros [] | constructor]) (fun t _ => fresh_empty (t_var t)) t (or_introl eq_refl)) as H.
  pose proof (scan_orig_nodup k [t] (e, {| orig := orig empty_state; narrow := narrow empty_state; ifn := ifn empty_state; conj := 0; excl := narrow empty_state |}) [] ltac:(constructor)) as Hnd.
  destruct (scan k [t] (e, {| orig := orig empty_state; narrow := narrow empty_state; ifn := ifn empty_state; conj := 0; excl := narrow empty_state |}) []) as [[e1 s1] zs].
  destruct H as [_ [Ho Hn]]. cbn [snd fst] in *. cbn [List.length Nat.ltb Nat.leb andb].
  assert (Es : (match k with KIf => s1 | KUnless => s1 end) = s1) by (destruct k; reflexivity). rewrite Es.
  rewrite (narrowing_at e1 s1 (t_var t) _ Hnd Ho), Hn. unfold admit_else. destruct (positive k t); reflexivity.
Qed.

(* C10_exact, the else branch of `if a && b && ...`: the negation of a conjunction admits every variant again *)
Theorem conditional_else_of_conjunction c e t : NoDup (map t_var c) -> 2 <= List.length c -> In t c ->
  ty_of (snd (fst (conditional KIf c e))) (t_var t) = ty_of e (t_var t).
Proof.
  intros Hnd Hlen Hin. unfold conditional, get_backup.
  pose proof (scan_exact KIf c e {| orig := orig empty_state; narrow := narrow empty_state; ifn := ifn empty_state; conj := 0; excl := narrow empty_state |} []
                Hnd (fun t _ => fresh_empty (t_var t)) t Hin) as H.
  pose proof (scan_orig_nodup KIf c (e, {| orig := orig empty_state; narrow := narrow empty_state; ifn := ifn empty_state; conj := 0; excl := narrow empty_state |}) [] ltac:(constructor)) as Hnd2.
  assert (Hc : forall es zs, conj (snd (fst (scan KIf c es zs))) = conj (snd es) + List.length c).
  { clear. induction c as [|t r IH]; intros es zs; cbn [scan List.length fst snd]; [lia|]. rewrite IH. destruct es as [e s].
    unfold set_ctx. destruct (negb (t_neg t)); cbn [snd conj]; lia. }
  specialize (Hc (e, {| orig := orig empty_state; narrow := narrow empty_state; ifn := ifn empty_state; conj := 0; excl := narrow empty_state |}) []).
  destruct (scan KIf c (e, {| orig := orig empty_state; narrow := narrow empty_state; ifn := ifn empty_state; conj := 0; excl := narrow empty_state |}) []) as [[e1 s1] zs].
  destruct H as [_ [Ho _]]. cbn [snd fst conj] in *.
  replace (Nat.ltb 1 (List.length c)) with true by (symmetry; apply Nat.ltb_lt; lia).
  replace (Nat.ltb 1 (conj s1)) with true by (symmetry; apply Nat.ltb_lt; lia). cbn [andb snd fst].
  match goal with |- ty_of (narrowing e1 ?s2) _ = _ => rewrite (narrowing_at e1 s2 (t_var t) _ Hnd2 Ho) end. reflexivity.
Qed.
