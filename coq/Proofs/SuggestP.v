(* Proofs about the completion predicates: termination of the ancestor search on arbitrary (cyclic) inheritance
   maps, and its soundness and completeness with respect to the ancestor relation. *)
From RT Require Import Model.Suggest.
From Coq Require Import Lia.

Lemma fc_eqb_eq a b : fc_eqb a b = true <-> a = b.
Proof.
  destruct a as [a1 a2], b as [b1 b2]; unfold fc_eqb; cbn [fst snd].
  rewrite Bool.andb_true_iff, !String.eqb_eq. split; [intros [-> ->]; reflexivity | intros H; inversion H; auto].
Qed.
Lemma fc_eqb_refl a : fc_eqb a a = true. Proof. apply fc_eqb_eq; reflexivity. Qed.
Lemma fc_eqb_neq a b : fc_eqb a b = false <-> a <> b.
Proof. rewrite <- fc_eqb_eq. destruct (fc_eqb a b); split; congruence. Qed.

Lemma mem_fc_in n l : mem_fc n l = true <-> In n l.
Proof.
  unfold mem_fc; rewrite existsb_exists; split.
  - intros [x [Hx He]]. apply fc_eqb_eq in He; subst; exact Hx.
  - intros H; exists n; split; [exact H | apply fc_eqb_refl].
Qed.

Lemma mem_remove x n l : mem_fc x (remove_fc n l) = mem_fc x l && negb (fc_eqb x n).
Proof.
  induction l as [|y l IH]; cbn [remove_fc mem_fc existsb]; [reflexivity|].
  destruct (fc_eqb n y) eqn:E.
  - apply fc_eqb_eq in E; subst y. fold (mem_fc x (remove_fc n l)); rewrite IH. fold (mem_fc x l).
    destruct (fc_eqb x n); cbn; [rewrite Bool.andb_false_r; reflexivity | reflexivity].
  - cbn [existsb]. fold (mem_fc x (remove_fc n l)); rewrite IH. fold (mem_fc x l).
    destruct (fc_eqb x y) eqn:E2; cbn; [|reflexivity].
    apply fc_eqb_eq in E2; subst y. destruct (fc_eqb x n) eqn:E3; [|reflexivity].
    apply fc_eqb_eq in E3; subst. rewrite fc_eqb_refl in E; discriminate.
Qed.

Lemma remove_length_le n l : List.length (remove_fc n l) <= List.length l.
Proof. induction l as [|y l IH]; cbn; [lia|]. destruct (fc_eqb n y); cbn; lia. Qed.
Lemma remove_length_lt n l : mem_fc n l = true -> List.length (remove_fc n l) < List.length l.
Proof.
  induction l as [|y l IH]; cbn [mem_fc existsb remove_fc]; [discriminate|].
  destruct (fc_eqb n y) eqn:E; cbn [orb].
  - intros _. pose proof (remove_length_le n l). cbn; lia.
  - intros H. cbn. apply IH in H. lia.
Qed.

(* ------------------------------------------------------------ termination *)

Section Search.
  Variables (m : inh_map) (bl : list string) (s : sig).
  Let tgt : node := (s_frame s, s_class s).
  Let search f st := is_parent_class f m bl s st.

  Lemma first_true_total (step : pnode -> list node -> option (bool * list node)) (k : nat) :
    (forall p uv, List.length uv <= k -> exists b uv', step p uv = Some (b, uv') /\ List.length uv' <= List.length uv) ->
    forall ps uv, List.length uv <= k ->
      exists b uv', first_true step ps uv = Some (b, uv') /\ List.length uv' <= List.length uv.
  Proof.
    intros Hs ps; induction ps as [|p r IH]; intros uv Hk; cbn [first_true].
    - exists false, uv; split; [reflexivity | lia].
    - destruct (Hs p uv Hk) as [b [uv' [E Hl]]]; rewrite E. destruct b.
      + exists true, uv'; split; [reflexivity | exact Hl].
      + destruct (IH uv' ltac:(lia)) as [b2 [uv2 [E2 Hl2]]]. exists b2, uv2; split; [exact E2 | lia].
  Qed.

  Lemma search_total f : forall st uv n e i, List.length uv < f ->
    exists b uv', search f st uv n e i = Some (b, uv') /\ List.length uv' <= List.length uv.
  Proof.
    induction f as [|f IH]; intros st uv n e i Hf; [lia|].
    unfold search; cbn [is_parent_class].
    destruct (e && negb st); [exists false, uv; split; [reflexivity | lia]|].
    destruct (i && st); [exists false, uv; split; [reflexivity | lia]|].
    destruct (String.eqb (s_method s) "new"); [exists false, uv; split; [reflexivity | lia]|].
    destruct (fc_eqb (s_frame s, s_class s) (norm bl n)); [eexists _, uv; split; [reflexivity | lia]|].
    destruct (mem_fc (norm bl n) uv) eqn:Hm; cbn [negb]; [|exists false, uv; split; [reflexivity | lia]].
    pose proof (remove_length_lt _ _ Hm) as Hlt.
    destruct (first_true_total (fun p uv1 => search f (if e then false else st) uv1 (pn_node p) (pn_extend p) (pn_include p))
                (List.length (remove_fc (norm bl n) uv))
                (fun p uv1 H => IH _ uv1 _ _ _ ltac:(lia)) (parents_of m (norm bl n)) _ (le_n _)) as [b [uv' [E Hl]]].
    exists b, uv'; split; [exact E | lia].
  Qed.

  (* ---------------------------------------------------------- the ancestor relation *)

  (* may the edge be followed by a search for class methods (st) / instance methods? *)
  Definition adm (st e i : bool) : bool := negb (e && negb st) && negb (i && st).
  (* what is searched beyond the edge: an extended module answers with its instance methods *)
  Definition next_mode (st e : bool) : bool := if e then false else st.

  (* anc st n st' x: searching class methods (st) / instance methods at n, the walk reaches x searching st' *)
  Inductive anc : bool -> node -> bool -> node -> Prop :=
  | anc_here st n : anc st n st n
  | anc_step st n p st' x : In p (parents_of m n) -> adm st (pn_extend p) (pn_include p) = true ->
                     anc (next_mode st (pn_extend p)) (norm bl (pn_node p)) st' x -> anc st n st' x.

  Definition not_new : Prop := s_method s <> "new"%string.

  (* ---------------------------------------------------------- soundness *)

  Lemma first_true_sound (step : pnode -> list node -> option (bool * list node)) (st : bool) (n : node) :
    forall ps, (forall p, In p ps -> In p (parents_of m n)) ->
    (forall p uv uv', step p uv = Some (true, uv') ->
       not_new /\ adm st (pn_extend p) (pn_include p) = true /\
       anc (next_mode st (pn_extend p)) (norm bl (pn_node p)) (s_static s) tgt) ->
    forall uv uv', first_true step ps uv = Some (true, uv') -> not_new /\ anc st n (s_static s) tgt.
  Proof.
    intros ps; induction ps as [|p r IH]; intros Hin Hs uv uv'; cbn [first_true]; [discriminate|].
    destruct (step p uv) as [[[|] uv1]|] eqn:E; [| |discriminate].
    - intros _. destruct (Hs _ _ _ E) as [G [A R]]. split; [exact G|].
      eapply anc_step; [apply Hin; left; reflexivity | exact A | exact R].
    - intros H. eapply IH; [intros q Hq; apply Hin; right; exact Hq | exact Hs | exact H].
  Qed.

  Lemma search_sound f : forall st uv n e i uv', search f st uv n e i = Some (true, uv') ->
    not_new /\ adm st e i = true /\ anc (next_mode st e) (norm bl n) (s_static s) tgt.
  Proof.
    induction f as [|f IH]; intros st uv n e i uv'; unfold search; cbn [is_parent_class]; [discriminate|].
    destruct (e && negb st) eqn:G1; [discriminate|].
    destruct (i && st) eqn:G2; [discriminate|].
    destruct (String.eqb (s_method s) "new") eqn:G4; [discriminate|].
    assert (G : not_new) by (apply String.eqb_neq; exact G4).
    assert (A : adm st e i = true) by (unfold adm; rewrite G1, G2; reflexivity).
    fold (next_mode st e).
    destruct (fc_eqb (s_frame s, s_class s) (norm bl n)) eqn:G5.
    - intros H. injection H as Hs Hu. apply fc_eqb_eq in G5. apply Bool.eqb_prop in Hs.
      split; [exact G|]. split; [exact A|]. unfold tgt; rewrite G5, Hs. apply anc_here.
    - destruct (mem_fc (norm bl n) uv); cbn [negb]; [|discriminate].
      intros H. split; [exact G|]. split; [exact A|].
      eapply (first_true_sound _ (next_mode st e) (norm bl n)) in H; [exact (proj2 H) | intros p Hp; exact Hp |].
      intros p uv1 uv2 Hs. exact (IH _ _ _ _ _ _ Hs).
  Qed.

  (* ---------------------------------------------------------- completeness *)

  (* Go's visited map is keyed by the class alone.  That loses nothing when every class is searched in one way
     only: classes for the kind of method asked for, modules for their instance methods. *)
  Variable mode_of : node -> bool.
  Definition well_moded : Prop :=
    forall n p, In p (parents_of m n) -> adm (mode_of n) (pn_extend p) (pn_include p) = true ->
                mode_of (norm bl (pn_node p)) = next_mode (mode_of n) (pn_extend p).

  Definition shrinks (uv uv' : list node) : Prop := forall x, mem_fc x uv' = true -> mem_fc x uv = true.
  (* a parent over an admissible edge is either the target searched the wrong way, or expanded and not the target *)
  Definition settled (uv' : list node) (x : node) : Prop :=
    (x = tgt /\ s_static s <> mode_of x) \/ (x <> tgt /\ mem_fc x uv' = false).
  Definition closed_between (uv uv' : list node) : Prop :=
    forall x, mem_fc x uv = true -> mem_fc x uv' = false ->
      x <> tgt /\ forall p, In p (parents_of m x) -> adm (mode_of x) (pn_extend p) (pn_include p) = true ->
                            settled uv' (norm bl (pn_node p)).

  Lemma shrinks_refl uv : shrinks uv uv. Proof. intros x H; exact H. Qed.
  Lemma shrinks_trans a b c : shrinks a b -> shrinks b c -> shrinks a c.
  Proof. intros H1 H2 x H; apply H1, H2, H. Qed.
  Lemma shrinks_false a b x : shrinks a b -> mem_fc x a = false -> mem_fc x b = false.
  Proof. intros H Hx. destruct (mem_fc x b) eqn:E; [apply H in E; congruence | reflexivity]. Qed.
  Lemma settled_shrinks a b x : shrinks a b -> settled a x -> settled b x.
  Proof. intros S [H|[H1 H2]]; [left; exact H | right; split; [exact H1 | eapply shrinks_false; eassumption]]. Qed.

  Lemma closed_between_trans a b c : shrinks a b -> shrinks b c ->
    closed_between a b -> closed_between b c -> closed_between a c.
  Proof.
    intros S1 S2 C1 C2 x Ha Hc. destruct (mem_fc x b) eqn:Hb.
    - exact (C2 x Hb Hc).
    - destruct (C1 x Ha Hb) as [N P]. split; [exact N|]. intros p Hp Ad.
      eapply settled_shrinks; [exact S2 | exact (P p Hp Ad)].
  Qed.

  Lemma first_true_complete (step : pnode -> list node -> option (bool * list node)) (st : bool) :
    forall ps,
    (forall p uv uv', In p ps -> step p uv = Some (false, uv') ->
       shrinks uv uv' /\ closed_between uv uv' /\
       (adm st (pn_extend p) (pn_include p) = true -> settled uv' (norm bl (pn_node p)))) ->
    forall uv uv', first_true step ps uv = Some (false, uv') ->
      shrinks uv uv' /\ closed_between uv uv' /\
      forall p, In p ps -> adm st (pn_extend p) (pn_include p) = true -> settled uv' (norm bl (pn_node p)).
  Proof.
    intros ps; induction ps as [|p r IH]; intros Hs uv uv'; cbn [first_true].
    - intros H; inversion H; subst. split; [apply shrinks_refl|]. split; [intros x H1 H2; congruence|]. intros p [].
    - destruct (step p uv) as [[[|] uv1]|] eqn:E; [discriminate| |discriminate].
      intros H. destruct (Hs _ _ _ (or_introl eq_refl) E) as [S1 [C1 P1]].
      destruct (IH (fun q a b Hq => Hs q a b (or_intror Hq)) _ _ H) as [S2 [C2 P2]].
      split; [eapply shrinks_trans; eassumption|]. split; [eapply closed_between_trans; eassumption|].
      intros q [<-|Hq] Ad; [|exact (P2 q Hq Ad)].
      eapply settled_shrinks; [exact S2 | exact (P1 Ad)].
  Qed.

  (* a call made the way the walk makes it: beyond the edge, the node is searched in its own mode *)
  Lemma search_complete f : not_new -> well_moded -> forall st uv n e i uv',
    (adm st e i = true -> next_mode st e = mode_of (norm bl n)) ->
    search f st uv n e i = Some (false, uv') ->
    shrinks uv uv' /\ closed_between uv uv' /\ (adm st e i = true -> settled uv' (norm bl n)).
  Proof.
    intros Gn WM. induction f as [|f IH]; intros st uv n e i uv' Hmode; unfold search; cbn [is_parent_class]; [discriminate|].
    assert (Triv : forall (P : Prop), shrinks uv uv /\ closed_between uv uv /\ (false = true -> P))
      by (intros P; split; [apply shrinks_refl|]; split; [intros x H1 H2; congruence | discriminate]).
    unfold adm in *.
    destruct (e && negb st) eqn:G1; [intros H; inversion H; subst; cbn [negb andb]; apply Triv|].
    destruct (i && st) eqn:G2; [intros H; inversion H; subst; cbn [negb andb]; apply Triv|].
    cbn [negb andb] in *. specialize (Hmode eq_refl).
    fold (next_mode st e). rewrite Hmode.
    apply String.eqb_neq in Gn; rewrite Gn.
    destruct (fc_eqb (s_frame s, s_class s) (norm bl n)) eqn:G5.
    - intros H. injection H as Hs Hu. subst uv'. apply fc_eqb_eq in G5.
      split; [apply shrinks_refl|]. split; [intros x H1 H2; congruence|]. intros _. left.
      split; [symmetry; exact G5|]. intro Hc. rewrite Hc, Bool.eqb_reflx in Hs. discriminate.
    - apply fc_eqb_neq in G5.
      assert (Nt : norm bl n <> tgt) by (intro Hc; apply G5; symmetry; exact Hc).
      destruct (mem_fc (norm bl n) uv) eqn:Hm; cbn [negb].
      + intros H. apply (first_true_complete _ (mode_of (norm bl n))) in H.
        2:{ intros p uv1 uv2 Hp Hs. eapply IH; [|exact Hs]. intros Ad. symmetry. apply WM; [exact Hp | exact Ad]. }
        destruct H as [S [C P]].
        assert (S0 : shrinks uv (remove_fc (norm bl n) uv)).
        { intros x Hx. rewrite mem_remove in Hx. apply Bool.andb_true_iff in Hx; tauto. }
        assert (Hn' : mem_fc (norm bl n) uv' = false).
        { eapply shrinks_false; [exact S|]. rewrite mem_remove, fc_eqb_refl. apply Bool.andb_false_r. }
        split; [eapply shrinks_trans; eassumption|]. split.
        * intros x Hx Hx'. destruct (mem_fc x (remove_fc (norm bl n) uv)) eqn:Hr; [exact (C x Hr Hx')|].
          rewrite mem_remove, Hx in Hr. cbn [andb] in Hr. apply Bool.negb_false_iff, fc_eqb_eq in Hr. subst x.
          split; [exact Nt | exact P].
        * intros _. right. split; assumption.
      + intros H; inversion H; subst. split; [apply shrinks_refl|]. split; [intros x H1 H2; congruence|].
        intros _. right. split; assumption.
  Qed.

  (* in a well-moded map a walk that starts in the mode of its node stays in the mode of each node *)
  Lemma anc_mode : well_moded -> forall st x st' y, anc st x st' y -> st = mode_of x -> st' = mode_of y.
  Proof.
    intros WM st x st' y H; induction H as [st n | st n p st' x Hp Ad H IH]; intros E; [exact E|].
    apply IH. subst st. symmetry. apply WM; assumption.
  Qed.
End Search.

(* ---------------------------------------------------------------- the universe is closed *)

Lemma parents_of_in m n p : In p (parents_of m n) -> exists k ps, In (k, ps) m /\ In p ps.
Proof.
  induction m as [|[k ps] r IH]; cbn [parents_of]; [intros []|].
  destruct (fc_eqb n k); [intros H; exists k, ps; split; [left; reflexivity | exact H]|].
  intros H; destruct (IH H) as [k2 [ps2 [H1 H2]]]. exists k2, ps2; split; [right; exact H1 | exact H2].
Qed.

Lemma norm_cases bl n : norm bl n = n \/ norm bl n = ("Builtin", snd n).
Proof. unfold norm; destruct (_ && _); [right | left]; reflexivity. Qed.

Lemma universe_start m bl n : In (norm bl n) (universe m n).
Proof. unfold universe. destruct (norm_cases bl n) as [-> | ->]; [left; reflexivity | right; left; reflexivity]. Qed.

Lemma universe_parent m bl start n p : In p (parents_of m n) -> In (norm bl (pn_node p)) (universe m start).
Proof.
  intros H. apply parents_of_in in H. destruct H as [k [ps [Hk Hp]]].
  unfold universe. right; right. apply in_flat_map. exists (k, ps); split; [exact Hk|]. cbn [fst snd].
  right. apply in_or_app. destruct (norm_cases bl (pn_node p)) as [-> | ->].
  - left. apply in_map; exact Hp.
  - right. cbn [pn_node snd]. apply (in_map (fun p => ("Builtin", pn_class p))); exact Hp.
Qed.

(* ---------------------------------------------------------------- IsParentClass is the ancestor relation *)

Theorem is_parent_class_terminates m bl s n st : exists b uv',
  is_parent_class (S (List.length (universe m n))) m bl s st (universe m n) n false false = Some (b, uv').
Proof.
  destruct (search_total m bl s (S (List.length (universe m n))) st (universe m n) n false false (le_n _)) as [b [uv' [E _]]].
  exists b, uv'; exact E.
Qed.

(* what IsParentClass decides: the walk reaches the class of the signature, searching the kind of method it is *)
Definition ancestor_spec (m : inh_map) (bl : list string) (s : sig) (n : node) (st : bool) : Prop :=
  s_method s <> "new"%string /\ anc m bl st (norm bl n) (s_static s) (s_frame s, s_class s).
(* every class is searched in one way only (see well_moded) *)
Definition moded (m : inh_map) (bl : list string) (n : node) (st : bool) : Prop :=
  exists mode_of, well_moded m bl mode_of /\ mode_of (norm bl n) = st.

Theorem is_parent_class_sound m bl s n st : IsParentClass m bl s n st = true -> ancestor_spec m bl s n st.
Proof.
  unfold IsParentClass. destruct (is_parent_class_terminates m bl s n st) as [b [uv' E]]. rewrite E.
  intros ->. apply search_sound in E. destruct E as [G [_ A]]. split; assumption.
Qed.

Theorem is_parent_class_complete m bl s n st : moded m bl n st ->
  ancestor_spec m bl s n st -> IsParentClass m bl s n st = true.
Proof.
  intros [mode_of [WM Hst]] [G A]. unfold IsParentClass.
  destruct (is_parent_class_terminates m bl s n st) as [b [uv' E]]. rewrite E.
  destruct b; [reflexivity|]. exfalso.
  apply (search_complete m bl s mode_of _ G WM) in E; [|intros _; symmetry; exact Hst].
  cbv zeta in E. destruct E as [S [C P]]. specialize (P eq_refl).
  unfold closed_between, settled in C. unfold settled in P. cbv zeta in C, P.
  set (tgt := (s_frame s, s_class s)) in *.
  set (V := fun x => In x (universe m n) /\ mem_fc x uv' = false /\ x <> tgt).
  (* from an expanded node the walk stays among expanded nodes, unless it meets the target searched the wrong way *)
  assert (HV : forall st1 x st2 y, anc m bl st1 x st2 y -> st1 = mode_of x -> V x -> V y \/ s_static s <> mode_of tgt).
  { intros st1 x st2 y Ha; induction Ha as [st1 x | st1 x p st2 y Hp Ad Ha IH]; intros Hm Hx; [left; exact Hx|].
    destruct Hx as [Hu [Hmem Hne]]. subst st1.
    destruct (C x (proj2 (mem_fc_in _ _) Hu) Hmem) as [_ Q].
    destruct (Q p Hp Ad) as [[Ht Hs]|[Hnt Hnm]].
    - right. rewrite <- Ht. exact Hs.
    - apply IH; [symmetry; apply WM; assumption|].
      split; [eapply universe_parent; exact Hp | split; assumption]. }
  pose proof (anc_mode m bl mode_of WM _ _ _ _ A (eq_sym Hst)) as Hmode.
  destruct P as [[Ht Hs]|[Hnt Hnm]].
  - (* the start is the target, searched the wrong way *)
    apply Hs. rewrite Hmode. rewrite Ht. reflexivity.
  - destruct (HV _ _ _ _ A (eq_sym Hst)) as [[_ [_ Hne]]|Hs].
    + split; [apply universe_start | split; assumption].
    + apply Hne; reflexivity.
    + apply Hs. exact Hmode.
Qed.

(* a search for instance methods never changes its mode: no hypothesis is needed *)
Lemma moded_instance m bl n : moded m bl n false.
Proof.
  exists (fun _ => false). split; [|reflexivity].
  intros x p Hp Ad. unfold adm in Ad. unfold next_mode. destruct (pn_extend p); [discriminate | reflexivity].
Qed.

Theorem is_parent_class_spec m bl s n st : moded m bl n st ->
  (IsParentClass m bl s n st = true <-> ancestor_spec m bl s n st).
Proof. intros Hm; split; [apply is_parent_class_sound | apply is_parent_class_complete; exact Hm]. Qed.

(* ---------------------------------------------------------------- isSuggest is `callable` *)

Section Callable.
  Variables (m : inh_map) (bl : list string) (t : target) (s : sig) (oc : string) (st : bool).

  Definition implicit : Prop := tg_meth t = ""%string.
  (* a private method is offered only inside its own class, to an implicit receiver *)
  Definition visible : Prop := s_private s = true -> implicit /\ s_class s = tg_dc t.
  (* the class around the cursor, or one of its ancestors *)
  Definition enclosing : Prop :=
    implicit /\ ((s_class s = tg_dc t /\ s_static s = tg_static t) \/ ancestor_spec m bl s (tg_df t, tg_dc t) (tg_static t)).
  (* the class of the receiver (by name), or one of its ancestors *)
  Definition receiver : Prop :=
    (s_class s = oc /\ s_static s = st) \/ (s_class s <> oc /\ ancestor_spec m bl s (tg_frame t, oc) st).
  Definition callable : Prop :=
    s_class s <> ""%string /\ s_class s <> "Kernel"%string /\ oc <> ""%string /\ visible /\ (enclosing \/ receiver).

  (* the cascade of early returns as one boolean formula *)
  Definition suggest_formula : bool :=
    let imp := String.eqb (tg_meth t) "" in
    negb (String.eqb (s_class s) "") && negb (String.eqb (s_class s) "Kernel") && negb (Nat.ltb (String.length oc) 1)
    && negb (s_private s && (negb imp || negb (String.eqb (s_class s) (tg_dc t))))
    && ((imp && String.eqb (s_class s) (tg_dc t) && Bool.eqb (s_static s) (tg_static t))
        || (imp && IsParentClass m bl s (tg_df t, tg_dc t) (tg_static t))
        || (String.eqb (s_class s) oc && Bool.eqb st (s_static s))
        || (negb (String.eqb (s_class s) oc) && IsParentClass m bl s (tg_frame t, oc) st)).

  Lemma is_suggest_formula : calc_object_class true t = Some (oc, st) ->
    is_suggest true true m bl t s = Some suggest_formula.
  Proof.
    intros Hc. unfold is_suggest, suggest_formula. rewrite Hc. cbn [negb orb].
    destruct (String.eqb (s_class s) ""); [reflexivity|].
    destruct (String.eqb (s_class s) "Kernel"); [reflexivity|].
    destruct (Nat.ltb (String.length oc) 1); [reflexivity|].
    destruct (String.eqb (tg_meth t) ""); destruct (s_private s); destruct (String.eqb (s_class s) (tg_dc t));
      cbn [negb orb andb]; try reflexivity;
      destruct (Bool.eqb (s_static s) (tg_static t)); cbn [negb orb andb]; try reflexivity;
      destruct (IsParentClass m bl s (tg_df t, tg_dc t) (tg_static t)); cbn [negb orb andb]; try reflexivity;
      destruct (String.eqb (s_class s) oc); cbn [negb orb andb]; try reflexivity;
      destruct (Bool.eqb st (s_static s)); cbn [negb orb andb]; try reflexivity;
      destruct (IsParentClass m bl s (tg_frame t, oc) st); reflexivity.
  Qed.

  Lemma is_suggest_callable : calc_object_class true t = Some (oc, st) ->
    moded m bl (tg_df t, tg_dc t) (tg_static t) -> moded m bl (tg_frame t, oc) st ->
    (is_suggest true true m bl t s = Some true <-> callable).
  Proof.
    intros Hc M1 M2. rewrite (is_suggest_formula Hc).
    unfold suggest_formula, callable, visible, enclosing, receiver, implicit.
    pose proof (is_parent_class_spec m bl s (tg_df t, tg_dc t) (tg_static t) M1) as P1.
    pose proof (is_parent_class_spec m bl s (tg_frame t, oc) st M2) as P2.
    assert (Hoc : Nat.ltb (String.length oc) 1 = true <-> oc = ""%string).
    { destruct oc; cbn; split; try reflexivity; discriminate. }
    assert (Hinj : forall b, Some b = Some true <-> b = true) by (intros b; split; [intros H; inversion H; reflexivity | intros ->; reflexivity]).
    rewrite Hinj.
    rewrite !Bool.andb_true_iff, !Bool.orb_true_iff, !Bool.andb_true_iff, !Bool.negb_true_iff.
    rewrite <- !Bool.not_true_iff_false.
    rewrite !Bool.andb_true_iff, !Bool.orb_true_iff, !Bool.negb_true_iff, <- !Bool.not_true_iff_false.
    rewrite !String.eqb_eq, !Bool.eqb_true_iff, Hoc, P1, P2.
    assert (Hsym : st = s_static s <-> s_static s = st) by (split; congruence).
    rewrite Hsym.
    destruct (s_private s).
    - destruct (String.eqb_spec (tg_meth t) ""); destruct (String.eqb_spec (s_class s) (tg_dc t)); tauto.
    - assert (F : false = true <-> False) by (split; [discriminate | tauto]). rewrite !F. tauto.
  Qed.

  (* soundness needs no hypothesis on the map *)
  Lemma is_suggest_sound : calc_object_class true t = Some (oc, st) ->
    is_suggest true true m bl t s = Some true -> callable.
  Proof.
    intros Hc. rewrite (is_suggest_formula Hc).
    unfold suggest_formula, callable, visible, enclosing, receiver, implicit.
    pose proof (is_parent_class_sound m bl s (tg_df t, tg_dc t) (tg_static t)) as P1.
    pose proof (is_parent_class_sound m bl s (tg_frame t, oc) st) as P2.
    assert (Hoc : Nat.ltb (String.length oc) 1 = true <-> oc = ""%string).
    { destruct oc; cbn; split; try reflexivity; discriminate. }
    intros H. injection H as H.
    destruct (IsParentClass m bl s (tg_df t, tg_dc t) (tg_static t));
    destruct (IsParentClass m bl s (tg_frame t, oc) st);
    destruct (Nat.ltb (String.length oc) 1); cbn [negb andb] in H; try (rewrite !Bool.andb_false_r in H; discriminate);
    destruct (String.eqb_spec (s_class s) ""); destruct (String.eqb_spec (s_class s) "Kernel"); cbn [negb andb] in H; try discriminate;
    destruct (s_private s); destruct (String.eqb_spec (tg_meth t) ""); destruct (String.eqb_spec (s_class s) (tg_dc t));
    cbn [negb andb orb] in H; try discriminate;
    destruct (String.eqb_spec (s_class s) oc); destruct (Bool.eqb_spec (s_static s) (tg_static t)); destruct (Bool.eqb_spec st (s_static s));
    cbn [negb andb orb] in H; try discriminate; intuition congruence.
  Qed.
End Callable.
