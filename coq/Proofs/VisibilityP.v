(* C22: the two-flag implementation with deferred calls computes Ruby's section rule *)
From RT Require Import Model.Visibility.

(* the flags that occur: at most one is set *)
Definition wf (f : flags) : Prop := f_priv f && f_prot f = false.
Definition vis_flags (v : vis) : flags :=
  match v with Public => {| f_priv := false; f_prot := false |} | Private => {| f_priv := true; f_prot := false |}
             | Protected => {| f_priv := false; f_prot := true |} end.
Lemma tag_vis_flags v : tag_of (vis_flags v) = v. Proof. destruct v; reflexivity. Qed.
Lemma flags_of_tag f : wf f -> vis_flags (tag_of f) = f.
Proof. destruct f as [[|] [|]]; unfold wf; cbn; intros H; try discriminate; reflexivity. Qed.

(* every deferred End* only clears, and the restoring closure, at the bottom of the stack, has the last word *)
Lemma run_defers_restore ds saved f : (forall d, In d ds -> d = DEndPrivate \/ d = DEndProtected) ->
  run_defers (ds ++ [DRestore saved]) f = saved.
Proof. intros _. unfold run_defers. rewrite fold_left_app. reflexivity. Qed.

Lemma singleton_loop_spec body : forall v ds,
  exists f' ds', singleton_loop body (vis_flags v) ds = (ruby_singleton body v, f', ds' ++ ds) /\
                 (forall d, In d ds' -> d = DEndPrivate \/ d = DEndProtected).
Proof.
  induction body as [|i r IH]; intros v ds; cbn [singleton_loop ruby_singleton].
  - exists (vis_flags v), []. split; [reflexivity | intros d []].
  - destruct i as [| | |n|n].
    + destruct (IH Private (DEndPrivate :: ds)) as [f' [ds' [E H]]]. exists f', (ds' ++ [DEndPrivate]).
      change (start_private (vis_flags v)) with (vis_flags Private). rewrite E, <- app_assoc. split; [reflexivity|].
      intros d Hd. apply in_app_or in Hd as [Hd|[<-|[]]]; [apply H; exact Hd | left; reflexivity].
    + destruct (IH Protected (DEndProtected :: ds)) as [f' [ds' [E H]]]. exists f', (ds' ++ [DEndProtected]).
      change (start_protected (vis_flags v)) with (vis_flags Protected). rewrite E, <- app_assoc. split; [reflexivity|].
      intros d Hd. apply in_app_or in Hd as [Hd|[<-|[]]]; [apply H; exact Hd | right; reflexivity].
    + destruct (IH Public ds) as [f' [ds' [E H]]]. exists f', ds'.
      replace (end_protected (end_private (vis_flags v))) with (vis_flags Public) by (destruct v; reflexivity).
      rewrite E. split; [reflexivity | exact H].
    + destruct (IH v ds) as [f' [ds' [E H]]]. exists f', ds'. rewrite E, tag_vis_flags. split; [reflexivity | exact H].
    + destruct (IH v ds) as [f' [ds' [E H]]]. exists f', ds'. rewrite E.
      change (start_private (vis_flags v)) with (vis_flags Private). rewrite tag_vis_flags. split; [reflexivity | exact H].
Qed.

Lemma singleton_section_spec body v : singleton_section body (vis_flags v) = (ruby_singleton body Public, vis_flags v).
Proof.
  unfold singleton_section.
  replace (end_protected (end_private (vis_flags v))) with (vis_flags Public) by (destruct v; reflexivity).
  destruct (singleton_loop_spec body Public [DRestore (vis_flags v)]) as [f' [ds' [E H]]]. rewrite E.
  rewrite run_defers_restore by exact H. reflexivity.
Qed.

Lemma class_loop_spec items : forall v, class_loop items (vis_flags v) = ruby_class items v.
Proof.
  induction items as [|i r IH]; intros v; cbn [class_loop ruby_class]; [reflexivity|].
  destruct i as [| | |n|n|body|n|ns].
  - change (start_private (vis_flags v)) with (vis_flags Private). apply IH.
  - change (start_protected (vis_flags v)) with (vis_flags Protected). apply IH.
  - replace (end_protected (end_private (vis_flags v))) with (vis_flags Public) by (destruct v; reflexivity). apply IH.
  - rewrite tag_vis_flags, IH. reflexivity.
  - replace (end_protected (end_private (vis_flags v))) with (vis_flags Public) by (destruct v; reflexivity).
    rewrite IH. reflexivity.
  - rewrite singleton_section_spec, IH. reflexivity.
  - change (start_private (vis_flags v)) with (vis_flags Private). rewrite tag_vis_flags, IH. reflexivity.
  - apply IH.
Qed.

Theorem class_tags_ruby items : class_tags items = ruby_tags items.
Proof. exact (class_loop_spec items Public). Qed.

(* the pinned code *)
Lemma pinned_refuted :
  pinned_class_loop [IPrivate; ISingleton [SDef "t"]; IDef "c"; IDefSelf "s"] {| f_priv := false; f_prot := false |}
  <> ruby_tags [IPrivate; ISingleton [SDef "t"]; IDef "c"; IDefSelf "s"].
Proof. vm_compute. discriminate. Qed.

(* the code before the `private` repair: `private def a` made the definitions after it private as well *)
Lemma section_refuted :
  section_class_loop [IPrivateDef "a"; IDef "b"] {| f_priv := false; f_prot := false |} <> ruby_tags [IPrivateDef "a"; IDef "b"] /\
  section_class_loop [IDef "a"; IPrivateSym ["a"]; IDef "b"] {| f_priv := false; f_prot := false |} <> ruby_tags [IDef "a"; IPrivateSym ["a"]; IDef "b"].
Proof. split; vm_compute; discriminate. Qed.
