(* C19: what a lookup sees after loading is a function of the set of declarations *)
From Coq Require Import Permutation.
From RT Require Import Model.Loader.

Lemma mkey_eqb_eq a b : mkey_eqb a b = true <-> a = b.
Proof.
  destruct a as [[[f1 c1] m1] s1], b as [[[f2 c2] m2] s2]. unfold mkey_eqb. split.
  - intros H. repeat (apply andb_true_iff in H as [H ?]).
    apply String.eqb_eq in H. repeat match goal with X : String.eqb _ _ = true |- _ => apply String.eqb_eq in X end.
    match goal with X : Bool.eqb _ _ = true |- _ => apply Bool.eqb_prop in X end. subst. reflexivity.
  - intros E. inversion E. subst. rewrite !String.eqb_refl, Bool.eqb_reflx. reflexivity.
Qed.

Section AssocP.
  Context {K V : Type} (eqb : K -> K -> bool).
  Hypothesis eqb_eq : forall a b, eqb a b = true <-> a = b.

  Lemma aget_aset (l : list (K * V)) k v k' :
    aget eqb (aset eqb l k v) k' = if eqb k' k then Some v else aget eqb l k'.
  Proof.
    induction l as [|[k0 v0] r IH]; cbn [aset aget].
    - reflexivity.
    - destruct (eqb k k0) eqn:E.
      + apply eqb_eq in E. subst k0. cbn [aget]. destruct (eqb k' k); reflexivity.
      + cbn [aget]. destruct (eqb k' k0) eqn:E0.
        * apply eqb_eq in E0. subst k0. destruct (eqb k' k) eqn:E1; [|reflexivity].
          apply eqb_eq in E1. subst k'. assert (eqb k k = true) by (apply eqb_eq; reflexivity). congruence.
        * exact IH.
  Qed.
End AssocP.

Definition methods_of (ms : list (mkey * list mdecl)) (k : mkey) : list mdecl :=
  match aget mkey_eqb ms k with Some l => l | None => [] end.

Lemma define_method_at ms k d k' :
  methods_of (define_method ms k d) k' = methods_of ms k' ++ (if mkey_eqb k' k then [d] else []).
Proof.
  unfold methods_of, define_method. rewrite (aget_aset mkey_eqb mkey_eqb_eq).
  destruct (mkey_eqb k' k) eqn:E.
  - apply mkey_eqb_eq in E. subst k'. destruct (aget mkey_eqb ms k); reflexivity.
  - rewrite app_nil_r. reflexivity.
Qed.

Lemma define_fold_at f c s ds : forall ms k',
  methods_of (fold_left (fun ms d => define_method ms (f, c, md_name d, s) d) ds ms) k' =
  methods_of ms k' ++ filter (fun d => mkey_eqb k' (f, c, md_name d, s)) ds.
Proof.
  induction ds as [|d r IH]; intros ms k'; cbn [fold_left filter].
  - rewrite app_nil_r. reflexivity.
  - rewrite IH, define_method_at. destruct (mkey_eqb k' (f, c, md_name d, s)); rewrite <- app_assoc; reflexivity.
Qed.

Lemma filter_key f c s (k' : mkey) ds :
  filter (fun d => mkey_eqb k' (f, c, md_name d, s)) ds =
  let '(f', c', m', s') := k' in
  if String.eqb f' f && String.eqb c' c && Bool.eqb s' s then filter (fun d => String.eqb m' (md_name d)) ds else [].
Proof.
  destruct k' as [[[f' c'] m'] s']. unfold mkey_eqb.
  destruct (String.eqb f' f); destruct (String.eqb c' c); destruct (Bool.eqb s' s); cbn [andb];
    induction ds as [|d r IH]; cbn [filter]; try reflexivity; rewrite ?andb_false_r, ?andb_true_r; try exact IH.
  destruct (String.eqb m' (md_name d)); rewrite IH; reflexivity.
Qed.

(* one configuration file adds exactly its own declarations under its own keys *)
Lemma load_one_methods w cd k : methods_at (load_one w cd) k = methods_at w k ++ decls_for cd k.
Proof.
  unfold load_one, decls_for. destruct k as [[[f c] m] s].
  destruct (is_name_space (cd_class cd)); [rewrite app_nil_r; reflexivity|].
  unfold methods_at. cbn [w_methods].
  change (match aget mkey_eqb ?x (f, c, m, s) with Some l => l | None => [] end) with (methods_of x (f, c, m, s)).
  rewrite !define_fold_at, !filter_key. cbn beta iota.
  rewrite <- app_assoc. f_equal.
  destruct (String.eqb f (cd_frame cd)); destruct (String.eqb c (cd_class cd)); cbn [andb]; try reflexivity.
  destruct s; cbn [Bool.eqb]; rewrite ?app_nil_r; reflexivity.
Qed.

Theorem load_methods_spec cds : forall w k,
  methods_at (fold_left load_one cds w) k = methods_at w k ++ spec_methods cds k.
Proof.
  induction cds as [|cd r IH]; intros w k; cbn [fold_left spec_methods flat_map].
  - rewrite app_nil_r. reflexivity.
  - rewrite IH, load_one_methods, <- app_assoc. reflexivity.
Qed.

Corollary load_methods cds k : methods_at (load cds) k = spec_methods cds k.
Proof. unfold load. rewrite load_methods_spec. reflexivity. Qed.

(* ---- permutations and splits at the level of the declarative reading ---- *)
Lemma flat_map_perm_sparse {A B} (f : A -> list B) l l' :
  Permutation l l' ->
  (forall x y, In x l -> In y l -> x <> y -> f x = [] \/ f y = []) -> NoDup l ->
  flat_map f l = flat_map f l'.
Proof.
  induction 1 as [|x l l' Hp IH|x y l|l l' l'' H1 IH1 H2 IH2]; intros Hs Hnd; cbn [flat_map].
  - reflexivity.
  - inversion Hnd; subst. rewrite IH; [reflexivity| |assumption].
    intros a b Ha Hb. apply Hs; right; assumption.
  - inversion Hnd as [|? ? Hin Hnd']; subst.
    destruct (Hs y x (or_introl eq_refl) (or_intror (or_introl eq_refl))) as [E|E].
    + intros ->. apply Hin. left; reflexivity.
    + rewrite E. cbn [app]. reflexivity.
    + rewrite E. cbn [app]. reflexivity.
  - rewrite IH1 by assumption. apply IH2.
    + intros a b Ha Hb. apply Hs; eapply Permutation_in; try (apply Permutation_sym; exact H1); assumption.
    + eapply Permutation_NoDup; eassumption.
Qed.

Definition class_id (cd : classdef) : string * string := (cd_frame cd, cd_class cd).

(* C19, file names: with one file per class, any load order gives the same method table *)
Theorem spec_methods_perm cds cds' k :
  Permutation cds cds' -> NoDup (map class_id cds) -> spec_methods cds k = spec_methods cds' k.
Proof.
  intros Hp Hnd. unfold spec_methods. apply flat_map_perm_sparse; [exact Hp| |].
  - intros x y Hx Hy Hne.
    destruct k as [[[f c] m] s]. unfold decls_for.
    destruct (is_name_space (cd_class x)); [left; reflexivity|].
    destruct (is_name_space (cd_class y)); [right; reflexivity|].
    destruct (String.eqb f (cd_frame x) && String.eqb c (cd_class x)) eqn:Ex; [|left; reflexivity].
    destruct (String.eqb f (cd_frame y) && String.eqb c (cd_class y)) eqn:Ey; [|right; reflexivity].
    exfalso. apply andb_true_iff in Ex as [E1 E2], Ey as [E3 E4].
    apply String.eqb_eq in E1, E2, E3, E4.
    assert (Hid : class_id x = class_id y) by (unfold class_id; congruence).
    clear -Hnd Hx Hy Hne Hid. induction cds as [|z r IH]; [contradiction|].
    cbn [map] in Hnd. inversion Hnd as [|? ? Hnin Hnd']; subst.
    destruct Hx as [->|Hx]; destruct Hy as [->|Hy].
    + congruence.
    + apply Hnin. rewrite Hid. apply in_map. exact Hy.
    + apply Hnin. rewrite <- Hid. apply in_map. exact Hx.
    + apply IH; assumption.
  - clear -Hnd. induction cds as [|z r IH]; [constructor|].
    cbn [map] in Hnd. inversion Hnd as [|? ? Hnin Hnd']; subst. constructor; [|apply IH; exact Hnd'].
    intros Hin. apply Hnin. apply in_map. exact Hin.
Qed.

Theorem load_perm cds cds' k :
  Permutation cds cds' -> NoDup (map class_id cds) -> methods_at (load cds) k = methods_at (load cds') k.
Proof. intros Hp Hnd. rewrite !load_methods. apply spec_methods_perm; assumption. Qed.

(* C19, splitting: one class's method declarations distributed over two files, in either order, when no
   method name is declared in both pieces (overloads of one method stay together) *)
Definition with_methods (cd : classdef) (ims cms : list mdecl) : classdef :=
  {| cd_frame := cd_frame cd; cd_class := cd_class cd; cd_ims := ims; cd_cms := cms;
     cd_consts := cd_consts cd; cd_extends := cd_extends cd |}.

Lemma filter_app_comm_disjoint (p : mdecl -> bool) a b :
  (filter p a = [] \/ filter p b = []) -> filter p (a ++ b) = filter p b ++ filter p a.
Proof. rewrite filter_app. intros [E|E]; rewrite E; rewrite ?app_nil_r; reflexivity. Qed.

Theorem spec_methods_split cd i1 i2 c1 c2 rest k :
  (forall m, filter (fun d => String.eqb m (md_name d)) i1 = [] \/ filter (fun d => String.eqb m (md_name d)) i2 = []) ->
  (forall m, filter (fun d => String.eqb m (md_name d)) c1 = [] \/ filter (fun d => String.eqb m (md_name d)) c2 = []) ->
  spec_methods (with_methods cd (i1 ++ i2) (c1 ++ c2) :: rest) k = spec_methods (with_methods cd i1 c1 :: with_methods cd i2 c2 :: rest) k /\
  spec_methods (with_methods cd (i1 ++ i2) (c1 ++ c2) :: rest) k = spec_methods (with_methods cd i2 c2 :: with_methods cd i1 c1 :: rest) k.
Proof.
  intros Hi Hc. unfold spec_methods. cbn [flat_map]. rewrite !app_assoc.
  destruct k as [[[f c] m] s]. unfold decls_for, with_methods. cbn [cd_class cd_frame cd_ims cd_cms].
  destruct (is_name_space (cd_class cd)); [split; reflexivity|].
  destruct (String.eqb f (cd_frame cd) && String.eqb c (cd_class cd)); [|split; reflexivity].
  destruct s.
  - split; [rewrite filter_app; reflexivity|]. rewrite (filter_app_comm_disjoint _ c1 c2 (Hc m)). reflexivity.
  - split; [rewrite filter_app; reflexivity|]. rewrite (filter_app_comm_disjoint _ i1 i2 (Hi m)). reflexivity.
Qed.

(* ---------- C20: declarations of other classes are invisible to a lookup ---------- *)
Lemma node_eqb_eq a b : node_eqb a b = true <-> a = b.
Proof.
  destruct a as [f1 c1], b as [f2 c2]. unfold node_eqb. cbn [fst snd]. split.
  - intros H. apply andb_true_iff in H as [H1 H2]. apply String.eqb_eq in H1, H2. subst. reflexivity.
  - intros E. inversion E. subst. rewrite !String.eqb_refl. reflexivity.
Qed.

Definition edges_of (es : list (node * list node)) (n : node) : list node :=
  match aget node_eqb es n with Some l => l | None => [] end.

Lemma add_edge_other es n p dd n' : n' <> n -> edges_of (add_edge es n p dd) n' = edges_of es n'.
Proof.
  intros Hne. unfold add_edge, edges_of.
  destruct (dd && existsb (node_eqb p) match aget node_eqb es n with Some l => l | None => [] end); [reflexivity|].
  rewrite (aget_aset node_eqb node_eqb_eq).
  destruct (node_eqb n' n) eqn:E; [apply node_eqb_eq in E; congruence|reflexivity].
Qed.

Lemma load_one_edges_other w cd n :
  n <> (cd_frame cd, cd_class cd) -> edges_at (load_one w cd) n = edges_at w n.
Proof.
  intros Hne. unfold load_one. destruct (is_name_space (cd_class cd)); [reflexivity|].
  unfold edges_at. cbn [w_edges].
  change (match aget node_eqb ?x n with Some l => l | None => [] end) with (edges_of x n).
  assert (Hfold : forall ps es, edges_of (fold_left (fun es p => add_edge es (cd_frame cd, cd_class cd) (parent_node (cd_frame cd) p) true) ps es) n = edges_of es n).
  { induction ps as [|p r IH]; intros es; cbn [fold_left]; [reflexivity|]. rewrite IH. apply add_edge_other. exact Hne. }
  rewrite Hfold.
  destruct (negb (String.eqb (cd_class cd) "") && negb (String.eqb (cd_class cd) "Kernel")); [|reflexivity].
  apply add_edge_other. exact Hne.
Qed.

Definition mentions (cd : classdef) (f c : string) : bool := String.eqb f (cd_frame cd) && String.eqb c (cd_class cd).

(* adding configuration files for other classes changes no method lookup and no parent list of the classes
   already there — in whatever position the new files are loaded *)
Theorem extra_classes_invisible_methods cfg extra f c m s :
  forallb (fun cd => negb (mentions cd f c)) extra = true ->
  forall cfg', Permutation cfg' (cfg ++ extra) -> NoDup (map class_id cfg') ->
  methods_at (load cfg') (f, c, m, s) = methods_at (load cfg) (f, c, m, s).
Proof.
  intros Hex cfg' Hp Hnd. rewrite (load_perm cfg' (cfg ++ extra) _ Hp Hnd). rewrite !load_methods.
  unfold spec_methods. rewrite flat_map_app.
  assert (Hnil : flat_map (fun cd => decls_for cd (f, c, m, s)) extra = []).
  { clear -Hex. induction extra as [|cd r IH]; cbn [flat_map]; [reflexivity|].
    cbn [forallb] in Hex. apply andb_true_iff in Hex as [H1 H2]. rewrite (IH H2), app_nil_r.
    unfold decls_for. destruct (is_name_space (cd_class cd)); [reflexivity|].
    unfold mentions in H1. apply negb_true_iff in H1. rewrite H1. reflexivity. }
  rewrite Hnil. apply app_nil_r.
Qed.

Theorem extra_classes_invisible_edges extra : forall w n,
  forallb (fun cd => negb (mentions cd (fst n) (snd n))) extra = true ->
  edges_at (fold_left load_one extra w) n = edges_at w n.
Proof.
  induction extra as [|cd r IH]; intros w n Hex; cbn [fold_left]; [reflexivity|].
  cbn [forallb] in Hex. apply andb_true_iff in Hex as [H1 H2]. rewrite (IH _ _ H2).
  apply load_one_edges_other. intros E. subst n. unfold mentions in H1. cbn [fst snd] in H1.
  rewrite !String.eqb_refl in H1. discriminate.
Qed.
