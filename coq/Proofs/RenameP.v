(* C13: how a name is classified depends on its lexical category only; keyword pairing does not depend on names *)
From RT Require Import Model.Lexer Model.Parser Model.Args Proofs.ArgsP.
From Coq Require Import Lia Permutation.

Section Classify.
  Variables (is_uspace is_udigit is_uupper is_ulower : N -> bool) (V : lex_variant) (builtin_classes : list (list N)).
  Let classify := classify is_uupper is_ulower builtin_classes.
  Let in_builtin := in_builtin builtin_classes.

  Definition plain_start (s : list N) : bool :=
    negb (first_byte_upper is_uupper s) && negb (match s with c :: _ => (c =? ch_colon)%N | [] => false end).

  (* a name that starts neither with an upper-case letter nor with a colon, is not true/false and not the name of a
     configured class, is an identifier — whatever its length and its other characters *)
  Theorem classify_lower s : plain_start s = true -> in_builtin s = false ->
    list_N_eqb s s_true = false -> list_N_eqb s s_false = false -> classify s = KIdent s.
  Proof.
    intros Hp Hb Ht Hf. unfold classify, Parser.classify. rewrite Ht, Hf. cbn [orb].
    unfold plain_start in Hp. apply andb_true_iff in Hp as [H1 H2]. apply negb_true_iff in H1, H2.
    unfold is_class_name, is_const_name, is_symbol_name. fold in_builtin. rewrite Hb, H1. cbn [orb andb negb].
    rewrite andb_false_r. cbn [andb]. rewrite H2, andb_false_r. reflexivity.
  Qed.

  (* an upper-case-initial name that contains a lower-case letter is a class name *)
  Theorem classify_class s : first_byte_upper is_uupper s = true -> existsb is_ulower s = true ->
    list_N_eqb s s_true = false -> list_N_eqb s s_false = false -> classify s = KClass s.
  Proof.
    intros H1 H2 Ht Hf. unfold classify, Parser.classify. rewrite Ht, Hf. cbn [orb].
    unfold is_class_name. rewrite H1, H2, orb_true_r. reflexivity.
  Qed.
End Classify.

(* ---- keyword pairing is independent of the names ---- *)
Lemma map_insert_by {A} (key : A -> string) x l :
  map key (insert_by key x l) = insert_by (fun s => s) (key x) (map key l).
Proof. induction l as [|y r IH]; cbn [insert_by map]; [reflexivity|]. destruct (str_leb (key x) (key y)); cbn [map]; [reflexivity | rewrite IH; reflexivity]. Qed.
Lemma map_sort_by {A} (key : A -> string) l : map key (sort_by key l) = sort_by (fun s => s) (map key l).
Proof. induction l as [|x r IH]; cbn [sort_by fold_right map]; [reflexivity|]. rewrite map_insert_by. unfold sort_by in IH. rewrite IH. reflexivity. Qed.

(* the i-th declared keyword parameter (sorted) is the parameter of the i-th keyword argument (sorted), for every
   choice of names: both sides are sorted by the same order *)
Theorem keyword_pairing (kws : list ty) (names : list string) :
  Permutation (map t_key kws) names -> NoDup names ->
  map t_key (sort_by t_key kws) = sort_by (fun s => s) names.
Proof.
  intros Hp Hnd. rewrite map_sort_by. apply (sort_by_perm (fun s => s)); [exact Hp|].
  rewrite map_id. eapply Permutation_NoDup; [apply Permutation_sym; exact Hp | exact Hnd].
Qed.
