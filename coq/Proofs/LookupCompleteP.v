(* C16 (continued): completeness of the ancestor walk of method lookup — when it answers nothing, Ruby's lookup
   reaches no class or module that defines the method — on every inheritance map in which each node is searched in
   one way only (classes for the kind of method asked for, modules for their instance methods). *)
From RT Require Import Model.Lookup Proofs.SuggestP Proofs.LookupP.
From Coq Require Import Lia.

Section C.
  Variables (has : node -> bool -> bool) (builtin : list string) (m : inh_map).

  (* what an edge leads to, for a search of class methods (st) / instance methods: the node and how it is searched *)
  Definition child (st : bool) (p : pnode) : option (node * bool) :=
    if pn_extend p then (if st then Some (norm builtin (pn_node p), false) else None)
    else if pn_include p then (if st then None else Some (norm builtin (pn_node p), false))
    else Some (pn_node p, st).

  Lemma lstep_child rec st p uv :
    lstep has builtin rec st p uv =
    match child st p with
    | None => Some (None, uv)
    | Some (c, cm) => if has c cm then Some (Some c, uv) else rec cm uv c
    end.
  Proof.
    unfold lstep, child. destruct (pn_extend p).
    - destruct st; cbn [andb]; [rewrite andb_true_r; reflexivity | rewrite andb_false_r; reflexivity].
    - destruct (pn_include p).
      + destruct st; cbn [andb negb]; [rewrite andb_false_r; reflexivity | rewrite andb_true_r; reflexivity].
      + reflexivity.
  Qed.

  (* Ruby's lookup, edge by edge *)
  Inductive reaches : bool -> node -> node -> Prop :=
  | r_here st n p c cm : In p (parents_of m n) -> child st p = Some (c, cm) -> has c cm = true -> reaches st n c
  | r_up st n p c cm x : In p (parents_of m n) -> child st p = Some (c, cm) -> reaches cm c x -> reaches st n x.

  Lemma answers_reaches st n x : answers has builtin m st n x -> reaches st n x.
  Proof.
    induction 1 as [st n p Hp He Hi Hh | st n p x Hp He Hi _ IH | n p Hp He Hi Hh | n p x Hp He Hi _ IH | n p Hp He Hh | n p x Hp He _ IH].
    - eapply r_here; [exact Hp | unfold child; rewrite He, Hi; reflexivity | exact Hh].
    - eapply r_up; [exact Hp | unfold child; rewrite He, Hi; reflexivity | exact IH].
    - eapply r_here; [exact Hp | unfold child; rewrite He, Hi; reflexivity | exact Hh].
    - eapply r_up; [exact Hp | unfold child; rewrite He, Hi; reflexivity | exact IH].
    - eapply r_here; [exact Hp | unfold child; rewrite He; reflexivity | exact Hh].
    - eapply r_up; [exact Hp | unfold child; rewrite He; reflexivity | exact IH].
  Qed.

  Variable mode_of : node -> bool.
  Definition moded_map : Prop :=
    forall n p c cm, In p (parents_of m n) -> child (mode_of n) p = Some (c, cm) -> mode_of c = cm.

  Definition shrinks' (uv uv' : list node) : Prop := forall x, mem_fc x uv' = true -> mem_fc x uv = true.
  (* every node expanded between uv and uv': none of its children defines the method, and each child is expanded *)
  Definition closed' (uv uv' : list node) : Prop :=
    forall x, mem_fc x uv = true -> mem_fc x uv' = false ->
      forall p c cm, In p (parents_of m x) -> child (mode_of x) p = Some (c, cm) -> has c cm = false /\ mem_fc c uv' = false.

  Lemma shrinks'_false a b x : shrinks' a b -> mem_fc x a = false -> mem_fc x b = false.
  Proof. intros H Hx. destruct (mem_fc x b) eqn:E; [apply H in E; congruence | reflexivity]. Qed.

  Lemma closed'_trans a b c : shrinks' a b -> shrinks' b c -> closed' a b -> closed' b c -> closed' a c.
  Proof.
    intros S1 S2 C1 C2 x Ha Hc p ch cm Hp Hch. destruct (mem_fc x b) eqn:Hb.
    - exact (C2 x Hb Hc p ch cm Hp Hch).
    - destruct (C1 x Ha Hb p ch cm Hp Hch) as [H1 H2]. split; [exact H1 | eapply shrinks'_false; eassumption].
  Qed.

  Lemma first_found_none (step : pnode -> list node -> option (option node * list node)) (st : bool) :
    forall ps,
    (forall p uv uv', In p ps -> step p uv = Some (None, uv') ->
       shrinks' uv uv' /\ closed' uv uv' /\
       (forall c cm, child st p = Some (c, cm) -> has c cm = false /\ mem_fc c uv' = false)) ->
    forall uv uv', first_found step ps uv = Some (None, uv') ->
      shrinks' uv uv' /\ closed' uv uv' /\
      forall p c cm, In p ps -> child st p = Some (c, cm) -> has c cm = false /\ mem_fc c uv' = false.
  Proof.
    induction ps as [|p r IH]; intros Hs uv uv'; cbn [first_found].
    - intros H; inversion H; subst. split; [intros x Hx; exact Hx|]. split; [intros x H1 H2; congruence|]. intros p c cm [].
    - destruct (step p uv) as [[[y|] uv1]|] eqn:E; [discriminate| |discriminate].
      intros H. destruct (Hs _ _ _ (or_introl eq_refl) E) as [S1 [C1 P1]].
      destruct (IH (fun q a b Hq => Hs q a b (or_intror Hq)) _ _ H) as [S2 [C2 P2]].
      split; [intros x Hx; apply S1, S2, Hx|]. split; [eapply closed'_trans; eassumption|].
      intros q c cm [<-|Hq] Hc; [|exact (P2 q c cm Hq Hc)].
      destruct (P1 c cm Hc) as [H1 H2]. split; [exact H1 | eapply shrinks'_false; eassumption].
  Qed.

  Lemma plookup_none f : moded_map -> forall st uv n uv', mode_of n = st ->
    plookup has builtin f m st uv n = Some (None, uv') ->
    shrinks' uv uv' /\ closed' uv uv' /\ mem_fc n uv' = false.
  Proof.
    intros WM. induction f as [|f IH]; intros st uv n uv' Hm; cbn [plookup]; [discriminate|].
    destruct (mem_fc n uv) eqn:Hn; cbn [negb].
    - intros H. apply (first_found_none _ st) in H.
      + destruct H as [S [C P]].
        assert (S0 : shrinks' uv (remove_fc n uv)).
        { intros x Hx. rewrite mem_remove in Hx. apply andb_true_iff in Hx; tauto. }
        assert (Hn' : mem_fc n uv' = false).
        { eapply shrinks'_false; [exact S|]. rewrite mem_remove, fc_eqb_refl. apply andb_false_r. }
        split; [intros x Hx; apply S0, S, Hx|]. split; [|exact Hn'].
        intros x Hx Hx' p c cm Hp Hc. destruct (mem_fc x (remove_fc n uv)) eqn:Hr; [exact (C x Hr Hx' p c cm Hp Hc)|].
        rewrite mem_remove, Hx in Hr. cbn [andb] in Hr. apply negb_false_iff, fc_eqb_eq in Hr. subst x.
        rewrite Hm in Hc. exact (P p c cm Hp Hc).
      + intros p uv1 uv2 Hp Hs. rewrite lstep_child in Hs.
        destruct (child st p) as [[c cm]|] eqn:Ec.
        * destruct (has c cm) eqn:Eh; [discriminate|].
          assert (Hcm : mode_of c = cm) by (apply (WM n p c cm Hp); rewrite Hm; exact Ec).
          destruct (IH cm uv1 c uv2 Hcm Hs) as [S1 [C1 M1]].
          split; [exact S1|]. split; [exact C1|]. intros c' cm' E'. inversion E'; subst. split; assumption.
        * inversion Hs; subst. split; [intros x Hx; exact Hx|]. split; [intros x H1 H2; congruence|]. intros c cm E'. discriminate.
    - intros H; inversion H; subst. split; [intros x Hx; exact Hx|]. split; [intros x H1 H2; congruence | exact Hn].
  Qed.

  (* the nodes of the universe: every child of every node is in it *)
  Lemma child_in_universe start x p c cm st : In p (parents_of m x) -> child st p = Some (c, cm) -> In c (universe m start).
  Proof.
    intros Hp Hc. unfold child in Hc.
    assert (Hn : In (norm builtin (pn_node p)) (universe m start)) by (eapply universe_parent; exact Hp).
    assert (Hr : In (pn_node p) (universe m start)).
    { apply parents_of_in in Hp. destruct Hp as [k [ps [Hk Hp]]]. unfold universe. right; right. apply in_flat_map.
      exists (k, ps); split; [exact Hk|]. cbn [fst snd]. right. apply in_or_app. left. apply in_map. exact Hp. }
    destruct (pn_extend p); [destruct st; inversion Hc; subst; exact Hn|].
    destruct (pn_include p); [destruct st; inversion Hc; subst; exact Hn|]. inversion Hc; subst. exact Hr.
  Qed.

  Theorem plookup_complete n st : moded_map -> mode_of n = st ->
    forall uv', plookup has builtin (S (List.length (universe m n))) m st (universe m n) n = Some (None, uv') ->
    forall x, ~ reaches st n x.
  Proof.
    intros WM Hm uv' H x Hr.
    destruct (plookup_none _ WM st _ n uv' Hm H) as [S [C Hn]].
    set (V := fun y => In y (universe m n) /\ mem_fc y uv' = false).
    assert (HV : forall s y z, reaches s y z -> s = mode_of y -> V y -> False).
    { intros s y z R; induction R as [s y p c cm Hp Hc Hh | s y p c cm z Hp Hc _ IH]; intros Hs [Hu Hmem]; subst s.
      - destruct (C y (proj2 (mem_fc_in _ _) Hu) Hmem p c cm Hp Hc) as [H1 _]. congruence.
      - destruct (C y (proj2 (mem_fc_in _ _) Hu) Hmem p c cm Hp Hc) as [_ H2].
        apply IH; [symmetry; exact (WM y p c cm Hp Hc)|]. split; [eapply child_in_universe; eassumption | exact H2]. }
    apply (HV st n x Hr (eq_sym Hm)). split; [left; reflexivity | exact Hn].
  Qed.
End C.
