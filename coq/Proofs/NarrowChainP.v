(* elsif chains: restoration after `end` for every chain (Model/Narrow.v, chain) *)
From RT Require Import Model.Narrow Proofs.NarrowP.

(* per variable: either a closure holds its pre-chain type (the FIRST one captured for it decides), or nothing has
   touched it *)
Definition RInv (e0 : env) (st : nrun) : Prop :=
  forall x, match first_capture (snd st) x with
            | Some t => t = ty_of e0 x
            | None => ty_of (fst (fst st)) x = ty_of e0 x /\ aget (orig (snd (fst st))) x = None
            end.

Lemma first_capture_app l1 l2 x :
  first_capture (l1 ++ l2) x = match first_capture l1 x with Some t => Some t | None => first_capture l2 x end.
Proof. induction l1 as [|[y t] l1 IH]; cbn [app first_capture]; [reflexivity|]. destruct (String.eqb x y); [reflexivity | exact IH]. Qed.

Lemma get_backup_inv e0 c e s zs : RInv e0 (e, s, zs) ->
  RInv e0 (let '(e2, s2, zs2) := get_backup KIf c e s in (e2, s2, zs ++ zs2)).
Proof.
  intros H. unfold get_backup.
  set (s0 := {| orig := orig s; narrow := narrow s; ifn := ifn s; conj := 0; excl := narrow s |}).
  pose proof (fun x => scan_captures KIf c (e, s0) [] x) as H1.
  pose proof (fun x => scan_env_other KIf c (e, s0) [] x) as H2.
  pose proof (fun x => scan_orig_keys KIf c (e, s0) [] x) as H3.
  destruct (scan KIf c (e, s0) []) as [[e1 s1] zs1].
  cbn [fst snd first_capture] in H1, H2, H3.
  assert (G : forall s', orig s' = orig s1 -> RInv e0 (e1, s', zs ++ zs1)).
  { intros s' Es x. cbn [fst snd]. rewrite first_capture_app. specialize (H x). cbn [fst snd] in H.
    destruct (first_capture zs x) as [t|]; [exact H|]. destruct H as [Ha Hb]. rewrite H1.
    fold (tested c x) in *. destruct (tested c x) eqn:T; [exact Ha|]. split.
    - rewrite H2 by exact T. exact Ha.
    - rewrite Es. destruct (aget (orig s1) x) eqn:E; [|reflexivity]. exfalso.
      assert (P : aget (orig s1) x <> None) by congruence.
      destruct (H3 x P) as [H4|H4]; [apply H4; exact Hb | congruence]. }
  destruct (Nat.ltb 1 (List.length c) && Nat.ltb 1 (conj s1)); apply G; reflexivity.
Qed.

Lemma narrowing_inv e0 e s s1 s2 zs : orig s1 = orig s -> orig s2 = orig s ->
  RInv e0 (e, s, zs) -> RInv e0 (narrowing e s1, s2, zs).
Proof.
  intros E1 E2 H x. specialize (H x). cbn [fst snd] in *. destruct (first_capture zs x); [exact H|].
  destruct H as [Ha Hb]. split; [|rewrite E2; exact Hb]. rewrite narrowing_other; [exact Ha | rewrite E1; exact Hb].
Qed.

Lemma elsif_step_inv e0 c st : RInv e0 st -> RInv e0 (elsif_step true c st).
Proof.
  destruct st as [[e s] zs]. intros H. unfold elsif_step.
  pose proof (get_backup_inv e0 c (narrowing e s) (reset_ifn s) zs) as G.
  destruct (get_backup KIf c (narrowing e s) (reset_ifn s)) as [[e2 s2] zs2].
  apply G. apply (narrowing_inv e0 e s s (reset_ifn s) zs); [reflexivity | reflexivity | exact H].
Qed.

Lemma chain_from_inv e0 cs : forall st acc, RInv e0 st -> RInv e0 (snd (chain_from true cs st acc)).
Proof.
  induction cs as [|c r IH]; intros st acc H; cbn [chain_from snd]; [exact H|].
  apply IH. apply elsif_step_inv. exact H.
Qed.

(* after `end` every variable has its pre-chain type again: for every number of elsif branches, every condition
   in each, with or without else *)
Theorem chain_restores c0 cs has_else e x : ty_of (snd (chain true c0 cs has_else e)) x = ty_of e x.
Proof.
  unfold chain.
  assert (H0 : RInv e (get_backup KIf c0 e empty_state)).
  { pose proof (get_backup_inv e c0 e empty_state []) as G.
    destruct (get_backup KIf c0 e empty_state) as [[e2 s2] zs2]. cbn [app] in G. apply G.
    intros y. cbn. split; reflexivity. }
  pose proof (chain_from_inv e cs (get_backup KIf c0 e empty_state) [fst (fst (get_backup KIf c0 e empty_state))] H0) as H.
  destruct (chain_from true cs (get_backup KIf c0 e empty_state) [fst (fst (get_backup KIf c0 e empty_state))]) as [br [[e1 s1] zs]].
  cbn [snd] in *. rewrite run_restores_spec. specialize (H x). cbn [fst snd] in H.
  destruct (first_capture zs x) as [t|]; [exact H|]. destruct H as [Ha Hb].
  destruct has_else; [|exact Ha]. rewrite narrowing_other; [exact Ha | exact Hb].
Qed.

(* the pinned code dropped the closures of the elsif conditions: a variable tested only there stayed narrowed *)
Theorem chain_pinned_refuted : exists c0 cs e x, ty_of (snd (chain false c0 cs false e)) x <> ty_of e x.
Proof.
  exists [{| t_var := "x"; t_cls := "NilClass"; t_neg := false |}],
         [[{| t_var := "y"; t_cls := "NilClass"; t_neg := false |}]],
         [("x", ["NilClass"; "String"]); ("y", ["NilClass"; "Integer"])], "y".
  vm_compute. discriminate.
Qed.
