(* C21 — equivalent type notations in .ti-config mean the same thing *)
From RT Require Import Model.Config Proofs.StrsP Proofs.ConfigP Generated.

Definition mkret (ts : list string) (c d p : bool) : jret :=
  {| jr_types := ts; jr_cond := c; jr_des := d; jr_cap := p |}.
Definition mkarg (ts : list string) (k : string) (a d : bool) : jarg :=
  {| ja_types := ts; ja_key := k; ja_ast := a; ja_def := d |}.

(* well-formedness of the parts of an `A|B|...` notation: no separator inside, already trimmed *)
Definition part_ok (p : string) : Prop := contains_char c_bar p = false /\ trim_space p = p.

Lemma map_trim_parts parts :
  Forall part_ok parts ->
  map (fun p => parse_type_string (trim_space p)) parts = map parse_type_string parts.
Proof.
  induction 1 as [|p r [_ Ht] _ IH]; cbn [map]; [reflexivity|]. rewrite Ht, IH. reflexivity.
Qed.

Lemma pts_alternatives a b r :
  Forall part_ok (a :: b :: r) ->
  plain_head (join_char c_bar (a :: b :: r)) = true ->
  parse_type_string (join_char c_bar (a :: b :: r)) = MakeUnion (map parse_type_string (a :: b :: r)).
Proof.
  intros Hall Hp. rewrite pts_plain by assumption. rewrite contains_char_join.
  rewrite split_char_join_all; [|discriminate|].
  - rewrite map_trim_parts by assumption. reflexivity.
  - eapply Forall_impl; [|exact Hall]. intros x [H _]; exact H.
Qed.

(* "A|B|…"  ≡  ["A","B",…]  as a return type *)
Lemma union_return a b r c d p :
  Forall part_ok (a :: b :: r) ->
  plain_head (join_char c_bar (a :: b :: r)) = true ->
  parse_return_type (mkret [join_char c_bar (a :: b :: r)] c d p) =
  parse_return_type (mkret (a :: b :: r) c d p).
Proof.
  intros Hall Hp. unfold parse_return_type, mkret; cbn [jr_types jr_cond jr_des jr_cap].
  rewrite pts_alternatives by assumption. reflexivity.
Qed.

(* … and as an argument type (for any model variant) *)
Lemma union_arg v a b r k ast def :
  Forall part_ok (a :: b :: r) ->
  plain_head (join_char c_bar (a :: b :: r)) = true ->
  is_name_space (join_char c_bar (a :: b :: r)) = false ->
  parse_argument v (mkarg [join_char c_bar (a :: b :: r)] k ast def) =
  parse_argument v (mkarg (a :: b :: r) k ast def).
Proof.
  intros Hall Hp Hns. unfold parse_argument, mkarg; cbn [ja_types ja_key ja_ast ja_def]. f_equal.
  unfold arg_base.
  remember (join_char c_bar (a :: b :: r)) as s eqn:Es.
  destruct s as [|c0 rest].
  { exfalso. pose proof (contains_char_join c_bar a b r) as Hc. rewrite <- Es in Hc. discriminate. }
  pose proof (contains_char_join c_bar a b r) as Hc. rewrite <- Es in Hc.
  assert (Hlen : forall x, x <> c_bar -> Ascii.eqb c0 x = true ->
                 Nat.ltb 1 (String.length (String c0 rest)) = true).
  { intros x Hx Hc0. apply Ascii.eqb_eq in Hc0. subst c0.
    cbn [contains_char] in Hc. destruct (Ascii.eqb x c_bar) eqn:Exb; [apply Ascii.eqb_eq in Exb; congruence|].
    cbn [orb] in Hc. destruct rest; [discriminate|reflexivity]. }
  pose proof Hp as Hp0.
  unfold plain_head, starts_with in Hp.
  apply andb_true_iff in Hp as [Hp _]. apply andb_true_iff in Hp as [H1 H2].
  apply negb_true_iff in H1, H2.
  destruct (Ascii.eqb c0 c_star) eqn:Estar.
  { rewrite (Hlen c_star) in H2 by (assumption || discriminate). discriminate. }
  destruct (Ascii.eqb c0 c_q) eqn:Eq.
  { rewrite (Hlen c_q) in H1 by (assumption || discriminate). discriminate. }
  rewrite Hns. assert (Hpa : parse_type_string (String c0 rest) = MakeUnion (map parse_type_string (a :: b :: r))).
  { rewrite Es. apply pts_alternatives; [assumption|rewrite <- Es; assumption]. }
  rewrite Hpa. reflexivity.
Qed.

(* "?T" as a return type ≡ [T, "NilClass"], for every non-empty T (composite or not) *)
Lemma nilclass_is_nil : parse_type_string "NilClass" = NilT.
Proof. vm_compute. reflexivity. Qed.

Lemma opt_return T c d p :
  T <> "" ->
  parse_return_type (mkret [String c_q T] c d p) = parse_return_type (mkret [T; "NilClass"] c d p).
Proof.
  intros HT. unfold parse_return_type, mkret; cbn [jr_types jr_cond jr_des jr_cap map].
  rewrite pts_opt by assumption. rewrite nilclass_is_nil. reflexivity.
Qed.

(* T as written in the long form must itself not use the argument-level prefixes *)
Definition arg_plain (T : string) : bool :=
  negb (starts_with c_star T) && negb (starts_with c_q T) && negb (is_name_space T).

Lemma arg_base_plain v T ast def :
  T <> "" -> arg_plain T = true ->
  arg_base v [T] ast def =
    let b1 := set_bi (set_ast (parse_type_string T) ast) true in if def then set_hd b1 true else b1.
Proof.
  intros HT Hp. unfold arg_base. destruct T as [|c rest]; [congruence|].
  unfold arg_plain, starts_with in Hp.
  apply andb_true_iff in Hp as [Hp H3]. apply andb_true_iff in Hp as [H1 H2].
  apply negb_true_iff in H1, H2, H3. rewrite H1, H2, H3. reflexivity.
Qed.

Lemma set_flags_comm t a :
  set_bi (set_ast (set_hd t true) a) true = set_hd (set_bi (set_ast t a) true) true.
Proof. destruct t as [? ? ? ? ? ? ? ? [? ? ? ? ? ? ? ? ? ?] ? ? ? ? ? ?]. reflexivity. Qed.

Lemma set_hd_idem t : set_hd (set_hd t true) true = set_hd t true.
Proof. destruct t as [? ? ? ? ? ? ? ? [? ? ? ? ? ? ? ? ? ?] ? ? ? ? ? ?]. reflexivity. Qed.

Lemma set_ast_over t a b : set_ast (set_ast t a) b = set_ast t b.
Proof. destruct t as [? ? ? ? ? ? ? ? [? ? ? ? ? ? ? ? ? ?] ? ? ? ? ? ?]. reflexivity. Qed.

(* "?T" as an argument ≡ T with is_default — repaired code: every T *)
Lemma opt_arg_fixed T k ast def :
  T <> "" -> arg_plain T = true ->
  parse_argument fixed_cfg (mkarg [String c_q T] k ast def) =
  parse_argument fixed_cfg (mkarg [T] k ast true).
Proof.
  intros HT Hp. unfold parse_argument, mkarg; cbn [ja_types ja_key ja_ast ja_def]. f_equal.
  rewrite (arg_base_plain _ T) by assumption. cbv zeta.
  unfold arg_base. change (Ascii.eqb c_q c_star) with false. rewrite Ascii.eqb_refl.
  cbn [fix_arg_prefix fixed_cfg]. rewrite orb_true_r.
  rewrite set_flags_comm. destruct def; [apply set_hd_idem|reflexivity].
Qed.

(* pinned code: only when T has neither `|` nor `[` *)
Lemma opt_arg_partial v T k ast def :
  T <> "" -> arg_plain T = true -> no_bar_no_bracket T = true ->
  parse_argument v (mkarg [String c_q T] k ast def) = parse_argument v (mkarg [T] k ast true).
Proof.
  intros HT Hp Hnb. unfold parse_argument, mkarg; cbn [ja_types ja_key ja_ast ja_def]. f_equal.
  rewrite (arg_base_plain _ T) by assumption. cbv zeta.
  unfold arg_base. change (Ascii.eqb c_q c_star) with false. rewrite Ascii.eqb_refl.
  assert (Hs : no_bar_no_bracket (String c_q T) = true).
  { unfold no_bar_no_bracket in *. cbn [contains_char].
    change (Ascii.eqb c_q c_bar) with false. change (Ascii.eqb c_q c_lb) with false. exact Hnb. }
  rewrite Hs. cbn [orb].
  rewrite set_flags_comm. destruct def; [apply set_hd_idem|reflexivity].
Qed.

Lemma opt_arg_pinned_refuted :
  exists T, T <> "" /\ arg_plain T = true /\
    parse_argument pinned_cfg (mkarg [String c_q T] "" false false) <>
    parse_argument pinned_cfg (mkarg [T] "" false true).
Proof. exists "Int|String". split; [discriminate|]. split; [reflexivity|]. vm_compute. discriminate. Qed.

(* "*T" as an argument ≡ T with is_asterisk *)
Lemma ast_arg_fixed T k ast def :
  T <> "" -> arg_plain T = true ->
  parse_argument fixed_cfg (mkarg [String c_star T] k ast def) =
  parse_argument fixed_cfg (mkarg [T] k true def).
Proof.
  intros HT Hp. unfold parse_argument, mkarg; cbn [ja_types ja_key ja_ast ja_def]. f_equal.
  rewrite (arg_base_plain _ T) by assumption. cbv zeta.
  unfold arg_base. rewrite Ascii.eqb_refl. cbn [fix_arg_prefix fixed_cfg]. rewrite orb_true_r.
  reflexivity.
Qed.

Lemma ast_arg_partial v T k ast def :
  T <> "" -> arg_plain T = true -> no_bar_no_bracket T = true ->
  parse_argument v (mkarg [String c_star T] k ast def) = parse_argument v (mkarg [T] k true def).
Proof.
  intros HT Hp Hnb. unfold parse_argument, mkarg; cbn [ja_types ja_key ja_ast ja_def]. f_equal.
  rewrite (arg_base_plain _ T) by assumption. cbv zeta.
  unfold arg_base. rewrite Ascii.eqb_refl.
  assert (Hs : no_bar_no_bracket (String c_star T) = true).
  { unfold no_bar_no_bracket in *. cbn [contains_char].
    change (Ascii.eqb c_star c_bar) with false. change (Ascii.eqb c_star c_lb) with false. exact Hnb. }
  rewrite Hs. cbn [orb]. reflexivity.
Qed.

Lemma ast_arg_pinned_refuted :
  exists T, T <> "" /\ arg_plain T = true /\
    parse_argument pinned_cfg (mkarg [String c_star T] "" false false) <>
    parse_argument pinned_cfg (mkarg [T] "" true false).
Proof. exists "Int|String". split; [discriminate|]. split; [reflexivity|]. vm_compute. discriminate. Qed.

(* "[T]" is an array of T; the three named arrays are the corresponding bracket forms *)
Lemma array_of T : T <> "" -> parse_type_string (String c_lb (T ++ "]")) = MakeArray [parse_type_string T].
Proof. exact (pts_array T). Qed.

Lemma named_arrays :
  parse_type_string "[String]" = parse_type_string "StringArray" /\
  parse_type_string "[Int]" = parse_type_string "IntArray" /\
  parse_type_string "[Float]" = parse_type_string "FloatArray".
Proof. vm_compute. repeat split; reflexivity. Qed.

(* "Int" ≡ "Integer" — over the regenerated table *)
Lemma int_integer : parse_type_string "Int" = parse_type_string "Integer".
Proof. vm_compute. reflexivity. Qed.

(* OptionalX / DefaultX ≡ their expansions — over the regenerated table *)
Lemma optional_names c d p :
  parse_return_type (mkret ["OptionalString"] c d p) = parse_return_type (mkret ["String"; "NilClass"] c d p) /\
  parse_return_type (mkret ["OptionalInt"] c d p) = parse_return_type (mkret ["Int"; "NilClass"] c d p) /\
  parse_return_type (mkret ["OptionalFloat"] c d p) = parse_return_type (mkret ["Float"; "NilClass"] c d p).
Proof. destruct c, d, p; vm_compute; repeat split; reflexivity. Qed.

Lemma default_names v k ast def :
  Forall (fun X => parse_argument v (mkarg [("Default" ++ X)%string] k ast def) =
                   parse_argument v (mkarg [X] k ast true))
         ["Bool"; "Block"; "Untyped"; "String"; "Int"; "Float"].
Proof.
  unfold parse_argument, mkarg; cbn [ja_types ja_key ja_ast ja_def].
  repeat constructor; f_equal; destruct v as [[|]], ast, def; vm_compute; reflexivity.
Qed.
