(* Proofs about Model/Args.v: the admission test (C07/C08) and keyword order (C14) *)
From Coq Require Import Permutation.
From RT Require Import Model.Args Model.CallSpec.

(* ---------- bytewise string order ---------- *)
Lemma str_ltb_irrefl a : str_ltb a a = false.
Proof. induction a as [|x r IH]; cbn [str_ltb]; [reflexivity|]. rewrite Nat.ltb_irrefl. exact IH. Qed.

Lemma nat_of_ascii_inj x y : nat_of_ascii x = nat_of_ascii y -> x = y.
Proof. intros H. rewrite <- (ascii_nat_embedding x), <- (ascii_nat_embedding y), H. reflexivity. Qed.

Lemma str_ltb_antisym_eq a : forall b, str_ltb a b = false -> str_ltb b a = false -> a = b.
Proof.
  induction a as [|x r IH]; intros [|y s]; cbn [str_ltb]; intros H1 H2; try reflexivity; try discriminate.
  destruct (Nat.ltb (nat_of_ascii x) (nat_of_ascii y)) eqn:E1; [discriminate|].
  destruct (Nat.ltb (nat_of_ascii y) (nat_of_ascii x)) eqn:E2; [discriminate|].
  apply Nat.ltb_ge in E1, E2. assert (x = y) by (apply nat_of_ascii_inj; lia). subst y.
  f_equal. apply IH; assumption.
Qed.

Lemma str_ltb_asym a : forall b, str_ltb a b = true -> str_ltb b a = false.
Proof.
  induction a as [|x r IH]; intros [|y s]; cbn [str_ltb]; intros H; try reflexivity; try discriminate.
  destruct (Nat.ltb (nat_of_ascii x) (nat_of_ascii y)) eqn:E1.
  - apply Nat.ltb_lt in E1. destruct (Nat.ltb (nat_of_ascii y) (nat_of_ascii x)) eqn:E2; [apply Nat.ltb_lt in E2; lia|].
    assert (Nat.ltb (nat_of_ascii x) (nat_of_ascii y) = true) by (apply Nat.ltb_lt; lia). reflexivity.
  - destruct (Nat.ltb (nat_of_ascii y) (nat_of_ascii x)) eqn:E2; [discriminate|]. apply IH; exact H.
Qed.

Lemma str_ltb_trans a : forall b c, str_ltb a b = true -> str_ltb b c = true -> str_ltb a c = true.
Proof.
  induction a as [|x r IH]; intros [|y s] [|z u]; cbn [str_ltb]; intros H1 H2; try reflexivity; try discriminate.
  destruct (Nat.ltb (nat_of_ascii x) (nat_of_ascii y)) eqn:E1;
  destruct (Nat.ltb (nat_of_ascii y) (nat_of_ascii z)) eqn:E2;
  destruct (Nat.ltb (nat_of_ascii y) (nat_of_ascii x)) eqn:E3;
  destruct (Nat.ltb (nat_of_ascii z) (nat_of_ascii y)) eqn:E4; try discriminate;
  repeat match goal with
         | H : Nat.ltb _ _ = true |- _ => apply Nat.ltb_lt in H
         | H : Nat.ltb _ _ = false |- _ => apply Nat.ltb_ge in H
         end.
  all: try (assert (Hxz : Nat.ltb (nat_of_ascii x) (nat_of_ascii z) = true) by (apply Nat.ltb_lt; lia); rewrite Hxz; reflexivity).
  assert (nat_of_ascii x = nat_of_ascii y) by lia. assert (nat_of_ascii y = nat_of_ascii z) by lia.
  assert (Ha : Nat.ltb (nat_of_ascii x) (nat_of_ascii z) = false) by (apply Nat.ltb_ge; lia).
  assert (Hb : Nat.ltb (nat_of_ascii z) (nat_of_ascii x) = false) by (apply Nat.ltb_ge; lia).
  rewrite Ha, Hb. eapply IH; eassumption.
Qed.

Lemma str_leb_total a b : str_leb a b = false -> str_leb b a = true.
Proof. unfold str_leb. intros H. apply negb_false_iff in H. rewrite (str_ltb_asym _ _ H). reflexivity. Qed.

Lemma str_leb_trans a b c : str_leb a b = true -> str_leb b c = true -> str_leb a c = true.
Proof.
  unfold str_leb. intros H1 H2. apply negb_true_iff in H1, H2. apply negb_true_iff.
  destruct (str_ltb c a) eqn:E; [|reflexivity].
  (* c < a, not (b < a), not (c < b): so a <= b <= c < a *)
  destruct (str_ltb a b) eqn:Eab.
  - pose proof (str_ltb_trans _ _ _ E Eab) as Hcb. congruence.
  - pose proof (str_ltb_antisym_eq _ _ Eab H1). subst b. congruence.
Qed.

Lemma str_leb_antisym a b : str_leb a b = true -> str_leb b a = true -> a = b.
Proof. unfold str_leb. intros H1 H2. apply negb_true_iff in H1, H2. apply str_ltb_antisym_eq; assumption. Qed.

(* ---------- the insertion sort behind sort.Strings / sort.Slice ---------- *)
Section SortP.
  Context {A : Type} (key : A -> string).

  Lemma insert_comm x y l : key x <> key y ->
    insert_by key x (insert_by key y l) = insert_by key y (insert_by key x l).
  Proof.
    intros Hne. induction l as [|z r IH]; cbn [insert_by].
    - destruct (str_leb (key x) (key y)) eqn:Exy; destruct (str_leb (key y) (key x)) eqn:Eyx; cbn [insert_by];
        rewrite ?Exy, ?Eyx; try reflexivity.
      + exfalso. apply Hne. apply str_leb_antisym; assumption.
      + apply str_leb_total in Exy. congruence.
    - destruct (str_leb (key y) (key z)) eqn:Eyz; destruct (str_leb (key x) (key z)) eqn:Exz; cbn [insert_by].
      + destruct (str_leb (key x) (key y)) eqn:Exy; destruct (str_leb (key y) (key x)) eqn:Eyx;
          cbn [insert_by]; rewrite ?Exy, ?Eyx, ?Exz, ?Eyz; try reflexivity.
        * exfalso. apply Hne. apply str_leb_antisym; assumption.
        * apply str_leb_total in Exy. congruence.
      + (* y <= z < x *)
        assert (Exy : str_leb (key x) (key y) = false).
        { destruct (str_leb (key x) (key y)) eqn:E; [|reflexivity].
          rewrite (str_leb_trans _ _ _ E Eyz) in Exz. discriminate. }
        repeat (rewrite ?Exy, ?Exz, ?Eyz; cbn [insert_by]). reflexivity.
      + (* x <= z < y *)
        assert (Eyx : str_leb (key y) (key x) = false).
        { destruct (str_leb (key y) (key x)) eqn:E; [|reflexivity].
          rewrite (str_leb_trans _ _ _ E Exz) in Eyz. discriminate. }
        repeat (rewrite ?Eyx, ?Exz, ?Eyz; cbn [insert_by]). reflexivity.
      + repeat (rewrite ?Exz, ?Eyz; cbn [insert_by]). f_equal. exact IH.
  Qed.

  (* sorting is a function of the multiset when keys are pairwise distinct *)
  Lemma sort_by_perm l l' : Permutation l l' -> NoDup (map key l) -> sort_by key l = sort_by key l'.
  Proof.
    induction 1 as [|x l l' Hp IH|x y l|l l' l'' H1 IH1 H2 IH2]; intros Hnd; cbn [sort_by fold_right].
    - reflexivity.
    - cbn [map] in Hnd. inversion Hnd; subst. unfold sort_by in IH. rewrite IH by assumption. reflexivity.
    - cbn [map] in Hnd. inversion Hnd as [|? ? Hin Hnd']; subst. apply insert_comm.
      intros E. apply Hin. rewrite E. left. reflexivity.
    - rewrite IH1 by assumption. apply IH2.
      eapply Permutation_NoDup; [|exact Hnd]. apply Permutation_map. exact H1.
  Qed.
End SortP.

(* ---------- C14: keyword order is irrelevant ---------- *)
Lemma filter_perm {A} (p : A -> bool) l l' : Permutation l l' -> Permutation (filter p l) (filter p l').
Proof.
  induction 1; cbn [filter].
  - constructor.
  - destruct (p x); [constructor|]; assumption.
  - destruct (p x), (p y); try constructor; try apply Permutation_refl. 
  - eapply Permutation_trans; eassumption.
Qed.

Theorem prioritize_args_perm l l' :
  Permutation l l' ->
  filter (fun t => negb (is_keyvalue_type t)) l = filter (fun t => negb (is_keyvalue_type t)) l' ->
  NoDup (map t_key (filter is_keyvalue_type l)) ->
  prioritize_args l = prioritize_args l'.
Proof.
  intros Hp Hpos Hnd. unfold prioritize_args. rewrite Hpos. f_equal.
  apply sort_by_perm; [apply filter_perm; exact Hp|exact Hnd].
Qed.

Theorem check_args_kw_perm V cr ra dargs t l l' :
  Permutation l l' ->
  filter (fun t => negb (is_keyvalue_type t)) l = filter (fun t => negb (is_keyvalue_type t)) l' ->
  NoDup (map t_key (filter is_keyvalue_type l)) ->
  check_args V cr ra dargs t l = check_args V cr ra dargs t l'.
Proof.
  intros Hp Hpos Hnd. unfold check_args. rewrite (prioritize_args_perm l l' Hp Hpos Hnd). reflexivity.
Qed.

(* positional arguments first, keywords permuted: the shape of a Ruby call site *)
Corollary check_args_call_site V cr ra dargs t pos kws kws' :
  forallb (fun a => negb (is_keyvalue_type a)) pos = true ->
  forallb is_keyvalue_type kws = true ->
  Permutation kws kws' -> NoDup (map t_key kws) ->
  check_args V cr ra dargs t (pos ++ kws) = check_args V cr ra dargs t (pos ++ kws').
Proof.
  intros Hpos Hkw Hp Hnd.
  assert (Hkw' : forallb is_keyvalue_type kws' = true).
  { rewrite forallb_forall in *. intros x Hx. apply Hkw. eapply Permutation_in; [apply Permutation_sym; exact Hp|exact Hx]. }
  assert (Hf : forall ks, forallb is_keyvalue_type ks = true ->
               filter (fun t0 => negb (is_keyvalue_type t0)) (pos ++ ks) = pos /\
               filter is_keyvalue_type (pos ++ ks) = ks).
  { intros ks Hks. rewrite !filter_app. split.
    - replace (filter (fun t0 => negb (is_keyvalue_type t0)) ks) with (@nil ty).
      + rewrite app_nil_r. clear -Hpos. induction pos as [|a r IH]; cbn [filter forallb] in *; [reflexivity|].
        apply andb_true_iff in Hpos as [Ha Hr]. rewrite Ha, IH by assumption. reflexivity.
      + clear -Hks. induction ks as [|a r IH]; cbn [filter forallb] in *; [reflexivity|].
        apply andb_true_iff in Hks as [Ha Hr]. rewrite Ha. cbn [negb]. apply IH; assumption.
    - replace (filter is_keyvalue_type pos) with (@nil ty).
      + cbn [app]. clear -Hks. induction ks as [|a r IH]; cbn [filter forallb] in *; [reflexivity|].
        apply andb_true_iff in Hks as [Ha Hr]. rewrite Ha, IH by assumption. reflexivity.
      + clear -Hpos. induction pos as [|a r IH]; cbn [filter forallb] in *; [reflexivity|].
        apply andb_true_iff in Hpos as [Ha Hr]. apply negb_true_iff in Ha. rewrite Ha. apply IH; assumption. }
  apply check_args_kw_perm.
  - apply Permutation_app_head. exact Hp.
  - destruct (Hf kws Hkw) as [-> _]. destruct (Hf kws' Hkw') as [-> _]. reflexivity.
  - destruct (Hf kws Hkw) as [_ ->]. exact Hnd.
Qed.

(* ---------- C07 / C08: the admission test against the declarative reading of a declaration ---------- *)
(* the spec: a value's class is its tag plus, for objects, the class name; a declaration admits a class
   when one of its (flat) variants is untyped or has that class *)
Lemma tag_eqb_eq a b : tag_eqb a b = true <-> a = b.
Proof. split; [|intros ->; destruct b; reflexivity]. destruct a, b; cbn; intros H; try discriminate; reflexivity. Qed.

Lemma tag_eqb_sym a b : tag_eqb a b = tag_eqb b a.
Proof. unfold tag_eqb. apply Z.eqb_sym. Qed.

Lemma match_of_kind v x :
  is_union_type v = false -> kind_eqb (kind_of v) (kind_of x) = true -> is_match_type v x = true.
Proof.
  unfold kind_eqb, kind_of, is_match_type, is_union_type, tag_is. cbn [fst snd]. intros Hv H.
  apply andb_true_iff in H as [Ht Hc]. apply tag_eqb_eq in Ht. rewrite Hv. cbn [andb].
  rewrite <- Ht in *. destruct (tag_eqb (t_tag v) OBJECT) eqn:Eo; cbn [andb].
  - exact Hc.
  - destruct (t_tag v); reflexivity.
Qed.

Lemma kind_of_match v x :
  is_union_type v = false -> is_union_type x = false -> is_match_type v x = true ->
  kind_eqb (kind_of v) (kind_of x) = true.
Proof.
  unfold kind_eqb, kind_of, is_match_type, is_union_type, tag_is. cbn [fst snd]. intros Hv Hx H.
  rewrite Hv in H. cbn [andb] in H.
  destruct (tag_eqb (t_tag v) OBJECT) eqn:Eo; destruct (tag_eqb (t_tag x) OBJECT) eqn:Ex; cbn [andb] in H.
  - apply tag_eqb_eq in Eo, Ex. rewrite Eo, Ex. cbn. exact H.
  - rewrite H. apply tag_eqb_eq in H. rewrite H in Eo. congruence.
  - rewrite H. apply tag_eqb_eq in H. rewrite H in Eo. congruence.
  - rewrite H. reflexivity.
Qed.

Lemma variants_of_union a : is_union_type a = true -> variants_of a = t_vars a.
Proof. unfold variants_of. intros ->. reflexivity. Qed.
Lemma variants_of_plain a : is_union_type a = false -> variants_of a = [a].
Proof. unfold variants_of. intros ->. reflexivity. Qed.

(* C08: if the declaration admits every possible class of the argument, the check passes *)
Theorem check_arg_type_complete d a :
  flat d = true -> variants_of a <> [] ->
  forallb (decl_admits d) (possible a) = true ->
  check_arg_type fixed_args d a = true.
Proof.
  intros Hfd Hne Hall. unfold check_arg_type. cbn [fix_union_check fixed_args].
  destruct (is_block_type a); [reflexivity|].
  destruct (is_any_type d || is_any_type a || is_unknown_type a) eqn:Eany; [reflexivity|].
  apply orb_false_iff in Eany as [Eany _]. apply orb_false_iff in Eany as [Ed Ea].
  unfold possible in Hall. rewrite forallb_forall in Hall.
  destruct (is_union_type d) eqn:Eud; cbn [negb andb].
  - (* declared union *)
    unfold accepted_by_union. apply orb_true_iff. right. apply forallb_forall. intros x Hx.
    specialize (Hall (kind_of x) (in_map kind_of _ _ Hx)).
    unfold decl_admits in Hall. rewrite (variants_of_union d Eud) in Hall.
    apply existsb_exists in Hall as (v & Hv & Hvx). apply existsb_exists. exists v. split; [exact Hv|].
    unfold admits. apply orb_true_iff in Hvx as [Hvany|Hk]; [rewrite Hvany; reflexivity|].
    rewrite (match_of_kind v x); [apply orb_true_r| |exact Hk].
    unfold flat in Hfd. rewrite (variants_of_union d Eud), forallb_forall in Hfd.
    apply negb_true_iff. apply Hfd. exact Hv.
  - (* declared plain type *)
    assert (Hd : forall x, In x (variants_of a) -> is_match_type d x = true).
    { intros x Hx. specialize (Hall (kind_of x) (in_map kind_of _ _ Hx)).
      unfold decl_admits in Hall. rewrite (variants_of_plain d Eud) in Hall. cbn [existsb] in Hall.
      rewrite orb_false_r in Hall. apply orb_true_iff in Hall as [H|H]; [congruence|].
      apply match_of_kind; assumption. }
    destruct (is_union_type a) eqn:Eua.
    + destruct (is_match_type d a); [reflexivity|].
      rewrite (variants_of_union a Eua) in Hd, Hne.
      unfold any_variant_accepted. destruct (t_vars a) as [|x r]; [congruence|].
      cbn [existsb]. unfold admits. rewrite (Hd x (or_introl eq_refl)). rewrite !orb_true_r. reflexivity.
    + rewrite (variants_of_plain a Eua) in Hd. rewrite (Hd a (or_introl eq_refl)). reflexivity.
Qed.

(* C07: if the declaration rejects every possible class of a fully known argument, the check fails *)
Theorem check_arg_type_sound d a :
  flat d = true -> flat a = true -> known a = true -> variants_of a <> [] ->
  forallb (fun k => negb (decl_admits d k)) (possible a) = true ->
  check_arg_type fixed_args d a = false.
Proof.
  intros Hfd Hfa Hk Hne Hall. unfold check_arg_type. cbn [fix_union_check fixed_args].
  unfold known in Hk. apply andb_true_iff in Hk as [Hb Hk]. apply negb_true_iff in Hb. rewrite Hb.
  unfold possible in Hall. rewrite forallb_forall in Hall. rewrite forallb_forall in Hk.
  assert (Hrej : forall x v, In x (variants_of a) -> In v (variants_of d) ->
                 is_any_type v = false /\ kind_eqb (kind_of v) (kind_of x) = false).
  { intros x v Hx Hv. specialize (Hall (kind_of x) (in_map kind_of _ _ Hx)).
    apply negb_true_iff in Hall. unfold decl_admits in Hall.
    assert (H := Hall). rewrite <- not_true_iff_false in H.
    split; apply not_true_iff_false; intros E; apply H; apply existsb_exists; exists v;
      (split; [exact Hv|]); rewrite E; [reflexivity|apply orb_true_r]. }
  assert (Hxs : forall x, In x (variants_of a) -> is_any_type x = false /\ is_unknown_type x = false).
  { intros x Hx. specialize (Hk x Hx). apply negb_true_iff in Hk. apply orb_false_iff in Hk. exact Hk. }
  assert (Hflat_a : forall x, In x (variants_of a) -> is_union_type x = false).
  { unfold flat in Hfa. rewrite forallb_forall in Hfa. intros x Hx. apply negb_true_iff. apply Hfa. exact Hx. }
  assert (Hflat_d : forall v, In v (variants_of d) -> is_union_type v = false).
  { unfold flat in Hfd. rewrite forallb_forall in Hfd. intros x Hx. apply negb_true_iff. apply Hfd. exact Hx. }
  destruct (variants_of a) as [|x0 r0] eqn:Eva; [congruence|].
  destruct (is_union_type d) eqn:Eud; destruct (is_union_type a) eqn:Eua; cbn [negb andb].
  - (* union / union *)
    assert (Hda : is_any_type d = false) by (unfold is_any_type, is_union_type, tag_is in *; apply tag_eqb_eq in Eud; rewrite Eud; reflexivity).
    assert (Haa : is_any_type a = false) by (unfold is_any_type, is_union_type, tag_is in *; apply tag_eqb_eq in Eua; rewrite Eua; reflexivity).
    assert (Hua : is_unknown_type a = false).
    { unfold is_unknown_type, is_union_type, tag_is in *. apply tag_eqb_eq in Eua. rewrite Eua. apply andb_false_r. }
    rewrite Hda, Haa, Hua. cbn [orb].
    unfold accepted_by_union. rewrite (variants_of_union d Eud) in *. rewrite Eva.
    apply orb_false_iff. split.
    + apply not_true_iff_false. intros E. apply existsb_exists in E as (v & Hv & Hvany).
      apply in_app_or in Hv as [Hv|Hv].
      * destruct (Hrej x0 v (or_introl eq_refl) Hv). congruence.
      * destruct (Hxs v Hv). congruence.
    + cbn [forallb]. apply andb_false_iff. left.
      apply not_true_iff_false. intros E. apply existsb_exists in E as (v & Hv & Hadm).
      destruct (Hrej x0 v (or_introl eq_refl) Hv) as [Hva Hkk]. destruct (Hxs x0 (or_introl eq_refl)) as [Hxa _].
      unfold admits in Hadm. rewrite Hva, Hxa in Hadm. cbn [orb] in Hadm.
      rewrite (kind_of_match v x0) in Hkk; [discriminate| | |exact Hadm].
      * apply Hflat_d; exact Hv.
      * apply Hflat_a. left; reflexivity.
  - (* union / plain *)
    rewrite (variants_of_plain a Eua) in Eva. inversion Eva; subst x0 r0.
    destruct (Hxs a (or_introl eq_refl)) as [Haa Hua].
    assert (Hda : is_any_type d = false) by (unfold is_any_type, is_union_type, tag_is in *; apply tag_eqb_eq in Eud; rewrite Eud; reflexivity).
    rewrite Hda, Haa, Hua. cbn [orb].
    unfold accepted_by_union. rewrite (variants_of_union d Eud) in *. rewrite (variants_of_plain a Eua).
    apply orb_false_iff. split.
    + apply not_true_iff_false. intros E. apply existsb_exists in E as (v & Hv & Hvany).
      apply in_app_or in Hv as [Hv|[<-|[]]]; [|congruence].
      destruct (Hrej a v (or_introl eq_refl) Hv). congruence.
    + cbn [forallb]. rewrite andb_true_r.
      apply not_true_iff_false. intros E. apply existsb_exists in E as (v & Hv & Hadm).
      destruct (Hrej a v (or_introl eq_refl) Hv) as [Hva Hkk].
      unfold admits in Hadm. rewrite Hva, Haa in Hadm. cbn [orb] in Hadm.
      rewrite (kind_of_match v a) in Hkk; [discriminate|apply Hflat_d; exact Hv|exact Eua|exact Hadm].
  - (* plain / union *)
    rewrite (variants_of_plain d Eud) in *.
    destruct (Hrej x0 d (or_introl eq_refl) (or_introl eq_refl)) as [Hda _].
    assert (Haa : is_any_type a = false) by (unfold is_any_type, is_union_type, tag_is in *; apply tag_eqb_eq in Eua; rewrite Eua; reflexivity).
    assert (Hua : is_unknown_type a = false).
    { unfold is_unknown_type, is_union_type, tag_is in *. apply tag_eqb_eq in Eua. rewrite Eua. apply andb_false_r. }
    rewrite Hda, Haa, Hua. cbn [orb].
    assert (Hm : is_match_type d a = false).
    { unfold is_match_type. rewrite Eud. cbn [andb]. unfold tag_is, is_union_type in *.
      apply tag_eqb_eq in Eua. rewrite Eua. cbn [tag_eqb]. 
      replace (tag_eqb UNION OBJECT) with false by reflexivity. rewrite andb_false_r.
      unfold tag_is in Eud. exact Eud. }
    rewrite Hm. rewrite (variants_of_union a Eua) in Eva.
    unfold any_variant_accepted. rewrite Eva.
    apply not_true_iff_false. intros E. apply existsb_exists in E as (x & Hx & Hadm).
    destruct (Hrej x d Hx (or_introl eq_refl)) as [_ Hkk]. destruct (Hxs x Hx) as [Hxa _].
    unfold admits in Hadm. rewrite Hda, Hxa in Hadm. cbn [orb] in Hadm.
    rewrite (kind_of_match d x) in Hkk; [discriminate|exact Eud|apply Hflat_a; exact Hx|exact Hadm].
  - (* plain / plain *)
    rewrite (variants_of_plain d Eud) in *. rewrite (variants_of_plain a Eua) in Eva. inversion Eva; subst x0 r0.
    destruct (Hrej a d (or_introl eq_refl) (or_introl eq_refl)) as [Hda Hkk].
    destruct (Hxs a (or_introl eq_refl)) as [Haa Hua]. rewrite Hda, Haa, Hua. cbn [orb].
    destruct (is_match_type d a) eqn:Em; [|reflexivity].
    rewrite (kind_of_match d a Eud Eua Em) in Hkk. discriminate.
Qed.

(* the pinned code violates both directions: witnesses kept for regression *)
Definition tInt := MakeAnyInt. Definition tStr := MakeAnyString. Definition tSym := MakeAnySymbol.
Lemma pinned_complete_refuted :
  exists d a, flat d = true /\ variants_of a <> [] /\ forallb (decl_admits d) (possible a) = true /\
              check_arg_type pinned_args d a = false.
Proof.
  exists (MakeUnion [tInt; tStr; tSym]), (MakeUnion [tInt; tStr]).
  split; [reflexivity|]. split; [discriminate|]. split; reflexivity.
Qed.
Lemma pinned_sound_refuted :
  exists d a, flat d = true /\ flat a = true /\ known a = true /\ variants_of a <> [] /\
              forallb (fun k => negb (decl_admits d k)) (possible a) = true /\
              check_arg_type pinned_args d a = true.
Proof.
  exists (MakeUnion [MakeObject "K"; MakeNil]), (MakeObject "L").
  split; [reflexivity|]. split; [reflexivity|]. split; [reflexivity|]. split; [discriminate|]. split; reflexivity.
Qed.

(* ---------- arity and per-argument checking of a positional call (C07 count rule, C08) ---------- *)
(* the declarative reading: parameter i takes argument i; parameters beyond the arguments must have a
   default; more arguments than parameters is an error (unless the method returns untyped) *)
Fixpoint pos_walk (cr : bool) (ptys args : list ty) : cres :=
  match ptys with
  | [] => COk
  | p :: ps =>
      match args with
      | a :: as' => if check_arg_type fixed_args p a then pos_walk cr ps as' else CErr ETypeMismatch
      | [] => if has_default p then pos_walk cr ps [] else if cr then CErr ETooFew else COk
      end
  end.

Definition pos_spec (cr ra : bool) (ptys args : list ty) : cres :=
  match pos_walk cr ptys args with
  | COk => if ra then COk else if cr && Nat.ltb (List.length ptys) (List.length args) then CErr ETooMany else COk
  | e => e
  end.

Definition plain_name (s : string) : bool := negb (is_key_suffix s) && negb (is_star s) && negb (is_dstar s) && negb (is_named_darg s).
Definition plain_arg (a : ty) : bool := negb (is_keyvalue_type a) && negb (tag_is UNKNOWN a).
Definition declared (t : tbl) (n : string) : bool :=
  match tget t n with Some dt => is_builtin dt && negb (tag_is UNKNOWN dt) | None => false end.
Definition param_ty (t : tbl) (n : string) : ty := match tget t n with Some dt => dt | None => zero_ty end.

Lemma filter_all {A} (p : A -> bool) l : forallb p l = true -> filter p l = l.
Proof. induction l as [|x r IH]; cbn; [reflexivity|]. intros H. apply andb_true_iff in H as [Hx Hr]. rewrite Hx, IH by assumption. reflexivity. Qed.
Lemma filter_none {A} (p : A -> bool) l : forallb (fun x => negb (p x)) l = true -> filter p l = [].
Proof. induction l as [|x r IH]; cbn; [reflexivity|]. intros H. apply andb_true_iff in H as [Hx Hr]. apply negb_true_iff in Hx. rewrite Hx. apply IH; assumption. Qed.

Lemma skipn_nth_cons {A} (d : A) : forall i (l : list A), i < List.length l -> skipn i l = nth i l d :: skipn (S i) l.
Proof. induction i as [|i IH]; intros [|x r] H; cbn in *; try lia; [reflexivity|]. apply IH. lia. Qed.

Lemma walk_step_plain cr d rest s dt :
  is_dstar d = false -> is_star d = false -> is_key_suffix d = false ->
  tget (w_tbl s) d = Some dt -> is_builtin dt = true -> tag_is UNKNOWN dt = false ->
  forallb plain_arg (w_args s) = true ->
  walk_step fixed_args cr d rest s =
    if Nat.ltb (w_idx s) (List.length (w_args s)) then
      if check_arg_type fixed_args dt (nth (w_idx s) (w_args s) zero_ty)
      then SNext {| w_args := w_args s; w_idx := S (w_idx s); w_aster := w_aster s; w_tbl := w_tbl s |}
      else SErr ETypeMismatch
    else if has_default dt
         then SNext {| w_args := w_args s; w_idx := S (w_idx s); w_aster := w_aster s; w_tbl := w_tbl s |}
         else if cr then SErr ETooFew
              else SBreak {| w_args := w_args s; w_idx := w_idx s; w_aster := w_aster s; w_tbl := w_tbl s |}.
Proof.
  intros H1 H2 H3 Ht Hbi Hunk Ha. unfold walk_step. rewrite H1, H2, H3, Ht. cbn [opt_has_default].
  destruct (Nat.ltb (w_idx s) (List.length (w_args s))) eqn:Ei.
  - apply Nat.ltb_lt in Ei.
    assert (Hcur : plain_arg (nth (w_idx s) (w_args s) zero_ty) = true).
    { rewrite forallb_forall in Ha. apply Ha. apply nth_In. exact Ei. }
    unfold plain_arg in Hcur. apply andb_true_iff in Hcur as [Hkv Hu]. apply negb_true_iff in Hkv, Hu.
    rewrite Hkv. cbn [andb negb]. rewrite !andb_false_r. cbn [andb negb]. rewrite Hu, Hunk, Hbi.
    destruct cr; cbn [andb]; reflexivity.
  - cbn [andb negb]. rewrite !andb_false_r. cbn [andb negb].
    destruct cr, (has_default dt); cbn [andb negb]; reflexivity.
Qed.

Lemma walk_positional cr names : forall t args i aster,
  forallb plain_name names = true -> forallb plain_arg args = true -> forallb (declared t) names = true ->
  let '(r, s) := walk fixed_args cr names {| w_args := args; w_idx := i; w_aster := aster; w_tbl := t |} in
  r = pos_walk cr (map (param_ty t) names) (skipn i args) /\ w_aster s = aster /\ w_tbl s = t /\
  List.length (w_args s) = List.length args.
Proof.
  induction names as [|d rest IH]; intros t args i aster Hn Ha Hd; cbn [walk map pos_walk].
  - repeat split.
  - cbn [forallb] in Hn, Hd. apply andb_true_iff in Hn as [Hd1 Hn]. apply andb_true_iff in Hd as [Hdd Hd].
    unfold plain_name in Hd1. apply andb_true_iff in Hd1 as [Hd1 H4]. apply andb_true_iff in Hd1 as [Hd1 H3].
    apply andb_true_iff in Hd1 as [H1 H2]. apply negb_true_iff in H1, H2, H3.
    unfold declared in Hdd. destruct (tget t d) as [dt|] eqn:Et; [|discriminate].
    assert (Hpt : param_ty t d = dt) by (unfold param_ty; rewrite Et; reflexivity). rewrite Hpt.
    apply andb_true_iff in Hdd as [Hbi Hunk]. apply negb_true_iff in Hunk.
    rewrite (walk_step_plain cr d rest _ dt) by (cbn [w_tbl w_args]; assumption).
    cbn [w_args w_idx w_aster w_tbl].
    destruct (Nat.ltb i (List.length args)) eqn:Ei.
    + apply Nat.ltb_lt in Ei. rewrite (skipn_nth_cons zero_ty i args Ei).
      destruct (check_arg_type fixed_args dt (nth i args zero_ty)) eqn:Ec.
      * exact (IH t args (S i) aster Hn Ha Hd).
      * repeat split.
    + apply Nat.ltb_ge in Ei. rewrite (skipn_all2 args Ei).
      destruct (has_default dt) eqn:Ehd.
      * specialize (IH t args (S i) aster Hn Ha Hd). rewrite (skipn_all2 args) in IH by lia. exact IH.
      * destruct cr; repeat split.
Qed.

(* checkAndPropagateArgs on a positional call of a configured method is exactly the declarative rule *)
Theorem check_args_positional cr ra names t args :
  forallb plain_name names = true -> forallb plain_arg args = true -> forallb (declared t) names = true ->
  check_args fixed_args cr ra names t args = (pos_spec cr ra (map (param_ty t) names) args, t).
Proof.
  intros Hn Ha Hd. unfold check_args, pos_spec.
  assert (Hpa : prioritize_args args = args).
  { unfold prioritize_args. rewrite filter_all, filter_none; [apply app_nil_r| |].
    - rewrite forallb_forall in *. intros x Hx. specialize (Ha x Hx). unfold plain_arg in Ha.
      apply andb_true_iff in Ha as [H _]. exact H.
    - rewrite forallb_forall in *. intros x Hx. specialize (Ha x Hx). unfold plain_arg in Ha.
      apply andb_true_iff in Ha as [H _]. exact H. }
  assert (Hpd : prioritize_dargs names = names).
  { unfold prioritize_dargs. rewrite filter_all, filter_none; [apply app_nil_r| |].
    - rewrite forallb_forall in *. intros x Hx. specialize (Hn x Hx). unfold plain_name in Hn.
      repeat (apply andb_true_iff in Hn as [Hn ?]). assumption.
    - rewrite forallb_forall in *. intros x Hx. specialize (Hn x Hx). unfold plain_name in Hn.
      repeat (apply andb_true_iff in Hn as [Hn ?]). assumption. }
  rewrite Hpa, Hpd.
  pose proof (walk_positional cr names t args 0 false Hn Ha Hd) as Hw.
  destruct (walk fixed_args cr names {| w_args := args; w_idx := 0; w_aster := false; w_tbl := t |}) as [r s].
  destruct Hw as (Hr & Has & Ht & _). cbn [skipn] in Hr. rewrite Hr, Ht, Has. rewrite map_length.
  destruct (pos_walk cr (map (param_ty t) names) args); try reflexivity.
  destruct ra; [reflexivity|]. cbn [negb]. rewrite andb_true_r.
  destruct (cr && Nat.ltb (List.length names) (List.length args)); reflexivity.
Qed.

(* C08 (count + fit => accepted, every round) and C07 (count outside => reported in the check round) *)
Corollary positional_accepts cr ra ptys args :
  List.length args <= List.length ptys ->
  (forall i, i < List.length args -> check_arg_type fixed_args (nth i ptys zero_ty) (nth i args zero_ty) = true) ->
  (forall i, List.length args <= i < List.length ptys -> has_default (nth i ptys zero_ty) = true) ->
  pos_spec cr ra ptys args = COk.
Proof.
  intros Hlen Hfit Hdef. unfold pos_spec.
  assert (Hw : pos_walk cr ptys args = COk).
  { revert args Hlen Hfit Hdef. induction ptys as [|p ps IH]; intros [|a r] Hlen Hfit Hdef; cbn [pos_walk]; try reflexivity.
    - pose proof (Hdef 0) as H0. cbn [nth] in H0. rewrite H0 by (cbn; lia). apply IH; [cbn; lia|intros i Hi; cbn in Hi; lia|].
      intros i Hi. apply (Hdef (S i)). cbn in *. lia.
    - pose proof (Hfit 0) as H0. cbn [nth] in H0. rewrite H0 by (cbn; lia). apply IH; [cbn in *; lia| |].
      + intros i Hi. apply (Hfit (S i)). cbn. lia.
      + intros i Hi. apply (Hdef (S i)). cbn in *. lia. }
  rewrite Hw. destruct ra; [reflexivity|].
  replace (Nat.ltb (List.length ptys) (List.length args)) with false by (symmetry; apply Nat.ltb_ge; lia).
  rewrite andb_false_r. reflexivity.
Qed.

Corollary positional_too_many ptys args :
  List.length ptys < List.length args -> exists k, pos_spec true false ptys args = CErr k.
Proof.
  intros Hlen. unfold pos_spec. destruct (pos_walk true ptys args) eqn:E; try (eexists; reflexivity).
  - apply Nat.ltb_lt in Hlen. rewrite Hlen. eexists; reflexivity.
  - exfalso. revert args Hlen E. induction ptys as [|p ps IH]; intros args Hlen E; cbn [pos_walk] in E; [discriminate|].
    destruct args as [|a r]; [cbn in Hlen; lia|].
    destruct (check_arg_type fixed_args p a); [|discriminate]. apply (IH r); [cbn in Hlen; lia|exact E].
Qed.

Corollary positional_too_few ptys args :
  (exists i, List.length args <= i < List.length ptys /\ has_default (nth i ptys zero_ty) = false) ->
  exists k, pos_spec true false ptys args = CErr k.
Proof.
  intros (i & Hi & Hnd). unfold pos_spec.
  assert (Hw : exists k, pos_walk true ptys args = CErr k).
  { revert args i Hi Hnd. induction ptys as [|p ps IH]; intros args i Hi Hnd; [cbn in Hi; lia|].
    cbn [pos_walk]. destruct args as [|a r].
    - destruct (has_default p) eqn:Ehd; [|eexists; reflexivity].
      destruct i as [|i]; [cbn in Hnd; congruence|]. apply (IH [] i); [cbn in *; lia|exact Hnd].
    - destruct (check_arg_type fixed_args p a); [|eexists; reflexivity].
      destruct i as [|i]; [cbn in Hi; lia|]. apply (IH r i); [cbn in *; lia|exact Hnd]. }
  destruct Hw as [k ->]. eexists; reflexivity.
Qed.

(* ---------- the call-level spec (Model/CallSpec.v) against the declarative rule ---------- *)
Lemma nth_skipn_add {A} (d : A) : forall n j (l : list A), nth j (skipn n l) d = nth (n + j) l d.
Proof. induction n as [|n IH]; intros j [|x r]; cbn; try reflexivity; [destruct j; reflexivity|apply IH]. Qed.

Lemma skipn_has_default ptys n i :
  forallb has_default (skipn n ptys) = true -> n <= i < List.length ptys -> has_default (nth i ptys zero_ty) = true.
Proof.
  revert n i. induction ptys as [|p ps IH]; intros n i H Hi; [cbn in Hi; lia|].
  destruct n as [|n].
  - cbn [skipn] in H. rewrite forallb_forall in H. apply H. apply nth_In. lia.
  - destruct i as [|i]; [lia|]. cbn [skipn nth] in *. apply (IH n i H). cbn in Hi. lia.
Qed.

Lemma admitted_args_fit ptys : forall args i,
  zip_forall arg_all_admitted ptys args = true -> i < List.length args -> i < List.length ptys ->
  check_arg_type fixed_args (nth i ptys zero_ty) (nth i args zero_ty) = true.
Proof.
  induction ptys as [|p ps IH]; intros [|a r] i Hz Hi Hp; cbn in Hi, Hp; try lia.
  cbn [zip_forall] in Hz. apply andb_true_iff in Hz as [Hpa Hr].
  destruct i as [|i]; cbn [nth].
  - unfold arg_all_admitted in Hpa. apply andb_true_iff in Hpa as [Hpa Hall]. apply andb_true_iff in Hpa as [Hf Hne].
    apply check_arg_type_complete; [exact Hf| |exact Hall]. destruct (variants_of a); discriminate.
  - apply IH; [exact Hr|lia|lia].
Qed.

Theorem certainly_fits_accepted cr ra ptys args :
  certainly_fits ptys args = true -> pos_spec cr ra ptys args = COk.
Proof.
  unfold certainly_fits, arity_ok. intros H. apply andb_true_iff in H as [Har Hz].
  apply andb_true_iff in Har as [Hlen Hdef]. apply Nat.leb_le in Hlen.
  apply positional_accepts; [exact Hlen| |].
  - intros i Hi. apply admitted_args_fit; [exact Hz|exact Hi|lia].
  - intros i Hi. eapply skipn_has_default; eassumption.
Qed.

Lemma rejected_arg_errors ptys : forall args,
  zip_exists arg_all_rejected ptys args = true -> exists k, pos_walk true ptys args = CErr k.
Proof.
  induction ptys as [|p ps IH]; intros [|a r] H; cbn [zip_exists] in H; try discriminate.
  cbn [pos_walk]. destruct (check_arg_type fixed_args p a) eqn:Ec; [|eexists; reflexivity].
  apply orb_true_iff in H as [H|H]; [|apply IH; exact H].
  exfalso. unfold arg_all_rejected in H.
  apply andb_true_iff in H as [H Hall]. apply andb_true_iff in H as [H Hne]. apply andb_true_iff in H as [H Hk].
  apply andb_true_iff in H as [Hfd Hfa].
  rewrite (check_arg_type_sound p a Hfd Hfa Hk) in Ec; [discriminate| |exact Hall].
  destruct (variants_of a); [discriminate|discriminate].
Qed.

Theorem certainly_fails_reported ptys args :
  certainly_fails ptys args = true -> exists k, pos_spec true false ptys args = CErr k.
Proof.
  unfold certainly_fails. intros H. apply orb_true_iff in H as [H|H].
  - apply negb_true_iff in H. unfold arity_ok in H. apply andb_false_iff in H as [H|H].
    + apply positional_too_many. apply Nat.leb_gt in H. exact H.
    + destruct (Nat.leb (List.length args) (List.length ptys)) eqn:El.
      * apply Nat.leb_le in El. apply positional_too_few.
        assert (Hex : exists x, In x (skipn (List.length args) ptys) /\ has_default x = false).
        { clear -H. induction (skipn (List.length args) ptys) as [|x r IH]; [discriminate|].
          cbn [forallb] in H. apply andb_false_iff in H as [H|H]; [exists x; split; [left; reflexivity|exact H]|].
          destruct (IH H) as (y & Hy & Hd). exists y. split; [right; exact Hy|exact Hd]. }
        destruct Hex as (x & Hx & Hd). apply (In_nth _ _ zero_ty) in Hx as (j & Hj & Hnth).
        rewrite skipn_length in Hj. exists (List.length args + j). split; [lia|].
        rewrite <- Hd, <- Hnth. rewrite nth_skipn_add. reflexivity.
      * apply positional_too_many. apply Nat.leb_gt in El. exact El.
  - unfold pos_spec. destruct (rejected_arg_errors ptys args H) as [k ->]. eexists; reflexivity.
Qed.
