(* What a method body collects (Model/Returns.v) *)
From RT Require Import Model.Returns.

Section rstmt_ind2.
  Variable P : rstmt -> Prop.
  Hypothesis HE : forall c, P (RExpr c).
  Hypothesis HR : forall c, P (RReturn c).
  Hypothesis HB : forall b v, Forall P b -> P (RBlock b v).
  Hypothesis HL : forall b, Forall P b -> P (RLambda b).
  Fixpoint rstmt_ind2 (s : rstmt) : P s :=
    match s with
    | RExpr c => HE c
    | RReturn c => HR c
    | RBlock b v => HB b v ((fix go (l : list rstmt) : Forall P l :=
                               match l with [] => Forall_nil P | x :: r => Forall_cons x (rstmt_ind2 x) (go r) end) b)
    | RLambda b => HL b ((fix go (l : list rstmt) : Forall P l :=
                               match l with [] => Forall_nil P | x :: r => Forall_cons x (rstmt_ind2 x) (go r) end) b)
    end.
End rstmt_ind2.

Lemma add_ret_extends r c : exists ext, add_ret r c = r ++ ext.
Proof. unfold add_ret. destruct (existsb (String.eqb c) r); [exists []; symmetry; apply app_nil_r | exists [c]; reflexivity]. Qed.

Lemma fold_add_ret_extends xs : forall r, exists ext, fold_left add_ret xs r = r ++ ext.
Proof.
  induction xs as [|x xs IH]; intros r; cbn [fold_left]; [exists []; symmetry; apply app_nil_r|].
  destruct (add_ret_extends r x) as [e1 E1]. destruct (IH (add_ret r x)) as [e2 E2].
  exists (e1 ++ e2). rewrite E2, E1, app_assoc. reflexivity.
Qed.

Lemma firstn_prefix {A} (r ext : list A) : firstn (List.length r) (r ++ ext) = r.
Proof. induction r as [|a r IH]; cbn [List.length firstn app]; [destruct ext; reflexivity | rewrite IH; reflexivity]. Qed.

(* a statement ignores the incoming last value and adds exactly its outer returns *)
Lemma exec_stmt_spec s : forall r l, exec_stmt true s (r, l) = (fold_left add_ret (outer_returns s) r, value_of s).
Proof.
  induction s as [c|c|b v IH|b IH] using rstmt_ind2; intros r l; cbn [exec_stmt outer_returns value_of fst fold_left]; try reflexivity.
  - f_equal. revert r l. induction IH as [|x b Hx _ IHb]; intros r l; cbn [fold_left flat_map fst]; [reflexivity|].
    rewrite Hx, fold_left_app. apply IHb.
  - f_equal.
    assert (G : forall r0 l0, fst (fold_left (fun a x => exec_stmt true x a) b (r0, l0)) = fold_left add_ret (flat_map outer_returns b) r0).
    { induction IH as [|x b Hx _ IHb]; intros r0 l0; cbn [fold_left flat_map fst]; [reflexivity|].
      rewrite Hx, fold_left_app. apply IHb. }
    rewrite G. destruct (fold_add_ret_extends (flat_map outer_returns b) r) as [ext E]. rewrite E. apply firstn_prefix.
Qed.

Lemma exec_body_spec b : forall r l,
  exec_body true b (r, l) = (fold_left add_ret (flat_map outer_returns b) r, match rev b with [] => l | s :: _ => value_of s end).
Proof.
  unfold exec_body. induction b as [|x b IH]; intros r l; cbn [fold_left flat_map rev]; [reflexivity|].
  rewrite exec_stmt_spec, IH, fold_left_app. f_equal.
  destruct (rev b) as [|s t] eqn:E; cbn [app]; reflexivity.
Qed.

Lemma method_type_spec body :
  method_type true body = add_ret (fold_left add_ret (flat_map outer_returns body) []) (last_value body).
Proof. unfold method_type, last_value. rewrite exec_body_spec. reflexivity. Qed.

(* membership *)
Lemma in_add_ret r c x : In x (add_ret r c) <-> In x r \/ x = c.
Proof.
  unfold add_ret. destruct (existsb (String.eqb c) r) eqn:E.
  - split; [left; assumption|]. intros [H | ->]; [exact H|]. apply existsb_exists in E as [y [Hy Ey]].
    apply String.eqb_eq in Ey. subst y. exact Hy.
  - rewrite in_app_iff. cbn [In]. split; [intros [H|[H|[]]]; [left; exact H | right; symmetry; exact H] | intros [H|H]; [left; exact H | right; left; symmetry; exact H]].
Qed.

Lemma in_fold_add_ret xs : forall r x, In x (fold_left add_ret xs r) <-> In x r \/ In x xs.
Proof.
  induction xs as [|c xs IH]; intros r x; cbn [fold_left In]; [tauto|].
  rewrite IH, in_add_ret. split; [intros [[H|H]|H]; [left; exact H | right; left; symmetry; exact H | right; right; exact H]
                                | intros [H|[H|H]]; [left; left; exact H | left; right; symmetry; exact H | right; exact H]].
Qed.

(* C15: the type of a call is exactly the body's last value and the returns written outside lambdas *)
Theorem method_type_exact body x :
  In x (method_type true body) <-> In x (flat_map outer_returns body) \/ x = last_value body.
Proof. rewrite method_type_spec, in_add_ret, in_fold_add_ret. cbn [In]. tauto. Qed.

(* C11: a lambda leaves the list of returns as it found it *)
Theorem lambda_is_local b r l : exec_stmt true (RLambda b) (r, l) = (r, "Proc").
Proof. rewrite exec_stmt_spec. reflexivity. Qed.

Lemma ins_lambda_returns lb b b' : ins (RLambda lb) b b' -> flat_map outer_returns b' = flat_map outer_returns b.
Proof.
  induction 1 as [pre post | pre b b' v post _ IH | pre b b' post _ IH]; rewrite !flat_map_app; cbn [flat_map outer_returns app].
  - reflexivity.
  - rewrite IH. reflexivity.
  - reflexivity.
Qed.

Lemma last_value_app pre post : post <> [] -> last_value (pre ++ post) = last_value post.
Proof.
  intros H. unfold last_value. rewrite rev_app_distr. destruct (rev post) as [|s t] eqn:E; [|reflexivity].
  exfalso. apply H. apply (f_equal (@rev _)) in E. rewrite rev_involutive in E. exact E.
Qed.

(* inserting a lambda — whatever its body returns — anywhere before the last statement of a method body, at any
   depth of blocks, leaves the type of the method unchanged *)
Theorem lambda_insertion lb pre pre' post : ins (RLambda lb) pre pre' -> post <> [] ->
  method_type true (pre' ++ post) = method_type true (pre ++ post).
Proof.
  intros Hi Hp. rewrite !method_type_spec, !flat_map_app, (ins_lambda_returns lb pre pre' Hi), !last_value_app by exact Hp. reflexivity.
Qed.

(* the pinned Do.Evaluation treated the lambda as a block: its returns became returns of the method *)
Theorem lambda_pinned_refuted : exists lb pre post, post <> [] /\
  method_type false (pre ++ RLambda lb :: post) <> method_type false (pre ++ post).
Proof. exists [RReturn "String"], [], [RExpr "Integer"]. split; [discriminate | vm_compute; discriminate]. Qed.
