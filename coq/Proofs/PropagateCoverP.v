(* One round of call sites on a parameter of a user-defined method, from ANY inferred state left by earlier rounds:
   afterwards the parameter admits the argument of every call site of the round (Model/Propagate.v) *)
From RT Require Import Model.Propagate Model.Infer Proofs.InferP Proofs.PropagateP.
From Coq Require Import Lia.

Definition admits_arg (dt a : ty) : bool := existsb (fun v => is_match_type v a) (variants_or_self dt).
Definition covered (e : option pentry) (a : ty) : Prop := match e with Some (dt, _) => admits_arg dt a = true | None => False end.

Lemma existsb_ext' {A} (f g : A -> bool) l : (forall x, f x = g x) -> existsb f l = existsb g l.
Proof. intros H. induction l as [|x l IH]; cbn [existsb]; [reflexivity | rewrite H, IH; reflexivity]. Qed.

Lemma scalar_tag t : scalar t = true -> tag_is UNION t = false.
Proof. exact (scalar_not_union t). Qed.

Lemma is_match_scalar v a : scalar v = true -> scalar a = true ->
  is_match_type v a = if tag_is OBJECT v && tag_is OBJECT a then String.eqb (t_cls v) (t_cls a) else tag_eqb (t_tag v) (t_tag a).
Proof. intros Hv Ha. unfold is_match_type. rewrite (scalar_not_union v Hv). reflexivity. Qed.

Lemma same_kind_match v a : scalar v = true -> scalar a = true -> same_kind v a = true -> is_match_type v a = true.
Proof.
  intros Hv Ha H. rewrite (is_match_scalar v a Hv Ha). unfold same_kind in H. apply andb_true_iff in H as [H1 H2].
  destruct (tag_is OBJECT v && tag_is OBJECT a); assumption.
Qed.

Lemma match_refl a : scalar a = true -> is_match_type a a = true.
Proof.
  intros H. apply same_kind_match; try exact H. unfold same_kind. rewrite String.eqb_refl. destruct (t_tag a); reflexivity.
Qed.

Lemma is_match_set_inf_l x b a : is_match_type (set_inf x b) a = is_match_type x a.
Proof. unfold is_match_type, is_union_type, tag_is, variant_tags. rewrite set_inf_tag, set_inf_cls, set_inf_vars. reflexivity. Qed.
Lemma is_match_set_inf_r v a b : is_match_type v (set_inf a b) = is_match_type v a.
Proof. unfold is_match_type, is_union_type, tag_is, variant_tags. rewrite set_inf_tag, set_inf_cls, set_inf_vars. reflexivity. Qed.
Lemma same_kind_set_inf_r v a b : same_kind v (set_inf a b) = same_kind v a.
Proof. unfold same_kind. rewrite set_inf_tag, set_inf_cls. reflexivity. Qed.

(* the shape of a parameter type that call sites have inferred *)
Definition wf_ty (dt : ty) : Prop :=
  is_builtin dt = false /\ tag_is UNKNOWN dt = false /\ is_inferred dt = true /\ has_default dt = false /\
  (scalar dt = true \/ (is_union_type dt = true /\ 2 <= List.length (t_vars dt) /\ forallb scalar (t_vars dt) = true)).

Lemma admits_mono_app dt a x : is_union_type dt = true -> admits_arg dt x = true -> admits_arg (set_vars dt (t_vars dt ++ [a])) x = true.
Proof.
  intros Hu H. unfold admits_arg, variants_or_self in *. rewrite Hu in H.
  replace (is_union_type (set_vars dt (t_vars dt ++ [a]))) with true by (unfold is_union_type, tag_is in *; rewrite set_vars_tag; symmetry; exact Hu).
  rewrite t_vars_set_vars, existsb_app, H. reflexivity.
Qed.

Section Cover.
  Variable V : prop_variant.
  Variable bm : bool.
  Variable r : string.
  Variable dom : ty -> Prop.
  Hypothesis dom_ok : forall a, dom a -> arg_ok a = true.

  (* the state after the call sites `seen` of this round *)
  Definition CInv (seen : list ty) (e : pentry) : Prop :=
    wf_ty (fst e) /\ (forall x, In x seen -> admits_arg (fst e) x = true) /\
    ((snd e = r \/ snd e = "") \/
     (snd e <> r /\ snd e <> "" /\
      (seen <> [] -> is_union_type (fst e) = true /\
                     (bm = false -> List.length (t_vars (fst e)) = 2 -> existsb is_any_type (t_vars (fst e)) = false)))).

  Lemma append_step dt a a' seen : wf_ty dt -> is_union_type dt = true -> scalar a = true -> a' = a \/ a' = set_inf a true ->
    (forall x, In x seen -> admits_arg dt x = true) ->
    wf_ty (AppendVariant dt a') /\ (forall x, In x (seen ++ [a]) -> admits_arg (AppendVariant dt a') x = true) /\
    is_union_type (AppendVariant dt a') = true /\
    (AppendVariant dt a' = dt /\ existsb (fun v => is_match_type v a) (t_vars dt) = true \/
     t_vars (AppendVariant dt a') = t_vars dt ++ [a']).
  Proof.
    intros [Hb [Hu [Hi [Hd Hs]]]] Eu Sa Ha' Hc.
    destruct Hs as [Hs|[_ [Hlen Hsv]]]; [rewrite (scalar_not_union dt Hs) in Eu; discriminate|].
    assert (Hne : t_vars dt <> []) by (intros E; rewrite E in Hlen; cbn in Hlen; lia).
    assert (Sa' : scalar a' = true) by (destruct Ha' as [->| ->]; [exact Sa | rewrite scalar_set_inf; exact Sa]).
    assert (Hm : forall v, is_match_type v a' = is_match_type v a) by (intros v; destruct Ha' as [->| ->]; [reflexivity | apply is_match_set_inf_r]).
    assert (Hk : forall v, same_kind v a' = same_kind v a) by (intros v; destruct Ha' as [->| ->]; [reflexivity | apply same_kind_set_inf_r]).
    rewrite (AppendVariant_scalar dt a' Sa'), (is_equal_object_vars dt a' Hne).
    destruct (existsb (fun s => same_kind s a') (t_vars dt)) eqn:Ex.
    - assert (Em : existsb (fun v => is_match_type v a) (t_vars dt) = true).
      { apply existsb_exists in Ex as [v [Hv Hkv]]. apply existsb_exists. exists v. split; [exact Hv|].
        rewrite Hk in Hkv. apply same_kind_match; try assumption. rewrite forallb_forall in Hsv. apply Hsv. exact Hv. }
      split; [repeat split; try assumption; right; repeat split; assumption|]. split; [|split; [exact Eu | left; split; [reflexivity | exact Em]]].
      intros x Hx. apply in_app_or in Hx as [Hx|[<-|[]]]; [apply Hc; exact Hx|].
      unfold admits_arg, variants_or_self. rewrite Eu. exact Em.
    - assert (Eu2 : is_union_type (set_vars dt (t_vars dt ++ [a'])) = true) by (unfold is_union_type, tag_is in *; rewrite set_vars_tag; exact Eu).
      split; [|split; [|split; [exact Eu2 | right; apply t_vars_set_vars]]].
      + repeat split.
        * unfold is_builtin. rewrite set_vars_fl. exact Hb.
        * unfold tag_is. rewrite set_vars_tag. exact Hu.
        * unfold is_inferred. rewrite set_vars_fl. exact Hi.
        * unfold has_default. rewrite set_vars_fl. exact Hd.
        * right. repeat split; [exact Eu2 | rewrite t_vars_set_vars, app_length; lia |].
          rewrite t_vars_set_vars, forallb_app, Hsv. cbn [forallb]. rewrite Sa'. reflexivity.
      + intros x Hx. apply in_app_or in Hx as [Hx|[<-|[]]].
        * apply admits_mono_app; [exact Eu | apply Hc; exact Hx].
        * unfold admits_arg, variants_or_self. rewrite Eu2, t_vars_set_vars, existsb_app. cbn [existsb].
          assert (Haa : is_match_type a' a = true) by (destruct Ha' as [->| ->]; [apply match_refl; exact Sa | rewrite is_match_set_inf_l; apply match_refl; exact Sa]).
          rewrite Haa. rewrite Bool.orb_true_r. reflexivity.
  Qed.

  Lemma fresh_entry a : scalar a = true -> tag_is UNKNOWN a = false -> is_builtin a = false -> has_default a = false ->
    CInv [a] (set_inf a true, r).
  Proof.
    intros Sa Ua Ba Da. unfold CInv. cbn [fst snd]. split; [|split].
    - repeat split.
      + rewrite set_inf_bi. exact Ba.
      + unfold tag_is. rewrite set_inf_tag. exact Ua.
      + apply set_inf_inf.
      + rewrite set_inf_hd. exact Da.
      + left. rewrite scalar_set_inf. exact Sa.
    - intros x [<-|[]]. unfold admits_arg, variants_or_self.
      rewrite (scalar_not_union _ (eq_trans (scalar_set_inf a true) Sa)). cbn [existsb]. rewrite is_match_set_inf_l, (match_refl a Sa). reflexivity.
    - left. left. reflexivity.
  Qed.
  Lemma wf_union_or_scalar dt : wf_ty dt -> is_union_type dt = false -> scalar dt = true.
  Proof. intros [_ [_ [_ [_ [H|[H _]]]]]] E; [exact H | rewrite H in E; discriminate]. Qed.

  Lemma pair_entry dt a : wf_ty dt -> scalar dt = true -> scalar a = true -> tag_is UNKNOWN a = false -> is_match_type dt a = false ->
    let u := set_inf (set_hd (UnifyVariants (MakeUnion [dt; a])) false) true in
    wf_ty u /\ admits_arg u a = true /\ (forall x, admits_arg dt x = true -> admits_arg u x = true).
  Proof.
    intros [Hb [Hu [Hi [Hd _]]]] Sd Sa Ua Em.
    assert (Ek : same_kind dt a = false).
    { destruct (same_kind dt a) eqn:E; [|reflexivity]. rewrite (same_kind_match dt a Sd Sa E) in Em. discriminate. }
    rewrite (UnifyVariants_pair dt a Sd Sa Hu Ua Ek). cbv zeta.
    assert (Eu : is_union_type (set_inf (set_hd (MakeUnion [dt; a]) false) true) = true) by reflexivity.
    assert (Ev : t_vars (set_inf (set_hd (MakeUnion [dt; a]) false) true) = [dt; a]) by reflexivity.
    split; [|split].
    - repeat split; try reflexivity. right. rewrite Eu, Ev. repeat split; [cbn; lia|]. cbn [forallb]. rewrite Sd, Sa. reflexivity.
    - unfold admits_arg, variants_or_self. rewrite Eu, Ev. cbn [existsb]. rewrite (match_refl a Sa), Bool.orb_true_r. reflexivity.
    - intros x Hx. unfold admits_arg, variants_or_self in *. rewrite (scalar_not_union dt Sd) in Hx. rewrite Eu, Ev.
      cbn [existsb] in *. rewrite Bool.orb_false_r in Hx. rewrite Hx. reflexivity.
  Qed.

  Lemma cover_step seen e a : CInv seen e -> dom a ->
    exists e', snd (propagate V bm r (Some e) a) = Some e' /\ CInv (seen ++ [a]) e'.
  Proof.
    destruct e as [dt dr]. intros [W [Hc Hst]] Ha. cbn [fst snd] in *.
    destruct (arg_ok_parts a (dom_ok a Ha)) as [Sa [Ua [Ba Da]]].
    pose proof W as [Hb [Hu [Hi [Hd Hs]]]].
    unfold propagate. rewrite Hu, Hb, Hd, Bool.andb_false_r. cbv zeta.
    destruct Hst as [Hcur|[Hn1 [Hn2 Hcar]]].
    - (* the entry belongs to this round (or has no tag) *)
      assert (E2 : negb (String.eqb dr "") && negb (String.eqb dr r) = false).
      { destruct Hcur as [->| ->]; [rewrite String.eqb_refl; apply Bool.andb_false_r | reflexivity]. }
      rewrite E2. cbn [andb].
      destruct (is_union_type dt) eqn:Eu.
      + rewrite Hi. cbn [andb snd].
        destruct (append_step dt a a seen W Eu Sa (or_introl eq_refl) Hc) as [W' [Hc' _]].
        eexists. split; [reflexivity|]. unfold CInv. cbn [fst snd]. split; [exact W' | split; [exact Hc' | left; exact Hcur]].
      + cbn [andb]. pose proof (wf_union_or_scalar dt W Eu) as Sd.
        destruct (is_match_type dt a) eqn:Em.
        * eexists. split; [reflexivity|]. unfold CInv. cbn [fst snd]. split; [exact W | split; [|left; exact Hcur]].
          intros x Hx. apply in_app_or in Hx as [Hx|[<-|[]]]; [apply Hc; exact Hx|].
          unfold admits_arg, variants_or_self. rewrite Eu. cbn [existsb]. rewrite Em. reflexivity.
        * rewrite Hi. cbn [orb snd].
          assert (Vd : variants_or_self dt = [dt]) by (unfold variants_or_self; rewrite Eu; reflexivity).
          assert (Va : variants_or_self a = [a]) by (unfold variants_or_self; rewrite (scalar_not_union a Sa); reflexivity).
          rewrite Vd, Va. cbn [app].
          destruct (pair_entry dt a W Sd Sa Ua Em) as [W' [Ca Cm]].
          eexists. split; [reflexivity|]. unfold CInv. cbn [fst snd]. split; [exact W' | split; [|left; left; reflexivity]].
          intros x Hx. apply in_app_or in Hx as [Hx|[<-|[]]]; [apply Cm, Hc; exact Hx | exact Ca].
    - (* the entry was left by an earlier round *)
      assert (E2 : negb (String.eqb dr "") && negb (String.eqb dr r) = true).
      { apply String.eqb_neq in Hn1, Hn2. rewrite Hn1, Hn2. reflexivity. }
      rewrite E2. cbn [andb].
      destruct (is_union_type dt) eqn:Eu.
      + cbn [andb]. rewrite Hi. cbn [andb].
        destruct (negb bm && Nat.eqb (List.length (t_vars dt)) 2) eqn:E3.
        * (* a two-variant union *)
          apply andb_true_iff in E3 as [E3a E3b]. apply Bool.negb_true_iff in E3a. apply Nat.eqb_eq in E3b.
          cbn [andb].
          destruct (existsb is_any_type (t_vars dt) && existsb (fun v => is_match_type v (set_inf a true)) (t_vars dt)) eqn:E6.
          -- (* replaced: nothing of this round has been seen yet *)
             destruct seen as [|s0 seen'].
             ++ cbn [app snd]. eexists. split; [reflexivity|]. unfold CInv. cbn [fst snd].
                assert (F := fresh_entry (set_inf a true)). rewrite scalar_set_inf in F. unfold tag_is in F. rewrite set_inf_tag in F.
                rewrite set_inf_bi, set_inf_hd in F. specialize (F Sa Ua Ba Da). destruct F as [W' [_ St']].
                split; [exact W' | split; [|left; left; reflexivity]]. intros x [<-|[]].
                unfold admits_arg, variants_or_self.
                rewrite (scalar_not_union _ (eq_trans (scalar_set_inf _ true) (eq_trans (scalar_set_inf a true) Sa))).
                cbn [existsb]. rewrite !is_match_set_inf_l, (match_refl a Sa). reflexivity.
             ++ exfalso. destruct (Hcar ltac:(discriminate)) as [_ Hany]. apply andb_true_iff in E6 as [E6 _].
                rewrite (Hany E3a E3b) in E6. discriminate.
          -- cbn [snd].
             destruct (append_step dt a (set_inf a true) seen W Eu Sa (or_intror eq_refl) Hc) as [W' [Hc' [Eu' Hshape]]].
             eexists. split; [reflexivity|]. unfold CInv. cbn [fst snd]. split; [exact W' | split; [exact Hc' | right]]. cbn [fst snd].
             split; [exact Hn1 | split; [exact Hn2|]]. intros _. split; [exact Eu'|]. intros _ Hlen.
             destruct Hshape as [[Esame Hm]|Happ].
             ++ rewrite Esame. apply andb_false_iff in E6 as [E6|E6]; [exact E6|].
                rewrite (existsb_ext' _ (fun v => is_match_type v a) (t_vars dt) (fun v => is_match_set_inf_r v a true)) in E6. rewrite Hm in E6. discriminate.
             ++ rewrite Happ, app_length in Hlen. cbn [List.length] in Hlen. lia.
        * (* not a two-variant union of a user-defined method: appended *)
          cbn [andb snd].
          destruct (append_step dt a a seen W Eu Sa (or_introl eq_refl) Hc) as [W' [Hc' [Eu' Hshape]]].
          eexists. split; [reflexivity|]. unfold CInv. cbn [fst snd]. split; [exact W' | split; [exact Hc' | right]]. cbn [fst snd].
          split; [exact Hn1 | split; [exact Hn2|]]. intros _. split; [exact Eu'|]. intros Hbm Hlen.
          rewrite Hbm in E3. cbn [negb andb] in E3. apply Nat.eqb_neq in E3.
          destruct Hs as [Hs|[_ [Hl2 _]]]; [rewrite (scalar_not_union dt Hs) in Eu; discriminate|].
          destruct Hshape as [[Esame _]|Happ].
          -- rewrite Esame in Hlen. contradiction.
          -- rewrite Happ, app_length in Hlen. cbn [List.length] in Hlen. lia.
      + (* a single type from an earlier round: replaced by the first call site of this round *)
        cbn [andb snd].
        destruct seen as [|s0 seen']; [|destruct (Hcar ltac:(discriminate)) as [Hu2 _]; discriminate].
        cbn [app]. eexists. split; [reflexivity|]. unfold CInv. cbn [fst snd]. exact (fresh_entry a Sa Ua Ba Da).
  Qed.

  Lemma cover_run rest : forall seen e, CInv seen e -> Forall dom rest ->
    exists e', round_run V bm r (Some e) rest = Some e' /\ CInv (seen ++ rest) e'.
  Proof.
    induction rest as [|a rest IH]; intros seen e He Hr.
    - exists e. rewrite app_nil_r. split; [reflexivity | exact He].
    - inversion Hr as [|? ? Ha Hr']; subst.
      destruct (cover_step seen e a He Ha) as [e1 [E1 H1]].
      destruct (IH (seen ++ [a]) e1 H1 Hr') as [e' [E' H']].
      exists e'. split.
      + unfold round_run in *. cbn [fold_left]. rewrite E1. exact E'.
      + rewrite <- app_assoc in H'. exact H'.
  Qed.

  (* what earlier rounds may have left behind: nothing, or an inferred type *)
  Definition start_ok (e : option pentry) : Prop := match e with None => True | Some (dt, _) => wf_ty dt end.

  (* C15: after the call sites of a round — from any such state — the parameter admits the argument of every one of them *)
  Theorem round_covers e args a : start_ok e -> Forall dom args -> In a args -> covered (round_run V bm r e args) a.
  Proof.
    intros Hs Hd Hin.
    assert (G : forall seen e0, CInv seen e0 -> forall rest, Forall dom rest -> In a (seen ++ rest) -> covered (round_run V bm r (Some e0) rest) a).
    { intros seen e0 H0 rest Hr Hi. destruct (cover_run rest seen e0 H0 Hr) as [[dt' dr'] [E [_ [Hc _]]]].
      rewrite E. cbn [covered]. apply Hc. exact Hi. }
    destruct e as [[dt dr]|].
    - apply (G [] (dt, dr)); [|exact Hd | exact Hin].
      split; [exact Hs | split; [intros x []|]]. cbn [fst snd].
      destruct (String.eqb_spec dr r) as [->|N1]; [left; left; reflexivity|].
      destruct (String.eqb_spec dr "") as [->|N2]; [left; right; reflexivity|].
      right. split; [exact N1 | split; [exact N2|]]. intros H. exfalso. apply H. reflexivity.
    - destruct args as [|a0 rest]; [destruct Hin|]. inversion Hd as [|? ? Ha0 Hr]; subst.
      destruct (arg_ok_parts a0 (dom_ok a0 Ha0)) as [Sa [Ua [Ba Da]]].
      unfold round_run. cbn [fold_left propagate snd]. fold (round_run V bm r (Some (set_inf a0 true, r)) rest).
      apply (G [a0] (set_inf a0 true, r) (fresh_entry a0 Sa Ua Ba Da) rest Hr). exact Hin.
  Qed.
End Cover.
