(* A sort is canonical for a total antisymmetric order: any two permutations sort to the same list.
   Go's slices.SortFunc / sort.Slice / sort.Strings enter the models as this insertion sort; any
   function returning a sorted permutation computes the same list (Sorted + Permutation is unique). *)
From Coq Require Import List Bool Permutation.
Import ListNotations.

Record total_order {A : Type} (le : A -> A -> bool) : Prop := {
  to_total : forall a b, le a b = false -> le b a = true;
  to_trans : forall a b c, le a b = true -> le b c = true -> le a c = true;
  to_antisym : forall a b, le a b = true -> le b a = true -> a = b
}.

Section Sort.
  Context {A : Type} (le : A -> A -> bool) (Hle : total_order le).

  Fixpoint insert (x : A) (l : list A) : list A :=
    match l with
    | [] => [x]
    | y :: r => if le x y then x :: y :: r else y :: insert x r
    end.
  Definition sort (l : list A) : list A := fold_right insert [] l.

  Lemma insert_comm x y l : insert x (insert y l) = insert y (insert x l).
  Proof.
    destruct Hle as [Htot Htr Has].
    induction l as [|z r IH]; cbn [insert].
    - destruct (le x y) eqn:Exy; destruct (le y x) eqn:Eyx; cbn [insert]; rewrite ?Exy, ?Eyx; try reflexivity.
      + rewrite (Has x y Exy Eyx). reflexivity.
      + apply Htot in Exy. congruence.
    - destruct (le y z) eqn:Eyz; destruct (le x z) eqn:Exz; cbn [insert].
      + destruct (le x y) eqn:Exy; destruct (le y x) eqn:Eyx; cbn [insert]; rewrite ?Exy, ?Eyx, ?Exz, ?Eyz; try reflexivity.
        * rewrite (Has x y Exy Eyx). reflexivity.
        * apply Htot in Exy. congruence.
      + assert (Exy : le x y = false).
        { destruct (le x y) eqn:E; [|reflexivity]. rewrite (Htr _ _ _ E Eyz) in Exz. discriminate. }
        repeat (rewrite ?Exy, ?Exz, ?Eyz; cbn [insert]). reflexivity.
      + assert (Eyx : le y x = false).
        { destruct (le y x) eqn:E; [|reflexivity]. rewrite (Htr _ _ _ E Exz) in Eyz. discriminate. }
        repeat (rewrite ?Eyx, ?Exz, ?Eyz; cbn [insert]). reflexivity.
      + repeat (rewrite ?Exz, ?Eyz; cbn [insert]). f_equal. exact IH.
  Qed.

  Theorem sort_perm l l' : Permutation l l' -> sort l = sort l'.
  Proof.
    induction 1 as [|x l l' Hp IH|x y l|l l' l'' H1 IH1 H2 IH2]; cbn [sort fold_right].
    - reflexivity.
    - unfold sort in IH. rewrite IH. reflexivity.
    - apply insert_comm.
    - rewrite IH1. exact IH2.
  Qed.
End Sort.

(* lexicographic product of two total orders *)
Section Lex.
  Context {A B : Type} (leA : A -> A -> bool) (leB : B -> B -> bool).
  Hypothesis HA : total_order leA.
  Hypothesis HB : total_order leB.

  Definition lex_le (p q : A * B) : bool :=
    if leA (fst p) (fst q) then (if leA (fst q) (fst p) then leB (snd p) (snd q) else true) else false.

  Lemma lex_total_order : total_order lex_le.
  Proof.
    destruct HA as [At Atr Aas]. destruct HB as [Bt Btr Bas].
    split; unfold lex_le.
    - intros [a b] [a' b']; cbn [fst snd]. destruct (leA a a') eqn:E1; destruct (leA a' a) eqn:E2; intros H; try discriminate; try reflexivity.
      + apply Bt; exact H.
      + apply At in E1. congruence.
    - intros [a b] [a' b'] [a'' b'']; cbn [fst snd]. 
      destruct (leA a a') eqn:E1; [|discriminate]. destruct (leA a' a'') eqn:E2; [|intros _ H; destruct (leA a' a); discriminate].
      rewrite (Atr _ _ _ E1 E2).
      destruct (leA a'' a) eqn:E5; [|intros; reflexivity].
      rewrite (Atr _ _ _ E5 E1), (Atr _ _ _ E2 E5). intros H1 H2. eapply Btr; eassumption.
    - intros [a b] [a' b']; cbn [fst snd]. destruct (leA a a') eqn:E1; [|discriminate]. destruct (leA a' a) eqn:E2; [|discriminate].
      intros H1 H2. rewrite (Aas _ _ E1 E2), (Bas _ _ H1 H2). reflexivity.
  Qed.
End Lex.

(* an order transported along an injection *)
Section Inj.
  Context {A B : Type} (f : A -> B) (leB : B -> B -> bool).
  Hypothesis Hinj : forall a b, f a = f b -> a = b.
  Hypothesis HB : total_order leB.
  Lemma inj_total_order : total_order (fun a b => leB (f a) (f b)).
  Proof.
    destruct HB as [Bt Btr Bas]. split.
    - intros a b. apply Bt.
    - intros a b c. apply Btr.
    - intros a b H1 H2. apply Hinj. apply Bas; assumption.
  Qed.
End Inj.

Lemma bool_le_order : total_order (fun a b : bool => implb a b).
Proof. split; intros [] []; try intros []; cbn; try reflexivity; try discriminate; intros; reflexivity. Qed.
