(* Termination, progress and consumption of the lexer model (Model/Lexer.v), repaired variant. *)
From RT Require Import Model.Lexer.
Open Scope N_scope.

(* the potential: what is still to be delivered, weighted by where it sits *)
Definition w_cur (c : N) : nat := if c =? 0 then 1%nat else 2%nat.
Definition phi (r : reader) : nat :=
  (3 * length (rest r) + 2 * length (hist r) + (if ungot r then w_cur (cur r) else 0))%nat.

Lemma w_cur_bounds c : (1 <= w_cur c <= 2)%nat.
Proof. unfold w_cur; destruct (c =? 0); lia. Qed.

(* --- the reader --- *)
Lemma read_phi r : (phi (snd (rd_read r)) <= phi r)%nat.
Proof.
  unfold rd_read, phi. destruct r as [rs u c h]; cbn [rest ungot cur hist].
  destruct u; cbn [snd rest ungot cur hist]; [lia|].
  destruct h as [|x hs]; [destruct rs as [|y ys]|]; cbn [snd rest ungot cur hist length]; lia.
Qed.

Lemma read_phi_lt r : rd_eof r = false -> (phi (snd (rd_read r)) < phi r)%nat.
Proof.
  unfold rd_read, phi, rd_eof. destruct r as [rs u c h]; cbn [rest ungot cur hist].
  destruct u; cbn [snd rest ungot cur hist].
  - intros _. pose proof (w_cur_bounds c). lia.
  - destruct h as [|x hs]; [destruct rs as [|y ys]|]; cbn [snd rest ungot cur hist length negb];
      intros H; try discriminate; lia.
Qed.

Lemma read_eof r : rd_eof r = true -> rd_read r = (0, Rd [] false 0 []).
Proof.
  unfold rd_read, rd_eof. destruct r as [rs u c h]; cbn [rest ungot cur hist].
  destruct rs; [|discriminate]. destruct h; [|discriminate]. destruct u; [discriminate|reflexivity].
Qed.

Lemma eof_after_eof : rd_eof (Rd [] false 0 []) = true.
Proof. reflexivity. Qed.

Lemma read_cur r : cur (snd (rd_read r)) = fst (rd_read r) /\ ungot (snd (rd_read r)) = false.
Proof.
  unfold rd_read. destruct r as [rs u c h]; cbn [rest ungot cur hist].
  destruct u; [split; reflexivity|]. destruct h; [destruct rs|]; split; reflexivity.
Qed.

Lemma read_hist_nil r : hist r = [] -> hist (snd (rd_read r)) = [].
Proof.
  unfold rd_read. destruct r as [rs u c h]; cbn [rest ungot cur hist]. intros ->.
  destruct u; [reflexivity|]. destruct rs; reflexivity.
Qed.

Lemma unread_hist r : hist (rd_unread r) = hist r.
Proof. reflexivity. Qed.

(* reading a rune and pushing it back costs nothing, except one unit at end of input *)
Lemma read_unread_phi r : (phi (rd_unread (snd (rd_read r))) <= phi r + 1)%nat.
Proof.
  unfold rd_read, rd_unread, phi. destruct r as [rs u c h]; cbn [rest ungot cur hist].
  destruct u; cbn [snd rest ungot cur hist]; [lia|].
  destruct h as [|x hs]; [destruct rs as [|y ys]|]; cbn [snd rest ungot cur hist length].
  - cbn. lia.
  - pose proof (w_cur_bounds y). lia.
  - pose proof (w_cur_bounds x). lia.
Qed.

Lemma unread_phi_after_read r :
  (phi (rd_unread (snd (rd_read r))) <= phi (snd (rd_read r)) + 2)%nat.
Proof.
  destruct (read_cur r) as [_ Hu]. unfold rd_unread, phi. cbn [rest ungot cur hist].
  rewrite Hu. pose proof (w_cur_bounds (cur (snd (rd_read r)))). lia.
Qed.

Lemma read_unread_ungot r : ungot r = true -> rd_unread (snd (rd_read r)) = r.
Proof. destruct r as [rs u c h]; cbn. intros ->. reflexivity. Qed.

Lemma read_unread_ungot_phi r : ungot r = true -> (phi (rd_unread (snd (rd_read r))) <= phi r)%nat.
Proof. intros H. rewrite (read_unread_ungot r H). lia. Qed.

Lemma unread_idem r : rd_unread (rd_unread r) = rd_unread r.
Proof. reflexivity. Qed.

(* a non-zero rune read from a clean reader costs at least 2 *)
Lemma read_nonzero_phi r :
  fst (rd_read r) <> 0 -> (phi (snd (rd_read r)) + 2 <= phi r)%nat.
Proof.
  unfold rd_read, phi. destruct r as [rs u c h]; cbn [rest ungot cur hist].
  destruct u; cbn [fst snd rest ungot cur hist].
  - intros Hc. unfold w_cur. destruct (c =? 0) eqn:E; [apply N.eqb_eq in E; congruence|lia].
  - destruct h as [|x hs]; [destruct rs as [|y ys]|]; cbn [fst snd rest ungot cur hist length]; intros; try congruence; lia.
Qed.

Section Loops.
  Variable is_uspace is_udigit : N -> bool.
  Variable V : lex_variant.
  Hypothesis Hfix_eof : fix_eof V = true.
  Hypothesis Hfix_nul : fix_nul V = true.
  Hypothesis Hsp0 : is_uspace 0 = false.
  Hypothesis Hdg0 : is_udigit 0 = false.

  (* destructure one Read and bring the reader facts into the context *)
  Ltac do_read r c r1 :=
    let Er := fresh "Er" in
    pose proof (read_phi r) as ?Hle; pose proof (read_unread_phi r) as ?Hru;
    pose proof (read_hist_nil r) as ?Hh; pose proof (read_phi_lt r) as ?Hlt;
    pose proof (read_eof r) as ?Heof; pose proof (read_unread_ungot_phi r) as ?Hrug;
    destruct (rd_read r) as [c r1] eqn:Er; cbn [fst snd] in *.

  Lemma hit_eof_at_eof r : rd_eof r = true -> hit_eof V 0 (Rd [] false 0 []) = true.
  Proof. intros _. unfold hit_eof. rewrite Hfix_eof. reflexivity. Qed.

  Lemma is_ident_char_0 : is_ident_char is_uspace 0 = false.
  Proof. unfold is_ident_char. rewrite Hsp0. reflexivity. Qed.

  Definition loop_post (r r' : reader) : Prop :=
    (phi r' <= phi r + 1)%nat /\ (ungot r = true -> phi r' <= phi r)%nat /\ (hist r = [] -> hist r' = []).

  Lemma to_space_eat_ok fuel : forall acc sp r, (phi r < fuel)%nat ->
    exists s sp' r', to_space_eat is_uspace V fuel acc sp r = Some (s, sp', r') /\ loop_post r r'.
  Proof.
    induction fuel as [|f IH]; intros acc sp r Hf; [lia|]. cbn [to_space_eat].
    do_read r c r1.
    destruct (is_uspace c).
    { do 3 eexists; split; [reflexivity|]. split; [assumption|]. split; [assumption|]. intros Hn; rewrite unread_hist; auto. }
    destruct (hit_eof V c r1) eqn:Eh.
    { do 3 eexists; split; [reflexivity|]. split; [assumption|]. split; [assumption|]. intros Hn; rewrite unread_hist; auto. }
    destruct (rd_eof r) eqn:Ee.
    { specialize (Heof eq_refl). inversion Heof; subst. rewrite (hit_eof_at_eof r Ee) in Eh. discriminate. }
    specialize (Hlt eq_refl).
    destruct (IH (c :: acc) sp r1) as (s & sp' & r' & Hs & Hp1 & _ & Hp2); [lia|].
    exists s, sp', r'. split; [exact Hs|]. split; [lia|]. split; [intros; lia|auto].
  Qed.

  Lemma to_nonident_eat_ok fuel : forall acc sp r, (phi r < fuel)%nat ->
    exists s sp' r', to_nonident_eat is_uspace fuel acc sp r = Some (s, sp', r') /\ loop_post r r'.
  Proof.
    induction fuel as [|f IH]; intros acc sp r Hf; [lia|]. cbn [to_nonident_eat].
    do_read r c r1.
    destruct (negb (is_ident_char is_uspace c)) eqn:Ei.
    { do 3 eexists; split; [reflexivity|]. split; [assumption|]. split; [assumption|]. intros Hn; rewrite unread_hist; auto. }
    destruct (rd_eof r) eqn:Ee.
    { specialize (Heof eq_refl). inversion Heof; subst. rewrite is_ident_char_0 in Ei. discriminate. }
    specialize (Hlt eq_refl).
    destruct (IH (c :: acc) sp r1) as (s & sp' & r' & Hs & Hp1 & _ & Hp2); [lia|].
    exists s, sp', r'. split; [exact Hs|]. split; [lia|]. split; [intros; lia|auto].
  Qed.

  Lemma hex_digits_ok fuel : forall r, (phi r < fuel)%nat ->
    exists r', hex_digits fuel r = Some r' /\ loop_post r r'.
  Proof.
    induction fuel as [|f IH]; intros r Hf; [lia|]. cbn [hex_digits].
    do_read r c r1.
    destruct (rd_eof r) eqn:Ee.
    { specialize (Heof eq_refl). inversion Heof; subst. cbn.
      eexists; split; [reflexivity|]. split; [assumption|]. split; [assumption|]. intros Hn; reflexivity. }
    specialize (Hlt eq_refl).
    destruct ((c =? 120) || (c =? 111) || (c =? 98)).
    { destruct (IH r1) as (r' & Hs & Hp1 & _ & Hp2); [lia|]. exists r'. split; [exact Hs|]. split; [lia|]. split; [intros; lia|auto]. }
    destruct (negb (is_hex c)).
    { eexists; split; [reflexivity|]. split; [assumption|]. split; [assumption|]. intros Hn; rewrite unread_hist; auto. }
    destruct (IH r1) as (r' & Hs & Hp1 & _ & Hp2); [lia|]. exists r'. split; [exact Hs|]. split; [lia|]. split; [intros; lia|auto].
  Qed.

  Lemma lex_ident_ok fuel : forall first acc r, (phi r < fuel)%nat ->
    exists s r', lex_ident is_uspace V fuel first acc r = Some (s, r') /\ loop_post r r'.
  Proof.
    induction fuel as [|f IH]; intros first acc r Hf; [lia|]. cbn [lex_ident].
    do_read r c r1.
    destruct ((first =? ch_star) && (c =? ch_eq)).
    { do 2 eexists; split; [reflexivity|]. split; [lia|]. split; [intros; lia|auto]. }
    destruct (negb (is_ident_char is_uspace c)) eqn:Ei.
    - destruct (has_colon_quote acc && negb (c =? ch_nl) && negb (c =? ch_dq) && negb (hit_eof V c r1)) eqn:Ec.
      + destruct (rd_eof r) eqn:Ee.
        { specialize (Heof eq_refl). inversion Heof; subst. rewrite (hit_eof_at_eof r Ee) in Ec.
          rewrite andb_false_r in Ec. discriminate. }
        specialize (Hlt eq_refl).
        destruct (IH first (c :: acc) r1) as (s & r' & Hs & Hp1 & _ & Hp2); [lia|].
        exists s, r'. split; [exact Hs|]. split; [lia|]. split; [intros; lia|auto].
      + do 2 eexists; split; [reflexivity|]. split; [assumption|]. split; [assumption|]. intros Hn; rewrite unread_hist; auto.
    - destruct (rd_eof r) eqn:Ee.
      { specialize (Heof eq_refl). inversion Heof; subst. rewrite is_ident_char_0 in Ei. discriminate. }
      specialize (Hlt eq_refl).
      destruct (IH first (c :: acc) r1) as (s & r' & Hs & Hp1 & _ & Hp2); [lia|].
      exists s, r'. split; [exact Hs|]. split; [lia|]. split; [intros; lia|auto].
  Qed.

  Lemma lex_string_ok fuel : forall start acc r, (phi r < fuel)%nat ->
    exists s r', lex_string V fuel start acc r = Some (s, r') /\ (phi r' <= phi r)%nat /\ (hist r = [] -> hist r' = []).
  Proof.
    induction fuel as [|f IH]; intros start acc r Hf; [lia|]. cbn [lex_string].
    do_read r c r1.
    destruct (c =? start).
    { do 2 eexists; split; [reflexivity|]. split; [lia|auto]. }
    destruct (hit_eof V c r1) eqn:Eh.
    { do 2 eexists; split; [reflexivity|]. split; [lia|auto]. }
    destruct (rd_eof r) eqn:Ee.
    { specialize (Heof eq_refl). inversion Heof; subst. rewrite (hit_eof_at_eof r Ee) in Eh. discriminate. }
    specialize (Hlt eq_refl).
    destruct (c =? ch_bslash).
    - pose proof (read_phi r1) as Hle2. pose proof (read_hist_nil r1) as Hh2.
      destruct (rd_read r1) as [c2 r2] eqn:Er2; cbn [fst snd] in *.
      destruct (IH start (c2 :: acc) r2) as (s & r' & Hs & Hp1 & Hp2); [lia|].
      exists s, r'. split; [exact Hs|]. split; [lia|auto].
    - destruct (IH start (c :: acc) r1) as (s & r' & Hs & Hp1 & Hp2); [lia|].
      exists s, r'. split; [exact Hs|]. split; [lia|auto].
  Qed.

  Lemma skip_comment_loop_ok fuel : forall acc r, (phi r < fuel)%nat ->
    exists s r', skip_comment_loop V fuel acc r = Some (s, r') /\ loop_post r r'.
  Proof.
    induction fuel as [|f IH]; intros acc r Hf; [lia|]. cbn [skip_comment_loop].
    do_read r c r1.
    destruct (c =? ch_nl).
    { do 2 eexists; split; [reflexivity|]. split; [assumption|]. split; [assumption|]. intros Hn; rewrite unread_hist; auto. }
    destruct (hit_eof V c r1) eqn:Eh.
    { do 2 eexists; split; [reflexivity|]. split; [assumption|]. split; [assumption|]. intros Hn; rewrite unread_hist; auto. }
    destruct (rd_eof r) eqn:Ee.
    { specialize (Heof eq_refl). inversion Heof; subst. rewrite (hit_eof_at_eof r Ee) in Eh. discriminate. }
    specialize (Hlt eq_refl).
    destruct (IH (c :: acc) r1) as (s & r' & Hs & Hp1 & _ & Hp2); [lia|].
    exists s, r'. split; [exact Hs|]. split; [lia|]. split; [intros; lia|auto].
  Qed.


  Lemma read_w r : rd_eof r = false ->
    (phi (snd (rd_read r)) + w_cur (fst (rd_read r)) <= phi r)%nat.
  Proof.
    unfold rd_read, phi, rd_eof. destruct r as [rs u c h]; cbn [rest ungot cur hist].
    destruct u; cbn [fst snd rest ungot cur hist]; [lia|].
    destruct h as [|x hs]; [destruct rs as [|y ys]|]; cbn [fst snd rest ungot cur hist length negb];
      intros H; try discriminate.
    - pose proof (w_cur_bounds y). lia.
    - pose proof (w_cur_bounds x). lia.
  Qed.

  Lemma read_after_unread r : ungot r = false -> rd_read (rd_unread r) = (cur r, r).
  Proof. destruct r as [rs u c h]; cbn. intros ->. reflexivity. Qed.

  Definition stop_space (c : N) : bool := negb (is_uspace c) || (c =? ch_nl).

  (* after skipSpace the next Read delivers a rune that is not skippable white space; B is the
     potential at the start of Advance *)
  Definition skipped (B : nat) (h0 : list N) (l l' : lexer) : Prop :=
    exists (c : N) (r : reader),
      (rd l' = rd_unread r) /\ (ungot r = false) /\ (cur r = c) /\ (stop_space c = true) /\
      (phi r + w_cur c <= B)%nat /\ (h0 = [] -> hist r = []) /\
      (tok l' = tok l) /\ (val l' = val l) /\ (doc_comment l' = doc_comment l) /\ (llm_comment l' = llm_comment l).

  Lemma skip_space_loop_ok fuel : forall c l r B h0,
    (phi r + 1 < fuel)%nat -> cur r = c -> ungot r = false -> (phi r + w_cur c <= B)%nat ->
    (h0 = [] -> hist r = []) ->
    exists l', skip_space_loop is_uspace fuel c l r = Some l' /\ skipped B h0 l l'.
  Proof.
    induction fuel as [|f IH]; intros c l r B h0 Hf Hc Hu HB Hh; [lia|]. cbn [skip_space_loop].
    fold (stop_space c). destruct (stop_space c) eqn:Es.
    { eexists; split; [reflexivity|]. exists c, r. repeat split; auto. }
    do_read r c' r1.
    destruct (read_cur r) as [Hc1 Hu1]. rewrite Er in Hc1, Hu1; cbn [fst snd] in Hc1, Hu1.
    destruct (rd_eof r) eqn:Ee.
    - specialize (Heof eq_refl). inversion Heof; subst c' r1.
      destruct f as [|f']; [lia|]. cbn [skip_space_loop]. rewrite Hsp0. cbn [negb orb].
      eexists; split; [reflexivity|]. exists 0, (Rd [] false 0 []).
      pose proof (w_cur_bounds c). cbn. repeat split; auto; try lia.
      unfold stop_space. rewrite Hsp0. reflexivity.
    - specialize (Hlt eq_refl). pose proof (read_w r Ee) as Hw. rewrite Er in Hw; cbn [fst snd] in Hw.
      destruct (IH c' (set_space l true) r1 B h0) as (l' & Hs & c2 & r2 & H1 & H2 & H3 & H4 & H5 & H6 & H7);
        [lia|auto|auto|lia|auto|].
      exists l'. split; [exact Hs|]. exists c2, r2. repeat split; auto; apply H7.
  Qed.

  Lemma skip_space_ok fuel l :
    (phi (rd l) + 1 < fuel)%nat ->
    exists l', skip_space is_uspace fuel l = Some l' /\
      (rd_eof (rd l) = false -> skipped (phi (rd l)) (hist (rd l)) l l') /\
      (rd_eof (rd l) = true -> rd l' = Rd [] true 0 [] /\ tok l' = tok l /\ val l' = val l).
  Proof.
    intros Hf. unfold skip_space.
    pose proof (read_phi (rd l)) as Hle. pose proof (read_hist_nil (rd l)) as Hh.
    pose proof (read_eof (rd l)) as Heof. destruct (read_cur (rd l)) as [Hc1 Hu1].
    destruct (rd_read (rd l)) as [c r1] eqn:Er; cbn [fst snd] in *.
    destruct (rd_eof (rd l)) eqn:Ee.
    - specialize (Heof eq_refl). inversion Heof; subst c r1. rewrite Hsp0.
      destruct fuel as [|f]; [lia|]. cbn [skip_space_loop]. rewrite Hsp0. cbn [negb orb].
      eexists; split; [reflexivity|]. split; [discriminate|]. intros _. repeat split.
    - pose proof (read_w (rd l) Ee) as Hw. rewrite Er in Hw; cbn [fst snd] in Hw.
      destruct (skip_space_loop_ok fuel c (if is_uspace c then set_space l true else l) r1 (phi (rd l)) (hist (rd l)))
        as (l' & Hs & Hsk); [lia|auto|auto|lia|auto|].
      exists l'. split; [exact Hs|]. split; [|discriminate]. intros _.
      destruct Hsk as (c2 & r2 & H1 & H2 & H3 & H4 & H5 & H6 & H7 & H8 & H9 & H10).
      exists c2, r2. destruct (is_uspace c); repeat split; auto.
  Qed.

  Lemma skip_line_comment_ok fuel l : (phi (rd l) < fuel)%nat ->
    exists l', skip_line_comment V fuel l = Some l' /\ loop_post (rd l) (rd l') /\ tok l' = tok l /\ val l' = val l.
  Proof.
    intros Hf. unfold skip_line_comment.
    destruct (skip_comment_loop_ok fuel [] (rd l) Hf) as (s & r' & Hs & Hp). rewrite Hs.
    eexists; split; [reflexivity|]. cbn [rd tok val]. auto.
  Qed.

End Loops.

Section Advance.
  Variable is_uspace is_udigit : N -> bool.
  Variable V : lex_variant.
  Hypothesis Hfix_eof : fix_eof V = true.
  Hypothesis Hfix_nul : fix_nul V = true.
  Hypothesis Hsp0 : is_uspace 0 = false.
  Hypothesis Hdg0 : is_udigit 0 = false.
  Hypothesis Hsp_dot : is_uspace ch_dot = false.
  Hypothesis Hdg_plain : forall c, is_udigit c = true ->
    ((c =? 120) || (c =? 111) || (c =? 98)) = false /\ (c =? ch_under) = false /\ (c =? ch_dot) = false.

  Ltac do_read r c r1 :=
    let Er := fresh "Er" in
    pose proof (read_phi r) as ?Hle; pose proof (read_unread_phi r) as ?Hru;
    pose proof (read_hist_nil r) as ?Hh; pose proof (read_phi_lt r) as ?Hlt;
    pose proof (read_eof r) as ?Heof; pose proof (read_unread_ungot_phi r) as ?Hrug;
    destruct (read_cur r) as [?Hcur ?Hung];
    destruct (rd_read r) as [c r1] eqn:Er; cbn [fst snd] in *.

  (* between two Advance calls the history is empty, or holds the two runes lexDigit pushed back *)
  Definition inv (r : reader) : Prop :=
    hist r = [] \/ exists n, hist r = [ch_dot; n] /\ ungot r = false /\ is_udigit n = false.

  Definition digit_tv (l : lexer) : Prop :=
    (tok l = T_INT /\ exists z, val l = VIntLit z) \/ (tok l = T_FLOAT /\ val l = VFloatLit).

  Lemma digit_token_tv buf :
    (fst (digit_token buf) = T_INT /\ exists z, snd (digit_token buf) = VIntLit z) \/
    (fst (digit_token buf) = T_FLOAT /\ snd (digit_token buf) = VFloatLit).
  Proof.
    unfold digit_token. destruct buf; [right; split; reflexivity|].
    destruct (dec_value 0%Z (n :: buf)); [|right; split; reflexivity].
    destruct (z <? 9223372036854775808)%Z; [left; split; [reflexivity|eexists; reflexivity]|right; split; reflexivity].
  Qed.

  Lemma read_clean_cost r : hist r = [] -> ungot r = false -> rd_eof r = false ->
    (phi (snd (rd_read r)) + 3 = phi r)%nat.
  Proof.
    unfold rd_read, phi, rd_eof. destruct r as [rs u c h]; cbn [rest ungot cur hist].
    intros -> ->. destruct rs; cbn [fst snd rest ungot cur hist length negb]; [discriminate|intros _; lia].
  Qed.

  Lemma lex_digit_clean fuel : forall acc l r, hist r = [] -> ungot r = false -> (phi r + 2 < fuel)%nat ->
    exists l', lex_digit is_udigit fuel acc l r = Some l' /\ inv (rd l') /\
               (phi (rd l') <= phi r + 1)%nat /\ digit_tv l'.
  Proof.
    induction fuel as [|f IH]; intros acc l r Hh0 Hu0 Hf; [lia|]. cbn [lex_digit].
    pose proof (read_clean_cost r Hh0 Hu0) as Hcost.
    do_read r c r1. specialize (Hh Hh0).
    destruct (rd_eof r) eqn:Ee.
    { specialize (Heof eq_refl). inversion Heof; subst c r1. cbn. rewrite Hdg0. cbn [negb].
      destruct (digit_token_tv (rev acc)) as [Ht|Ht]; destruct (digit_token (rev acc)) as [t v]; cbn [fst snd] in Ht;
        (eexists; split; [reflexivity|]; split; [left; reflexivity|]; split; [cbn; lia|]);
        [left|right]; exact Ht. }
    specialize (Hlt eq_refl). specialize (Hcost eq_refl).
    destruct ((c =? 120) || (c =? 111) || (c =? 98)).
    { destruct (hex_digits_ok f (rd_unread r1)) as (r2 & Hs & Hp1 & Hp2 & Hp3); [lia|].
      rewrite Hs. eexists; split; [reflexivity|]. cbn [rd set_rd set_tok tok val].
      split; [left; apply Hp3; rewrite unread_hist; exact Hh|].
      split; [specialize (Hp2 eq_refl); lia|]. left. split; [reflexivity|eexists; reflexivity]. }
    destruct (c =? ch_under).
    { destruct (IH acc l r1 Hh Hung) as (l' & Hs & Hi & Hp & Ht); [lia|].
      exists l'. split; [exact Hs|]. split; [exact Hi|]. split; [lia|exact Ht]. }
    destruct (c =? ch_dot) eqn:Edot.
    { apply N.eqb_eq in Edot. subst c.
      pose proof (read_phi r1) as Hle2. pose proof (read_hist_nil r1 Hh) as Hh2.
      destruct (read_cur r1) as [_ Hung2].
      destruct (rd_read r1) as [n r2] eqn:Er2; cbn [fst snd] in *.
      destruct (negb (is_udigit n)) eqn:En.
      - destruct (digit_token_tv (rev acc)) as [Ht|Ht]; destruct (digit_token (rev acc)) as [t v]; cbn [fst snd] in Ht;
          (eexists; split; [reflexivity|]; cbn [rd set_rd set_tok tok val];
           split; [right; exists n; unfold rd_push_hist; cbn [hist ungot]; rewrite Hh2; cbn [app];
                   split; [rewrite Edot; reflexivity|]; split; [exact Hung2|]; apply negb_true_iff in En; exact En|];
           split; [unfold phi, rd_push_hist in *; cbn [rest hist ungot cur] in *; rewrite Hh2 in *; rewrite Hung2 in *;
                   cbn [app length] in *; lia|]);
          [left|right]; exact Ht.
      - destruct (IH (cur r1 :: acc) l r2 Hh2 Hung2) as (l' & Hs & Hi & Hp & Ht); [lia|].
        exists l'. split; [exact Hs|]. split; [exact Hi|]. split; [lia|exact Ht]. }
    destruct (negb (is_udigit c)).
    { destruct (digit_token_tv (rev acc)) as [Ht|Ht]; destruct (digit_token (rev acc)) as [t v]; cbn [fst snd] in Ht;
        (eexists; split; [reflexivity|]; cbn [rd set_rd set_tok tok val];
         split; [left; rewrite unread_hist; exact Hh|]; split; [lia|]);
        [left|right]; exact Ht. }
    destruct (IH (c :: acc) l r1 Hh Hung) as (l' & Hs & Hi & Hp & Ht); [lia|].
    exists l'. split; [exact Hs|]. split; [exact Hi|]. split; [lia|exact Ht].
  Qed.

  Lemma read_after_unread' r : ungot r = false -> rd_read (rd_unread r) = (cur r, r).
  Proof. destruct r as [rs u c h]; cbn. intros ->. reflexivity. Qed.

  (* lexDigit entered on a digit that was pushed back: the digit itself is consumed *)
  Lemma lex_digit_entry fuel l r :
    hist r = [] -> ungot r = false -> is_udigit (cur r) = true -> (phi r + 3 < fuel)%nat ->
    exists l', lex_digit is_udigit fuel [] l (rd_unread r) = Some l' /\ inv (rd l') /\
               (phi (rd l') <= phi r + 1)%nat /\ digit_tv l'.
  Proof.
    intros Hh Hu Hd Hf. destruct fuel as [|f]; [lia|]. cbn [lex_digit].
    rewrite (read_after_unread' r Hu). destruct (Hdg_plain _ Hd) as (H1 & H2 & H3).
    rewrite H1, H2, H3, Hd. cbn [negb].
    apply lex_digit_clean; auto. lia.
  Qed.

  Definition tok_wf (l : lexer) : Prop :=
    (tok l = T_INT /\ exists z, val l = VIntLit z) \/ (tok l = T_FLOAT /\ val l = VFloatLit) \/
    (tok l = T_STRING /\ exists s, val l = VStrLit s) \/
    ((tok l = T_UNKNOWN \/ tok l = T_NIL) /\ exists s, val l = VId s) \/
    (exists c, tok l = Z.of_N c /\ (existsb (N.eqb c) single_tokens = true \/ c = ch_dot)).

  Definition step_post (B : nat) (o : outcome) : Prop :=
    match o with
    | Tok l' => inv (rd l') /\ (phi (rd l') < B)%nat /\ tok_wf l'
    | Again l' => hist (rd l') = [] /\ (phi (rd l') < B)%nat
    | Eos l' => rd_eof (rd l') = true
    | OutOfFuel => False
    end.

  Lemma w_cur_nz c : c <> 0 -> w_cur c = 2%nat.
  Proof. unfold w_cur. destruct (c =? 0) eqn:E; [apply N.eqb_eq in E; congruence|reflexivity]. Qed.

  Lemma id_tok_wf l s r : tok_wf (id_tok l s r).
  Proof. right; right; right; left. split; [left; reflexivity|eexists; reflexivity]. Qed.

  Lemma digit_tv_wf l : digit_tv l -> tok_wf l.
  Proof. intros [H|H]; [left|right; left]; exact H. Qed.

  (* c is known to differ from 0 because a test against non-zero constants succeeded *)
  Ltac nonzero c E :=
    let Hz := fresh "Hz" in
    assert (c <> 0) as Hz by (intro Hz; rewrite Hz in E; cbn in E; discriminate);
    pose proof (w_cur_nz c Hz).

  Lemma is_ident_char_false_cases c :
    is_ident_char is_uspace c = false -> negb (is_uspace c) || (c =? ch_nl) = true ->
    (c =? ch_eq) = false -> (c =? ch_dot) = false -> (c =? ch_amp) = false -> (c =? ch_bar) = false ->
    existsb (N.eqb c) single_tokens = false -> c = 0.
  Proof.
    unfold is_ident_char. intros H Hs E1 E2 E3 E4 E5.
    apply negb_false_iff in H.
    repeat (apply orb_true_iff in H; destruct H as [H|H]);
      try (apply N.eqb_eq in H; subst c; cbn in *; discriminate).
    - rewrite H in Hs. cbn [negb orb] in Hs. apply N.eqb_eq in Hs. subst c. cbn in E5. discriminate.
    - apply N.eqb_eq in H. exact H.
  Qed.

  Lemma advance_step_clean fuel l :
    hist (rd l) = [] -> (phi (rd l) + 3 < fuel)%nat -> step_post (phi (rd l)) (advance_step is_uspace is_udigit V fuel l).
  Proof.
    intros Hh0 Hf. unfold advance_step.
    destruct (skip_space_ok is_uspace Hsp0 fuel l) as (l1 & Hs & Hne & He); [lia|]. rewrite Hs.
    destruct (rd_eof (rd l)) eqn:Ee.
    { (* already at end of input *)
      destruct (He eq_refl) as (Hr & _). rewrite Hr.
      change (rd_read (Rd [] true 0 [])) with (0, Rd [] false 0 []). cbn.
      rewrite Hdg0, (is_ident_char_0 is_uspace Hsp0), Hfix_nul. reflexivity. }
    destruct (Hne eq_refl) as (c & r & Hrd & Hu & Hc & Hstop & HB & Hhist & Htok & Hval & _).
    specialize (Hhist Hh0). rewrite Hrd, (read_after_unread' r Hu), Hc.
    set (B := phi (rd l)) in *. clearbody B. clear Hs Hne He Hrd Htok Hval Ee.
    (* '<' '>' *)
    destruct ((c =? ch_lt) || (c =? ch_gt)) eqn:E1.
    { nonzero c E1.
      destruct (to_space_eat_ok is_uspace V Hfix_eof fuel [c] (is_space l1) r) as (s & sp & r' & Hs & Hp1 & _ & Hp3); [lia|].
      rewrite Hs. cbn [step_post id_tok rd set_rd]. split; [left; auto|]. split; [lia|apply id_tok_wf]. }
    (* '=' *)
    destruct (c =? ch_eq) eqn:E2.
    { nonzero c E2. do_read r n r1. specialize (Hh Hhist).
      destruct (n =? ch_gt); [cbn [step_post id_tok rd set_rd]; split; [left; auto|]; split; [lia|apply id_tok_wf]|].
      destruct (negb (n =? ch_eq)); [cbn [step_post id_tok rd set_rd]; split; [left; auto|]; split; [lia|apply id_tok_wf]|].
      pose proof (read_phi r1) as Hle2. pose proof (read_unread_phi r1) as Hru2. pose proof (read_hist_nil r1 Hh) as Hh2.
      destruct (rd_read r1) as [n2 r2]; cbn [fst snd] in *.
      destruct (negb (n2 =? ch_eq)); cbn [step_post id_tok rd set_rd]; (split; [left; auto|]; split; [lia|apply id_tok_wf]). }
    (* '.' *)
    destruct (c =? ch_dot) eqn:E3.
    { nonzero c E3. do_read r n r1. specialize (Hh Hhist).
      destruct (n =? ch_dot).
      - pose proof (read_phi r1) as Hle2. pose proof (read_unread_phi r1) as Hru2. pose proof (read_hist_nil r1 Hh) as Hh2.
        destruct (rd_read r1) as [n2 r2]; cbn [fst snd] in *.
        destruct (n2 =? ch_dot); cbn [step_post id_tok rd set_rd]; (split; [left; auto|]; split; [lia|apply id_tok_wf]).
      - cbn [step_post rd set_rd]. split; [left; auto|]. split; [lia|].
        right; right; right; right. exists c. split; [reflexivity|]. right. apply N.eqb_eq; exact E3. }
    (* '%' *)
    destruct (c =? ch_pct) eqn:E4.
    { nonzero c E4. do_read r n r1. specialize (Hh Hhist).
      match goal with |- context [if ?b then _ else _] => destruct b end.
      - cbn [step_post id_tok rd set_rd]. split; [left; auto|]. split; [lia|apply id_tok_wf].
      - destruct (to_space_eat_ok is_uspace V Hfix_eof fuel [c] (is_space l1) (rd_unread r1)) as (s & sp & r' & Hs & Hp1 & Hp2 & Hp3); [lia|].
        rewrite Hs. cbn [step_post id_tok rd set_rd]. specialize (Hp2 eq_refl).
        split; [left; apply Hp3; rewrite unread_hist; auto|]. split; [lia|apply id_tok_wf]. }
    (* '!' '+' '-' '/' *)
    destruct ((c =? ch_bang) || (c =? ch_plus) || (c =? ch_minus) || (c =? ch_slash)) eqn:E5.
    { nonzero c E5. do_read r n r1. specialize (Hh Hhist).
      assert (Hr2 : forall buf r2,
                 (if n =? ch_eq then ([c; n], r1)
                  else if (c =? ch_minus) && (n =? ch_gt) then ([c; n], r1) else ([c], rd_unread r1)) = (buf, r2) ->
                 r2 = r1 \/ r2 = rd_unread r1).
      { intros buf r2 H'. destruct (n =? ch_eq); [inversion H'; auto|].
        destruct ((c =? ch_minus) && (n =? ch_gt)); inversion H'; auto. }
      destruct (if n =? ch_eq then ([c; n], r1)
                else if (c =? ch_minus) && (n =? ch_gt) then ([c; n], r1) else ([c], rd_unread r1)) as [buf r2] eqn:Eb.
      specialize (Hr2 buf r2 eq_refl).
      destruct (((c =? ch_plus) || (c =? ch_minus)) && is_udigit n) eqn:Ed.
      - apply andb_true_iff in Ed as [_ Ed].
        destruct Hr2 as [-> | ->].
        + destruct (lex_digit_clean fuel [] l1 r1 Hh Hung) as (l' & Hs' & Hi & Hp & Ht); [lia|].
          rewrite Hs'. cbn [step_post]. split; [exact Hi|]. split; [lia|apply digit_tv_wf; exact Ht].
        + destruct (lex_digit_entry fuel l1 r1 Hh Hung) as (l' & Hs' & Hi & Hp & Ht); [rewrite Hcur; exact Ed|lia|].
          rewrite Hs'. cbn [step_post]. split; [exact Hi|]. split; [lia|apply digit_tv_wf; exact Ht].
      - match goal with |- context [if ?b then _ else _] => destruct b end.
        + cbn [step_post rd set_rd]. destruct Hr2 as [-> | ->]; rewrite ?unread_idem, ?unread_hist; split; auto; lia.
        + cbn [step_post id_tok rd set_rd]. destruct Hr2 as [-> | ->]; rewrite ?unread_hist;
            (split; [left; auto|]; split; [lia|apply id_tok_wf]). }
    (* '&' *)
    destruct (c =? ch_amp) eqn:E6.
    { nonzero c E6. do_read r n r1. specialize (Hh Hhist).
      destruct ((n =? ch_dot) || (n =? ch_amp)).
      - cbn [step_post id_tok rd set_rd]. split; [left; auto|]. split; [lia|apply id_tok_wf].
      - destruct (to_nonident_eat_ok is_uspace Hsp0 fuel [c] (is_space l1) (rd_unread r1)) as (s & sp & r' & Hs & Hp1 & Hp2 & Hp3); [lia|].
        rewrite Hs. cbn [step_post id_tok rd set_rd]. specialize (Hp2 eq_refl).
        split; [left; apply Hp3; rewrite unread_hist; auto|]. split; [lia|apply id_tok_wf]. }
    (* '|' *)
    destruct (c =? ch_bar) eqn:E7.
    { nonzero c E7. do_read r n r1. specialize (Hh Hhist).
      assert (Hr2 : forall buf r2, (if n =? ch_bar then ([c; n], r1) else ([c], rd_unread r1)) = (buf, r2) ->
                                   r2 = r1 \/ r2 = rd_unread r1).
      { intros buf r2 H'. destruct (n =? ch_bar); inversion H'; auto. }
      destruct (if n =? ch_bar then ([c; n], r1) else ([c], rd_unread r1)) as [buf r2] eqn:Eb.
      specialize (Hr2 buf r2 eq_refl).
      pose proof (read_phi r2) as Hle2. pose proof (read_unread_phi r2) as Hru2.
      pose proof (read_hist_nil r2) as Hh2. pose proof (read_unread_ungot_phi r2) as Hrug2.
      destruct (rd_read r2) as [n2 r3]; cbn [fst snd] in *.
      assert (Hh2' : hist r3 = []) by (apply Hh2; destruct Hr2 as [-> | ->]; rewrite ?unread_hist; auto).
      assert (Hb3 : (phi r3 <= phi r + 1 /\ phi (rd_unread r3) <= phi r + 1)%nat).
      { destruct Hr2 as [-> | ->]; [lia|]. specialize (Hrug2 eq_refl). lia. }
      destruct (n2 =? ch_eq); cbn [step_post id_tok rd set_rd]; rewrite ?unread_hist;
        (split; [left; auto|]; split; [lia|apply id_tok_wf]). }
    (* single-rune tokens *)
    destruct (existsb (N.eqb c) single_tokens) eqn:E8.
    { nonzero c E8. cbn [step_post rd set_rd]. split; [left; auto|]. split; [lia|].
      right; right; right; right. exists c. split; [reflexivity|]. left. exact E8. }
    (* strings *)
    destruct ((c =? ch_dq) || (c =? ch_sq)) eqn:E9.
    { nonzero c E9.
      destruct (lex_string_ok V Hfix_eof fuel c [] r) as (s & r' & Hs & Hp1 & Hp2); [lia|].
      rewrite Hs. cbn [step_post rd set_rd]. split; [left; auto|]. split; [lia|].
      right; right; left. split; [reflexivity|eexists; reflexivity]. }
    (* '#' *)
    destruct (c =? ch_hash) eqn:E10.
    { nonzero c E10. do_read r n r1. specialize (Hh Hhist).
      destruct (n =? ch_lc).
      - cbn [step_post id_tok rd set_rd]. split; [left; auto|]. split; [lia|apply id_tok_wf].
      - destruct (skip_line_comment_ok V Hfix_eof fuel (set_rd l1 (rd_unread r1))) as (l' & Hs & (Hp1 & Hp2 & Hp3) & _);
          [cbn [rd set_rd]; lia|].
        rewrite Hs. cbn [step_post]. cbn [rd set_rd] in *. specialize (Hp2 eq_refl).
        split; [apply Hp3; rewrite unread_hist; auto|lia]. }
    (* digits *)
    destruct (is_udigit c) eqn:E11.
    { assert (Hz : c <> 0) by (intro Hz; rewrite Hz, Hdg0 in E11; discriminate). pose proof (w_cur_nz c Hz).
      destruct (lex_digit_entry fuel l1 r Hhist Hu) as (l' & Hs' & Hi & Hp & Ht); [rewrite Hc; exact E11|lia|].
      rewrite Hs'. cbn [step_post]. split; [exact Hi|]. split; [lia|apply digit_tv_wf; exact Ht]. }
    (* identifiers *)
    destruct (is_ident_char is_uspace c) eqn:E12.
    { assert (Hz : c <> 0) by (intro Hz; rewrite Hz, (is_ident_char_0 is_uspace Hsp0) in E12; discriminate).
      pose proof (w_cur_nz c Hz).
      destruct fuel as [|f]; [lia|]. cbn [lex_ident]. rewrite (read_after_unread' r Hu), Hc.
      rewrite E2, andb_false_r.
      rewrite E12. cbn [negb].
      destruct (lex_ident_ok is_uspace V Hfix_eof Hsp0 f c [c] r) as (s & r' & Hs & Hp1 & _ & Hp3); [lia|].
      rewrite Hs. cbn [step_post rd set_rd]. split; [left; auto|]. split; [lia|].
      right; right; right; left. cbn [tok val set_tok set_rd].
      split; [destruct (list_N_eqb s [110; 105; 108]); auto|eexists; reflexivity]. }
    (* what is left is rune 0 *)
    assert (Hc00 : c = 0).
    { apply is_ident_char_false_cases; auto. }
    subst c. rewrite Hc00 in *. rewrite Hfix_nul. change (0 =? 0) with true. cbn [andb].
    destruct (rd_eof r) eqn:Eeof; cbn [negb]; cbn [step_post rd set_rd].
    - exact Eeof.
    - split; [auto|]. change (w_cur 0) with 1%nat in HB. lia.
  Qed.

  (* the Advance that follows lexDigit's push-back delivers the '.' (or '..' / '...') token *)
  Lemma advance_step_pushed fuel l n :
    hist (rd l) = [ch_dot; n] -> ungot (rd l) = false -> is_udigit n = false ->
    (phi (rd l) + 3 < fuel)%nat -> step_post (phi (rd l)) (advance_step is_uspace is_udigit V fuel l).
  Proof.
    destruct l as [t v sp spp [rs u c h] dc lc]. cbn [rd hist ungot]. intros -> -> Hn Hf.
    destruct fuel as [|f]; [lia|].
    unfold advance_step, skip_space. cbn [rd rd_read ungot hist cur rest].
    rewrite Hsp_dot. cbn [skip_space_loop]. rewrite Hsp_dot. cbn [negb orb set_rd rd rd_unread rd_read ungot hist cur rest].
    change ((ch_dot =? ch_lt) || (ch_dot =? ch_gt)) with false.
    change (ch_dot =? ch_eq) with false. change (ch_dot =? ch_dot) with true. cbn iota.
    destruct (n =? ch_dot) eqn:En.
    - destruct rs as [|y ys]; cbn [rd_read ungot hist cur rest].
      + change (0 =? ch_dot) with false. cbn iota. cbn [step_post id_tok rd set_rd set_tok rd_unread hist cur rest ungot].
        split; [left; reflexivity|]. split; [unfold phi; cbn; lia|apply id_tok_wf].
      + destruct (y =? ch_dot); cbn [step_post id_tok rd set_rd set_tok rd_unread hist cur rest ungot];
          (split; [left; reflexivity|]; split; [unfold phi, w_cur, rd_unread; cbn [rest hist ungot cur length]; destruct (y =? 0); cbn; lia|apply id_tok_wf]).
    - cbn [step_post rd set_rd set_tok_only set_tok rd_unread hist cur rest ungot].
      split; [left; reflexivity|]. split; [unfold phi, w_cur, rd_unread; cbn [rest hist ungot cur length]; destruct (n =? 0); cbn; lia|].
      right; right; right; right. exists ch_dot. split; [reflexivity|right; reflexivity].
  Qed.

  (* ---- Advance as a whole ---- *)
  Theorem advance_ok fuel : forall l, inv (rd l) -> (phi (rd l) + 3 < fuel)%nat ->
    exists b l', advance is_uspace is_udigit V fuel l = Some (b, l') /\ inv (rd l') /\
      (b = true -> (phi (rd l') < phi (rd l))%nat /\ tok_wf l') /\
      (b = false -> rd_eof (rd l') = true).
  Proof.
    induction fuel as [|f IH]; intros l Hi Hf; [lia|]. cbn [advance].
    assert (Hstep : step_post (phi (rd l)) (advance_step is_uspace is_udigit V (S f) l)).
    { destruct Hi as [Hh | (n & Hh & Hu & Hn)]; [apply advance_step_clean; assumption|].
      eapply advance_step_pushed; eassumption. }
    destruct (advance_step is_uspace is_udigit V (S f) l) as [l'|l'|l'|]; cbn [step_post] in Hstep.
    - destruct Hstep as (H1 & H2 & H3). exists true, l'. split; [reflexivity|]. split; [exact H1|].
      split; [intros _; split; assumption|discriminate].
    - exists false, l'. split; [reflexivity|]. split; [|split; [discriminate|intros _; exact Hstep]].
      left. unfold rd_eof in Hstep. destruct (rest (rd l')); [|discriminate]. destruct (hist (rd l')); [reflexivity|discriminate].
    - destruct Hstep as (H1 & H2).
      destruct (IH l' (or_introl H1)) as (b & l2 & Ha & Hi2 & Ht & Hf2); [lia|].
      exists b, l2. split; [exact Ha|]. split; [exact Hi2|]. split; [|exact Hf2].
      intros Hb. destruct (Ht Hb) as [Hlt Hwf]. split; [lia|exact Hwf].
    - contradiction.
  Qed.

End Advance.
