(* elsif chains of single positive tests (x.nil? / x.is_a?(C)), on the same or on different variables:
   what every branch and the else branch see (Model/Narrow.v, chain) *)
From RT Require Import Model.Narrow Proofs.NarrowP Proofs.NarrowChainP.

(* the classes the tests of ts have taken from y *)
Definition taken (ts : list test) (y : string) : list cls := map t_cls (filter (fun t => String.eqb y (t_var t)) ts).
Definition all_pos (ts : list test) : bool := forallb (fun t => negb (t_neg t)) ts.

Lemma minus_nil l : minus l [] = l.
Proof. unfold minus. induction l as [|a l IH]; [reflexivity|]. cbn [filter]. replace (negb (mem a [])) with true by reflexivity. rewrite IH. reflexivity. Qed.

Lemma taken_untested ts y : tested ts y = false -> taken ts y = [].
Proof.
  unfold tested, taken. induction ts as [|t r IH]; cbn [existsb filter map]; [reflexivity|]. intros H.
  apply Bool.orb_false_iff in H as [H1 H2]. rewrite H1. apply IH. exact H2.
Qed.

Lemma taken_snoc ts t y : taken (ts ++ [t]) y = if String.eqb y (t_var t) then taken ts y ++ [t_cls t] else taken ts y.
Proof.
  unfold taken. rewrite filter_app, map_app. cbn [filter]. destruct (String.eqb y (t_var t)); cbn [map]; [reflexivity | apply app_nil_r].
Qed.

Lemma tested_snoc ts t y : tested (ts ++ [t]) y = tested ts y || String.eqb y (t_var t).
Proof. unfold tested. rewrite existsb_app. cbn [existsb]. rewrite Bool.orb_false_r. reflexivity. Qed.

(* the running state after the tests of pre *)
Record CInv (e0 : env) (pre : list test) (st : nrun) : Prop := {
  ci_nd : NoDup (map fst (orig (snd (fst st))));
  ci_orig : forall y, aget (orig (snd (fst st))) y = if tested pre y then Some (ty_of e0 y) else None;
  ci_narrow : forall y, aget (narrow (snd (fst st))) y = if tested pre y then Some (taken pre y) else None;
  ci_env : forall y, tested pre y = false -> ty_of (fst (fst st)) y = ty_of e0 y }.

(* branch of test t after the tests of pre: the tested variable is exactly the tested class, every other variable
   has lost what the earlier branches took from it *)
Definition BranchOK (e0 : env) (pre : list test) (t : test) (b : env) : Prop :=
  ty_of b (t_var t) = [t_cls t] /\ forall y, y <> t_var t -> ty_of b y = minus (ty_of e0 y) (taken pre y).

Lemma narrowed_all e0 pre e s zs s' : CInv e0 pre (e, s, zs) -> orig s' = orig s -> narrow s' = narrow s ->
  forall y, ty_of (narrowing e s') y = minus (ty_of e0 y) (taken pre y).
Proof.
  intros [Hnd Ho Hn He] Eo En y. cbn [fst snd] in *.
  destruct (tested pre y) eqn:T.
  - rewrite (narrowing_at e s' y (ty_of e0 y)); [| rewrite Eo; exact Hnd | rewrite Eo, Ho, T; reflexivity].
    rewrite En, Hn, T. reflexivity.
  - rewrite narrowing_other by (rewrite Eo, Ho, T; reflexivity).
    rewrite (taken_untested _ _ T), minus_nil. apply He. exact T.
Qed.

Lemma elsif_step_pos_eq e s zs t : t_neg t = false ->
  elsif_step true [t] (e, s, zs) =
  (aset (narrowing e s) (t_var t) [t_cls t],
   {| orig := match aget (orig s) (t_var t) with Some _ => orig s | None => aset (orig s) (t_var t) (ty_of (narrowing e s) (t_var t)) end;
      narrow := aset (narrow s) (t_var t) (lst (narrow s) (t_var t) ++ [t_cls t]);
      ifn := [(t_var t, [t_cls t])]; conj := 1; excl := narrow s |},
   zs ++ [(t_var t, ty_of (narrowing e s) (t_var t))]).
Proof.
  intros Hp. unfold elsif_step, get_backup, reset_ifn.
  cbn [scan orig narrow ifn conj excl List.length Nat.ltb Nat.leb andb fst snd app].
  unfold set_ctx. rewrite Hp. cbn [negb orig narrow ifn conj excl].
  unfold lst. cbn [aget aset app]. rewrite String.eqb_refl. cbn [uniq filter]. reflexivity.
Qed.

Lemma elsif_step_pos e0 pre t st : CInv e0 pre st -> t_neg t = false ->
  CInv e0 (pre ++ [t]) (elsif_step true [t] st) /\ BranchOK e0 pre t (fst (fst (elsif_step true [t] st))).
Proof.
  destruct st as [[e s] zs]. intros H Hp.
  pose proof (narrowed_all e0 pre e s zs s H eq_refl eq_refl) as Hall.
  destruct H as [Hnd Ho Hn He]. cbn [fst snd] in *.
  rewrite (elsif_step_pos_eq e s zs t Hp). cbn [fst snd orig narrow].
  split; [constructor; cbn [fst snd orig narrow]|].
  - destruct (aget (orig s) (t_var t)); [exact Hnd | apply aset_keys_nodup; exact Hnd].
  - intros y. rewrite tested_snoc.
    destruct (String.eqb_spec y (t_var t)) as [->|N].
    + rewrite Bool.orb_true_r. specialize (Ho (t_var t)). destruct (tested pre (t_var t)) eqn:T.
      * rewrite Ho. exact Ho.
      * rewrite Ho. rewrite aget_aset_same. rewrite Hall, (taken_untested _ _ T), minus_nil. reflexivity.
    + rewrite Bool.orb_false_r. rewrite <- (Ho y).
      destruct (aget (orig s) (t_var t)); [reflexivity | apply aget_aset_other; exact N].
  - intros y. rewrite tested_snoc, taken_snoc.
    destruct (String.eqb_spec y (t_var t)) as [->|N].
    + rewrite Bool.orb_true_r, aget_aset_same. unfold lst. rewrite Hn.
      destruct (tested pre (t_var t)) eqn:T; [reflexivity | rewrite (taken_untested _ _ T); reflexivity].
    + rewrite Bool.orb_false_r, aget_aset_other by exact N. apply Hn.
  - intros y. rewrite tested_snoc. intros T. apply Bool.orb_false_iff in T as [T1 T2].
    rewrite ty_of_aset_other by (apply String.eqb_neq; exact T2).
    rewrite Hall, (taken_untested _ _ T1), minus_nil. reflexivity.
  - split; [apply ty_of_aset_same|]. intros y N. rewrite ty_of_aset_other by exact N. apply Hall.
Qed.

Fixpoint branches_ok (e0 : env) (pre ts : list test) (brs : list env) : Prop :=
  match ts, brs with
  | [], [] => True
  | t :: r, b :: br => BranchOK e0 pre t b /\ branches_ok e0 (pre ++ [t]) r br
  | _, _ => False
  end.

Lemma chain_from_spec e0 ts : forall pre st acc, CInv e0 pre st -> all_pos ts = true ->
  exists brs, fst (chain_from true (map (fun t => [t]) ts) st acc) = acc ++ brs /\ branches_ok e0 pre ts brs /\
              CInv e0 (pre ++ ts) (snd (chain_from true (map (fun t => [t]) ts) st acc)).
Proof.
  induction ts as [|t r IH]; intros pre st acc H Hp; cbn [map chain_from fst snd].
  - exists []. rewrite !app_nil_r. split; [reflexivity|]. split; [exact Logic.I | exact H].
  - cbn [all_pos forallb] in Hp. apply Bool.andb_true_iff in Hp as [Hp1 Hp2]. apply Bool.negb_true_iff in Hp1.
    destruct (elsif_step_pos e0 pre t st H Hp1) as [H1 H2].
    destruct (IH (pre ++ [t]) (elsif_step true [t] st) (acc ++ [fst (fst (elsif_step true [t] st))]) H1 Hp2) as [brs [E [B I]]].
    exists (fst (fst (elsif_step true [t] st)) :: brs). rewrite E, <- app_assoc. cbn [app branches_ok].
    split; [reflexivity|]. split; [split; [exact H2 | exact B]|]. rewrite <- app_assoc in I. exact I.
Qed.

Lemma first_step c e : elsif_step true c (e, empty_state, []) = get_backup KIf c e empty_state.
Proof. unfold elsif_step. cbn [narrowing fold_left orig empty_state]. change (reset_ifn empty_state) with empty_state.
  destruct (get_backup KIf c e empty_state) as [[e2 s2] zs2]. reflexivity. Qed.

Lemma cinv_start e : CInv e [] (e, empty_state, []).
Proof. constructor; cbn; intros; try reflexivity. constructor. Qed.

(* `if t0; elsif t1; ...; [else;] end` with positive tests: branch i sees its variable as exactly the tested class
   and every other variable without what branches 0..i-1 took from it; the else branch sees every variable without
   everything the chain took from it *)
Theorem elsif_chain_exact t0 ts he e : all_pos (t0 :: ts) = true ->
  exists brs ee ea, chain true [t0] (map (fun t => [t]) ts) he e = (brs, ee, ea) /\
    branches_ok e [] (t0 :: ts) brs /\
    (he = true -> exists b, ee = Some b /\ forall y, ty_of b y = minus (ty_of e y) (taken (t0 :: ts) y)).
Proof.
  intros Hp. unfold chain. rewrite <- first_step.
  destruct (chain_from_spec e (t0 :: ts) [] (e, empty_state, []) [] (cinv_start e) Hp) as [brs [E [B I]]].
  cbn [map chain_from app] in E, I.
  destruct (chain_from true (map (fun t => [t]) ts) (elsif_step true [t0] (e, empty_state, []))
              [fst (fst (elsif_step true [t0] (e, empty_state, [])))]) as [brs' [[e1 s1] zs]].
  cbn [fst snd] in E, I. subst brs'.
  eexists _, _, _. split; [reflexivity|]. split; [exact B|].
  intros ->. eexists. split; [reflexivity|]. intros y.
  apply (narrowed_all e (t0 :: ts) e1 s1 zs (reset_ifn s1) I); reflexivity.
Qed.
