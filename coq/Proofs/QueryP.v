(* Proofs about the query-mode printers: every record is one well-formed line; the repaired code never
   panics; the pinned code panics on a target that renders as the empty string. *)
From RT Require Import Model.Query Proofs.DriverP Proofs.SuggestP.
From Coq Require Import Lia.

Lemma wf_escape_prefix c r : existsb (Ascii.eqb c) ["%"; "@"; "$"]%char = true -> wf_record (escape_msg (String c r)) = true.
Proof.
  intros H. unfold wf_record. rewrite no_eol_escape, Bool.andb_true_r.
  cbn [existsb] in H. cbn [escape_msg].
  destruct (Ascii.eqb c "%") eqn:E1; [apply Ascii.eqb_eq in E1; subst; reflexivity|].
  destruct (Ascii.eqb c "@") eqn:E2; [apply Ascii.eqb_eq in E2; subst; reflexivity|].
  destruct (Ascii.eqb c "$") eqn:E3; [apply Ascii.eqb_eq in E3; subst; reflexivity|].
  discriminate.
Qed.

Lemma wf_suggestion a b c : wf_record (suggestion_record a b c) = true.
Proof. apply wf_escape_prefix; reflexivity. Qed.
Lemma wf_sig_suggestion s : wf_record (sig_suggestion s) = true. Proof. apply wf_suggestion. Qed.
Lemma wf_signature s r : wf_record (signature_record s r) = true. Proof. apply wf_escape_prefix; reflexivity. Qed.
Lemma wf_inheritance c p : wf_record (inheritance_record c p) = true. Proof. apply wf_escape_prefix; reflexivity. Qed.
Lemma wf_target f c : wf_record (target_record f c) = true. Proof. apply wf_escape_prefix; reflexivity. Qed.
Lemma wf_class n : wf_record (class_record n) = true. Proof. apply wf_escape_prefix; reflexivity. Qed.

Lemma collect_some {A B} (f : A -> option (list B)) (P : B -> Prop) l :
  (forall x, exists ys, f x = Some ys /\ Forall P ys) -> exists zs, collect f l = Some zs /\ Forall P zs.
Proof.
  intros H; induction l as [|x r [zs [E F]]]; cbn [collect]; [exists []; split; [reflexivity | constructor]|].
  destruct (H x) as [ys [Ey Fy]]. rewrite Ey, E. exists (ys ++ zs); split; [reflexivity | apply Forall_app; split; assumption].
Qed.

Lemma calc_guarded t : exists r, calc_object_class true t = Some r.
Proof.
  unfold calc_object_class. destruct (tag_eqb (tg_tag t) CLASS); [eexists; reflexivity|].
  destruct (tg_bec t); [destruct (String.eqb (tg_str t) "")|]; eexists; reflexivity.
Qed.

Lemma is_suggest_guarded scoped m bl t s : exists b, is_suggest true scoped m bl t s = Some b.
Proof.
  unfold is_suggest. destruct (String.eqb (s_class s) ""); [eexists; reflexivity|].
  destruct (String.eqb (s_class s) "Kernel"); [eexists; reflexivity|].
  destruct (calc_guarded t) as [[oc st] ->]. eexists; reflexivity.
Qed.

Lemma print_suggestions_total scoped m bl t u i vs sigs :
  exists ls, print_suggestions true scoped m bl t u i vs sigs = Some ls /\ Forall (fun l => wf_record l = true) ls.
Proof.
  unfold print_suggestions. destruct u.
  - apply collect_some. intros v. apply collect_some. intros s.
    destruct (is_suggest_guarded scoped m bl v s) as [[|] ->]; eexists; split; try reflexivity;
      [constructor; [apply wf_sig_suggestion | constructor] | constructor].
  - match goal with |- context [collect ?f ?srt] => destruct (collect_some f (fun x => wf_record x = true) srt) as [zs [E F]] end.
    { intros s. destruct (is_suggest_kernel_or_object t (s_class s));
        [eexists; split; [reflexivity | constructor; [apply wf_sig_suggestion | constructor]]|].
      destruct (is_suggest_guarded scoped m bl t s) as [[|] ->]; eexists; split; try reflexivity;
        [constructor; [apply wf_sig_suggestion | constructor] | constructor]. }
    rewrite E. destruct zs as [|z zs]; [|exists (z :: zs); split; [reflexivity | exact F]].
    destruct (_ && _); eexists; split; try reflexivity; [|constructor].
    apply Forall_forall. intros x Hx. apply in_map_iff in Hx. destruct Hx as [n [<- _]]. apply wf_class.
Qed.

Definition wf_qline (tfile : string) (q : qline) : Prop :=
  match q with
  | QRec s => wf_record s = true
  | QDiag (LDiag f _ msg) => f = tfile /\ no_eol msg = true
  | QDiag (LInfo _ _ _) => False
  end.

Lemma query_output_wf scoped mode m bl t u i vs gdc gm sigs diags tfile :
  Forall (fun l => match l with LDiag f _ msg => f = tfile /\ no_eol msg = true | LInfo _ _ _ => False end) diags ->
  exists ls, query_output true scoped mode m bl t u i vs gdc gm sigs diags = Some ls /\ Forall (wf_qline tfile) ls.
Proof.
  intros Hd. unfold query_output.
  assert (Hdq : Forall (wf_qline tfile) (map QDiag diags)).
  { apply Forall_forall. intros q Hq. apply in_map_iff in Hq. destruct Hq as [l [<- Hl]].
    rewrite Forall_forall in Hd. exact (Hd l Hl). }
  assert (Hr : forall rs, Forall (fun l => wf_record l = true) rs -> Forall (wf_qline tfile) (map QRec rs ++ map QDiag diags)).
  { intros rs Hrs. apply Forall_app; split; [|exact Hdq].
    apply Forall_forall. intros q Hq. apply in_map_iff in Hq. destruct Hq as [l [<- Hl]].
    rewrite Forall_forall in Hrs. exact (Hrs l Hl). }
  destruct mode.
  - destruct (Nat.ltb 0 (List.length sigs)).
    + destruct (print_suggestions_total scoped m bl t u i vs (map fst sigs)) as [ls [-> F]].
      eexists; split; [reflexivity | apply Hr; exact F].
    + eexists; split; [reflexivity | apply Hr; constructor].
  - eexists; split; [reflexivity|]. apply Hr. unfold print_hover.
    apply Forall_forall. intros x Hx. apply in_map_iff in Hx. destruct Hx as [s [<- _]]. apply wf_sig_suggestion.
  - destruct (Nat.ltb 0 (List.length sigs)); (eexists; split; [reflexivity|]; apply Hr); [|constructor].
    unfold print_definitions. constructor; [apply wf_target|]. apply Forall_app; split.
    + apply Forall_forall. intros x Hx. apply in_map_iff in Hx. destruct Hx as [s [<- _]]. apply wf_signature.
    + apply Forall_forall. intros x Hx. apply in_flat_map in Hx. destruct Hx as [kv [_ Hx]].
      apply in_map_iff in Hx. destruct Hx as [p [<- _]]. apply wf_inheritance.
Qed.

(* the pinned code: the implicit receiver renders as "" and target[0] is out of range *)
Definition empty_target : target :=
  {| tg_tag := UNKNOWN; tg_str := ""; tg_cls := ""; tg_bec := ""; tg_frame := ""; tg_meth := "";
     tg_df := ""; tg_dc := ""; tg_dm := ""; tg_static := false |}.
Definition some_sig : sig :=
  {| s_method := "upcase"; s_detail := "upcase() -> String"; s_frame := "Builtin"; s_class := "String";
     s_static := false; s_private := false; s_file := ""; s_row := 0%Z; s_doc := "" |}.
Lemma pinned_suggest_panics :
  print_suggestions false false [] [] empty_target false false [] [some_sig] = None.
Proof. vm_compute. reflexivity. Qed.

Theorem run_query_ok scoped mode m bl t u i vs gdc gm sigs preloads tfile tsrc articles :
  exists ls, run_query true scoped mode m bl t u i vs gdc gm sigs preloads (tfile, tsrc) articles = Some (ls, 0%Z)
             /\ Forall (wf_qline tfile) ls.
Proof.
  unfold run_query, run_driver. cbn beta iota. cbn [fl_define_info app].
  set (final := eval_loop true tfile (tsrc "check"%string) empty_out).
  assert (He : Forall (diag_ok tfile) (po_errors final)) by (apply eval_loop_errors; constructor).
  destruct (query_output_wf scoped mode m bl t u i vs gdc gm sigs (po_errors final) tfile He) as [ls [-> F]].
  exists ls; split; [reflexivity | exact F].
Qed.
