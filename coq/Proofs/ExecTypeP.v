(* calculateExecutionType: the special return types resolve as documented (Model/ExecType.v) *)
From RT Require Import Model.ExecType.

Section Resolve.
  Variables (recv blk : ty) (args : list ty).
  Variable ret : ty.
  Hypothesis not_new : String.eqb (t_meth ret) "new" = false.

  Lemma exec_unfold : ExecType recv args blk ret =
    match t_tag ret with
    | BLOCK => block_value ret
    | UNION => MakeUnifiedT (map (exec_type (ty_size ret) recv args blk) (t_vars ret))
    | SELF => recv
    | SELF_ARRAY => array_of (t_vars recv)
    | ARGUMENT => match args with [] => MakeNil | [a] => a | _ => array_of args end
    | ARRAY => array_of (map (exec_type (ty_size ret) recv args blk) (t_vars ret))
    | UNIFY => UnifyVariants recv
    | OPTIONAL_UNIFY => MakeUnifiedT (t_vars (AppendVariant recv MakeNil))
    | BLOCK_RESULT_ARRAY => AppendArrayVariant MakeAnyArray (block_value blk)
    | KEYVALUE_ARRAY => array_of (map get_key_value (t_vars recv))
    | _ => ret
    end.
  Proof. unfold ExecType. cbn [exec_type]. rewrite not_new. reflexivity. Qed.

  (* Self: the receiver *)
  Theorem resolve_self : t_tag ret = SELF -> ExecType recv args blk ret = recv.
  Proof. intros H. rewrite exec_unfold, H. reflexivity. Qed.
  (* Unify: the union of the receiver's element types (of its values, for a hash) *)
  Theorem resolve_unify : t_tag ret = UNIFY -> ExecType recv args blk ret = UnifyVariants recv.
  Proof. intros H. rewrite exec_unfold, H. reflexivity. Qed.
  (* OptionalUnify: the same with NilClass added *)
  Theorem resolve_optional_unify : t_tag ret = OPTIONAL_UNIFY ->
    ExecType recv args blk ret = MakeUnifiedT (t_vars (AppendVariant recv MakeNil)).
  Proof. intros H. rewrite exec_unfold, H. reflexivity. Qed.
  (* Argument: nil, the argument, or the array of the arguments *)
  Theorem resolve_argument : t_tag ret = ARGUMENT ->
    ExecType recv args blk ret = match args with [] => MakeNil | [a] => a | _ => array_of args end.
  Proof. intros H. rewrite exec_unfold, H. reflexivity. Qed.
  (* SelfArray: an array of the receiver's element types *)
  Theorem resolve_self_array : t_tag ret = SELF_ARRAY -> ExecType recv args blk ret = MakeArray (t_vars recv).
  Proof.
    intros H. rewrite exec_unfold, H. unfold array_of.
    assert (G : forall l acc, fold_left AppendArrayVariant l (MakeArray acc) = MakeArray (acc ++ l)).
    { induction l as [|x l IH]; intros acc; cbn [fold_left]; [rewrite app_nil_r; reflexivity|].
      change (AppendArrayVariant (MakeArray acc) x) with (MakeArray (acc ++ [x])). rewrite IH, <- app_assoc. reflexivity. }
    exact (G (t_vars recv) []).
  Qed.
  (* KeyValueArray: an array of the hash's value types *)
  Theorem resolve_keyvalue_array : t_tag ret = KEYVALUE_ARRAY ->
    ExecType recv args blk ret = array_of (map get_key_value (t_vars recv)).
  Proof. intros H. rewrite exec_unfold, H. reflexivity. Qed.
  (* a union return: every variant resolved, then unified *)
  Theorem resolve_union : t_tag ret = UNION ->
    ExecType recv args blk ret = MakeUnifiedT (map (exec_type (ty_size ret) recv args blk) (t_vars ret)).
  Proof. intros H. rewrite exec_unfold, H. reflexivity. Qed.
End Resolve.
