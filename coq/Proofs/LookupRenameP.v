(* C27: the ancestor walk of method lookup commutes with every consistent renaming of (frame, class) nodes — wrapping
   a group of classes in `module M` renames each of its nodes (frame F becomes M or M::F) and nothing else, so the
   walk visits the renamed nodes in the same order and answers with the renamed class. *)
From RT Require Import Model.Lookup Proofs.SuggestP.

Definition rename_p (phi : node -> node) (p : pnode) : pnode :=
  {| pn_frame := fst (phi (pn_node p)); pn_class := snd (phi (pn_node p));
     pn_include := pn_include p; pn_extend := pn_extend p |}.
Definition rename_map (phi : node -> node) (m : inh_map) : inh_map :=
  map (fun kp => (phi (fst kp), map (rename_p phi) (snd kp))) m.
Definition rename_res (phi : node -> node) (r : option (option node * list node)) : option (option node * list node) :=
  option_map (fun ru => (option_map phi (fst ru), map phi (snd ru))) r.

Section Rename.
  Variables (has has' : node -> bool -> bool) (builtin : list string) (phi : node -> node).
  Hypothesis Hinj : forall a b, fc_eqb (phi a) (phi b) = fc_eqb a b.
  Hypothesis Hnorm : forall n, norm builtin (phi n) = phi (norm builtin n).
  Hypothesis Hhas : forall n b, has' (phi n) b = has n b.

  Lemma pn_node_rename p : pn_node (rename_p phi p) = phi (pn_node p).
  Proof. unfold rename_p, pn_node; cbn. destruct (phi (pn_frame p, pn_class p)); reflexivity. Qed.

  Lemma mem_fc_rename n uv : mem_fc (phi n) (map phi uv) = mem_fc n uv.
  Proof. unfold mem_fc. induction uv as [|x r IH]; cbn [map existsb]; [reflexivity|]. rewrite Hinj, IH. reflexivity. Qed.

  Lemma remove_fc_rename n uv : remove_fc (phi n) (map phi uv) = map phi (remove_fc n uv).
  Proof.
    induction uv as [|x r IH]; cbn [map remove_fc]; [reflexivity|]. rewrite Hinj.
    destruct (fc_eqb n x); cbn [map]; rewrite IH; reflexivity.
  Qed.

  Lemma parents_of_rename m n : parents_of (rename_map phi m) (phi n) = map (rename_p phi) (parents_of m n).
  Proof.
    induction m as [|[k ps] r IH]; cbn [rename_map map parents_of fst snd]; [reflexivity|]. rewrite Hinj.
    destruct (fc_eqb n k); [reflexivity | exact IH].
  Qed.

  Lemma first_found_rename {A B} (g : A -> B) (s : A -> list node -> option (option node * list node))
        (s' : B -> list node -> option (option node * list node)) :
    forall ps, (forall p u, In p ps -> s' (g p) (map phi u) = rename_res phi (s p u)) ->
    forall uv, first_found s' (map g ps) (map phi uv) = rename_res phi (first_found s ps uv).
  Proof.
    induction ps as [|p r IH]; intros Hs uv; cbn [map first_found]; [reflexivity|].
    rewrite (Hs p uv (or_introl eq_refl)).
    destruct (s p uv) as [[[x|] u1]|]; cbn [rename_res option_map fst snd]; [reflexivity | | reflexivity].
    apply IH. intros q u Hq. apply Hs. right; exact Hq.
  Qed.

  Lemma lstep_rename (rec rec' : bool -> list node -> node -> option (option node * list node)) static p u :
    (forall st u n, rec' st (map phi u) (phi n) = rename_res phi (rec st u n)) ->
    lstep has' builtin rec' static (rename_p phi p) (map phi u) = rename_res phi (lstep has builtin rec static p u).
  Proof.
    intros Hr. unfold lstep. rewrite pn_node_rename.
    replace (pn_extend (rename_p phi p)) with (pn_extend p) by reflexivity.
    replace (pn_include (rename_p phi p)) with (pn_include p) by reflexivity.
    rewrite Hnorm, !Hhas.
    destruct (pn_extend p).
    - destruct (has (norm builtin (pn_node p)) false && static); [reflexivity|].
      destruct static; [apply Hr | reflexivity].
    - destruct (pn_include p).
      + destruct (has (norm builtin (pn_node p)) false && negb static); [reflexivity|].
        destruct (negb static); [apply Hr | reflexivity].
      + destruct (has (pn_node p) static); [reflexivity | apply Hr].
  Qed.

  (* the walk over the renamed map, from the renamed class, with the renamed visited set: the renamed answer *)
  Theorem plookup_rename m f : forall static uv n,
    plookup has' builtin f (rename_map phi m) static (map phi uv) (phi n)
    = rename_res phi (plookup has builtin f m static uv n).
  Proof.
    induction f as [|f IH]; intros static uv n; cbn [plookup]; [reflexivity|].
    rewrite mem_fc_rename. destruct (mem_fc n uv); cbn [negb]; [|reflexivity].
    rewrite parents_of_rename, remove_fc_rename.
    apply first_found_rename. intros p u _. apply lstep_rename. intros st u1 n1. apply IH.
  Qed.
End Rename.

(* ---- wrapping in `module M`: frame F becomes M (F empty) or M::F (base/t_frame.go CalculateFrame) ---- *)
Definition wrap_frame (M : string) (n : node) : node :=
  ((if String.eqb (fst n) "" then M else M ++ "::" ++ fst n)%string, snd n).

Lemma append_eqb_l (p a b : string) : String.eqb (p ++ a) (p ++ b) = String.eqb a b.
Proof. induction p as [|c p IH]; cbn [append]; [reflexivity|]. cbn [String.eqb]. rewrite Ascii.eqb_refl. exact IH. Qed.

Lemma append_nil_r (s : string) : (s ++ "")%string = s.
Proof. induction s as [|c s IH]; cbn [append]; [reflexivity | rewrite IH; reflexivity]. Qed.

Lemma append_colon_neq (M f : string) : String.eqb M (M ++ "::" ++ f) = false.
Proof. induction M as [|c M IH]; cbn [append String.eqb]; [reflexivity|]. rewrite Ascii.eqb_refl. exact IH. Qed.

Lemma wrap_frame_inj M a b : fc_eqb (wrap_frame M a) (wrap_frame M b) = fc_eqb a b.
Proof.
  unfold fc_eqb, wrap_frame; cbn [fst snd]. f_equal.
  destruct (String.eqb (fst a) "") eqn:Ea, (String.eqb (fst b) "") eqn:Eb.
  - apply String.eqb_eq in Ea, Eb. rewrite Ea, Eb, !String.eqb_refl. reflexivity.
  - apply String.eqb_eq in Ea. rewrite Ea. rewrite append_colon_neq. symmetry.
    rewrite String.eqb_sym. exact Eb.
  - apply String.eqb_eq in Eb. rewrite Eb. rewrite String.eqb_sym, append_colon_neq. symmetry. exact Ea.
  - rewrite append_eqb_l. apply (append_eqb_l "::").
Qed.

(* a group that mentions no configured class by a top-level name: the Builtin normalisation leaves it alone, before
   and after wrapping (no configured class name in the model's list) *)
Lemma wrap_frame_norm_nil M n : norm [] (wrap_frame M n) = wrap_frame M (norm [] n).
Proof. unfold norm; cbn [existsb]. rewrite !andb_false_r. reflexivity. Qed.

Theorem plookup_wrap (has has' : node -> bool -> bool) (M : string) m f static uv n :
  (forall x b, has' (wrap_frame M x) b = has x b) ->
  plookup has' [] f (rename_map (wrap_frame M) m) static (map (wrap_frame M) uv) (wrap_frame M n)
  = rename_res (wrap_frame M) (plookup has [] f m static uv n).
Proof.
  intros Hh. apply plookup_rename; [apply wrap_frame_inj | apply wrap_frame_norm_nil | exact Hh].
Qed.
