(* C17: block locals stay local, shadowed variables get their type back — for every body, nested blocks included *)
From RT Require Import Model.Blocks Proofs.NarrowP.
From Coq Require Import Lia.

Section P.
  Variables (A : Type) (nil_t untyped_t : A) (is_unknown : A -> bool).
  Let exec := exec A nil_t untyped_t is_unknown.

  Lemma aget_filter_snap (cur snap : venv A) x :
    aget (restore_frame A cur snap) x = if has_key A snap x then aget cur x else None.
  Proof.
    unfold restore_frame. induction cur as [|[k v] r IH]; cbn [filter aget fst]; [destruct (has_key A snap x); reflexivity|].
    destruct (has_key A snap k) eqn:Hk; cbn [aget].
    - destruct (String.eqb_spec x k) as [->|N]; [rewrite Hk; reflexivity | exact IH].
    - destruct (String.eqb_spec x k) as [->|N]; [rewrite Hk in IH |- *; exact IH | exact IH].
  Qed.

  Lemma fold_aset_other (saved : list (string * A)) : forall e x, ~ In x (map fst saved) ->
    aget (fold_left (fun e pt => aset e (fst pt) (snd pt)) saved e) x = aget e x.
  Proof.
    induction saved as [|[p t] r IH]; intros e x H; cbn [fold_left]; [reflexivity|].
    cbn [map fst] in H. rewrite IH by (intro Hc; apply H; right; exact Hc).
    apply aget_aset_other. intro Hc. apply H. left. symmetry. exact Hc.
  Qed.

  (* the last binding of x in the saved list wins; every parameter is in it *)
  Lemma fold_aset_param (ps : list string) (f : string -> A) : forall e x, In x ps ->
    aget (fold_left (fun e pt => aset e (fst pt) (snd pt)) (map (fun p => (p, f p)) ps) e) x = Some (f x).
  Proof.
    induction ps as [|p r IH]; intros e x H; [destruct H|]. cbn [map fold_left fst snd].
    destruct (in_dec string_dec x r) as [Hr|Hr]; [apply IH; exact Hr|].
    destruct H as [->|H]; [|contradiction].
    rewrite fold_aset_other; [apply aget_aset_same|].
    rewrite map_map. cbn [fst]. rewrite map_id. exact Hr.
  Qed.

  (* after a block: a name that is not a parameter is bound iff it was bound before — whatever the body does *)
  Theorem block_locals_stay_local ps ds body e x : ~ In x ps -> aget e x = None ->
    aget (exec (SBlk A ps ds body) e) x = None.
  Proof.
    intros Hp Hx. unfold exec. cbn [Blocks.exec].
    rewrite fold_aset_other by (rewrite map_map; cbn [fst]; rewrite map_id; exact Hp).
    rewrite aget_filter_snap. unfold has_key. rewrite Hx. reflexivity.
  Qed.

  (* a parameter that shadows an outer variable: the variable has its previous type after the block *)
  Theorem block_shadow_restored ps ds body e x t : In x ps -> aget e x = Some t -> is_unknown t = false ->
    aget (exec (SBlk A ps ds body) e) x = Some t.
  Proof.
    intros Hp Hx Hu. unfold exec. cbn [Blocks.exec].
    rewrite (fold_aset_param ps (fun p => match aget e p with Some t => if is_unknown t then untyped_t else t | None => untyped_t end)) by exact Hp.
    rewrite Hx, Hu. reflexivity.
  Qed.

  (* parameter i has the declared type i, surplus parameters are NilClass *)
  Lemma set_params_spec : forall ps ds e i p, NoDup ps -> nth_error ps i = Some p ->
    aget (set_params A nil_t e ps ds true) p = Some (match nth_error ds i with Some d => d | None => nil_t end).
  Proof.
    induction ps as [|q r IH]; intros ds e i p Hnd Hi; [destruct i; discriminate|].
    inversion Hnd as [|? ? Hq Hr]; subst. cbn [set_params].
    assert (Hkeep : forall ds' e', ~ In q r -> aget (set_params A nil_t e' r ds' true) q = aget e' q).
    { clear. intros ds' e' H. revert ds' e'. induction r as [|z r IHr]; intros ds' e'; cbn [set_params]; [reflexivity|].
      assert (q <> z) by (intro; apply H; left; symmetry; assumption).
      destruct ds' as [|d ds']; rewrite IHr by (intro; apply H; right; assumption); apply aget_aset_other; assumption. }
    destruct i as [|i]; cbn [nth_error] in Hi.
    - inversion Hi; subst p. destruct ds as [|d ds']; cbn [nth_error]; rewrite Hkeep by exact Hq; apply aget_aset_same.
    - destruct ds as [|d ds']; cbn [nth_error].
      + rewrite (IH [] _ i p Hr Hi). destruct i; reflexivity.
      + exact (IH ds' _ i p Hr Hi).
  Qed.
End P.
