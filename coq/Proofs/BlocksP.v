(* C17: block locals stay local, shadowed variables get their type back — for every body, nested blocks included *)
From RT Require Import Model.Blocks Proofs.NarrowP.
From Coq Require Import Lia.

Section P.
  Variables (A : Type) (nil_t untyped_t : A) (is_unknown : A -> bool).
  Let exec := exec A nil_t untyped_t is_unknown.

  Lemma aget_filter_snap (cur snap : venv A) x :
    aget (restore_frame A cur snap) x = if has_key A snap x then aget cur x else None.
  Proof.
    unfold restore_frame. induction cur as [|[k v] r IH]; cbn [filter aget fst]; [destruct (has_key A snap x); reflexivity|].
    destruct (has_key A snap k) eqn:Hk; cbn [aget].
    - destruct (String.eqb_spec x k) as [->|N]; [rewrite Hk; reflexivity | exact IH].
    - destruct (String.eqb_spec x k) as [->|N]; [rewrite Hk in IH |- *; exact IH | exact IH].
  Qed.

  Lemma fold_aset_other (saved : list (string * A)) : forall e x, ~ In x (map fst saved) ->
    aget (fold_left (fun e pt => aset e (fst pt) (snd pt)) saved e) x = aget e x.
  Proof.
    induction saved as [|[p t] r IH]; intros e x H; cbn [fold_left]; [reflexivity|].
    cbn [map fst] in H. rewrite IH by (intro Hc; apply H; right; exact Hc).
    apply aget_aset_other. intro Hc. apply H. left. symmetry. exact Hc.
  Qed.

  (* the last binding of x in the saved list wins; every parameter is in it *)
  Lemma fold_aset_param (ps : list string) (f : string -> A) : forall e x, In x ps ->
    aget (fold_left (fun e pt => aset e (fst pt) (snd pt)) (map (fun p => (p, f p)) ps) e) x = Some (f x).
  Proof.
    induction ps as [|p r IH]; intros e x H; [destruct H|]. cbn [map fold_left fst snd].
    destruct (in_dec string_dec x r) as [Hr|Hr]; [apply IH; exact Hr|].
    destruct H as [->|H]; [|contradiction].
    rewrite fold_aset_other; [apply aget_aset_same|].
    rewrite map_map. cbn [fst]. rewrite map_id. exact Hr.
  Qed.

  (* after a block: a name that is not a parameter is bound iff it was bound before — whatever the body does *)
  Theorem block_locals_stay_local ps ds body e x : ~ In x ps -> aget e x = None ->
    aget (exec (SBlk A ps ds body) e) x = None.
  Proof.
    intros Hp Hx. unfold exec. cbn [Blocks.exec].
    rewrite fold_aset_other by (rewrite map_map; cbn [fst]; rewrite map_id; exact Hp).
    rewrite aget_filter_snap. unfold has_key. rewrite Hx. reflexivity.
  Qed.

  (* a parameter that shadows an outer variable: the variable has its previous type after the block *)
  Theorem block_shadow_restored ps ds body e x t : In x ps -> aget e x = Some t -> is_unknown t = false ->
    aget (exec (SBlk A ps ds body) e) x = Some t.
  Proof.
    intros Hp Hx Hu. unfold exec. cbn [Blocks.exec].
    rewrite (fold_aset_param ps (fun p => match aget e p with Some t => if is_unknown t then untyped_t else t | None => untyped_t end)) by exact Hp.
    rewrite Hx, Hu. reflexivity.
  Qed.

  (* parameter i has the declared type i, surplus parameters are NilClass *)
  Lemma set_params_spec : forall ps ds e i p, NoDup ps -> nth_error ps i = Some p ->
    aget (set_params A nil_t e ps ds true) p = Some (match nth_error ds i with Some d => d | None => nil_t end).
  Proof.
    induction ps as [|q r IH]; intros ds e i p Hnd Hi; [destruct i; discriminate|].
    inversion Hnd as [|? ? Hq Hr]; subst. cbn [set_params].
    assert (Hkeep : forall ds' e', ~ In q r -> aget (set_params A nil_t e' r ds' true) q = aget e' q).
    { clear. intros ds' e' H. revert ds' e'. induction r as [|z r IHr]; intros ds' e'; cbn [set_params]; [reflexivity|].
      assert (q <> z) by (intro; apply H; left; symmetry; assumption).
      destruct ds' as [|d ds']; rewrite IHr by (intro; apply H; right; assumption); apply aget_aset_other; assumption. }
    destruct i as [|i]; cbn [nth_error] in Hi.
    - inversion Hi; subst p. destruct ds as [|d ds']; cbn [nth_error]; rewrite Hkeep by exact Hq; apply aget_aset_same.
    - destruct ds as [|d ds']; cbn [nth_error].
      + rewrite (IH [] _ i p Hr Hi). destruct i; reflexivity.
      + exact (IH ds' _ i p Hr Hi).
  Qed.
End P.

(* ---------------------------------------------------------------- union receivers *)
Section UnionReceiverP.
  Variable A : Type.
  Variable nil_t : A.
  Variable unify : list A -> A.

  Lemma pad_row_length n ds : n <= List.length (pad_row A nil_t n ds).
  Proof. unfold pad_row. rewrite app_length, repeat_length. lia. Qed.

  Lemma pad_row_nth n ds i : i < n -> nth_error (pad_row A nil_t n ds) i = Some (nth i ds nil_t).
  Proof.
    intros H. unfold pad_row. destruct (Nat.lt_ge_cases i (List.length ds)) as [L|L].
    - rewrite nth_error_app1 by exact L. apply nth_error_nth'. exact L.
    - rewrite nth_error_app2 by exact L. rewrite (nth_overflow ds nil_t L).
      rewrite (nth_error_nth' _ nil_t) by (rewrite repeat_length; lia).
      f_equal. apply nth_repeat.
  Qed.

  Lemma column_padded n i rows : i < n ->
    column A i (map (pad_row A nil_t n) rows) = map (fun ds => nth i ds nil_t) rows.
  Proof.
    intros H. unfold column. induction rows as [|r rows IH]; cbn [map flat_map]; [reflexivity|].
    rewrite (pad_row_nth n r i H), IH. reflexivity.
  Qed.

  Lemma fold_max_ge l : forall a, a <= fold_left Nat.max l a.
  Proof. induction l as [|x l IH]; intros a; cbn [fold_left]; [lia|]. specialize (IH (Nat.max a x)). lia. Qed.
  Lemma fold_max_in l x : In x l -> forall a, x <= fold_left Nat.max l a.
  Proof.
    induction l as [|y l IH]; intros H a; [destruct H|]. cbn [fold_left]. destruct H as [->|H].
    - pose proof (fold_max_ge l (Nat.max a x)). lia.
    - apply IH. exact H.
  Qed.

  Lemma widest_padded n rows : rows <> [] -> n <= widest A (map (pad_row A nil_t n) rows).
  Proof.
    destruct rows as [|r rows]; [congruence|]. intros _. unfold widest. cbn [map].
    eapply Nat.le_trans; [apply (pad_row_length n r)|]. apply fold_max_in. left. reflexivity.
  Qed.

  (* each of the n block variables gets the union, over the variants of the receiver, of what the variant's method
     declares for that position — NilClass where the variant declares fewer parameters *)
  Theorem union_declared_spec n rows i : rows <> [] -> i < n ->
    nth_error (union_declared A nil_t unify n rows) i = Some (unify (map (fun ds => nth i ds nil_t) rows)).
  Proof.
    intros Hr Hi. unfold union_declared.
    pose proof (widest_padded n rows Hr) as W.
    rewrite nth_error_map. rewrite (nth_error_nth' _ 0) by (rewrite seq_length; lia).
    rewrite seq_nth by lia. cbn [option_map Nat.add]. rewrite (column_padded n i rows Hi). reflexivity.
  Qed.
End UnionReceiverP.
