(* Lemmas about the string helpers of Model/Strs.v *)
From RT Require Import Model.Strs.

Lemma length_drop_last s : String.length (drop_last s) <= String.length s.
Proof.
  induction s as [|x r IH]; cbn [drop_last String.length]; [lia|].
  destruct r as [|y r']; cbn [String.length] in *; lia.
Qed.

Lemma length_trim_left s : String.length (trim_left s) <= String.length s.
Proof.
  induction s as [|x r IH]; cbn [trim_left String.length]; [lia|].
  destruct (is_ascii_space x); cbn [String.length]; lia.
Qed.

Lemma length_rev_acc s acc :
  String.length (rev_string_acc s acc) = String.length s + String.length acc.
Proof.
  revert acc; induction s as [|x r IH]; intros acc; cbn [rev_string_acc String.length]; [lia|].
  rewrite IH; cbn [String.length]; lia.
Qed.

Lemma length_rev s : String.length (rev_string s) = String.length s.
Proof. unfold rev_string; rewrite length_rev_acc; cbn [String.length]; lia. Qed.

Lemma length_trim_space s : String.length (trim_space s) <= String.length s.
Proof.
  unfold trim_space. rewrite length_rev.
  eapply Nat.le_trans; [apply length_trim_left|]. rewrite length_rev. apply length_trim_left.
Qed.

Lemma split_char_nonempty c s : split_char c s <> [].
Proof.
  destruct s as [|x r]; cbn [split_char]; [discriminate|].
  destruct (Ascii.eqb x c); [discriminate|]. destruct (split_char c r); discriminate.
Qed.

(* every part is no longer than the input; strictly shorter when the separator occurs *)
Lemma split_char_length c s p :
  In p (split_char c s) ->
  String.length p <= String.length s /\ (contains_char c s = true -> String.length p < String.length s).
Proof.
  revert p; induction s as [|x r IH]; intros p Hin.
  - cbn in Hin. destruct Hin as [<-|[]]. cbn. split; [lia|discriminate].
  - cbn [split_char] in Hin. cbn [contains_char String.length].
    destruct (Ascii.eqb x c) eqn:E.
    + destruct Hin as [<-|Hin]; cbn [String.length orb]; [split; intros; lia|].
      destruct (IH _ Hin) as [H1 _]. split; intros; lia.
    + cbn [orb]. destruct (split_char c r) as [|q qs] eqn:Es.
      * exfalso; eapply split_char_nonempty; eauto.
      * destruct Hin as [<-|Hin].
        -- destruct (IH q (or_introl eq_refl)) as [H1 H2]. cbn [String.length].
           split; [lia|]. intros Hc. specialize (H2 Hc). lia.
        -- destruct (IH p (or_intror Hin)) as [H1 H2]. split; [lia|]. intros Hc. specialize (H2 Hc). lia.
Qed.

Lemma contains_char_app c a b :
  contains_char c (a ++ b) = contains_char c a || contains_char c b.
Proof.
  induction a as [|x r IH]; cbn [append contains_char]; [reflexivity|].
  rewrite IH. apply orb_assoc.
Qed.

(* splitting a join of two separator-free parts gives the parts back *)
Lemma split_char_nosep c a :
  contains_char c a = false -> split_char c a = [a].
Proof.
  induction a as [|x r IH]; cbn [contains_char split_char]; [reflexivity|].
  intros H. apply orb_false_iff in H as [Hx Hr]. rewrite Hx, (IH Hr). reflexivity.
Qed.

Lemma split_char_join c a rest :
  contains_char c a = false ->
  split_char c (a ++ String c rest) = a :: split_char c rest.
Proof.
  induction a as [|x r IH]; cbn [contains_char append split_char]; intros H.
  - rewrite Ascii.eqb_refl. reflexivity.
  - apply orb_false_iff in H as [Hx Hr]. rewrite Hx, (IH Hr). reflexivity.
Qed.

Fixpoint join_char (c : ascii) (l : list string) : string :=
  match l with
  | [] => EmptyString
  | [a] => a
  | a :: r => a ++ String c (join_char c r)
  end.

Lemma split_char_join_all c l :
  l <> [] -> Forall (fun a => contains_char c a = false) l ->
  split_char c (join_char c l) = l.
Proof.
  induction l as [|a r IH]; intros Hne Hall; [congruence|].
  inversion Hall as [|? ? Ha Hr]; subst.
  destruct r as [|b r'].
  - cbn [join_char]. apply split_char_nosep; assumption.
  - change (join_char c (a :: b :: r')) with ((a ++ String c (join_char c (b :: r')))%string).
    rewrite split_char_join by assumption. f_equal. apply IH; [discriminate|assumption].
Qed.

Lemma contains_char_join c a b r :
  contains_char c (join_char c (a :: b :: r)) = true.
Proof.
  change (join_char c (a :: b :: r)) with ((a ++ String c (join_char c (b :: r)))%string).
  rewrite contains_char_app. cbn [contains_char]. rewrite Ascii.eqb_refl.
  cbn [orb]. apply orb_true_r.
Qed.

Lemma length_app a b : String.length (a ++ b) = String.length a + String.length b.
Proof. induction a as [|x r IH]; cbn [append String.length]; [reflexivity|]. rewrite IH; reflexivity. Qed.
