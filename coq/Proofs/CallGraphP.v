(* C24: one caller entry per call site, totals equal the number of call sites, callees are the calls of the body *)
From RT Require Import Model.CallGraph.

Lemma record_all_app ss : forall t,
  call_points (fold_left record ss t) = call_points t ++ map (fun s => (s_callee s, (s_row s, s_caller s))) (real_sites ss) /\
  callee_points (fold_left record ss t) = callee_points t ++ map (fun s => (s_caller s, (s_row s, s_callee s))) (real_sites ss).
Proof.
  induction ss as [|s r IH]; intros t; cbn [fold_left real_sites filter map]; [rewrite !app_nil_r; split; reflexivity|].
  destruct (IH (record t s)) as [H1 H2]. rewrite H1, H2. unfold record.
  destruct (s_check_round s && negb (s_condition_scan s)); cbn [call_points callee_points map];
    [rewrite <- !app_assoc; split; reflexivity | split; reflexivity].
Qed.

Theorem callers_exact ss k :
  callers_of (record_all ss) k = map (fun s => (s_row s, s_caller s)) (filter (fun s => mkey_eqb (s_callee s) k) (real_sites ss)).
Proof.
  unfold callers_of, record_all. destruct (record_all_app ss {| call_points := []; callee_points := [] |}) as [H _]. rewrite H. cbn [call_points app].
  clear H. generalize (real_sites ss). intros l. induction l as [|s r IH]; cbn [map filter fst]; [reflexivity|].
  destruct (mkey_eqb (s_callee s) k); cbn [map snd]; rewrite IH; reflexivity.
Qed.

Theorem callees_exact ss k :
  callees_of (record_all ss) k = map (fun s => (s_row s, s_callee s)) (filter (fun s => mkey_eqb (s_caller s) k) (real_sites ss)).
Proof.
  unfold callees_of, record_all. destruct (record_all_app ss {| call_points := []; callee_points := [] |}) as [_ H]. rewrite H. cbn [callee_points app].
  clear H. generalize (real_sites ss). intros l. induction l as [|s r IH]; cbn [map filter fst]; [reflexivity|].
  destruct (mkey_eqb (s_caller s) k); cbn [map snd]; rewrite IH; reflexivity.
Qed.

Theorem total_callers ss k :
  total (callers_of (record_all ss) k) = List.length (filter (fun s => mkey_eqb (s_callee s) k) (real_sites ss)).
Proof. rewrite callers_exact. unfold total. apply map_length. Qed.
