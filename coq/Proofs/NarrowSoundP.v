(* elsif chains of single tests of either polarity, on the same or on different variables: narrowing is SOUND — no
   branch loses a variant that can reach it (Model/Narrow.v, chain).  Exactness for positive chains is in
   NarrowElsifP.v. *)
From RT Require Import Model.Narrow Proofs.NarrowP Proofs.NarrowChainP Proofs.NarrowElsifP.

(* the test holds of a value of class v *)
Definition holds (t : test) (v : cls) : bool := if t_neg t then negb (String.eqb v (t_cls t)) else String.eqb v (t_cls t).
(* some test of pre on x holds of v: an earlier branch has taken v *)
Definition taken_by (pre : list test) (x : string) (v : cls) : bool :=
  existsb (fun t => String.eqb x (t_var t) && holds t v) pre.

Lemma taken_by_snoc pre t x v : taken_by (pre ++ [t]) x v = taken_by pre x v || (String.eqb x (t_var t) && holds t v).
Proof. unfold taken_by. rewrite existsb_app. cbn [existsb]. rewrite Bool.orb_false_r. reflexivity. Qed.

Lemma mem_in v l : mem v l = true <-> In v l.
Proof.
  unfold mem. rewrite existsb_exists. split.
  - intros [y [Hy E]]. apply String.eqb_eq in E. subst y. exact Hy.
  - intros H. exists v. split; [exact H | apply String.eqb_refl].
Qed.
Lemma in_minus v l ex : In v (minus l ex) <-> In v l /\ ~ In v ex.
Proof.
  unfold minus. rewrite filter_In. split; intros [H1 H2]; split; try exact H1.
  - intros H. apply mem_in in H. rewrite H in H2. discriminate.
  - destruct (mem v ex) eqn:E; [|reflexivity]. apply mem_in in E. contradiction.
Qed.

Record SInv (e0 : env) (pre : list test) (st : nrun) : Prop := {
  si_nd : NoDup (map fst (orig (snd (fst st))));
  si_orig : forall y, aget (orig (snd (fst st))) y = if tested pre y then Some (ty_of e0 y) else None;
  si_narrow : forall y v, In v (lst (narrow (snd (fst st))) y) -> taken_by pre y v = true;
  si_env : forall y, tested pre y = false -> ty_of (fst (fst st)) y = ty_of e0 y }.

(* what reaches a later branch is still there after `narrowing` *)
Lemma narrowed_sound e0 pre e s zs : SInv e0 pre (e, s, zs) ->
  forall y v, In v (ty_of e0 y) -> taken_by pre y v = false -> In v (ty_of (narrowing e s) y).
Proof.
  intros [Hnd Ho Hn He] y v Hv Ht. cbn [fst snd] in *.
  destruct (tested pre y) eqn:T.
  - rewrite (narrowing_at e s y (ty_of e0 y) Hnd) by (rewrite Ho, T; reflexivity).
    destruct (aget (narrow s) y) as [nv|] eqn:En; [|exact Hv].
    apply in_minus. split; [exact Hv|]. intros Hin.
    assert (Hl : In v (lst (narrow s) y)) by (unfold lst; rewrite En; exact Hin).
    rewrite (Hn y v Hl) in Ht. discriminate.
  - rewrite narrowing_other by (rewrite Ho, T; reflexivity). rewrite He by exact T. exact Hv.
Qed.

Lemma narrowed_untested e0 pre e s zs y : SInv e0 pre (e, s, zs) -> tested pre y = false ->
  ty_of (narrowing e s) y = ty_of e0 y.
Proof.
  intros [Hnd Ho Hn He] T. cbn [fst snd] in *.
  rewrite narrowing_other by (rewrite Ho, T; reflexivity). apply He. exact T.
Qed.

Definition orig_after (e : env) (s : nstate) (x : string) : amap vty :=
  match aget (orig s) x with Some _ => orig s | None => aset (orig s) x (ty_of (narrowing e s) x) end.

Lemma elsif_step_neg_eq e s zs t : t_neg t = true ->
  elsif_step true [t] (e, s, zs) =
  (aset (narrowing e s) (t_var t) (minus (minus (lst (orig_after e s (t_var t)) (t_var t)) [t_cls t]) (lst (narrow s) (t_var t))),
   {| orig := orig_after e s (t_var t);
      narrow := aset (narrow s) (t_var t) (minus (lst (orig_after e s (t_var t)) (t_var t)) [t_cls t]);
      ifn := [(t_var t, [t_cls t])]; conj := 1; excl := narrow s |},
   zs ++ [(t_var t, ty_of (narrowing e s) (t_var t))]).
Proof.
  intros Hp. unfold elsif_step, get_backup, reset_ifn, orig_after.
  cbn [scan orig narrow ifn conj excl List.length Nat.ltb Nat.leb andb fst snd app].
  unfold set_ctx. rewrite Hp. cbn [negb orig narrow ifn conj excl].
  assert (E : lst (aset [] (t_var t) (lst [] (t_var t) ++ [t_cls t])) (t_var t) = [t_cls t]).
  { unfold lst. cbn [aget aset app]. rewrite String.eqb_refl. reflexivity. }
  rewrite E. replace (aset [] (t_var t) (lst [] (t_var t) ++ [t_cls t])) with [(t_var t, [t_cls t])] by reflexivity.
  reflexivity.
Qed.

Lemma lst_orig_after e0 pre e s zs x : SInv e0 pre (e, s, zs) -> lst (orig_after e s x) x = ty_of e0 x.
Proof.
  intros H. pose proof (narrowed_untested e0 pre e s zs x H) as Hu.
  destruct H as [Hnd Ho Hn He]. cbn [fst snd] in *. unfold orig_after, lst.
  specialize (Ho x). destruct (aget (orig s) x) as [o|] eqn:E.
  - cbv iota. unfold vty in *. rewrite E. destruct (tested pre x); congruence.
  - rewrite aget_aset_same. apply Hu. destruct (tested pre x); [discriminate | reflexivity].
Qed.

Lemma orig_after_spec e0 pre e s zs t : SInv e0 pre (e, s, zs) ->
  NoDup (map fst (orig_after e s (t_var t))) /\
  forall y, aget (orig_after e s (t_var t)) y = if tested (pre ++ [t]) y then Some (ty_of e0 y) else None.
Proof.
  intros H. pose proof (narrowed_untested e0 pre e s zs (t_var t) H) as Hu.
  destruct H as [Hnd Ho Hn He]. cbn [fst snd] in *. unfold orig_after. split.
  - destruct (aget (orig s) (t_var t)); [exact Hnd | apply aset_keys_nodup; exact Hnd].
  - intros y. rewrite tested_snoc. destruct (String.eqb_spec y (t_var t)) as [->|N].
    + rewrite Bool.orb_true_r. pose proof (Ho (t_var t)) as Hx. destruct (aget (orig s) (t_var t)) as [o|] eqn:E.
      * cbv iota. unfold vty in *. rewrite E. destruct (tested pre (t_var t)); congruence.
      * rewrite aget_aset_same, Hu; [reflexivity|]. destruct (tested pre (t_var t)); [discriminate | reflexivity].
    + rewrite Bool.orb_false_r, <- (Ho y). destruct (aget (orig s) (t_var t)); [reflexivity | apply aget_aset_other; exact N].
Qed.

(* branch of test t after the tests of pre: nothing that can reach it is missing *)
Definition BranchSound (e0 : env) (pre : list test) (t : test) (b : env) : Prop :=
  forall y v, In v (ty_of e0 y) -> taken_by pre y v = false -> (y = t_var t -> holds t v = true) -> In v (ty_of b y).

Lemma elsif_step_sound e0 pre t st : SInv e0 pre st ->
  SInv e0 (pre ++ [t]) (elsif_step true [t] st) /\ BranchSound e0 pre t (fst (fst (elsif_step true [t] st))).
Proof.
  destruct st as [[e s] zs]. intros H.
  pose proof (narrowed_sound e0 pre e s zs H) as Hs.
  pose proof (narrowed_untested e0 pre e s zs) as Hu.
  pose proof (lst_orig_after e0 pre e s zs (t_var t) H) as Hl.
  destruct (orig_after_spec e0 pre e s zs t H) as [Hnd' Ho'].
  pose proof H as [Hnd Ho Hn He]. cbn [fst snd] in Hnd, Ho, Hn, He.
  destruct (t_neg t) eqn:Hp.
  - (* negated test *)
    rewrite (elsif_step_neg_eq e s zs t Hp). cbn [fst snd]. rewrite Hl.
    split; [constructor; cbn [fst snd orig narrow]|].
    + exact Hnd'.
    + exact Ho'.
    + intros y v Hin. rewrite taken_by_snoc. destruct (String.eqb_spec y (t_var t)) as [->|N].
      * unfold lst in Hin. rewrite aget_aset_same in Hin. apply in_minus in Hin as [_ Hne].
        cbn [andb]. unfold holds. rewrite Hp.
        destruct (String.eqb_spec v (t_cls t)) as [->|Nv]; [exfalso; apply Hne; left; reflexivity|].
        cbn [negb]. apply Bool.orb_true_r.
      * unfold lst in Hin. rewrite aget_aset_other in Hin by exact N. fold (lst (narrow s) y) in Hin.
        rewrite (Hn y v Hin). reflexivity.
    + intros y T. rewrite tested_snoc in T. apply Bool.orb_false_iff in T as [T1 T2].
      rewrite ty_of_aset_other by (apply String.eqb_neq; exact T2). apply Hu; [exact H | exact T1].
    + intros y v Hv Ht Hh. destruct (String.eqb_spec y (t_var t)) as [->|N].
      * rewrite ty_of_aset_same. apply in_minus. split.
        -- apply in_minus. split; [exact Hv|]. intros [E|[]]. specialize (Hh eq_refl). unfold holds in Hh. rewrite Hp in Hh.
           subst v. rewrite String.eqb_refl in Hh. discriminate.
        -- intros Hin. rewrite (Hn _ _ Hin) in Ht. discriminate.
      * rewrite ty_of_aset_other by exact N. apply Hs; assumption.
  - (* positive test *)
    rewrite (elsif_step_pos_eq e s zs t Hp). cbn [fst snd]. fold (orig_after e s (t_var t)).
    split; [constructor; cbn [fst snd orig narrow]|].
    + exact Hnd'.
    + exact Ho'.
    + intros y v Hin. rewrite taken_by_snoc. destruct (String.eqb_spec y (t_var t)) as [->|N].
      * unfold lst in Hin. rewrite aget_aset_same in Hin. fold (lst (narrow s) (t_var t)) in Hin.
        apply in_app_or in Hin as [Hin|[<-|[]]].
        -- rewrite (Hn _ _ Hin). reflexivity.
        -- cbn [andb]. unfold holds. rewrite Hp, String.eqb_refl. apply Bool.orb_true_r.
      * unfold lst in Hin. rewrite aget_aset_other in Hin by exact N. fold (lst (narrow s) y) in Hin.
        rewrite (Hn y v Hin). reflexivity.
    + intros y T. rewrite tested_snoc in T. apply Bool.orb_false_iff in T as [T1 T2].
      rewrite ty_of_aset_other by (apply String.eqb_neq; exact T2). apply Hu; [exact H | exact T1].
    + intros y v Hv Ht Hh. destruct (String.eqb_spec y (t_var t)) as [->|N].
      * rewrite ty_of_aset_same. specialize (Hh eq_refl). unfold holds in Hh. rewrite Hp in Hh. apply String.eqb_eq in Hh. left. symmetry. exact Hh.
      * rewrite ty_of_aset_other by exact N. apply Hs; assumption.
Qed.

Fixpoint branches_sound (e0 : env) (pre ts : list test) (brs : list env) : Prop :=
  match ts, brs with
  | [], [] => True
  | t :: r, b :: br => BranchSound e0 pre t b /\ branches_sound e0 (pre ++ [t]) r br
  | _, _ => False
  end.

Lemma chain_from_sound e0 ts : forall pre st acc, SInv e0 pre st ->
  exists brs, fst (chain_from true (map (fun t => [t]) ts) st acc) = acc ++ brs /\ branches_sound e0 pre ts brs /\
              SInv e0 (pre ++ ts) (snd (chain_from true (map (fun t => [t]) ts) st acc)).
Proof.
  induction ts as [|t r IH]; intros pre st acc H; cbn [map chain_from fst snd].
  - exists []. rewrite !app_nil_r. split; [reflexivity|]. split; [exact Logic.I | exact H].
  - destruct (elsif_step_sound e0 pre t st H) as [H1 H2].
    destruct (IH (pre ++ [t]) (elsif_step true [t] st) (acc ++ [fst (fst (elsif_step true [t] st))]) H1) as [brs [E [B I]]].
    exists (fst (fst (elsif_step true [t] st)) :: brs). rewrite E, <- app_assoc. cbn [app branches_sound].
    split; [reflexivity|]. split; [split; [exact H2 | exact B]|]. rewrite <- app_assoc in I. exact I.
Qed.

Lemma sinv_start e : SInv e [] (e, empty_state, []).
Proof. constructor; cbn; intros; try reflexivity; try contradiction. constructor. Qed.

(* `if t0; elsif t1; ...; [else;] end`, every test of either polarity, on any variables: a variant of a variable that
   no earlier branch has taken (and that passes the branch's own test, if the test is on this variable) is in the
   variable's type in that branch; a variant that no branch has taken is in its type in the else branch *)
Theorem elsif_chain_sound t0 ts he e :
  exists brs ee ea, chain true [t0] (map (fun t => [t]) ts) he e = (brs, ee, ea) /\
    branches_sound e [] (t0 :: ts) brs /\
    (he = true -> exists b, ee = Some b /\
       forall y v, In v (ty_of e y) -> taken_by (t0 :: ts) y v = false -> In v (ty_of b y)).
Proof.
  unfold chain. rewrite <- first_step.
  destruct (chain_from_sound e (t0 :: ts) [] (e, empty_state, []) [] (sinv_start e)) as [brs [E [B I]]].
  cbn [map chain_from app] in E, I.
  destruct (chain_from true (map (fun t => [t]) ts) (elsif_step true [t0] (e, empty_state, []))
              [fst (fst (elsif_step true [t0] (e, empty_state, [])))]) as [brs' [[e1 s1] zs]].
  cbn [fst snd] in E, I. subst brs'.
  eexists _, _, _. split; [reflexivity|]. split; [exact B|].
  intros ->. eexists. split; [reflexivity|]. intros y v Hv Ht.
  assert (I' : SInv e (t0 :: ts) (e1, reset_ifn s1, zs)) by (destruct I as [a b c d]; constructor; assumption).
  exact (narrowed_sound e (t0 :: ts) e1 (reset_ifn s1) zs I' y v Hv Ht).
Qed.
