(* C26: the emitted declaration has the shape of the C binding; a positional declaration accepts exactly the
   counts in its range (through checkAndPropagateArgs, via ArgsP.check_args_positional). *)
From RT Require Import Model.C2Json Model.Args Proofs.ArgsP.
From Coq Require Import Lia.
Local Infix "+++" := String.append (right associativity, at level 60).

(* ---- the format path: the declaration has the shape of the format ---- *)
Lemma fmt_type_not_special c t : fmt_type c = Some t ->
  Ascii.eqb c "|" = false /\ Ascii.eqb c "*" = false /\ Ascii.eqb c "&" = false.
Proof.
  intros H. repeat split.
  - destruct (Ascii.eqb c "|") eqn:E; [|reflexivity]. apply Ascii.eqb_eq in E; subst c. vm_compute in H. discriminate.
  - destruct (Ascii.eqb c "*") eqn:E; [|reflexivity]. apply Ascii.eqb_eq in E; subst c. vm_compute in H. discriminate.
  - destruct (Ascii.eqb c "&") eqn:E; [|reflexivity]. apply Ascii.eqb_eq in E; subst c. vm_compute in H. discriminate.
Qed.

Lemma fmt_type_plain c t : fmt_type c = Some t -> is_opt_type t = false /\ is_block_decl t = false.
Proof.
  unfold fmt_type. repeat match goal with |- context [if ?b then _ else _] => destruct b end;
    intros H; inversion H; subst; split; reflexivity.
Qed.

(* a format in which `*` is not followed by further argument letters (mruby's `*` takes all that is left) *)
Fixpoint rest_last (seen : bool) (s : string) : bool :=
  match s with
  | EmptyString => true
  | String c r => match fmt_type c with
                  | Some _ => negb seen && rest_last seen r
                  | None => rest_last (seen || Ascii.eqb c "*") r
                  end
  end.

Lemma infer_fmt_shape s : forall opt seen acc, rest_last seen s = true -> sh_rest acc = seen ->
  decl_shape seen (infer_fmt opt s) acc = fmt_shape opt s acc.
Proof.
  induction s as [|c r IH]; intros opt seen acc Hr Ha; cbn [infer_fmt fmt_shape decl_shape]; [reflexivity|].
  cbn [rest_last] in Hr. destruct (fmt_type c) as [t|] eqn:Et.
  - apply andb_true_iff in Hr as [Hs Hr]. apply negb_true_iff in Hs. subst seen.
    destruct (fmt_type_plain c t Et) as [Ho Hb]. cbn [decl_shape]. cbn [String.eqb].
    destruct opt.
    + replace (String.eqb "" "*args") with false by reflexivity.
      assert (Hb2 : is_block_decl ("?" +++ t) = false).
      { unfold is_block_decl. unfold fmt_type in Et.
        repeat match type of Et with context [if ?b then _ else _] => destruct b end; inversion Et; reflexivity. }
      rewrite Hb2. cbn [is_opt_type String.append]. rewrite Ascii.eqb_refl.
      apply IH; [exact Hr | cbn; exact Ha].
    + replace (String.eqb "" "*args") with false by reflexivity. rewrite Hb, Ho.
      apply IH; [exact Hr | cbn; exact Ha].
  - destruct (Ascii.eqb c "|") eqn:E1.
    { apply IH; [|exact Ha]. apply Ascii.eqb_eq in E1; subst c. cbn in Hr. rewrite orb_false_r in Hr. exact Hr. }
    destruct (Ascii.eqb c "*") eqn:E2.
    { cbn [decl_shape]. rewrite String.eqb_refl. apply IH; [|reflexivity]. rewrite orb_true_r in Hr. exact Hr. }
    rewrite orb_false_r in Hr.
    destruct (Ascii.eqb c "&") eqn:E3.
    { cbn [decl_shape]. replace (String.eqb "" "*args") with false by reflexivity.
      replace (is_block_decl "DefaultBlock") with true by reflexivity. apply IH; assumption. }
    apply IH; assumption.
Qed.

(* ---- the MRB_ARGS path ---- *)
Lemma decl_shape_repeat_req n : forall l acc, sh_rest acc = false ->
  decl_shape false (repeat ("Untyped"%string, ""%string) n ++ l) acc =
  decl_shape false l {| sh_req := n + sh_req acc; sh_opt := sh_opt acc; sh_rest := sh_rest acc; sh_post := sh_post acc |}.
Proof.
  induction n as [|n IH]; intros l acc Ha; cbn [repeat app]; [destruct acc; reflexivity|].
  cbn [decl_shape]. replace (String.eqb "" "*args") with false by reflexivity.
  replace (is_block_decl "Untyped") with false by reflexivity. replace (is_opt_type "Untyped") with false by reflexivity.
  rewrite IH by exact Ha. cbn. f_equal. f_equal. lia.
Qed.
Lemma decl_shape_repeat_opt n : forall seen l acc,
  decl_shape seen (repeat ("?Untyped"%string, ""%string) n ++ l) acc =
  decl_shape seen l {| sh_req := sh_req acc; sh_opt := n + sh_opt acc; sh_rest := sh_rest acc; sh_post := sh_post acc |}.
Proof.
  induction n as [|n IH]; intros seen l acc; cbn [repeat app]; [destruct acc; reflexivity|].
  cbn [decl_shape]. replace (String.eqb "" "*args") with false by reflexivity.
  replace (is_block_decl "?Untyped") with false by reflexivity. replace (is_opt_type "?Untyped") with true by reflexivity.
  rewrite IH. cbn. f_equal. f_equal. lia.
Qed.
Lemma decl_shape_repeat_post n : forall l acc,
  decl_shape true (repeat ("Untyped"%string, ""%string) n ++ l) acc =
  decl_shape true l {| sh_req := sh_req acc; sh_opt := sh_opt acc; sh_rest := sh_rest acc; sh_post := n + sh_post acc |}.
Proof.
  induction n as [|n IH]; intros l acc; cbn [repeat app]; [destruct acc; reflexivity|].
  cbn [decl_shape]. replace (String.eqb "" "*args") with false by reflexivity.
  replace (is_block_decl "Untyped") with false by reflexivity. replace (is_opt_type "Untyped") with false by reflexivity.
  rewrite IH. cbn. f_equal. f_equal. lia.
Qed.

(* POST makes sense after REST only (MRB_ARGS_POST: "required arguments after the rest") *)
Definition aspec_ok (a : aspec) : bool := a_rest a || Nat.eqb (a_post a) 0.

Lemma infer_counts_shape a : aspec_ok a = true ->
  decl_shape false (infer_counts a) empty_shape =
  {| sh_req := a_req a; sh_opt := a_opt a; sh_rest := a_rest a; sh_post := a_post a |}.
Proof.
  intros Hok. unfold infer_counts. rewrite decl_shape_repeat_req by reflexivity. rewrite decl_shape_repeat_opt.
  cbn [sh_req sh_opt sh_rest sh_post empty_shape]. unfold aspec_ok in Hok.
  destruct (a_rest a) eqn:Er.
  - cbn [app decl_shape]. rewrite String.eqb_refl. rewrite decl_shape_repeat_post.
    destruct (a_block a); cbn; f_equal; lia.
  - cbn [orb] in Hok. apply Nat.eqb_eq in Hok. rewrite Hok. cbn [app repeat].
    destruct (a_block a); cbn; f_equal; lia.
Qed.

Theorem infer_shape_aspec a gets guards : aspec_ok a = true ->
  (a_none a || a_any a || negb (Nat.eqb (a_req a) 0 && Nat.eqb (a_opt a) 0 && negb (a_rest a) && Nat.eqb (a_post a) 0 && negb (a_block a))
   || Nat.eqb (List.length gets) 0) = true ->
  decl_shape false (infer_arguments a None gets guards) empty_shape = aspec_shape a.
Proof.
  intros Hok H. unfold infer_arguments, aspec_shape.
  destruct (a_none a); [reflexivity|]. destruct (a_any a); [reflexivity|]. cbn [orb] in H.
  destruct (Nat.eqb (a_req a) 0 && Nat.eqb (a_opt a) 0 && negb (a_rest a) && Nat.eqb (a_post a) 0 && negb (a_block a)) eqn:En;
    cbn [negb orb andb] in *.
  - apply Nat.eqb_eq in H. destruct gets; [|discriminate]. cbn [List.length Nat.ltb Nat.leb]. apply infer_counts_shape; exact Hok.
  - apply infer_counts_shape; exact Hok.
Qed.

Theorem infer_shape_fmt a f gets guards : a_none a = false -> a_any a = false -> rest_last false f = true ->
  decl_shape false (infer_arguments a (Some f) gets guards) empty_shape = fmt_shape false f empty_shape.
Proof.
  intros H1 H2 Hr. unfold infer_arguments. rewrite H1, H2. apply infer_fmt_shape; [exact Hr | reflexivity].
Qed.

(* ---- a positional declaration (no rest) through checkAndPropagateArgs ---- *)
Section Positional.
  Variables (U Uo : ty).
  Hypothesis HU : is_any_type U = true.
  Hypothesis HUo : is_any_type Uo = true.
  Hypothesis HdU : has_default U = false.
  Hypothesis HdUo : has_default Uo = true.

  Lemma nth_repeat_app (n m i : nat) : nth i (repeat U n ++ repeat Uo m) zero_ty = if Nat.ltb i n then U else if Nat.ltb i (n + m) then Uo else zero_ty.
  Proof.
    destruct (Nat.ltb i n) eqn:E1.
    - apply Nat.ltb_lt in E1. rewrite app_nth1 by (rewrite repeat_length; exact E1). apply nth_repeat_lt || (revert i E1; induction n; intros [|i] H; cbn; try lia; try reflexivity; apply IHn; lia).
    - apply Nat.ltb_ge in E1. rewrite app_nth2 by (rewrite repeat_length; exact E1). rewrite repeat_length.
      destruct (Nat.ltb i (n + m)) eqn:E2.
      + apply Nat.ltb_lt in E2. assert (Hlt : i - n < m) by lia. revert Hlt. generalize (i - n). clear. intros j; revert j. induction m; intros [|j] H; cbn; try lia; try reflexivity. apply IHm; lia.
      + apply Nat.ltb_ge in E2. apply nth_overflow. rewrite repeat_length. lia.
  Qed.

  Lemma any_admits a : check_arg_type fixed_args U a = true /\ check_arg_type fixed_args Uo a = true.
  Proof. unfold check_arg_type. rewrite HU, HUo. destruct (is_block_type a); split; reflexivity. Qed.

  Theorem positional_arity req opt args :
    pos_spec true false (repeat U req ++ repeat Uo opt) args = COk <-> req <= List.length args <= req + opt.
  Proof.
    set (ptys := repeat U req ++ repeat Uo opt).
    assert (Hlen : List.length ptys = req + opt) by (unfold ptys; rewrite app_length, !repeat_length; reflexivity).
    split.
    - intros H. split.
      + destruct (le_lt_dec req (List.length args)) as [Hle|Hlt]; [exact Hle|]. exfalso.
        destruct (positional_too_few ptys args) as [k Hk]; [|rewrite Hk in H; discriminate].
        exists (List.length args). split; [lia|]. unfold ptys. rewrite nth_repeat_app.
        replace (Nat.ltb (List.length args) req) with true by (symmetry; apply Nat.ltb_lt; exact Hlt). exact HdU.
      + destruct (le_lt_dec (List.length args) (req + opt)) as [Hle|Hlt]; [exact Hle|]. exfalso.
        destruct (positional_too_many ptys args) as [k Hk]; [lia | rewrite Hk in H; discriminate].
    - intros [H1 H2]. apply positional_accepts; [lia| |].
      + intros i Hi. unfold ptys. rewrite nth_repeat_app.
        destruct (Nat.ltb i req); [apply any_admits|]. destruct (Nat.ltb i (req + opt)) eqn:E2; [apply any_admits|].
        apply Nat.ltb_ge in E2. exfalso. (* i < |args| <= req + opt: not reached *) lia.
      + intros i Hi. unfold ptys. rewrite nth_repeat_app.
        replace (Nat.ltb i req) with false by (symmetry; apply Nat.ltb_ge; lia).
        replace (Nat.ltb i (req + opt)) with true by (symmetry; apply Nat.ltb_lt; lia). exact HdUo.
  Qed.
End Positional.
