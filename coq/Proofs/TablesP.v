(* Obligations over the regenerated tables (Generated.v): the hand-written model constants are the
   ones the current source declares.  Each is a finite fact re-proved by vm_compute on every run. *)
From Coq Require Import String.
From RT Require Import Model.Ty Model.Lexer Model.Parser Generated.
Open Scope N_scope.

Definition subset (a b : list N) : bool := forallb (fun c => existsb (N.eqb c) b) a.
Definition same_set (a b : list N) : bool := subset a b && subset b a.

(* lexer.Advance's single-rune token clause *)
Lemma tbl_single_tokens : same_set single_tokens lexer_single_tokens = true /\ lexer_emits_dot = true.
Proof. vm_compute. split; reflexivity. Qed.

(* parser.Read's punctuation clause (repaired code: includes the backtick) *)
Lemma tbl_read_puncts : same_set (ch_btick :: read_puncts) parser_puncts = true.
Proof. vm_compute. reflexivity. Qed.

(* every rune the lexer can emit as its own token is accepted by parser.Read *)
Lemma tbl_lexer_subset_parser : subset (ch_dot :: lexer_single_tokens) parser_puncts = true.
Proof. vm_compute. reflexivity. Qed.

(* isIdentifierChar's excluded runes *)
Definition model_ident_nonchars : list N :=
  [ch_nl; ch_lp; ch_rp; ch_comma; ch_dot; ch_lc; ch_rc; ch_eq; ch_lb; ch_rb; ch_bar; ch_amp; ch_caret; ch_semi; 0].
Lemma tbl_ident_nonchars : same_set model_ident_nonchars ident_nonchars = true.
Proof. vm_compute. reflexivity. Qed.

(* reserved words of the lexer *)
Lemma tbl_reserved : reserved_words = [("nil"%string, "base.NIL"%string)].
Proof. vm_compute. reflexivity. Qed.

(* token constants *)
Lemma tbl_token_consts :
  forallb (fun kv => match kv with
                     | ("EOS"%string, v) => Z.eqb v T_EOS | ("NIL"%string, v) => Z.eqb v T_NIL
                     | ("INT"%string, v) => Z.eqb v T_INT | ("UNKNOWN"%string, v) => Z.eqb v T_UNKNOWN
                     | ("STRING"%string, v) => Z.eqb v T_STRING | ("FLOAT"%string, v) => Z.eqb v T_FLOAT
                     | _ => true end) token_consts = true.
Proof. vm_compute. reflexivity. Qed.

(* Go's unicode tables satisfy what the lexer theorems assume of them *)
Lemma go_space_0 : go_is_space 0 = false. Proof. vm_compute. reflexivity. Qed.
Lemma go_digit_0 : go_is_digit 0 = false. Proof. vm_compute. reflexivity. Qed.
Lemma go_space_dot : go_is_space ch_dot = false. Proof. vm_compute. reflexivity. Qed.
Lemma go_digit_plain : forall c, go_is_digit c = true ->
  ((c =? 120) || (c =? 111) || (c =? 98)) = false /\ (c =? ch_under) = false /\ (c =? ch_dot) = false.
Proof.
  intros c Hc.
  assert (H : forall k, go_is_digit k = false -> (c =? k) = false).
  { intros k Hk. destruct (c =? k) eqn:E; [|reflexivity]. apply N.eqb_eq in E. subst k. congruence. }
  rewrite (H 120), (H 111), (H 98), (H ch_under), (H ch_dot) by (vm_compute; reflexivity).
  repeat split.
Qed.

(* every type tag the source declares has a case in TypeToString (no `type convert error`), and the model's tag
   type has exactly the declared tags *)
Definition tag_name (t : Model.Ty.tag) : string :=
  match t with
  | Model.Ty.NIL => "NIL" | Model.Ty.INT => "INT" | Model.Ty.UNKNOWN => "UNKNOWN" | Model.Ty.STRING => "STRING"
  | Model.Ty.BOOL => "BOOL" | Model.Ty.FLOAT => "FLOAT" | Model.Ty.UNTYPED => "UNTYPED" | Model.Ty.ARRAY => "ARRAY"
  | Model.Ty.HASH => "HASH" | Model.Ty.UNION => "UNION" | Model.Ty.OBJECT => "OBJECT" | Model.Ty.BLOCK => "BLOCK"
  | Model.Ty.CLASS => "CLASS" | Model.Ty.SELF => "SELF" | Model.Ty.SYMBOL => "SYMBOL" | Model.Ty.KEYVALUE => "KEYVALUE"
  | Model.Ty.CONST => "CONST" | Model.Ty.RANGE => "RANGE" | Model.Ty.UNIFY => "UNIFY"
  | Model.Ty.OPTIONAL_UNIFY => "OPTIONAL_UNIFY" | Model.Ty.BLOCK_RESULT_ARRAY => "BLOCK_RESULT_ARRAY"
  | Model.Ty.SELF_ARRAY => "SELF_ARRAY" | Model.Ty.ARGUMENT => "ARGUMENT" | Model.Ty.UNIFY_ARGUMENT => "UNIFY_ARGUMENT"
  | Model.Ty.KEYVALUE_ARRAY => "KEYVALUE_ARRAY" | Model.Ty.FLATTEN => "FLATTEN" | Model.Ty.ITEM => "ITEM"
  | Model.Ty.OWNER => "OWNER"
  end.

Lemma tbl_type_tags :
  type_const_names = "EOS"%string :: map tag_name Model.Ty.all_tags /\
  forallb (fun n => existsb (String.eqb n) type_to_string_cases) (map tag_name Model.Ty.all_tags) = true.
Proof. vm_compute. split; reflexivity. Qed.
