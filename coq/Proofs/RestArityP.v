(* C25 / C26: the counts accepted by checkAndPropagateArgs for a configured declaration
   required ++ [rest] ++ trailing  (no optional parameters): exactly |required| + |trailing| or more. *)
From RT Require Import Model.Args Proofs.ArgsP.
From Coq Require Import Lia.

Section Rest.
  Variable t : tbl.
  (* a plain parameter declared with a type that admits everything and without a default *)
  Definition req_any (d : string) : bool :=
    plain_name d && match tget t d with
                    | Some dt => is_builtin dt && negb (tag_is UNKNOWN dt) && is_any_type dt && negb (has_default dt)
                    | None => false
                    end.

  Lemma req_any_step cr d rest s : req_any d = true -> forallb plain_arg (w_args s) = true -> w_tbl s = t ->
    walk_step fixed_args cr d rest s =
      if Nat.ltb (w_idx s) (List.length (w_args s))
      then SNext {| w_args := w_args s; w_idx := S (w_idx s); w_aster := w_aster s; w_tbl := w_tbl s |}
      else if cr then SErr ETooFew
           else SBreak {| w_args := w_args s; w_idx := w_idx s; w_aster := w_aster s; w_tbl := w_tbl s |}.
  Proof.
    intros H Ha Ht. unfold req_any in H. apply andb_true_iff in H as [Hp H].
    destruct (tget t d) as [dt|] eqn:Et; [|discriminate].
    apply andb_true_iff in H as [H Hd]. apply andb_true_iff in H as [H Hany]. apply andb_true_iff in H as [Hb Hu].
    apply negb_true_iff in Hu, Hd.
    unfold plain_name in Hp. apply andb_true_iff in Hp as [Hp H4]. apply andb_true_iff in Hp as [Hp H3]. apply andb_true_iff in Hp as [H1 H2].
    apply negb_true_iff in H1, H2, H3.
    rewrite (walk_step_plain cr d rest s dt H3 H2 H1 ltac:(rewrite Ht; exact Et) Hb Hu Ha).
    unfold check_arg_type. rewrite Hany, Hd. cbn [orb].
    destruct (Nat.ltb (w_idx s) (List.length (w_args s))); [|reflexivity].
    destruct (is_block_type (nth (w_idx s) (w_args s) zero_ty)); reflexivity.
  Qed.

  (* walking required parameters: each takes an argument while there are any *)
  Lemma walk_required cr P : forall rest s, forallb req_any P = true -> forallb plain_arg (w_args s) = true -> w_tbl s = t ->
    w_idx s + List.length P <= List.length (w_args s) ->
    walk fixed_args cr (P ++ rest) s =
    walk fixed_args cr rest {| w_args := w_args s; w_idx := w_idx s + List.length P; w_aster := w_aster s; w_tbl := w_tbl s |}.
  Proof.
    induction P as [|d P IH]; intros rest s Hp Ha Ht Hlen; cbn [app List.length].
    - rewrite Nat.add_0_r. destruct s; reflexivity.
    - cbn [forallb] in Hp. apply andb_true_iff in Hp as [Hd Hp]. cbn [walk].
      rewrite (req_any_step cr d (P ++ rest) s Hd Ha Ht).
      simpl List.length in Hlen.
      assert (E : Nat.ltb (w_idx s) (List.length (w_args s)) = true) by (apply Nat.ltb_lt; lia). rewrite E.
      rewrite (IH rest {| w_args := w_args s; w_idx := S (w_idx s); w_aster := w_aster s; w_tbl := w_tbl s |} Hp Ha Ht ltac:(cbn [w_idx w_args]; lia)).
      cbn [w_args w_idx w_aster w_tbl]. f_equal. f_equal. lia.
  Qed.

  Lemma walk_required_all cr P s : forallb req_any P = true -> forallb plain_arg (w_args s) = true -> w_tbl s = t ->
    w_idx s + List.length P <= List.length (w_args s) ->
    walk fixed_args cr P s = (COk, {| w_args := w_args s; w_idx := w_idx s + List.length P; w_aster := w_aster s; w_tbl := w_tbl s |}).
  Proof. intros H1 H2 H3 H4. pose proof (walk_required cr P [] s H1 H2 H3 H4) as H. rewrite app_nil_r in H. exact H. Qed.

  Lemma walk_required_short P : forall rest s, forallb req_any P = true -> forallb plain_arg (w_args s) = true -> w_tbl s = t ->
    w_idx s <= List.length (w_args s) -> List.length (w_args s) < w_idx s + List.length P ->
    fst (walk fixed_args true (P ++ rest) s) = CErr ETooFew.
  Proof.
    induction P as [|d P IH]; intros rest s Hp Ha Ht Hi Hlen; cbn [app List.length] in *; [lia|].
    cbn [forallb] in Hp. apply andb_true_iff in Hp as [Hd Hp]. cbn [walk].
    rewrite (req_any_step true d (P ++ rest) s Hd Ha Ht).
    destruct (Nat.ltb (w_idx s) (List.length (w_args s))) eqn:E; [|reflexivity].
    apply Nat.ltb_lt in E. apply IH; cbn [w_args w_idx w_tbl]; try assumption; lia.
  Qed.

  Lemma take_while_plain l : forallb plain_arg l = true -> take_while (fun a => negb (is_keyvalue_type a)) l = l.
  Proof.
    induction l as [|a r IH]; cbn [forallb take_while]; [reflexivity|]. intros H. apply andb_true_iff in H as [Ha Hr].
    unfold plain_arg in Ha. apply andb_true_iff in Ha as [Hk _]. rewrite Hk, IH by exact Hr. reflexivity.
  Qed.
  Lemma forallb_skipn {A} (p : A -> bool) n l : forallb p l = true -> forallb p (skipn n l) = true.
  Proof. revert l; induction n as [|n IH]; intros [|x r] H; cbn [skipn]; try exact H. cbn [forallb] in H. apply andb_true_iff in H as [_ H]. apply IH; exact H. Qed.
  Lemma filter_req Q : forallb req_any Q = true ->
    List.length (filter (fun x => negb (is_key_suffix x) && negb (rest_skips_defaults fixed_args && opt_has_default (tget t x))) Q) = List.length Q.
  Proof.
    induction Q as [|d Q IH]; cbn [forallb filter]; [reflexivity|]. intros H. apply andb_true_iff in H as [Hd HQ].
    unfold req_any in Hd. apply andb_true_iff in Hd as [Hp Hd]. unfold plain_name in Hp.
    apply andb_true_iff in Hp as [Hp _]. apply andb_true_iff in Hp as [Hp _]. apply andb_true_iff in Hp as [H1 _].
    destruct (tget t d) as [dt|]; [|discriminate]. apply andb_true_iff in Hd as [_ Hd]. apply negb_true_iff in Hd.
    rewrite H1. cbn [opt_has_default]. rewrite Hd, Bool.andb_false_r. cbn [negb andb List.length]. rewrite IH by exact HQ. reflexivity.
  Qed.

  Variable star : string.
  Hypothesis Hstar : is_star star = true.
  Hypothesis Hnd : is_dstar star = false.
  (* the rest parameter is declared by the configuration: its entry stays (repaired code) *)
  Hypothesis Hdecl : match tget t (drop1 star) with Some dt => is_builtin dt | None => false end = true.

  Lemma star_step cr Q s : forallb req_any Q = true -> forallb plain_arg (w_args s) = true -> w_tbl s = t ->
    w_idx s <= List.length (w_args s) ->
    walk_step fixed_args cr star Q s =
    SNext {| w_args := w_args s;
             w_idx := if Nat.leb (List.length (w_args s) - w_idx s) (List.length Q) then w_idx s
                      else w_idx s + (List.length (w_args s) - w_idx s - List.length Q);
             w_aster := true; w_tbl := t |}.
  Proof.
    intros HQ Ha Ht Hi. unfold walk_step. rewrite Hnd, Hstar.
    replace (Nat.ltb (List.length (w_args s)) (w_idx s)) with false by (symmetry; apply Nat.ltb_ge; exact Hi).
    rewrite Ht, (filter_req Q HQ), (take_while_plain _ (forallb_skipn _ _ _ Ha)), skipn_length.
    destruct (tget t (drop1 star)) as [dt|]; [|discriminate]. rewrite Hdecl.
    destruct (Nat.leb (List.length (w_args s) - w_idx s) (List.length Q)); reflexivity.
  Qed.

  (* the whole declaration: required ++ [rest] ++ trailing *)
  Theorem rest_arity P Q args :
    forallb req_any P = true -> forallb req_any Q = true -> forallb plain_arg args = true ->
    (fst (walk fixed_args true (P ++ star :: Q) {| w_args := args; w_idx := 0; w_aster := false; w_tbl := t |}) = COk
     <-> List.length P + List.length Q <= List.length args).
  Proof.
    intros HP HQ Ha.
    set (s0 := {| w_args := args; w_idx := 0; w_aster := false; w_tbl := t |}).
    destruct (le_lt_dec (List.length P) (List.length args)) as [Hle|Hlt].
    - rewrite (walk_required true P (star :: Q) s0 HP Ha eq_refl ltac:(cbn; lia)). cbn [w_args w_idx w_aster w_tbl s0 walk Nat.add].
      set (s1 := {| w_args := args; w_idx := List.length P; w_aster := false; w_tbl := t |}).
      rewrite (star_step true Q s1 HQ Ha eq_refl ltac:(cbn; lia)). cbn [w_args w_idx s1].
      destruct (Nat.leb (List.length args - List.length P) (List.length Q)) eqn:E.
      + apply Nat.leb_le in E.
        set (s2 := {| w_args := args; w_idx := List.length P; w_aster := true; w_tbl := t |}).
        destruct (le_lt_dec (List.length P + List.length Q) (List.length args)) as [H2|H2].
        * rewrite <- (app_nil_r Q) at 1. rewrite (walk_required true Q [] s2 HQ Ha eq_refl ltac:(cbn; lia)). cbn [walk fst]. split; [intros _; exact H2 | reflexivity].
        * rewrite <- (app_nil_r Q) at 1. rewrite (walk_required_short Q [] s2 HQ Ha eq_refl ltac:(cbn; lia) ltac:(cbn; lia)). split; [discriminate | lia].
      + apply Nat.leb_gt in E.
        set (s2 := {| w_args := args; w_idx := List.length P + (List.length args - List.length P - List.length Q); w_aster := true; w_tbl := t |}).
        rewrite <- (app_nil_r Q) at 1. rewrite (walk_required true Q [] s2 HQ Ha eq_refl ltac:(cbn; lia)). cbn [walk fst]. split; [intros _; lia | reflexivity].
    - rewrite (walk_required_short P (star :: Q) s0 HP Ha eq_refl ltac:(cbn; lia) ltac:(cbn; lia)). split; [discriminate | lia].
  Qed.

  (* ... and when it succeeds the walk has met the rest parameter, so the surplus is not `too many arguments` *)
  Lemma rest_walk_ok P Q args :
    forallb req_any P = true -> forallb req_any Q = true -> forallb plain_arg args = true ->
    List.length P + List.length Q <= List.length args ->
    exists s', walk fixed_args true (P ++ star :: Q) {| w_args := args; w_idx := 0; w_aster := false; w_tbl := t |} = (COk, s')
               /\ w_aster s' = true /\ w_tbl s' = t.
  Proof.
    intros HP HQ Ha Hlen.
    set (s0 := {| w_args := args; w_idx := 0; w_aster := false; w_tbl := t |}).
    rewrite (walk_required true P (star :: Q) s0 HP Ha eq_refl ltac:(cbn; lia)). cbn [w_args w_idx w_aster w_tbl s0 walk Nat.add].
    set (s1 := {| w_args := args; w_idx := List.length P; w_aster := false; w_tbl := t |}).
    rewrite (star_step true Q s1 HQ Ha eq_refl ltac:(cbn; lia)). cbn [w_args w_idx s1].
    destruct (Nat.leb (List.length args - List.length P) (List.length Q)) eqn:E.
    - apply Nat.leb_le in E.
      set (s2 := {| w_args := args; w_idx := List.length P; w_aster := true; w_tbl := t |}).
      rewrite (walk_required_all true Q s2 HQ Ha eq_refl ltac:(cbn; lia)).
      eexists. split; [reflexivity | split; reflexivity].
    - apply Nat.leb_gt in E.
      set (s2 := {| w_args := args; w_idx := List.length P + (List.length args - List.length P - List.length Q); w_aster := true; w_tbl := t |}).
      rewrite (walk_required_all true Q s2 HQ Ha eq_refl ltac:(cbn; lia)).
      eexists. split; [reflexivity | split; reflexivity].
  Qed.

  (* ---- trailing parameters with a default (the `?Block` that closes a configured signature) after the trailing
     required ones: they reserve no argument (repaired code) and are satisfied by their default *)
  Definition opt_def (d : string) : bool :=
    plain_name d && match tget t d with
                    | Some dt => is_builtin dt && negb (tag_is UNKNOWN dt) && has_default dt
                    | None => false
                    end.

  Lemma filter_defaults D : forallb opt_def D = true ->
    filter (fun x => negb (is_key_suffix x) && negb (rest_skips_defaults fixed_args && opt_has_default (tget t x))) D = [].
  Proof.
    induction D as [|d D IH]; cbn [forallb filter]; [reflexivity|]. intros H. apply andb_true_iff in H as [Hd HD].
    unfold opt_def in Hd. apply andb_true_iff in Hd as [_ Hd]. destruct (tget t d) as [dt|]; [|discriminate].
    apply andb_true_iff in Hd as [_ Hd]. cbn [opt_has_default rest_skips_defaults fixed_args andb]. rewrite Hd.
    cbn [negb]. rewrite Bool.andb_false_r. apply IH. exact HD.
  Qed.

  Lemma star_step_defaults cr Q D s : forallb req_any Q = true -> forallb opt_def D = true ->
    forallb plain_arg (w_args s) = true -> w_tbl s = t -> w_idx s <= List.length (w_args s) ->
    walk_step fixed_args cr star (Q ++ D) s =
    SNext {| w_args := w_args s;
             w_idx := if Nat.leb (List.length (w_args s) - w_idx s) (List.length Q) then w_idx s
                      else w_idx s + (List.length (w_args s) - w_idx s - List.length Q);
             w_aster := true; w_tbl := t |}.
  Proof.
    intros HQ HD Ha Ht Hi. unfold walk_step. rewrite Hnd, Hstar.
    replace (Nat.ltb (List.length (w_args s)) (w_idx s)) with false by (symmetry; apply Nat.ltb_ge; exact Hi).
    rewrite Ht, filter_app, app_length, (filter_req Q HQ), (filter_defaults D HD), (take_while_plain _ (forallb_skipn _ _ _ Ha)), skipn_length.
    cbn [List.length]. rewrite Nat.add_0_r.
    destruct (tget t (drop1 star)) as [dt|]; [|discriminate]. rewrite Hdecl.
    destruct (Nat.leb (List.length (w_args s) - w_idx s) (List.length Q)); reflexivity.
  Qed.

  Lemma walk_defaults cr D : forall s, forallb opt_def D = true -> forallb plain_arg (w_args s) = true -> w_tbl s = t ->
    List.length (w_args s) <= w_idx s ->
    walk fixed_args cr D s = (COk, {| w_args := w_args s; w_idx := w_idx s + List.length D; w_aster := w_aster s; w_tbl := w_tbl s |}).
  Proof.
    induction D as [|d D IH]; intros s HD Ha Ht Hi; cbn [walk List.length].
    - rewrite Nat.add_0_r. destruct s; reflexivity.
    - cbn [forallb] in HD. apply andb_true_iff in HD as [Hd HD]. unfold opt_def in Hd. apply andb_true_iff in Hd as [Hp Hd].
      destruct (tget t d) as [dt|] eqn:Et; [|discriminate].
      apply andb_true_iff in Hd as [Hd Hdef]. apply andb_true_iff in Hd as [Hb Hu]. apply negb_true_iff in Hu.
      unfold plain_name in Hp. apply andb_true_iff in Hp as [Hp H4]. apply andb_true_iff in Hp as [Hp H3]. apply andb_true_iff in Hp as [H1 H2].
      apply negb_true_iff in H1, H2, H3.
      rewrite (walk_step_plain cr d D s dt H3 H2 H1 ltac:(rewrite Ht; exact Et) Hb Hu Ha).
      replace (Nat.ltb (w_idx s) (List.length (w_args s))) with false by (symmetry; apply Nat.ltb_ge; exact Hi).
      rewrite Hdef.
      rewrite (IH {| w_args := w_args s; w_idx := S (w_idx s); w_aster := w_aster s; w_tbl := w_tbl s |} HD Ha Ht ltac:(cbn [w_idx w_args]; lia)).
      cbn [w_args w_idx w_aster w_tbl]. f_equal. f_equal. lia.
  Qed.

  (* required ++ [rest] ++ trailing required ++ trailing defaults: accepted exactly from |required| + |trailing
     required| arguments on *)
  Theorem rest_arity_defaults P Q D args :
    forallb req_any P = true -> forallb req_any Q = true -> forallb opt_def D = true -> forallb plain_arg args = true ->
    (fst (walk fixed_args true (P ++ star :: Q ++ D) {| w_args := args; w_idx := 0; w_aster := false; w_tbl := t |}) = COk
     <-> List.length P + List.length Q <= List.length args).
  Proof.
    intros HP HQ HD Ha.
    set (s0 := {| w_args := args; w_idx := 0; w_aster := false; w_tbl := t |}).
    destruct (le_lt_dec (List.length P) (List.length args)) as [Hle|Hlt].
    - rewrite (walk_required true P (star :: Q ++ D) s0 HP Ha eq_refl ltac:(cbn; lia)). cbn [w_args w_idx w_aster w_tbl s0 walk Nat.add].
      set (s1 := {| w_args := args; w_idx := List.length P; w_aster := false; w_tbl := t |}).
      rewrite (star_step_defaults true Q D s1 HQ HD Ha eq_refl ltac:(cbn; lia)). cbn [w_args w_idx s1].
      destruct (Nat.leb (List.length args - List.length P) (List.length Q)) eqn:E.
      + apply Nat.leb_le in E.
        set (s2 := {| w_args := args; w_idx := List.length P; w_aster := true; w_tbl := t |}).
        destruct (le_lt_dec (List.length P + List.length Q) (List.length args)) as [H2|H2].
        * rewrite (walk_required true Q D s2 HQ Ha eq_refl ltac:(cbn; lia)). cbn [w_args w_idx w_aster w_tbl s2].
          rewrite walk_defaults by (cbn [w_args w_idx w_tbl]; try assumption; try reflexivity; lia).
          cbn [fst]. split; [intros _; exact H2 | reflexivity].
        * rewrite (walk_required_short Q D s2 HQ Ha eq_refl ltac:(cbn; lia) ltac:(cbn; lia)). split; [discriminate | lia].
      + apply Nat.leb_gt in E.
        set (s2 := {| w_args := args; w_idx := List.length P + (List.length args - List.length P - List.length Q); w_aster := true; w_tbl := t |}).
        rewrite (walk_required true Q D s2 HQ Ha eq_refl ltac:(cbn; lia)). cbn [w_args w_idx w_aster w_tbl s2].
        rewrite walk_defaults by (cbn [w_args w_idx w_tbl]; try assumption; try reflexivity; lia).
        cbn [fst]. split; [intros _; lia | reflexivity].
    - rewrite (walk_required_short P (star :: Q ++ D) s0 HP Ha eq_refl ltac:(cbn; lia) ltac:(cbn; lia)). split; [discriminate | lia].
  Qed.

  Lemma rest_walk_ok_defaults P Q D args :
    forallb req_any P = true -> forallb req_any Q = true -> forallb opt_def D = true -> forallb plain_arg args = true ->
    List.length P + List.length Q <= List.length args ->
    exists s', walk fixed_args true (P ++ star :: Q ++ D) {| w_args := args; w_idx := 0; w_aster := false; w_tbl := t |} = (COk, s')
               /\ w_aster s' = true /\ w_tbl s' = t.
  Proof.
    intros HP HQ HD Ha Hlen.
    set (s0 := {| w_args := args; w_idx := 0; w_aster := false; w_tbl := t |}).
    rewrite (walk_required true P (star :: Q ++ D) s0 HP Ha eq_refl ltac:(cbn; lia)). cbn [w_args w_idx w_aster w_tbl s0 walk Nat.add].
    set (s1 := {| w_args := args; w_idx := List.length P; w_aster := false; w_tbl := t |}).
    rewrite (star_step_defaults true Q D s1 HQ HD Ha eq_refl ltac:(cbn; lia)). cbn [w_args w_idx s1].
    destruct (Nat.leb (List.length args - List.length P) (List.length Q)) eqn:E.
    - apply Nat.leb_le in E.
      set (s2 := {| w_args := args; w_idx := List.length P; w_aster := true; w_tbl := t |}).
      rewrite (walk_required true Q D s2 HQ Ha eq_refl ltac:(cbn; lia)). cbn [w_args w_idx w_aster w_tbl s2].
      rewrite walk_defaults by (cbn [w_args w_idx w_tbl]; try assumption; try reflexivity; lia).
      eexists. split; [reflexivity | split; reflexivity].
    - apply Nat.leb_gt in E.
      set (s2 := {| w_args := args; w_idx := List.length P + (List.length args - List.length P - List.length Q); w_aster := true; w_tbl := t |}).
      rewrite (walk_required true Q D s2 HQ Ha eq_refl ltac:(cbn; lia)). cbn [w_args w_idx w_aster w_tbl s2].
      rewrite walk_defaults by (cbn [w_args w_idx w_tbl]; try assumption; try reflexivity; lia).
      eexists. split; [reflexivity | split; reflexivity].
  Qed.

  Hypothesis Hstar_plain : is_named_darg star = false.

  (* checkAndPropagateArgs, check round, a method that does not return Untyped *)
  Theorem check_args_rest P Q args :
    forallb req_any P = true -> forallb req_any Q = true -> forallb plain_arg args = true ->
    (fst (check_args fixed_args true false (P ++ star :: Q) t args) = COk <-> List.length P + List.length Q <= List.length args).
  Proof.
    intros HP HQ Ha. unfold check_args.
    assert (Hpa : prioritize_args args = args).
    { unfold prioritize_args. rewrite filter_all, filter_none; [apply app_nil_r| |].
      - rewrite forallb_forall in *. intros x Hx. specialize (Ha x Hx). unfold plain_arg in Ha. apply andb_true_iff in Ha as [H _]. exact H.
      - rewrite forallb_forall in *. intros x Hx. specialize (Ha x Hx). unfold plain_arg in Ha. apply andb_true_iff in Ha as [H _]. exact H. }
    assert (Hnn : forall L, forallb req_any L = true -> forallb (fun n => negb (is_named_darg n)) L = true).
    { intros L HL. rewrite forallb_forall in *. intros x Hx. specialize (HL x Hx). unfold req_any in HL.
      apply andb_true_iff in HL as [Hp _]. unfold plain_name in Hp. apply andb_true_iff in Hp as [_ H]. exact H. }
    assert (Hpd : prioritize_dargs (P ++ star :: Q) = P ++ star :: Q).
    { unfold prioritize_dargs. rewrite filter_all, filter_none; [apply app_nil_r| |].
      - rewrite forallb_app. cbn [forallb]. rewrite (Hnn P HP), (Hnn Q HQ), Hstar_plain. reflexivity.
      - rewrite forallb_app. cbn [forallb]. rewrite (Hnn P HP), (Hnn Q HQ), Hstar_plain. reflexivity. }
    rewrite Hpa, Hpd.
    destruct (le_lt_dec (List.length P + List.length Q) (List.length args)) as [Hle|Hlt].
    - destruct (rest_walk_ok P Q args HP HQ Ha Hle) as [s' [E [Has _]]]. rewrite E, Has. cbn [negb andb]. rewrite andb_false_r.
      cbn [fst]. split; [intros _; exact Hle | reflexivity].
    - pose proof (proj1 (rest_arity P Q args HP HQ Ha)) as H.
      destruct (walk fixed_args true (P ++ star :: Q) {| w_args := args; w_idx := 0; w_aster := false; w_tbl := t |}) as [r s'] eqn:E.
      cbn [fst] in H. destruct r; cbn [fst]; split; try discriminate; try (intros; lia).
      intros Hc. exfalso. specialize (H eq_refl). lia.
  Qed.
  (* ... followed by parameters with a default (`?Block`) *)
  Theorem check_args_rest_defaults P Q D args :
    forallb req_any P = true -> forallb req_any Q = true -> forallb opt_def D = true -> forallb plain_arg args = true ->
    (fst (check_args fixed_args true false (P ++ star :: Q ++ D) t args) = COk <-> List.length P + List.length Q <= List.length args).
  Proof.
    intros HP HQ HD Ha. unfold check_args.
    assert (Hpa : prioritize_args args = args).
    { unfold prioritize_args. rewrite filter_all, filter_none; [apply app_nil_r| |].
      - rewrite forallb_forall in *. intros x Hx. specialize (Ha x Hx). unfold plain_arg in Ha. apply andb_true_iff in Ha as [H _]. exact H.
      - rewrite forallb_forall in *. intros x Hx. specialize (Ha x Hx). unfold plain_arg in Ha. apply andb_true_iff in Ha as [H _]. exact H. }
    assert (Hnn : forall L, forallb req_any L = true -> forallb (fun n => negb (is_named_darg n)) L = true).
    { intros L HL. rewrite forallb_forall in *. intros x Hx. specialize (HL x Hx). unfold req_any in HL.
      apply andb_true_iff in HL as [Hp _]. unfold plain_name in Hp. apply andb_true_iff in Hp as [_ H]. exact H. }
    assert (Hnd2 : forallb (fun n => negb (is_named_darg n)) D = true).
    { rewrite forallb_forall in *. intros x Hx. specialize (HD x Hx). unfold opt_def in HD.
      apply andb_true_iff in HD as [Hp _]. unfold plain_name in Hp. apply andb_true_iff in Hp as [_ H]. exact H. }
    assert (Hpd : prioritize_dargs (P ++ star :: Q ++ D) = P ++ star :: Q ++ D).
    { unfold prioritize_dargs. rewrite filter_all, filter_none; [apply app_nil_r| |].
      - rewrite forallb_app. cbn [forallb]. rewrite forallb_app, (Hnn P HP), (Hnn Q HQ), Hnd2, Hstar_plain. reflexivity.
      - rewrite forallb_app. cbn [forallb]. rewrite forallb_app, (Hnn P HP), (Hnn Q HQ), Hnd2, Hstar_plain. reflexivity. }
    rewrite Hpa, Hpd.
    destruct (le_lt_dec (List.length P + List.length Q) (List.length args)) as [Hle|Hlt].
    - destruct (rest_walk_ok_defaults P Q D args HP HQ HD Ha Hle) as [s' [E [Has _]]]. rewrite E, Has. cbn [negb andb]. rewrite andb_false_r.
      cbn [fst]. split; [intros _; exact Hle | reflexivity].
    - pose proof (proj1 (rest_arity_defaults P Q D args HP HQ HD Ha)) as H.
      destruct (walk fixed_args true (P ++ star :: Q ++ D) {| w_args := args; w_idx := 0; w_aster := false; w_tbl := t |}) as [r s'] eqn:E.
      cbn [fst] in H. destruct r; cbn [fst]; split; try discriminate; try (intros; lia).
      intros Hc. exfalso. specialize (H eq_refl). lia.
  Qed.
End Rest.
