(* Resolution of declared block parameters (Model/BlockParams.v) *)
From RT Require Import Model.BlockParams Model.Infer Proofs.InferP Proofs.PropagateP.
From Coq Require Import Lia.

(* Unify: the union of the receiver's element types; Flatten with at most one block variable: the same *)
Theorem resolve_unify count args recv p : t_tag p = UNIFY -> resolve_params count args recv [p] = [UnifyVariants recv].
Proof. intros H. unfold resolve_params, resolve_param. cbn [fold_left]. rewrite H. reflexivity. Qed.

Theorem resolve_flatten_one count args recv p : t_tag p = FLATTEN -> count <= 1 ->
  resolve_params count args recv [p] = [UnifyVariants recv].
Proof.
  intros H Hc. unfold resolve_params, resolve_param. cbn [fold_left]. rewrite H.
  replace (Nat.leb count 1) with true by (symmetry; apply Nat.leb_le; exact Hc). reflexivity.
Qed.

Theorem resolve_self count args recv p : t_tag p = SELF -> resolve_params count args recv [p] = [recv].
Proof. intros H. unfold resolve_params, resolve_param. cbn [fold_left]. rewrite H. reflexivity. Qed.

(* ---- Flatten over an array of tuples: [[x1, ..., xk]] with at least two block variables gives x1, ..., xk ---- *)
Definition plain (x : ty) : bool := scalar x && negb (tag_is UNKNOWN x).

Lemma unify_singleton_scalar x : plain x = true -> UnifyVariants (MakeArray [x]) = x.
Proof.
  intros H. unfold plain in H. apply andb_true_iff in H as [Hs Hu].
  unfold UnifyVariants. destruct (fuel_SS (MakeArray [x]) (MakeArray [x])) as [n E]. rewrite E.
  cbn [unify_variants].
  assert (Hh : is_hash_type (MakeArray [x]) = false) by reflexivity. rewrite Hh.
  assert (Ev : t_vars (MakeArray [x]) = [x]) by reflexivity. rewrite Ev.
  rewrite (union_of_scalars n [x] []) by (cbn [forallb]; rewrite Hs; reflexivity).
  cbn [distinct_kinds existsb app]. reflexivity.
Qed.

Lemma unify_singleton_array xs : UnifyVariants (MakeArray [MakeArray xs]) = MakeArray xs.
Proof.
  unfold UnifyVariants. destruct (fuel_SS (MakeArray [MakeArray xs]) (MakeArray [MakeArray xs])) as [n E]. rewrite E.
  cbn [unify_variants].
  assert (Hh : is_hash_type (MakeArray [MakeArray xs]) = false) by reflexivity. rewrite Hh.
  assert (Ev : t_vars (MakeArray [MakeArray xs]) = [MakeArray xs]) by reflexivity. rewrite Ev.
  cbn [fold_left]. reflexivity.
Qed.

Lemma slots_fill xs : forall pre k, k = List.length xs ->
  fst (fold_left (fun (s2 : list (option ty) * nat) av =>
                    (set_slot (fst s2) (snd s2) (fun o => AppendArrayVariant (or_array o) av), S (snd s2)))
                 xs (pre ++ repeat None k, List.length pre))
  = pre ++ map (fun x => Some (MakeArray [x])) xs.
Proof.
  induction xs as [|x xs IH]; intros pre k Hl; cbn [fold_left map fst snd].
  - subst k. reflexivity.
  - destruct k as [|k]; [discriminate|]. cbn [repeat].
    assert (E : set_slot (pre ++ None :: repeat None k) (List.length pre) (fun o => AppendArrayVariant (or_array o) x)
                = (pre ++ [Some (MakeArray [x])]) ++ repeat None k).
    { clear. induction pre as [|p pre IHp]; cbn [app List.length set_slot]; [reflexivity | rewrite IHp; reflexivity]. }
    rewrite E.
    replace (S (List.length pre)) with (List.length (pre ++ [Some (MakeArray [x])])) by (rewrite app_length; cbn; lia).
    rewrite (IH (pre ++ [Some (MakeArray [x])]) k) by (cbn in Hl; lia).
    rewrite <- app_assoc. reflexivity.
Qed.

Definition fin (max_len : nat) (v : ty) : ty :=
  let v' := if is_array_type v && Nat.ltb (List.length (t_vars v)) max_len then AppendArrayVariant v MakeNil else v in
  if is_hash_type v' then v' else match t_vars v' with [] => v' | _ => UnifyVariants v' end.
Lemma fin_single x : plain x = true -> fin 1 (MakeArray [x]) = x.
Proof.
  intros H. unfold fin.
  assert (E1 : is_array_type (MakeArray [x]) = true) by reflexivity.
  assert (E2 : t_vars (MakeArray [x]) = [x]) by reflexivity.
  assert (E3 : is_hash_type (MakeArray [x]) = false) by reflexivity.
  rewrite E1, E2. cbn [List.length Nat.ltb Nat.leb andb]. rewrite E3, E2. apply unify_singleton_scalar. exact H.
Qed.

(* x, y = destructuring: a receiver that holds tuples [x1, ..., xk] gives block variable j the type xj *)
Theorem resolve_flatten_tuple count args xs p : t_tag p = FLATTEN -> 2 <= count -> xs <> [] -> forallb plain xs = true ->
  resolve_params count args (MakeArray [MakeArray xs]) [p] = xs.
Proof.
  intros H Hc Hne Hp. unfold resolve_params, resolve_param. cbn [fold_left]. rewrite H.
  replace (Nat.leb count 1) with false by (symmetry; apply Nat.leb_gt; lia).
  rewrite unify_singleton_array.
  assert (Ev : t_vars (MakeArray xs) = xs) by reflexivity. rewrite Ev.
  destruct xs as [|x0 xr] eqn:Exs; [congruence|]. rewrite <- Exs in *. clear Hne.
  unfold flatten_slots. rewrite unify_singleton_array.
  assert (Ea : is_array_type (MakeArray [MakeArray xs]) = true) by reflexivity. rewrite Ea.
  assert (Et : t_vars (MakeArray [MakeArray xs]) = [MakeArray xs]) by reflexivity. rewrite Et.
  cbn [fold_left List.length].
  assert (Ei : is_array_type (MakeArray xs) = true) by reflexivity. rewrite Ei, Ev.
  assert (Ew : Nat.max 1 (List.length xs) = List.length xs) by (rewrite Exs; cbn [List.length]; lia). rewrite Ew.
  assert (Esc : match List.length xs with O => 1 | S _ => List.length xs end = List.length xs) by (rewrite Exs; reflexivity). rewrite Esc.
  assert (Etag : t_tag (MakeArray xs) = ARRAY) by reflexivity. rewrite Etag.
  pose proof (slots_fill xs [] (List.length xs) eq_refl) as F. cbn [app List.length] in F. rewrite F. cbn [fst].
  assert (Pres : flat_map (fun o : option ty => match o with Some v => [v] | None => [] end) (map (fun x => Some (MakeArray [x])) xs)
                 = map (fun x => MakeArray [x]) xs).
  { clear. induction xs as [|x xs IH]; cbn [map flat_map app]; [reflexivity | rewrite IH; reflexivity]. }
  rewrite Pres.
  assert (Mx : fold_left (fun m v => Nat.max m (List.length (t_vars v))) (map (fun x => MakeArray [x]) xs) 0 = 1).
  { rewrite Exs. cbn [map fold_left]. change (t_vars (MakeArray [x0])) with [x0]. cbn [List.length Nat.max].
    clear. generalize xr. induction xr0 as [|y ys IH]; cbn [map fold_left]; [reflexivity|].
    change (t_vars (MakeArray [y])) with [y]. cbn [List.length Nat.max]. exact IH. }
  rewrite Mx. rewrite map_map.
  change (map (fun x => fin 1 (MakeArray [x])) xs = xs).
  clear -Hp. induction xs as [|x xs IH]; cbn [map]; [reflexivity|].
  cbn [forallb] in Hp. apply andb_true_iff in Hp as [Hx Hr].
  rewrite (fin_single x Hx), IH by exact Hr. reflexivity.
Qed.
