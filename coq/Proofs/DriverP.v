(* C01 / C02 / C18 on the driver skeleton: whatever the evaluator does short of a Go fatal error *)
From RT Require Import Model.Driver.

Lemma no_eol_escape s : no_eol (escape_msg s) = true.
Proof.
  induction s as [|c r IH]; cbn [escape_msg no_eol]; [reflexivity|].
  destruct (Ascii.eqb c (ascii_of_nat 10)) eqn:E1; [cbn; exact IH|].
  destruct (Ascii.eqb c (ascii_of_nat 13)) eqn:E2; [cbn; exact IH|].
  cbn [no_eol]. unfold is_eol. rewrite E1, E2. cbn. exact IH.
Qed.

Definition diag_ok (file : string) (l : line) : Prop :=
  match l with LDiag f _ m => f = file /\ no_eol m = true | LInfo _ _ _ => False end.

Lemma eval_loop_errors cr file s : forall acc,
  Forall (diag_ok file) (po_errors acc) -> Forall (diag_ok file) (po_errors (eval_loop cr file s acc)).
Proof.
  induction s as [|st rest IH]; intros acc H; cbn [eval_loop]; [exact H|].
  apply IH. cbn [po_errors]. apply Forall_app. split; [exact H|].
  destruct (st_out st) as [|m|m]; cbn [fatal_msg]; [constructor| |];
    (destruct cr; [|constructor]; constructor; [cbn; split; [reflexivity|apply no_eol_escape]|constructor]).
Qed.

Lemma eval_loop_iterations cr file s : forall acc,
  po_iterations (eval_loop cr file s acc) = (po_iterations acc + List.length s)%nat.
Proof.
  induction s as [|st rest IH]; intros acc; cbn [eval_loop List.length]; [lia|]. rewrite IH. cbn [po_iterations]. lia.
Qed.

Lemma eval_loop_infos cr file s : forall acc,
  Forall (fun l => line_file l = file) (po_infos acc) ->
  Forall (fun l => line_file l = file) (po_infos (eval_loop cr file s acc)).
Proof.
  induction s as [|st rest IH]; intros acc H; cbn [eval_loop]; [exact H|].
  apply IH. cbn [po_infos]. apply Forall_app. split; [exact H|].
  apply Forall_forall. intros l Hl. apply in_map_iff in Hl as (x & <- & _). reflexivity.
Qed.

Lemma eval_loop_no_errors_outside_check file s : forall acc,
  po_errors (eval_loop false file s acc) = po_errors acc.
Proof.
  induction s as [|st rest IH]; intros acc; cbn [eval_loop]; [reflexivity|]. rewrite IH. cbn [po_errors].
  destruct (fatal_msg (st_out st)); apply app_nil_r.
Qed.

(* C01: the run ends with status 0 and every printed line names the target file; every diagnostic is a
   single line — for every evaluator behaviour, panics included, with or without -i *)
Theorem driver_output_wf fl preloads tfile tsrc articles :
  let '(lines, status, _) := run_driver fl preloads (tfile, tsrc) articles in
  status = 0%Z /\
  Forall (fun l => line_file l = tfile) lines /\
  Forall (fun l => match l with LDiag _ _ m => no_eol m = true | LInfo _ _ _ => True end) lines.
Proof.
  unfold run_driver. cbn beta iota.
  set (final := eval_loop true tfile (tsrc "check") empty_out).
  assert (He : Forall (diag_ok tfile) (po_errors final)) by (apply eval_loop_errors; constructor).
  assert (Hi : Forall (fun l => line_file l = tfile) (po_infos final)) by (apply eval_loop_infos; constructor).
  split; [reflexivity|]. split.
  - apply Forall_app. split.
    + destruct (fl_define_info fl); [|constructor]. apply Forall_app. split; [exact Hi|].
      apply Forall_forall. intros l Hl. apply in_map_iff in Hl as (a & <- & _). reflexivity.
    + eapply Forall_impl; [|exact He]. intros [f r m|f r m]; cbn; [intros [H _]; exact H|contradiction].
  - apply Forall_app. split.
    + apply Forall_forall. intros l Hl. destruct l; [|exact I].
      destruct (fl_define_info fl); [|contradiction]. apply in_app_or in Hl as [Hl|Hl].
      * exfalso. clear -Hl. unfold final in Hl.
        assert (H : forall s acc, (forall x, In x (po_infos acc) -> match x with LInfo _ _ _ => True | _ => False end) ->
                                  forall x, In x (po_infos (eval_loop true tfile s acc)) -> match x with LInfo _ _ _ => True | _ => False end).
        { induction s as [|st rest IH]; intros acc Ha x Hx; cbn [eval_loop] in Hx; [apply Ha; exact Hx|].
          eapply IH; [|exact Hx]. cbn [po_infos]. intros y Hy. apply in_app_or in Hy as [Hy|Hy]; [apply Ha; exact Hy|].
          apply in_map_iff in Hy as (z & <- & _). exact I. }
        exact (H _ empty_out (fun _ F => match F with end) _ Hl).
      * apply in_map_iff in Hl as (a & Ha & _). discriminate.
    + eapply Forall_impl; [|exact He]. intros [f r m|f r m]; cbn; [intros [_ H]; exact H|contradiction].
Qed.

(* C02 (driver part): the loop runs once per top-level step — it cannot spin *)
Theorem loop_iterations_bounded cr file s : po_iterations (eval_loop cr file s empty_out) = List.length s.
Proof. rewrite eval_loop_iterations. reflexivity. Qed.

(* C18 (driver part): nothing a preloaded file does is printed — the output is a function of the target's
   check-round steps and of the recorded definitions of the target file *)
Theorem preloads_print_nothing fl preloads preloads' target articles :
  fst (fst (run_driver fl preloads target articles)) = fst (fst (run_driver fl preloads' target articles)).
Proof. unfold run_driver. destruct target as [tfile tsrc]. reflexivity. Qed.

Theorem foreign_definitions_print_nothing fl preloads tfile tsrc articles extra :
  Forall (fun a => fst (fst a) <> tfile) extra ->
  fst (fst (run_driver fl preloads (tfile, tsrc) (articles ++ extra))) = fst (fst (run_driver fl preloads (tfile, tsrc) articles)).
Proof.
  intros H. unfold run_driver. cbn [fst]. rewrite filter_app.
  replace (filter (fun a => String.eqb (fst (fst a)) tfile) extra) with (@nil article); [rewrite app_nil_r; reflexivity|].
  symmetry. induction H as [|a r Ha _ IH]; cbn [filter]; [reflexivity|].
  destruct (String.eqb (fst (fst a)) tfile) eqn:E; [apply String.eqb_eq in E; contradiction|exact IH].
Qed.

(* ---- rows rebased: when every row of the target's steps and of its recorded definitions moves by k (the target
   analysed after a k-line prefix), every printed line moves by k and nothing else changes ---- *)
Local Open Scope Z_scope.
Definition shift_step (k : Z) (st : step) : step :=
  {| st_row := st_row st + k; st_out := st_out st; st_infos := map (fun ri => (fst ri + k, snd ri)) (st_infos st) |}.
Definition shift_line (k : Z) (l : line) : line :=
  match l with LDiag f r m => LDiag f (r + k) m | LInfo f r t => LInfo f (r + k) t end.
Definition shift_out (k : Z) (o : parser_out) : parser_out :=
  {| po_errors := map (shift_line k) (po_errors o); po_infos := map (shift_line k) (po_infos o);
     po_iterations := po_iterations o |}.
Definition shift_src (k : Z) (s : source) : source := fun r => map (shift_step k) (s r).
Definition shift_article (k : Z) (tfile : string) (a : article) : article :=
  if String.eqb (fst (fst a)) tfile then (fst (fst a), snd (fst a) + k, snd a) else a.

Lemma eval_loop_shift k chk file s : forall acc,
  eval_loop chk file (map (shift_step k) s) (shift_out k acc) = shift_out k (eval_loop chk file s acc).
Proof.
  induction s as [|st r IH]; intros acc; cbn [map eval_loop]; [reflexivity|].
  rewrite <- IH. f_equal. unfold shift_out; cbn [po_errors po_infos po_iterations shift_step st_out st_row st_infos].
  rewrite !map_app, !map_map. f_equal.
  destruct (fatal_msg (st_out st)); [destruct chk|]; reflexivity.
Qed.

Lemma defs_shift k tfile arts :
  map (fun a : article => LInfo tfile (snd (fst a)) (snd a))
      (filter (fun a : article => String.eqb (fst (fst a)) tfile) (map (shift_article k tfile) arts))
  = map (shift_line k) (map (fun a : article => LInfo tfile (snd (fst a)) (snd a))
                            (filter (fun a : article => String.eqb (fst (fst a)) tfile) arts)).
Proof.
  induction arts as [|a r IH]; cbn [map filter]; [reflexivity|].
  destruct (String.eqb (fst (fst a)) tfile) eqn:E.
  - assert (Ha : shift_article k tfile a = (fst (fst a), snd (fst a) + k, snd a)) by (unfold shift_article; rewrite E; reflexivity).
    rewrite Ha. cbn [fst snd]. rewrite E. cbn [map shift_line fst snd]. rewrite IH. reflexivity.
  - assert (Ha : shift_article k tfile a = a) by (unfold shift_article; rewrite E; reflexivity).
    rewrite Ha, E. exact IH.
Qed.

Theorem rows_rebased fl preloads tfile tsrc articles k :
  fst (fst (run_driver fl preloads (tfile, shift_src k tsrc) (map (shift_article k tfile) articles)))
  = map (shift_line k) (fst (fst (run_driver fl preloads (tfile, tsrc) articles))).
Proof.
  unfold run_driver. cbn [fst]. unfold shift_src.
  assert (He : forall s, eval_loop true tfile (map (shift_step k) s) empty_out = shift_out k (eval_loop true tfile s empty_out))
    by (intros s; exact (eval_loop_shift k true tfile s empty_out)).
  rewrite He. cbn [shift_out po_infos po_errors]. rewrite defs_shift.
  destruct (fl_define_info fl); cbn [app]; rewrite ?map_app; reflexivity.
Qed.
