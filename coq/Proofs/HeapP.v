(* C12: no write of a call reaches a cell that existed before the call (the table's cells in particular) *)
From RT Require Import Model.Heap.
From Coq Require Import Lia.

Lemma hget_hset_other h r v r' : r' <> r -> hget (hset h r v) r' = hget h r'.
Proof. intros H. unfold hget, hset; cbn. destruct (Nat.eqb r r') eqn:E; [apply Nat.eqb_eq in E; congruence | reflexivity]. Qed.
Lemma hget_alloc_other h v r' : r' < next h -> hget (fst (alloc h v)) r' = hget h r'.
Proof. intros H. unfold hget, alloc; cbn. destruct (Nat.eqb (next h) r') eqn:E; [apply Nat.eqb_eq in E; lia | reflexivity]. Qed.
Lemma next_alloc h v : next (fst (alloc h v)) = S (next h) /\ snd (alloc h v) = next h. Proof. split; reflexivity. Qed.
Lemma next_hset h r v : next (hset h r v) = next h. Proof. reflexivity. Qed.

(* preserved n h h': the heap grew, and every cell below n is as it was *)
Definition preserved (n : nat) (h h' : heap) : Prop := next h <= next h' /\ forall r, r < n -> hget h' r = hget h r.
Lemma preserved_refl n h : preserved n h h. Proof. split; [lia | reflexivity]. Qed.
Lemma preserved_trans n a b c : preserved n a b -> preserved n b c -> preserved n a c.
Proof. intros [H1 H2] [H3 H4]. split; [lia|]. intros r Hr. rewrite H4, H2 by exact Hr. reflexivity. Qed.
Lemma preserved_alloc n h v : n <= next h -> preserved n h (fst (alloc h v)).
Proof. intros H. split; [cbn; lia|]. intros r Hr. apply hget_alloc_other. lia. Qed.
Lemma preserved_hset n h r v : n <= r -> preserved n h (hset h r v).
Proof. intros H. split; [cbn; lia|]. intros r' Hr. apply hget_hset_other. lia. Qed.

Section Union.
  Variables (append : ty -> ty -> ty) (matches : ty -> ty -> bool).

  (* the accumulator of the repaired code is always a cell allocated during the call *)
  Lemma union_step_fixed n h acc mt :
    n <= next h -> (forall r, acc = Some r -> n <= r < next h) ->
    let '(h', acc') := union_step fixed_heap append matches (h, acc) mt in
    preserved n h h' /\ (forall r, acc' = Some r -> n <= r < next h').
  Proof.
    intros Hn Hacc. unfold union_step. destruct acc as [r|].
    - destruct (Hacc r eq_refl) as [Hr1 Hr2].
      destruct (is_union_type (hget h r)).
      + split; [apply preserved_hset; exact Hr1|]. intros r' E; inversion E; subst. cbn. lia.
      + destruct (is_union_type (hget h mt)).
        * cbn [copy_union fixed_heap].
          set (h1 := fst (alloc h (hget h mt))). set (u := next h).
          change (alloc h (hget h mt)) with (h1, u). cbn iota beta.
          set (h2 := hset h1 u (append (hget h mt) (hget h r))).
          set (h3 := fst (alloc h2 (MakeUnion (t_vars (hget h2 u))))).
          change (alloc h2 (MakeUnion (t_vars (hget h2 u)))) with (h3, next h2). cbn iota beta.
          split.
          -- eapply preserved_trans; [apply preserved_alloc; exact Hn|].
             eapply preserved_trans; [apply (preserved_hset n h1 u); unfold u; exact Hn|].
             apply preserved_alloc. unfold h2, h1. cbn. lia.
          -- intros r' E; inversion E; subst. unfold h3, h2, h1. cbn. lia.
        * destruct (negb (matches (hget h r) (hget h mt))).
          -- change (alloc h (MakeUnion [hget h r; hget h mt])) with (fst (alloc h (MakeUnion [hget h r; hget h mt])), next h). cbn iota beta.
             split; [apply preserved_alloc; exact Hn|]. intros r' E; inversion E; subst. cbn. lia.
          -- split; [apply preserved_refl|]. intros r' E; inversion E; subst. lia.
    - cbn [copy_first fixed_heap]. change (alloc h (hget h mt)) with (fst (alloc h (hget h mt)), next h). cbn iota beta.
      split; [apply preserved_alloc; exact Hn|]. intros r' E; inversion E; subst. cbn. lia.
  Qed.

  Theorem union_accumulate_frame h mts :
    preserved (next h) h (fst (union_accumulate fixed_heap append matches h mts)).
  Proof.
    unfold union_accumulate.
    assert (G : forall mts h1 acc, next h <= next h1 -> (forall r, acc = Some r -> next h <= r < next h1) ->
                preserved (next h) h1 (fst (fold_left (union_step fixed_heap append matches) mts (h1, acc)))).
    { induction mts0 as [|mt r IH]; intros h1 acc Hn Hacc; cbn [fold_left]; [apply preserved_refl|].
      pose proof (union_step_fixed (next h) h1 acc mt Hn Hacc) as S.
      destruct (union_step fixed_heap append matches (h1, acc) mt) as [h2 acc2]. destruct S as [P A].
      eapply preserved_trans; [exact P|]. apply IH; [destruct P; lia | exact A]. }
    apply G; [lia | intros r E; discriminate].
  Qed.
End Union.

(* ---- destructive binding and assignment ---- *)
Lemma run_stmt_fixed n h e s :
  n <= next h -> (forall x r, env_get e x = Some r -> n <= r < next h) ->
  let '(h', e') := run_stmt fixed_heap (h, e) s in
  preserved n h h' /\ (forall x r, env_get e' x = Some r -> n <= r < next h').
Proof.
  intros Hn He. destruct s as [x v | x mt copied]; cbn [run_stmt].
  - destruct (env_get e x) as [r|] eqn:E.
    + destruct (He x r E) as [H1 H2]. split; [apply preserved_hset; exact H1|].
      intros y r' Hy. rewrite next_hset. exact (He y r' Hy).
    + change (alloc h v) with (fst (alloc h v), next h). cbn iota beta. split; [apply preserved_alloc; exact Hn|].
      intros y r' Hy. cbn [env_get] in Hy. destruct (String.eqb x y).
      * inversion Hy; subst. cbn. lia.
      * destruct (He y r' Hy). cbn. lia.
  - cbn [copy_bind fixed_heap]. destruct copied.
    + set (h1 := fst (alloc h (hget h mt))). change (alloc h (hget h mt)) with (h1, next h). cbn iota beta.
      change (alloc h1 (hget h1 (next h))) with (fst (alloc h1 (hget h1 (next h))), next h1). cbn iota beta.
      split.
      * eapply preserved_trans; [apply preserved_alloc; exact Hn|]. apply preserved_alloc. unfold h1. cbn. lia.
      * intros y r' Hy. cbn [env_get] in Hy. destruct (String.eqb x y).
        -- inversion Hy; subst. unfold h1. cbn. lia.
        -- destruct (He y r' Hy). unfold h1. cbn. lia.
    + change (alloc h (hget h mt)) with (fst (alloc h (hget h mt)), next h). cbn iota beta.
      split; [apply preserved_alloc; exact Hn|].
      intros y r' Hy. cbn [env_get] in Hy. destruct (String.eqb x y).
      * inversion Hy; subst. cbn. lia.
      * destruct (He y r' Hy). cbn. lia.
Qed.

Theorem run_stmts_frame h ss : preserved (next h) h (fst (run_stmts fixed_heap h ss)).
Proof.
  unfold run_stmts.
  assert (G : forall ss h1 e, next h <= next h1 -> (forall x r, env_get e x = Some r -> next h <= r < next h1) ->
              preserved (next h) h1 (fst (fold_left (run_stmt fixed_heap) ss (h1, e)))).
  { induction ss0 as [|s r IH]; intros h1 e Hn He; cbn [fold_left]; [apply preserved_refl|].
    pose proof (run_stmt_fixed (next h) h1 e s Hn He) as S.
    destruct (run_stmt fixed_heap (h1, e) s) as [h2 e2]. destruct S as [P A].
    eapply preserved_trans; [exact P|]. apply IH; [destruct P; lia | exact A]. }
  apply G; [lia | intros x r E; discriminate].
Qed.
