(* C09: a lookup with a literal key returns the stored value type; the union of scalars is their distinct kinds *)
From RT Require Import Model.Infer.
From Coq Require Import Lia.

Lemma t_vars_set_vars t v : t_vars (set_vars t v) = v. Proof. destruct t; reflexivity. Qed.
Lemma t_key_kv k v : t_key (MakeKeyValue k v) = k. Proof. reflexivity. Qed.
Lemma get_kv k v : get_key_value (MakeKeyValue k v) = v. Proof. reflexivity. Qed.

Lemma find_replace vs kv k :
  find (fun v => String.eqb (t_key v) k) (replace_or_append_key vs kv) =
  if String.eqb (t_key kv) k then Some kv else find (fun v => String.eqb (t_key v) k) vs.
Proof.
  induction vs as [|x r IH]; cbn [replace_or_append_key find].
  - destruct (String.eqb (t_key kv) k); reflexivity.
  - destruct (String.eqb_spec (t_key x) (t_key kv)) as [E|N]; cbn [find].
    + rewrite E. destruct (String.eqb (t_key kv) k); reflexivity.
    + destruct (String.eqb_spec (t_key x) k) as [E2|N2].
      * destruct (String.eqb_spec (t_key kv) k) as [E3|N3]; [congruence | reflexivity].
      * exact IH.
Qed.

(* the keys present in a hash built from pairs, and what each lookup finds *)
Lemma hash_of_find pairs k : forall h,
  find (fun v => String.eqb (t_key v) k)
       (t_vars (fold_left (fun h kv => append_hash_variant h (MakeKeyValue (fst kv) (snd kv))) pairs h)) =
  match last_value pairs k with
  | Some v => Some (MakeKeyValue k v)
  | None => find (fun v => String.eqb (t_key v) k) (t_vars h)
  end.
Proof.
  induction pairs as [|[k' v] r IH]; intros h; cbn [fold_left last_value]; [reflexivity|].
  rewrite IH. destruct (last_value r k) as [w|]; [reflexivity|].
  unfold append_hash_variant. rewrite t_vars_set_vars, find_replace. cbn [fst snd]. rewrite t_key_kv.
  destruct (String.eqb_spec k' k) as [->|N]; reflexivity.
Qed.

(* C09: h[<literal key>] is the type stored last under that key — whatever that type is, NilClass included *)
Theorem hash_lookup_stored pairs k v : last_value pairs k = Some v -> hash_reference (hash_of pairs) k = v.
Proof. intros H. unfold hash_reference, hash_of. rewrite hash_of_find, H. apply get_kv. Qed.

(* ... and a key that was never written gives the union of the values *)
Theorem hash_lookup_missing pairs k : last_value pairs k = None ->
  hash_reference (hash_of pairs) k = UnifyVariants (hash_of pairs).
Proof. intros H. unfold hash_reference. unfold hash_of at 1. rewrite hash_of_find, H. reflexivity. Qed.

(* the reading that takes a stored nil for a missing key is wrong on {a: nil, b: 1}[:a] *)
Lemma nil_as_missing_refuted :
  let h := hash_of [("a", MakeNil); ("b", MakeIntLit)] in
  hash_reference h "a" = MakeNil /\ hash_reference_nil_as_missing h "a" <> MakeNil.
Proof. vm_compute. split; [reflexivity | discriminate]. Qed.

(* ---- AppendVariant on scalars ---- *)
Lemma append_scalar n t v : scalar v = true ->
  append_variant (S n) t v = if is_equal_object t v then t else set_vars t (t_vars t ++ [v]).
Proof.
  unfold scalar, tag_is. intros H. apply andb_true_iff in H as [H _]. apply negb_true_iff in H.
  apply orb_false_iff in H as [H H3]. apply orb_false_iff in H as [H1 H2].
  cbn [append_variant]. destruct (t_tag v); try reflexivity; cbn in H1, H2, H3; discriminate.
Qed.

Lemma is_equal_object_union seen v : scalar v = true ->
  is_equal_object (MakeUnion seen) v = existsb (fun s => same_kind s v) seen.
Proof.
  intros H. unfold is_equal_object. unfold MakeUnion. rewrite t_vars_set_vars.
  destruct seen as [|s r].
  - unfold scalar in H. apply andb_true_iff in H as [H1 H2]. destruct (t_vars v); [|discriminate].
    cbn [existsb]. apply negb_true_iff in H1. apply orb_false_iff in H1 as [H1 _]. apply orb_false_iff in H1 as [H1 _].
    unfold tag_is in H1. cbn. destruct (t_tag v); try reflexivity. cbn in H1. discriminate.
  - reflexivity.
Qed.

Lemma set_vars_union seen l : set_vars (MakeUnion seen) l = MakeUnion l.
Proof. reflexivity. Qed.

(* the union of scalar types: one variant per distinct (tag, class), in order of first occurrence *)
Theorem union_of_scalars n es : forall seen, forallb scalar es = true ->
  fold_left (fun acc v => append_variant (S n) acc v) es (MakeUnion seen) = MakeUnion (seen ++ distinct_kinds seen es).
Proof.
  induction es as [|v r IH]; intros seen H; cbn [fold_left distinct_kinds]; [rewrite app_nil_r; reflexivity|].
  cbn [forallb] in H. apply andb_true_iff in H as [Hv Hr].
  rewrite (append_scalar n _ v Hv), (is_equal_object_union seen v Hv).
  destruct (existsb (fun s => same_kind s v) seen).
  - apply IH; exact Hr.
  - assert (E : t_vars (MakeUnion seen) = seen) by (unfold MakeUnion; apply t_vars_set_vars).
    rewrite E, set_vars_union, IH by exact Hr. rewrite <- app_assoc. reflexivity.
Qed.

(* C15: the union built from the argument types of all call sites covers each of them *)
Lemma distinct_kinds_covers l : forall seen a, In a l ->
  exists v, In v (seen ++ distinct_kinds seen l) /\ same_kind v a = true.
Proof.
  induction l as [|x r IH]; intros seen a H; [destruct H|]. cbn [distinct_kinds].
  destruct H as [->|H].
  - destruct (existsb (fun s => same_kind s a) seen) eqn:E.
    + apply existsb_exists in E as [v [Hv Hk]]. exists v. split; [apply in_or_app; left; exact Hv | exact Hk].
    + exists a. split; [apply in_or_app; right; left; reflexivity|].
      unfold same_kind. rewrite String.eqb_refl. destruct (t_tag a); reflexivity.
  - destruct (existsb (fun s => same_kind s x) seen).
    + exact (IH seen a H).
    + destruct (IH (seen ++ [x]) a H) as [v [Hv Hk]]. exists v. split; [|exact Hk].
      rewrite <- app_assoc in Hv. exact Hv.
Qed.

Theorem parameter_union_covers n args a : forallb scalar args = true -> In a args ->
  exists v, In v (t_vars (fold_left (fun acc v => append_variant (S n) acc v) args (MakeUnion []))) /\ same_kind v a = true.
Proof.
  intros Hs Ha. rewrite (union_of_scalars n args [] Hs). cbn [app].
  assert (E : t_vars (MakeUnion (distinct_kinds [] args)) = distinct_kinds [] args) by (unfold MakeUnion; apply t_vars_set_vars).
  rewrite E. exact (distinct_kinds_covers args [] a Ha).
Qed.
