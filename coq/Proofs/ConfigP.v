(* Proofs about Model/Config.v: fuel lemmas and the notation equivalences of C21 *)
From RT Require Import Model.Config Proofs.StrsP Generated.

Arguments convert_to_builtin : simpl never.
Arguments NilT : simpl never.

Lemma map_opt_weaken {A B} (f g : A -> option B) l ys :
  (forall x y, In x l -> f x = Some y -> g x = Some y) ->
  map_opt f l = Some ys -> map_opt g l = Some ys.
Proof.
  revert ys; induction l as [|x r IH]; intros ys Hfg H; cbn [map_opt] in *; [assumption|].
  destruct (f x) as [y|] eqn:Ef; [|discriminate].
  destruct (map_opt f r) as [ys'|] eqn:Er; [|discriminate].
  rewrite (Hfg x y (or_introl eq_refl) Ef).
  rewrite (IH ys'); [assumption| |reflexivity].
  intros x' y' Hin. apply Hfg. right; assumption.
Qed.

Lemma map_opt_total {A B} (f : A -> option B) l :
  (forall x, In x l -> exists y, f x = Some y) -> exists ys, map_opt f l = Some ys.
Proof.
  induction l as [|x r IH]; intros H; cbn [map_opt]; [eexists; reflexivity|].
  destruct (H x (or_introl eq_refl)) as [y ->].
  destruct IH as [ys ->]; [intros; apply H; right; assumption|]. eexists; reflexivity.
Qed.

Lemma map_opt_some_map {A B} (f : A -> option B) (g : A -> B) l :
  (forall x, In x l -> f x = Some (g x)) -> map_opt f l = Some (map g l).
Proof.
  induction l as [|x r IH]; intros H; cbn [map_opt map]; [reflexivity|].
  rewrite (H x (or_introl eq_refl)), IH; [reflexivity|]. intros; apply H; right; assumption.
Qed.

(* more fuel never changes a defined result *)
Lemma parse_ts_fuel_mono n : forall s t, parse_ts_fuel n s = Some t ->
  forall m, n <= m -> parse_ts_fuel m s = Some t.
Proof.
  induction n as [|n IH]; intros s t H m Hm; [discriminate|].
  destruct m as [|m]; [lia|]. assert (Hnm : n <= m) by lia.
  cbn [parse_ts_fuel] in *. destruct s as [|c rest]; [assumption|].
  destruct (Nat.ltb 1 (String.length (String c rest)) && Ascii.eqb c c_q) eqn:E1.
  { destruct (parse_ts_fuel n rest) as [i|] eqn:Er; [|discriminate].
    rewrite (IH _ _ Er _ Hnm). assumption. }
  destruct (Nat.ltb 1 (String.length (String c rest)) && Ascii.eqb c c_star) eqn:E2.
  { destruct (parse_ts_fuel n rest) as [i|] eqn:Er; [|discriminate].
    rewrite (IH _ _ Er _ Hnm). assumption. }
  match type of H with (if ?b then _ else _) = _ => destruct b eqn:E3 end.
  { destruct (parse_ts_fuel n (drop_last rest)) as [i|] eqn:Er; [|discriminate].
    rewrite (IH _ _ Er _ Hnm). assumption. }
  destruct (contains_char c_bar (String c rest)) eqn:E4; [|assumption].
  match type of H with match ?x with _ => _ end = _ => destruct x as [ts|] eqn:Em end; [|discriminate].
  erewrite map_opt_weaken; [eassumption| |exact Em].
  intros x y _ Hx. cbv beta in *. eapply IH; eassumption.
Qed.

(* fuel above the length always suffices *)
Lemma parse_ts_fuel_total n : forall s, String.length s < n -> exists t, parse_ts_fuel n s = Some t.
Proof.
  induction n as [|n IH]; intros s Hl; [lia|].
  cbn [parse_ts_fuel]. destruct s as [|c rest]; [eexists; reflexivity|].
  cbn [String.length] in Hl.
  destruct (Nat.ltb 1 (String.length (String c rest)) && Ascii.eqb c c_q).
  { destruct (IH rest) as [i ->]; [lia|]. eexists; reflexivity. }
  destruct (Nat.ltb 1 (String.length (String c rest)) && Ascii.eqb c c_star).
  { destruct (IH rest) as [i ->]; [lia|]. eexists; reflexivity. }
  match goal with |- exists t, (if ?b then _ else _) = _ => destruct b end.
  { destruct (IH (drop_last rest)) as [i ->]; [|eexists; reflexivity].
    pose proof (length_drop_last rest). lia. }
  destruct (contains_char c_bar (String c rest)) eqn:E4; [|eexists; reflexivity].
  destruct (map_opt_total (fun p => parse_ts_fuel n (trim_space p)) (split_char c_bar (String c rest)))
    as [ts ->]; [|eexists; reflexivity].
  intros p Hp. apply IH.
  destruct (split_char_length _ _ _ Hp) as [_ H2]. specialize (H2 E4).
  pose proof (length_trim_space p). cbn [String.length] in H2. lia.
Qed.

Lemma pts_fuel n s : String.length s < n -> parse_ts_fuel n s = Some (parse_type_string s).
Proof.
  intros Hl. unfold parse_type_string.
  destruct (parse_ts_fuel_total (S (String.length s)) s) as [t Ht]; [lia|]. rewrite Ht.
  eapply parse_ts_fuel_mono; [exact Ht|lia].
Qed.

Lemma pts_intro s t n : String.length s < n -> parse_ts_fuel n s = Some t -> parse_type_string s = t.
Proof. intros Hl H. rewrite (pts_fuel n s Hl) in H. congruence. Qed.

(* --- unfolding equations of parseTypeString (the Go control flow, one lemma per branch) --- *)

Lemma pts_opt T : T <> "" -> parse_type_string (String c_q T) = MakeUnion [parse_type_string T; NilT].
Proof.
  intros HT. remember (S (String.length T)) as m eqn:Em.
  apply (pts_intro _ _ (S m)); [cbn [String.length]; lia|].
  cbn [parse_ts_fuel]. destruct T as [|x r]; [congruence|].
  cbn [String.length Nat.ltb Nat.leb andb]. rewrite Ascii.eqb_refl. cbn [andb].
  rewrite pts_fuel by (subst m; cbn [String.length]; lia). reflexivity.
Qed.

Lemma pts_ast T : T <> "" -> parse_type_string (String c_star T) = set_ast (parse_type_string T) true.
Proof.
  intros HT. remember (S (String.length T)) as m eqn:Em.
  apply (pts_intro _ _ (S m)); [cbn [String.length]; lia|].
  cbn [parse_ts_fuel]. destruct T as [|x r]; [congruence|].
  cbn [String.length Nat.ltb Nat.leb andb].
  change (Ascii.eqb c_star c_q) with false. rewrite Ascii.eqb_refl. cbn [andb].
  rewrite pts_fuel by (subst m; cbn [String.length]; lia). reflexivity.
Qed.

Definition starts_with (c : ascii) (s : string) : bool :=
  match s with String x _ => Ascii.eqb x c | EmptyString => false end.

Definition bracketed (s : string) : bool :=
  Nat.ltb 2 (String.length s) && starts_with c_lb s &&
  match last_char s with Some l => Ascii.eqb l c_rb | None => false end.

(* a string that takes none of the three prefix/bracket branches *)
Definition plain_head (s : string) : bool :=
  negb (starts_with c_q s && Nat.ltb 1 (String.length s)) &&
  negb (starts_with c_star s && Nat.ltb 1 (String.length s)) &&
  negb (bracketed s).

Lemma pts_plain s :
  plain_head s = true ->
  parse_type_string s =
    if contains_char c_bar s
    then MakeUnion (map (fun p => parse_type_string (trim_space p)) (split_char c_bar s))
    else convert_to_builtin s.
Proof.
  intros Hp. remember (String.length s) as m eqn:Em.
  apply (pts_intro _ _ (S m)); [lia|].
  cbn [parse_ts_fuel].
  destruct s as [|c rest]; [reflexivity|].
  unfold plain_head, bracketed, starts_with in Hp.
  apply andb_true_iff in Hp as [Hp H3]. apply andb_true_iff in Hp as [H1 H2].
  rewrite andb_comm in H1. rewrite andb_comm in H2.
  apply negb_true_iff in H1, H2, H3.
  rewrite H1, H2, H3.
  destruct (contains_char c_bar (String c rest)) eqn:E4; [|reflexivity].
  erewrite map_opt_some_map; [reflexivity|].
  intros p Hin. cbv beta. apply pts_fuel.
  destruct (split_char_length _ _ _ Hin) as [_ H]. specialize (H E4).
  pose proof (length_trim_space p). lia.
Qed.

Lemma last_char_app_rb s : last_char (s ++ "]") = Some c_rb.
Proof.
  induction s as [|x r IH]; [reflexivity|]. cbn [append last_char].
  destruct (r ++ "]")%string eqn:E; [destruct r; discriminate|]. exact IH.
Qed.

Lemma drop_last_app_rb s : drop_last (s ++ "]") = s.
Proof.
  induction s as [|y q IH]; [reflexivity|]. cbn [append drop_last].
  destruct (q ++ "]")%string eqn:E; [destruct q; discriminate|]. rewrite IH. reflexivity.
Qed.

Lemma pts_array T :
  T <> "" -> parse_type_string (String c_lb (T ++ "]")) = MakeArray [parse_type_string T].
Proof.
  intros HT. remember (S (S (String.length T))) as m eqn:Em.
  assert (Hlen : String.length (String c_lb (T ++ "]")) = S (S (String.length T))).
  { cbn [String.length]. rewrite length_app. cbn [String.length]. lia. }
  apply (pts_intro _ _ (S m)); [lia|].
  cbn [parse_ts_fuel]. rewrite Hlen.
  destruct T as [|x r]; [congruence|].
  cbn [String.length Nat.ltb Nat.leb andb].
  change (Ascii.eqb c_lb c_q) with false. change (Ascii.eqb c_lb c_star) with false.
  cbn [andb]. rewrite Ascii.eqb_refl.
  change (last_char (String c_lb (String x r ++ "]"))) with (last_char (String c_lb ((String x r) ++ "]"))).
  replace (last_char (String c_lb (String x r ++ "]"))) with (Some c_rb).
  2:{ symmetry. change (String c_lb (String x r ++ "]")) with ((String c_lb (String x r)) ++ "]")%string.
      apply last_char_app_rb. }
  rewrite Ascii.eqb_refl. cbn [andb].
  rewrite drop_last_app_rb. rewrite pts_fuel by (subst m; cbn [String.length]; lia). reflexivity.
Qed.
