(* C25: the order of the emitted arguments, and independence from the order in which the keyword maps are read *)
From RT Require Import Model.Rbs2Json Proofs.SortP Proofs.SigsP.
From Coq Require Import Lia Permutation.

Section P.
  Variable conv : rtype -> list string.

  Definition n_typed (l : list rparam) : nat := List.length (filter (fun p => match rp_type p with Some _ => true | None => false end) l).

  Lemma flat_typed_kinds mk l (P : tiarg -> Prop) : (forall ts, P (mk ts)) -> Forall P (flat_map (typed conv mk) l).
  Proof.
    intros H. induction l as [|p r IH]; cbn [flat_map]; [constructor|]. apply Forall_app; split; [|exact IH].
    unfold typed. destruct (rp_type p); [constructor; [apply H | constructor] | constructor].
  Qed.
  Lemma flat_typed_length mk l : List.length (flat_map (typed conv mk) l) = n_typed l.
  Proof.
    unfold n_typed. induction l as [|p r IH]; cbn [flat_map filter]; [reflexivity|]. rewrite app_length, IH.
    unfold typed. destruct (rp_type p); reflexivity.
  Qed.

  (* the six groups, in order: required, optional (is_default), rest (is_asterisk), trailing, required keywords,
     optional keywords (is_default) *)
  Definition is_req a := ta_key a = ""%string /\ ta_ast a = false /\ ta_def a = false.
  Definition is_opt a := ta_key a = ""%string /\ ta_ast a = false /\ ta_def a = true.
  Definition is_rest a := ta_key a = ""%string /\ ta_ast a = true /\ ta_def a = false.
  Definition is_kwreq a := ta_key a <> ""%string /\ ta_ast a = false /\ ta_def a = false.
  Definition is_kwopt a := ta_key a <> ""%string /\ ta_ast a = false /\ ta_def a = true.

  Lemma append_colon_nonempty n : String.append n ":" <> ""%string.
  Proof. destruct n; cbn; discriminate. Qed.

  Theorem convert_arguments_order f : exists g1 g2 g3 g4 g5 g6,
    convert_arguments conv f = g1 ++ g2 ++ g3 ++ g4 ++ g5 ++ g6 /\
    Forall is_req g1 /\ List.length g1 = n_typed (ft_req f) /\
    Forall is_opt g2 /\ List.length g2 = n_typed (ft_opt f) /\
    Forall is_rest g3 /\ List.length g3 = (match ft_rest f with Some _ => 1 | None => 0 end) /\
    Forall is_req g4 /\ List.length g4 = n_typed (ft_trail f) /\
    Forall is_kwreq g5 /\ Forall is_kwopt g6.
  Proof.
    unfold convert_arguments. do 6 eexists. split; [reflexivity|].
    split; [apply flat_typed_kinds; intros; repeat split|]. split; [apply flat_typed_length|].
    split; [apply flat_typed_kinds; intros; repeat split|]. split; [apply flat_typed_length|].
    split; [destruct (ft_rest f); [constructor; [repeat split | constructor] | constructor]|].
    split; [destruct (ft_rest f); reflexivity|].
    split; [apply flat_typed_kinds; intros; repeat split|]. split; [apply flat_typed_length|].
    split.
    - apply Forall_forall. intros a Ha. apply in_flat_map in Ha as [n [_ Ha]].
      assert (F : Forall is_kwreq (flat_map (typed conv (fun ts => {| ta_types := ts; ta_key := String.append n ":"; ta_ast := false; ta_def := false |})) (kw_lookup (ft_kwreq f) n))).
      { apply flat_typed_kinds. intros ts. split; [apply append_colon_nonempty | split; reflexivity]. }
      rewrite Forall_forall in F. exact (F a Ha).
    - apply Forall_forall. intros a Ha. apply in_flat_map in Ha as [n [_ Ha]].
      assert (F : Forall is_kwopt (flat_map (typed conv (fun ts => {| ta_types := ts; ta_key := String.append n ":"; ta_ast := false; ta_def := true |})) (kw_lookup (ft_kwopt f) n))).
      { apply flat_typed_kinds. intros ts. split; [apply append_colon_nonempty | split; reflexivity]. }
      rewrite Forall_forall in F. exact (F a Ha).
  Qed.

  (* ---- Go's map iteration is an adversary: any enumeration of the same keyword map gives the same output ---- *)
  Lemma find_perm (kws kws' : list (string * rparam)) n : NoDup (map fst kws) -> Permutation kws kws' ->
    find (fun kv => String.eqb (fst kv) n) kws = find (fun kv => String.eqb (fst kv) n) kws'.
  Proof.
    intros Hnd Hp. induction Hp as [|x l l' Hp IH|x y l|l l' l'' H1 IH1 H2 IH2].
    - reflexivity.
    - cbn [find]. destruct (String.eqb (fst x) n); [reflexivity|]. apply IH. inversion Hnd; assumption.
    - cbn [find]. destruct (String.eqb (fst y) n) eqn:Ey; destruct (String.eqb (fst x) n) eqn:Ex; try reflexivity.
      apply String.eqb_eq in Ey, Ex. exfalso. cbn [map] in Hnd. inversion Hnd as [|? ? Hn _]. apply Hn. left. congruence.
    - rewrite IH1 by exact Hnd. apply IH2. eapply Permutation_NoDup; [apply Permutation_map; exact H1 | exact Hnd].
  Qed.

  Theorem convert_arguments_deterministic f f' :
    ft_req f = ft_req f' -> ft_opt f = ft_opt f' -> ft_rest f = ft_rest f' -> ft_trail f = ft_trail f' ->
    NoDup (map fst (ft_kwreq f)) -> NoDup (map fst (ft_kwopt f)) ->
    Permutation (ft_kwreq f) (ft_kwreq f') -> Permutation (ft_kwopt f) (ft_kwopt f') ->
    convert_arguments conv f = convert_arguments conv f'.
  Proof.
    intros E1 E2 E3 E4 N1 N2 P1 P2. unfold convert_arguments. rewrite E1, E2, E3, E4.
    rewrite (sort_perm str_leb str_order _ _ (Permutation_map fst P1)).
    rewrite (sort_perm str_leb str_order _ _ (Permutation_map fst P2)).
    do 4 f_equal. f_equal.
    - apply flat_map_ext. intros n. unfold kw_lookup. rewrite (find_perm _ _ n N1 P1). reflexivity.
    - apply flat_map_ext. intros n. unfold kw_lookup. rewrite (find_perm _ _ n N2 P2). reflexivity.
  Qed.
End P.
