(* One round of call sites on a parameter of a user-defined method (Model/Propagate.v) *)
From RT Require Import Model.Propagate Model.Infer Proofs.InferP.
From Coq Require Import Lia.

Definition kind (t : ty) : tag * string := (t_tag t, t_cls t).
Definition arg_ok (a : ty) : bool := scalar a && negb (tag_is UNKNOWN a) && negb (is_builtin a) && negb (has_default a).

Lemma same_kind_kind s s' v : kind s = kind s' -> same_kind s v = same_kind s' v.
Proof. unfold kind, same_kind. intros H. injection H as H1 H2. rewrite H1, H2. reflexivity. Qed.

Lemma existsb_kinds (l l' : list ty) v : map kind l = map kind l' ->
  existsb (fun s => same_kind s v) l = existsb (fun s => same_kind s v) l'.
Proof.
  revert l'. induction l as [|x r IH]; intros [|x' r'] H; cbn [map] in H; try discriminate; [reflexivity|].
  injection H as Ht Hc Hr. cbn [existsb]. rewrite (same_kind_kind x x' v) by (unfold kind; rewrite Ht, Hc; reflexivity). rewrite (IH r' Hr). reflexivity.
Qed.

(* setters keep what they do not set *)
Lemma set_inf_tag t b : t_tag (set_inf t b) = t_tag t. Proof. destruct t; reflexivity. Qed.
Lemma set_inf_cls t b : t_cls (set_inf t b) = t_cls t. Proof. destruct t; reflexivity. Qed.
Lemma set_inf_vars t b : t_vars (set_inf t b) = t_vars t. Proof. destruct t; reflexivity. Qed.
Lemma set_inf_inf t b : is_inferred (set_inf t b) = b. Proof. destruct t; reflexivity. Qed.
Lemma set_inf_bi t b : is_builtin (set_inf t b) = is_builtin t. Proof. destruct t; reflexivity. Qed.
Lemma set_inf_hd t b : has_default (set_inf t b) = has_default t. Proof. destruct t; reflexivity. Qed.
Lemma set_hd_tag t b : t_tag (set_hd t b) = t_tag t. Proof. destruct t; reflexivity. Qed.
Lemma set_hd_vars t b : t_vars (set_hd t b) = t_vars t. Proof. destruct t; reflexivity. Qed.
Lemma set_hd_hd t b : has_default (set_hd t b) = b. Proof. destruct t; reflexivity. Qed.
Lemma set_hd_bi t b : is_builtin (set_hd t b) = is_builtin t. Proof. destruct t; reflexivity. Qed.
Lemma set_vars_tag t l : t_tag (set_vars t l) = t_tag t. Proof. destruct t; reflexivity. Qed.
Lemma set_vars_fl t l : t_fl (set_vars t l) = t_fl t. Proof. destruct t; reflexivity. Qed.

Lemma fuel_SS t v : exists n, fuel_for t v = S (S n).
Proof. unfold fuel_for. exists (2 * (ty_size t + ty_size v) + 2). lia. Qed.

Lemma AppendVariant_scalar t v : scalar v = true ->
  AppendVariant t v = if is_equal_object t v then t else set_vars t (t_vars t ++ [v]).
Proof. intros H. unfold AppendVariant. destruct (fuel_SS t v) as [n E]. rewrite E. apply append_scalar. exact H. Qed.

Lemma is_equal_object_vars t v : t_vars t <> [] ->
  is_equal_object t v = existsb (fun s => same_kind s v) (t_vars t).
Proof. unfold is_equal_object. destruct (t_vars t) as [|x r]; [congruence|]. intros _. reflexivity. Qed.

Lemma is_unknown_false t : tag_is UNKNOWN t = false -> is_unknown_type t = false.
Proof. unfold is_unknown_type. intros H. rewrite H. apply Bool.andb_false_r. Qed.

Lemma UnifyVariants_pair x a : scalar x = true -> scalar a = true -> tag_is UNKNOWN x = false -> tag_is UNKNOWN a = false ->
  same_kind x a = false -> UnifyVariants (MakeUnion [x; a]) = MakeUnion [x; a].
Proof.
  intros Hx Ha Ux Ua Hk. unfold UnifyVariants. destruct (fuel_SS (MakeUnion [x; a]) (MakeUnion [x; a])) as [n E]. rewrite E.
  cbn [unify_variants].
  assert (Hh : is_hash_type (MakeUnion [x; a]) = false) by reflexivity. rewrite Hh.
  assert (Ev : t_vars (MakeUnion [x; a]) = [x; a]) by reflexivity. rewrite Ev.
  rewrite (union_of_scalars n [x; a] []) by (cbn [forallb]; rewrite Hx, Ha; reflexivity).
  cbn [distinct_kinds existsb app]. rewrite Hk. cbn [orb app].
  assert (Ev2 : t_vars (MakeUnion [x; a]) = [x; a]) by reflexivity. rewrite Ev2.
  rewrite (is_unknown_false x Ux), (is_unknown_false a Ua). cbn [orb]. rewrite Bool.andb_false_r. reflexivity.
Qed.

(* is_match_type between scalars looks at tag and class only *)
Lemma is_match_type_kind t t' a : scalar t = true -> scalar t' = true -> kind t = kind t' -> is_match_type t a = is_match_type t' a.
Proof.
  intros Ht Ht' Hk. unfold kind in Hk. injection Hk as H1 H2. unfold is_match_type, is_union_type, tag_is. rewrite H1, H2.
  unfold scalar in Ht, Ht'. apply andb_true_iff in Ht as [Ht _]. apply andb_true_iff in Ht' as [Ht' _].
  apply negb_true_iff in Ht, Ht'. apply orb_false_iff in Ht as [Ht _]. apply orb_false_iff in Ht as [Ht _].
  apply orb_false_iff in Ht' as [Ht' _]. apply orb_false_iff in Ht' as [Ht' _]. unfold tag_is in Ht, Ht'.
  rewrite H1 in Ht. rewrite Ht'. cbn [andb]. reflexivity.
Qed.

Lemma scalar_set_inf t b : scalar (set_inf t b) = scalar t.
Proof. unfold scalar, tag_is. rewrite set_inf_tag, set_inf_vars. reflexivity. Qed.
Lemma kind_set_inf t b : kind (set_inf t b) = kind t.
Proof. unfold kind. rewrite set_inf_tag, set_inf_cls. reflexivity. Qed.

Lemma scalar_not_union t : scalar t = true -> is_union_type t = false.
Proof.
  unfold scalar. intros H. apply andb_true_iff in H as [H _]. apply negb_true_iff in H.
  apply orb_false_iff in H as [H _]. apply orb_false_iff in H as [H _]. exact H.
Qed.

Lemma arg_ok_parts a : arg_ok a = true ->
  scalar a = true /\ tag_is UNKNOWN a = false /\ is_builtin a = false /\ has_default a = false.
Proof.
  unfold arg_ok. intros H. apply andb_true_iff in H as [H H4]. apply andb_true_iff in H as [H H3]. apply andb_true_iff in H as [H1 H2].
  apply negb_true_iff in H2, H3, H4. repeat split; assumption.
Qed.

Section Round.
  Variable V : prop_variant.
  Variable bm : bool.
  Variable r : string.
  (* the argument types of the call sites: scalars on which IsMatchType is equality of tag and class *)
  Variable dom : ty -> Prop.
  Hypothesis dom_ok : forall a, dom a -> arg_ok a = true.
  Hypothesis dom_match : forall a b, dom a -> dom b -> is_match_type a b = same_kind a b.

  Definition entry_ok (seen : list ty) (e : pentry) : Prop :=
    snd e = r /\ is_builtin (fst e) = false /\ tag_is UNKNOWN (fst e) = false /\ is_inferred (fst e) = true /\
    has_default (fst e) = false /\ map kind (variants_or_self (fst e)) = map kind seen /\
    (List.length seen = 1 -> scalar (fst e) = true) /\ (2 <= List.length seen -> is_union_type (fst e) = true) /\ seen <> [].

  Lemma not_new_round dr X : dr = r -> negb (String.eqb dr "") && negb (String.eqb dr r) && X = false.
  Proof. intros ->. rewrite String.eqb_refl. cbn [negb]. rewrite Bool.andb_false_r. reflexivity. Qed.

  Lemma step_ok seen e a : entry_ok seen e -> Forall dom seen -> dom a ->
    exists e', snd (propagate V bm r (Some e) a) = Some e' /\
               entry_ok (if existsb (fun s => same_kind s a) seen then seen else seen ++ [a]) e'.
  Proof.
    destruct e as [dt dr]. intros [Hr [Hb [Hu [Hi [Hd [Hk [Hs [Hn Hne]]]]]]]] Hseen Ha. cbn [fst snd] in *.
    destruct (arg_ok_parts a (dom_ok a Ha)) as [Sa [Ua [Ba Da]]].
    unfold propagate. rewrite Hu, Hb, Hd, Bool.andb_false_r. subst dr.
    rewrite String.eqb_refl. cbn [negb]. rewrite !Bool.andb_false_r. cbn [andb]. cbv zeta. cbn [andb].
    destruct (is_union_type dt) eqn:Eu.
    - (* a union: the argument is appended *)
      assert (Hv : variants_or_self dt = t_vars dt) by (unfold variants_or_self; rewrite Eu; reflexivity). rewrite Hv in Hk.
      assert (Hne2 : t_vars dt <> []).
      { intros E. rewrite E in Hk. destruct seen; [apply Hne; reflexivity | discriminate]. }
      rewrite Hi. cbn [andb snd].
      rewrite (AppendVariant_scalar dt a Sa), (is_equal_object_vars dt a Hne2), (existsb_kinds _ _ a Hk).
      destruct (existsb (fun s => same_kind s a) seen) eqn:Ex.
      + eexists. split; [reflexivity|]. repeat split; cbn [fst snd]; try assumption; try (rewrite Hv; exact Hk); try (intros _; exact Eu).
      + eexists. split; [reflexivity|]. cbn [fst snd].
        assert (Eu2 : is_union_type (set_vars dt (t_vars dt ++ [a])) = true) by (unfold is_union_type, tag_is in *; rewrite set_vars_tag; exact Eu).
        repeat split; cbn [fst snd].
        * unfold is_builtin. rewrite set_vars_fl. exact Hb.
        * unfold tag_is. rewrite set_vars_tag. exact Hu.
        * unfold is_inferred. rewrite set_vars_fl. exact Hi.
        * unfold has_default. rewrite set_vars_fl. exact Hd.
        * unfold variants_or_self. rewrite Eu2, t_vars_set_vars, !map_app, Hk. reflexivity.
        * rewrite app_length. cbn [List.length]. intros L. destruct seen; [exfalso; apply Hne; reflexivity | cbn [List.length] in L; lia].
        * intros _. exact Eu2.
        * intros E. destruct seen; discriminate.
    - (* a single type *)
      assert (Hv : variants_or_self dt = [dt]) by (unfold variants_or_self; rewrite Eu; reflexivity). rewrite Hv in Hk.
      destruct seen as [|x [|y rest]]; [exfalso; apply Hne; reflexivity | | cbn [map] in Hk; discriminate].
      cbn [map] in Hk. injection Hk as Hk1 Hk2.
      assert (Sd : scalar dt = true) by (apply Hs; reflexivity).
      inversion Hseen as [|? ? Hx _]; subst.
      destruct (arg_ok_parts x (dom_ok x Hx)) as [Sx _].
      assert (Hkk : kind dt = kind x) by (unfold kind; rewrite Hk1, Hk2; reflexivity).
      rewrite (is_match_type_kind dt x a Sd Sx Hkk), (dom_match x a Hx Ha).
      cbn [existsb]. rewrite Bool.orb_false_r.
      destruct (same_kind x a) eqn:Ek.
      + eexists. split; [reflexivity|]. repeat split; cbn [fst snd]; try assumption; try reflexivity;
          try (rewrite Hv; cbn [map]; rewrite Hkk; reflexivity); try (cbn; intros L; lia); try discriminate.
      + rewrite Hi, Bool.orb_true_r.
        assert (Va : variants_or_self a = [a]) by (unfold variants_or_self; rewrite (scalar_not_union a Sa); reflexivity).
        rewrite Hv, Va. cbn [app].
        assert (Ek2 : same_kind dt a = false) by (rewrite (same_kind_kind dt x a Hkk); exact Ek).
        rewrite (UnifyVariants_pair dt a Sd Sa Hu Ua Ek2).
        eexists. split; [reflexivity|]. cbn [fst snd].
        repeat split; cbn [fst snd]; try reflexivity; try (cbn; intros L; lia); try discriminate.
        unfold variants_or_self.
        replace (is_union_type (set_inf (set_hd (MakeUnion [dt; a]) false) true)) with true by reflexivity.
        rewrite set_inf_vars, set_hd_vars. change (t_vars (MakeUnion [dt; a])) with [dt; a]. cbn [map]. rewrite Hkk. reflexivity.
  Qed.

  Lemma run_ok rest : forall seen e, entry_ok seen e -> Forall dom seen -> Forall dom rest ->
    exists e', round_run V bm r (Some e) rest = Some e' /\ entry_ok (seen ++ distinct_kinds seen rest) e'.
  Proof.
    induction rest as [|a rest IH]; intros seen e He Hs Hr; cbn [distinct_kinds].
    - exists e. rewrite app_nil_r. split; [reflexivity | exact He].
    - inversion Hr as [|? ? Ha Hr']; subst.
      destruct (step_ok seen e a He Hs Ha) as [e1 [E1 H1]].
      unfold round_run. cbn [fold_left]. rewrite E1. fold (round_run V bm r (Some e1) rest).
      destruct (existsb (fun s => same_kind s a) seen).
      + apply IH; assumption.
      + destruct (IH (seen ++ [a]) e1 H1) as [e' [E' H']]; [apply Forall_app; split; [exact Hs | constructor; [exact Ha | constructor]] | exact Hr' |].
        exists e'. split; [exact E'|]. rewrite <- app_assoc in H'. exact H'.
  Qed.

  (* C15: starting from a parameter nothing is known about, the call sites of one round leave it with exactly the
     distinct types of their arguments, in order of first occurrence *)
  Theorem round_from_fresh args : args <> [] -> Forall dom args ->
    exists dt, round_run V bm r None args = Some (dt, r) /\ map kind (variants_or_self dt) = map kind (distinct_kinds [] args).
  Proof.
    destruct args as [|a rest]; [congruence|]. intros _ H. inversion H as [|? ? Ha Hr]; subst.
    destruct (arg_ok_parts a (dom_ok a Ha)) as [Sa [Ua [Ba Da]]].
    assert (He : entry_ok [a] (set_inf a true, r)).
    { repeat split; cbn [fst snd].
      - rewrite set_inf_bi. exact Ba.
      - unfold tag_is. rewrite set_inf_tag. exact Ua.
      - apply set_inf_inf.
      - rewrite set_inf_hd. exact Da.
      - unfold variants_or_self. rewrite (scalar_not_union _ (eq_trans (scalar_set_inf a true) Sa)). cbn [map]. rewrite kind_set_inf. reflexivity.
      - intros _. rewrite scalar_set_inf. exact Sa.
      - cbn. intros L. lia.
      - discriminate. }
    destruct (run_ok rest [a] (set_inf a true, r) He (Forall_cons a Ha (Forall_nil _)) Hr) as [[dt dr] [E [Hr2 [_ [_ [_ [_ [Hk _]]]]]]]].
    cbn [fst snd] in *. subst dr. exists dt. split.
    - unfold round_run in *. cbn [fold_left propagate snd]. exact E.
    - cbn [distinct_kinds existsb]. exact Hk.
  Qed.
End Round.

(* the first call site of a NEW round replaces what the previous round collected; the pinned code then checked it against
   the old type (a false `type mismatch` that also ended the walk over the remaining parameters), the repaired code accepts it *)
Lemma new_round_replaces :
  let I := set_inf (Ty INT "Integer" VInt64 None "" "" "" [] no_flags "" "" "" [] [] []) true in
  let S := Ty STRING "String" (VStr "s") None "" "" "" [] no_flags "" "" "" [] [] [] in
  propagate pinned_prop false "check" (Some (I, "inference")) S = (false, Some (set_inf S true, "check")) /\
  propagate fixed_prop false "check" (Some (I, "inference")) S = (true, Some (set_inf S true, "check")).
Proof. vm_compute. split; reflexivity. Qed.
