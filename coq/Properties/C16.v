(* C16 — user classes: resolution, inheritance and visibility follow Ruby.
   Proved: the ancestor walk of method lookup terminates on every inheritance map (cycles included) and answers only
   with a class or module that Ruby's lookup reaches from the receiver's class — superclass chain, included modules
   (and what they include) for instance methods, extended modules (and what they include) for class methods.
   Completeness, `new`/initialize and visibility are exercised end to end.  Visibility sections: C22_tags.
   Proofs in LookupP.v. *)
From RT Require Import Model.Lookup Proofs.LookupP.

Theorem C16_lookup_terminates : forall has builtin m f static uv n, List.length uv < f ->
  exists r uv', plookup has builtin f m static uv n = Some (r, uv') /\ List.length uv' <= List.length uv.
Proof. exact plookup_total. Qed.
Print Assumptions C16_lookup_terminates.

Theorem C16_lookup_sound : forall has builtin m f static uv n x uv',
  plookup has builtin f m static uv n = Some (Some x, uv') -> answers has builtin m static n x.
Proof. exact plookup_sound. Qed.
Print Assumptions C16_lookup_sound.

(* non-vacuity: Host includes Outer, Outer includes Inner, Inner defines the method *)
Definition mixin_map : inh_map :=
  [(("", "Host"), [{| pn_frame := ""; pn_class := "Outer"; pn_include := true; pn_extend := false |}]);
   (("", "Outer"), [{| pn_frame := ""; pn_class := "Inner"; pn_include := true; pn_extend := false |}])].
Example C16_transitive_include :
  plookup (fun n _ => fc_eqb n ("", "Inner")) [] 4 mixin_map false [("", "Host"); ("", "Outer"); ("", "Inner")] ("", "Host")
  = Some (Some ("", "Inner"), [("", "Inner")]).
Proof. vm_compute. reflexivity. Qed.

(* completeness: when the walk answers nothing, Ruby's lookup reaches no class or module that defines the method —
   on every inheritance map in which each node is searched in one way only (the visited set is keyed by the node) *)
From RT Require Import Proofs.LookupCompleteP.
Theorem C16_lookup_complete : forall has builtin m mode_of n st,
  moded_map builtin m mode_of -> mode_of n = st ->
  forall uv', plookup has builtin (S (List.length (universe m n))) m st (universe m n) n = Some (None, uv') ->
  forall x, ~ answers has builtin m st n x.
Proof.
  intros has builtin m mode_of n st WM Hm uv' H x A.
  exact (plookup_complete has builtin m mode_of n st WM Hm uv' H x (answers_reaches has builtin m st n x A)).
Qed.
Print Assumptions C16_lookup_complete.
