(* C10 — nil? / is_a? narrowing is exact inside branches and undone afterwards.
   A type is the list of the classes of its variants; `minus` removes classes.  For `if C` / `unless C` with C an
   && chain of tests, each on its own variable:  Proofs in NarrowP.v. *)
From RT Require Import Model.Narrow Proofs.NarrowP Proofs.NarrowChainP Proofs.NarrowElsifP Proofs.NarrowSoundP.

(* inside the branch of the condition every tested variable has exactly the variants its test admits *)
Theorem C10_then_exact : forall k c e t, NoDup (map t_var c) -> In t c ->
  ty_of (fst (fst (conditional k c e))) (t_var t) = admit_then k t (ty_of e (t_var t)).
Proof. exact conditional_then_exact. Qed.
Print Assumptions C10_then_exact.

(* the else branch of a single test sees the complement *)
Theorem C10_else_exact : forall k t e,
  ty_of (snd (fst (conditional k [t] e))) (t_var t) = admit_else k t (ty_of e (t_var t)).
Proof. exact conditional_else_exact_single. Qed.
Print Assumptions C10_else_exact.

(* the else branch of `if a && b && ...` admits every variant of every tested variable *)
Theorem C10_else_of_conjunction : forall c e t, NoDup (map t_var c) -> 2 <= List.length c -> In t c ->
  ty_of (snd (fst (conditional KIf c e))) (t_var t) = ty_of e (t_var t).
Proof. exact conditional_else_of_conjunction. Qed.
Print Assumptions C10_else_of_conjunction.

(* after `end` every variable has its pre-conditional type again — for EVERY condition, also one that tests a
   variable several times (the restore closures run last to first) *)
Theorem C10_restore : forall k c e x, ty_of (snd (conditional k c e)) x = ty_of e x.
Proof. exact conditional_restores. Qed.
Print Assumptions C10_restore.

(* elsif chains: after `end` every variable has its pre-chain type again — for every number of elsif branches and
   every condition in each (also variables tested only in an elsif condition), with or without else *)
Theorem C10_chain_restore : forall c0 cs has_else e x, ty_of (snd (chain true c0 cs has_else e)) x = ty_of e x.
Proof. exact chain_restores. Qed.
Print Assumptions C10_chain_restore.

(* the pinned code dropped the restore closures of the elsif conditions (repaired by a fix: commit) *)
Theorem C10_chain_pinned_refuted : exists c0 cs e x, ty_of (snd (chain false c0 cs false e)) x <> ty_of e x.
Proof. exact chain_pinned_refuted. Qed.
Print Assumptions C10_chain_pinned_refuted.

(* `if t0; elsif t1; ...; [else;] end` with positive tests (x.nil? / x.is_a?(C)) on the same or on different
   variables, any number of branches: branch i sees its own variable as exactly the tested class and every other
   variable without the classes that branches 0..i-1 took from it (BranchOK / branches_ok, `taken`); the else branch
   sees every variable without everything the chain took from it *)
Theorem C10_elsif_exact : forall t0 ts he e, all_pos (t0 :: ts) = true ->
  exists brs ee ea, chain true [t0] (map (fun t => [t]) ts) he e = (brs, ee, ea) /\
    branches_ok e [] (t0 :: ts) brs /\
    (he = true -> exists b, ee = Some b /\ forall y, ty_of b y = minus (ty_of e y) (taken (t0 :: ts) y)).
Proof. exact elsif_chain_exact. Qed.
Print Assumptions C10_elsif_exact.

(* the same chains with tests of EITHER polarity (`!x.nil?`, `!x.is_a?(C)` too): narrowing is sound — a variant of a
   variable that no earlier branch has taken (`taken_by`), and that passes the branch's own test when the test is on
   this variable, is in the variable's type in that branch (BranchSound / branches_sound); a variant that no branch has
   taken is in its type in the else branch.  (After a negated test ti may keep variants that cannot reach a later
   branch: such branches are unreachable in Ruby.) *)
Theorem C10_elsif_sound : forall t0 ts he e,
  exists brs ee ea, chain true [t0] (map (fun t => [t]) ts) he e = (brs, ee, ea) /\
    branches_sound e [] (t0 :: ts) brs /\
    (he = true -> exists b, ee = Some b /\
       forall y v, In v (ty_of e y) -> taken_by (t0 :: ts) y v = false -> In v (ty_of b y)).
Proof. exact elsif_chain_sound. Qed.
Print Assumptions C10_elsif_sound.

Example C10_elsif_example :
  let e := [("x", ["NilClass"; "String"; "Integer"]); ("y", ["Integer"; "Float"])] in
  let t x c := {| t_var := x; t_cls := c; t_neg := false |} in
  let '(brs, ee, ea) := chain true [t "x" "NilClass"] [[t "y" "Float"]; [t "x" "String"]] true e in
  (map (fun b => (ty_of b "x", ty_of b "y")) brs, option_map (fun b => (ty_of b "x", ty_of b "y")) ee, (ty_of ea "x", ty_of ea "y")) =
  ([(["NilClass"], ["Integer"; "Float"]); (["String"; "Integer"], ["Float"]); (["String"], ["Integer"])],
   Some (["Integer"], ["Integer"]), (["NilClass"; "String"; "Integer"], ["Integer"; "Float"])).
Proof. vm_compute. reflexivity. Qed.

Example C10_example :
  let e := [("x", ["NilClass"; "String"]); ("y", ["Integer"; "String"; "Float"])] in
  let c := [{| t_var := "x"; t_cls := "NilClass"; t_neg := true |}; {| t_var := "y"; t_cls := "String"; t_neg := false |}] in
  let '(e1, e2, e3) := conditional KIf c e in
  (ty_of e1 "x", ty_of e1 "y", ty_of e2 "x", ty_of e2 "y", ty_of e3 "x", ty_of e3 "y") =
  (["String"], ["String"], ["NilClass"; "String"], ["Integer"; "String"; "Float"], ["NilClass"; "String"], ["Integer"; "String"; "Float"]).
Proof. vm_compute. reflexivity. Qed.
