(* C10 — nil? / is_a? narrowing is exact inside branches and undone afterwards.
   A type is the list of the classes of its variants; `minus` removes classes.  For `if C` / `unless C` with C an
   && chain of tests, each on its own variable:  Proofs in NarrowP.v. *)
From RT Require Import Model.Narrow Proofs.NarrowP.

(* inside the branch of the condition every tested variable has exactly the variants its test admits *)
Theorem C10_then_exact : forall k c e t, NoDup (map t_var c) -> In t c ->
  ty_of (fst (fst (conditional k c e))) (t_var t) = admit_then k t (ty_of e (t_var t)).
Proof. exact conditional_then_exact. Qed.
Print Assumptions C10_then_exact.

(* the else branch of a single test sees the complement *)
Theorem C10_else_exact : forall k t e,
  ty_of (snd (fst (conditional k [t] e))) (t_var t) = admit_else k t (ty_of e (t_var t)).
Proof. exact conditional_else_exact_single. Qed.
Print Assumptions C10_else_exact.

(* the else branch of `if a && b && ...` admits every variant of every tested variable *)
Theorem C10_else_of_conjunction : forall c e t, NoDup (map t_var c) -> 2 <= List.length c -> In t c ->
  ty_of (snd (fst (conditional KIf c e))) (t_var t) = ty_of e (t_var t).
Proof. exact conditional_else_of_conjunction. Qed.
Print Assumptions C10_else_of_conjunction.

(* after `end` every variable has its pre-conditional type again — for EVERY condition, also one that tests a
   variable several times (the restore closures run last to first) *)
Theorem C10_restore : forall k c e x, ty_of (snd (conditional k c e)) x = ty_of e x.
Proof. exact conditional_restores. Qed.
Print Assumptions C10_restore.

Example C10_example :
  let e := [("x", ["NilClass"; "String"]); ("y", ["Integer"; "String"; "Float"])] in
  let c := [{| t_var := "x"; t_cls := "NilClass"; t_neg := true |}; {| t_var := "y"; t_cls := "String"; t_neg := false |}] in
  let '(e1, e2, e3) := conditional KIf c e in
  (ty_of e1 "x", ty_of e1 "y", ty_of e2 "x", ty_of e2 "y", ty_of e3 "x", ty_of e3 "y") =
  (["String"], ["String"], ["NilClass"; "String"], ["Integer"; "String"; "Float"], ["NilClass"; "String"], ["Integer"; "String"; "Float"]).
Proof. vm_compute. reflexivity. Qed.
