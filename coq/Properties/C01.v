(* C01 — the analyzer never crashes, whatever source it is given.
   What is proved: the driver skeleton for EVERY behaviour of the evaluator short of a Go fatal error
   (the evaluator itself is an oracle: each top-level step ends normally, with an error, or with a panic), the
   token layer, and the rendering of every type tag.  Proofs in Proofs/DriverP.v, ParserP.v, TablesP.v. *)
From RT Require Import Model.Driver Model.Lexer Model.Parser Proofs.DriverP Proofs.LexerP Proofs.ParserP Proofs.TablesP Generated.

(* status 0; every line names the target file; every diagnostic is one line — plain and -i, any evaluator *)
Theorem C01_driver : forall fl preloads tfile tsrc articles,
  let '(lines, status, _) := run_driver fl preloads (tfile, tsrc) articles in
  status = 0%Z /\
  Forall (fun l => line_file l = tfile) lines /\
  Forall (fun l => match l with LDiag _ _ m => no_eol m = true | LInfo _ _ _ => True end) lines.
Proof. exact driver_output_wf. Qed.
Print Assumptions C01_driver.

(* a panic inside the evaluator is a diagnostic, never the end of the process *)
Theorem C01_panic_is_diagnostic : forall file row msg infos,
  po_errors (eval_loop true file [{| st_row := row; st_out := OPanic msg; st_infos := infos |}] empty_out) =
  [LDiag file row (escape_msg ("internal error: " ++ msg))].
Proof. reflexivity. Qed.
Print Assumptions C01_panic_is_diagnostic.

(* parser.Read never answers `read error`, on any rune sequence *)
Theorem C01_read_total :
  forall is_uspace is_udigit is_uupper is_ulower builtin_classes,
  is_uspace 0%N = false -> is_udigit 0%N = false -> is_uspace ch_dot = false ->
  (forall c, is_udigit c = true -> ((c =? 120) || (c =? 111) || (c =? 98))%N = false /\ (c =? ch_under)%N = false /\ (c =? ch_dot)%N = false) ->
  forall fuel p, inv is_udigit (rd (lx p)) -> pwf p -> (phi (rd (lx p)) + 3 < fuel)%nat ->
  exists r p', parser_read is_uspace is_udigit is_uupper is_ulower fixed_lex builtin_classes fuel p = Some (r, p') /\ r <> RError.
Proof.
  intros sp dg up lo bc H1 H2 H3 H4 fuel p Hi Hw Hf.
  destruct (parser_read_ok sp dg up lo fixed_lex bc eq_refl eq_refl eq_refl H1 H2 H3 H4 fuel p Hi Hw Hf) as (r & p' & Hr & Hne & _).
  exists r, p'. split; assumption.
Qed.
Print Assumptions C01_read_total.

(* every type tag the source declares is rendered by TypeToString (no "type convert error" panic) *)
Theorem C01_render_total :
  type_const_names = "EOS"%string :: map tag_name Model.Ty.all_tags /\
  forallb (fun n => existsb (String.eqb n) type_to_string_cases) (map tag_name Model.Ty.all_tags) = true.
Proof. exact tbl_type_tags. Qed.
Print Assumptions C01_render_total.
