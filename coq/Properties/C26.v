(* C26 — c2json signatures accept exactly the argument counts the C binding accepts.
   inferArguments is modelled on what the regular expressions extract (Model/C2Json.v); the emitted declaration is
   read the way the loader reads it (`?T` = default, key "*args" = rest, Block declarations take no positional).
   Proofs in C2JsonP.v, ArgsP.v. *)
From RT Require Import Model.C2Json Model.Args Proofs.ArgsP Proofs.C2JsonP Generated.
Local Infix "+++" := String.append (right associativity, at level 60).

(* the MRB_ARGS path: the declaration has exactly the counts of the definition, for every REQ/OPT/REST/POST/BLOCK *)
Theorem C26_shape_aspec : forall a gets guards, aspec_ok a = true ->
  (a_none a || a_any a || negb (Nat.eqb (a_req a) 0 && Nat.eqb (a_opt a) 0 && negb (a_rest a) && Nat.eqb (a_post a) 0 && negb (a_block a))
   || Nat.eqb (List.length gets) 0) = true ->
  decl_shape false (infer_arguments a None gets guards) empty_shape = aspec_shape a.
Proof. exact infer_shape_aspec. Qed.
Print Assumptions C26_shape_aspec.

(* the mrb_get_args path: for every format string in which `*` is not followed by argument letters *)
Theorem C26_shape_fmt : forall a f gets guards, a_none a = false -> a_any a = false -> rest_last false f = true ->
  decl_shape false (infer_arguments a (Some f) gets guards) empty_shape = fmt_shape false f empty_shape.
Proof. exact infer_shape_fmt. Qed.
Print Assumptions C26_shape_fmt.

(* a declaration of req untyped and opt defaulted untyped parameters, through checkAndPropagateArgs in the check
   round: a call with k positional arguments is accepted exactly when req <= k <= req + opt *)
Theorem C26_arity_positional : forall U Uo, is_any_type U = true -> is_any_type Uo = true ->
  has_default U = false -> has_default Uo = true ->
  forall req opt names t args,
  forallb plain_name names = true -> forallb plain_arg args = true -> forallb (declared t) names = true ->
  map (param_ty t) names = (repeat U req ++ repeat Uo opt)%list ->
  (fst (check_args fixed_args true false names t args) = COk <-> req <= List.length args <= req + opt).
Proof.
  intros U Uo H1 H2 H3 H4 req opt names t args Hn Ha Hd Hp.
  rewrite (check_args_positional true false names t args Hn Ha Hd). cbn [fst]. rewrite Hp.
  apply positional_arity; assumption.
Qed.
Print Assumptions C26_arity_positional.

(* the two parameter types the theorem is about are what the loader makes of "Untyped" and "?Untyped" *)
Example C26_untyped_params :
  let U := parse_argument fixed_cfg {| ja_types := ["Untyped"]; ja_key := ""; ja_ast := false; ja_def := false |} in
  let Uo := parse_argument fixed_cfg {| ja_types := ["?Untyped"]; ja_key := ""; ja_ast := false; ja_def := false |} in
  is_any_type U = true /\ is_any_type Uo = true /\ has_default U = false /\ has_default Uo = true /\
  is_builtin U = true /\ is_builtin Uo = true.
Proof. vm_compute. repeat split. Qed.

(* PARTIAL (kept findings): with REST the walk of checkAndPropagateArgs is not characterised by a theorem; the
   counts it accepts are computed below for the two shapes on which it departs from the binding *)
Definition untyped_decl (t k : string) : ty :=
  parse_argument fixed_cfg {| ja_types := [t]; ja_key := k; ja_ast := false; ja_def := false |}.
Definition int_arg : ty := Ty INT "Integer" VInt64 None "" "" "" [] no_flags "" "" "" [] [] [].
Definition accepts_decl (V : args_variant) (ds : list targ) (k : nat) : bool :=
  let ptys := map (fun d => untyped_decl (fst d) (snd d)) ds in
  let names := map (fun ip => if is_keyvalue_type (snd ip) then t_key (snd ip) else "p" +++ String (ascii_of_nat (48 + fst ip)) "")
                   (combine (seq 0 (List.length ptys)) ptys) in
  let t := map (fun np => (strip_star (fst np), if is_keyvalue_type (snd np) then match t_vt (snd np) with Some v => v | None => snd np end else snd np))
               (combine names ptys) in
  match fst (check_args V true false names t (repeat int_arg k)) with COk => true | _ => false end.

(* REQ(1)|REST()|BLOCK(): the binding takes 1 or more; before the repair the trailing `?Block` reserved an argument
   and the declaration rejected 2 and more (repaired by a fix: commit; the general statement is C26_arity_rest_block) *)
Theorem C26_rest_block_pinned_refuted :
  let a := {| a_none := false; a_any := false; a_req := 1; a_opt := 0; a_rest := true; a_post := 0; a_block := true |} in
  accepts (aspec_shape a) 2 = true /\ accepts_decl rest_pinned_args (infer_arguments a None [] []) 2 = false /\
  map (accepts (aspec_shape a)) (seq 0 6) = map (accepts_decl fixed_args (infer_arguments a None [] [])) (seq 0 6).
Proof. vm_compute. repeat split; reflexivity. Qed.

(* REQ(1)|OPT(1)|REST()|POST(1): the binding needs 2; the declaration takes 1 and refuses 2 *)
Theorem C26_opt_post_refuted :
  let a := {| a_none := false; a_any := false; a_req := 1; a_opt := 1; a_rest := true; a_post := 1; a_block := false |} in
  accepts (aspec_shape a) 1 = false /\ accepts_decl fixed_args (infer_arguments a None [] []) 1 = true /\
  accepts (aspec_shape a) 2 = true /\ accepts_decl fixed_args (infer_arguments a None [] []) 2 = false.
Proof. vm_compute. repeat split; reflexivity. Qed.

(* and REQ|REST|POST without OPT agrees, e.g. *)
Example C26_rest_post_example :
  let a := {| a_none := false; a_any := false; a_req := 1; a_opt := 0; a_rest := true; a_post := 1; a_block := false |} in
  map (accepts (aspec_shape a)) (seq 0 6) = map (accepts_decl fixed_args (infer_arguments a None [] [])) (seq 0 6).
Proof. vm_compute. reflexivity. Qed.

(* with a rest parameter: required ++ [rest] ++ trailing parameters (REQ(n)|REST()|POST(m), or a format `…*`), declared by
   the configuration with types that admit everything: checkAndPropagateArgs in the check round accepts k positional
   arguments exactly when n + m <= k *)
From RT Require Import Proofs.RestArityP.
Theorem C26_arity_rest : forall t star,
  is_star star = true -> is_dstar star = false ->
  match tget t (drop1 star) with Some dt => is_builtin dt | None => false end = true -> is_named_darg star = false ->
  forall P Q args, forallb (req_any t) P = true -> forallb (req_any t) Q = true -> forallb plain_arg args = true ->
  (fst (check_args fixed_args true false (P ++ star :: Q) t args) = COk <-> List.length P + List.length Q <= List.length args).
Proof. intros t star H1 H2 H3 H4 P Q args. exact (check_args_rest t star H1 H2 H3 H4 P Q args). Qed.
Print Assumptions C26_arity_rest.

(* non-vacuity: REQ(1)|REST()|POST(1) as the loader declares it *)
Example C26_arity_rest_example :
  let U := untyped_decl "Untyped" "" in
  let R := match t_vt (untyped_decl "Untyped" "*args") with Some v => v | None => U end in
  let t := [("p0", U); ("args", R); ("p2", U)] in
  is_star "*args" = true /\ is_dstar "*args" = false /\ is_named_darg "*args" = false /\
  match tget t (drop1 "*args") with Some dt => is_builtin dt | None => false end = true /\
  forallb (req_any t) ["p0"] = true /\ forallb (req_any t) ["p2"] = true /\
  map (fun k => match fst (check_args fixed_args true false ["p0"; "*args"; "p2"] t (repeat int_arg k)) with COk => true | _ => false end) (seq 0 5)
  = [false; false; true; true; true].
Proof. vm_compute. repeat split; reflexivity. Qed.

(* ... and the same followed by parameters that have a default — the `?Block` c2json emits for MRB_ARGS_BLOCK() / `&`:
   they reserve no argument, REQ(n)|REST()|POST(m)|BLOCK() is accepted exactly from n + m arguments on *)
Theorem C26_arity_rest_block : forall t star,
  is_star star = true -> is_dstar star = false ->
  match tget t (drop1 star) with Some dt => is_builtin dt | None => false end = true -> is_named_darg star = false ->
  forall P Q D args, forallb (req_any t) P = true -> forallb (req_any t) Q = true -> forallb (opt_def t) D = true ->
  forallb plain_arg args = true ->
  (fst (check_args fixed_args true false (P ++ star :: Q ++ D) t args) = COk <-> List.length P + List.length Q <= List.length args).
Proof. intros t star H1 H2 H3 H4 P Q D args. exact (check_args_rest_defaults t star H1 H2 H3 H4 P Q D args). Qed.
Print Assumptions C26_arity_rest_block.

Example C26_arity_rest_block_example :
  let U := untyped_decl "Untyped" "" in
  let B := untyped_decl "?Block" "" in
  let R := match t_vt (untyped_decl "Untyped" "*args") with Some v => v | None => U end in
  let t := [("p0", U); ("args", R); ("p2", B)] in
  forallb (req_any t) ["p0"] = true /\ forallb (opt_def t) ["p2"] = true /\
  map (fun k => match fst (check_args fixed_args true false ["p0"; "*args"; "p2"] t (repeat int_arg k)) with COk => true | _ => false end) (seq 0 5)
  = [false; true; true; true; true].
Proof. vm_compute. repeat split; reflexivity. Qed.
