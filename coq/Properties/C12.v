(* C12 — analyzing a program never alters configured builtin signatures.
   T values are heap cells; the loader allocated the table's cells before the program runs (they lie below
   `next h`).  The two paths through which a call could write to such a cell are modelled with the heap explicit
   (Model/Heap.v); `preserved n h h'` says that every cell below n is in h' what it was in h.  Proofs in HeapP.v. *)
From RT Require Import Model.Heap Proofs.HeapP.

(* a call on a union receiver — any method entries, any AppendVariant, any IsMatchType — leaves every existing
   cell as it was *)
Theorem C12_union_call_frame : forall append matches h mts,
  preserved (next h) h (fst (union_accumulate fixed_heap append matches h mts)).
Proof. exact union_accumulate_frame. Qed.
Print Assumptions C12_union_call_frame.

(* any sequence of destructive calls and assignments leaves every existing cell as it was *)
Theorem C12_destructive_frame : forall h ss, preserved (next h) h (fst (run_stmts fixed_heap h ss)).
Proof. exact run_stmts_frame. Qed.
Print Assumptions C12_destructive_frame.

(* the pinned code: Integer#* (returns Integer) and String#* (returns String) on x : Union<Integer String> *)
Definition int_t : ty := Ty INT "Integer" VOther None "" "Builtin" "*" [] no_flags "" "" "" [] [] [].
Definition str_union_t : ty := MakeUnion [Ty STRING "String" (VStr "String") None "" "Builtin" "*" [] no_flags "" "" "" [] [] []; int_t].
Definition table_heap : heap := {| cells := [(0, str_union_t); (1, int_t)]; next := 2 |}.
Theorem C12_pinned_union_refuted :
  hget (fst (union_accumulate pinned_heap (fun a b => MakeUnion (t_vars a ++ [b])) (fun _ _ => false) table_heap [0; 1])) 0
  <> hget table_heap 0.
Proof. vm_compute. discriminate. Qed.

(* the pinned code: u = User.new; u.save!; u = User.new  overwrites the entry of save! *)
Definition user_t : ty := MakeObject "User".
Theorem C12_pinned_destructive_refuted :
  hget (fst (run_stmts pinned_heap table_heap [SAssign "u" user_t; SDestructive "u" 1 false; SAssign "u" user_t])) 1 = user_t
  /\ hget table_heap 1 = int_t.
Proof. vm_compute. split; reflexivity. Qed.
Example C12_fixed_example :
  hget (fst (run_stmts fixed_heap table_heap [SAssign "u" user_t; SDestructive "u" 1 false; SAssign "u" user_t])) 1 = int_t.
Proof. vm_compute. reflexivity. Qed.
