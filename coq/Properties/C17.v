(* C17 — block parameters get declared types and block locals stay local.
   The block scope is modelled as snapshot / bind parameters / run the body / restore (Model/Blocks.v); the body is
   arbitrary (assignments and nested blocks), the theorems hold whatever it does.  Proofs in BlocksP.v. *)
From RT Require Import Model.Blocks Proofs.BlocksP Model.BlockParams Proofs.BlockParamsP.

(* a variable first assigned inside the block — at any depth — is not bound after it *)
Theorem C17_locals_stay_local : forall A nil_t untyped_t is_unknown ps ds body e x,
  ~ In x ps -> aget e x = None -> aget (exec A nil_t untyped_t is_unknown (SBlk A ps ds body) e) x = None.
Proof. exact block_locals_stay_local. Qed.
Print Assumptions C17_locals_stay_local.

(* a parameter shadows an outer variable of the same name, which has its previous type after the block *)
Theorem C17_shadow_restored : forall A nil_t untyped_t is_unknown ps ds body e x t,
  In x ps -> aget e x = Some t -> is_unknown t = false ->
  aget (exec A nil_t untyped_t is_unknown (SBlk A ps ds body) e) x = Some t.
Proof. exact block_shadow_restored. Qed.
Print Assumptions C17_shadow_restored.

(* inside the block parameter i has the i-th declared type, surplus parameters are NilClass *)
Theorem C17_parameter_types : forall A nil_t ps ds e i p, NoDup ps -> nth_error ps i = Some p ->
  aget (set_params A nil_t e ps ds true) p = Some (match nth_error ds i with Some d => d | None => nil_t end).
Proof. exact set_params_spec. Qed.
Print Assumptions C17_parameter_types.

(* a receiver of union type: each of the n block variables gets the union, over the variants of the receiver, of what
   that variant's method declares for the position — NilClass where the variant declares fewer parameters *)
Theorem C17_union_receiver : forall A nil_t unify n rows i, rows <> [] -> i < n ->
  nth_error (union_declared A nil_t unify n rows) i = Some (unify (map (fun ds => nth i ds nil_t) rows)).
Proof. exact union_declared_spec. Qed.
Print Assumptions C17_union_receiver.

Example C17_union_example :
  union_declared string "NilClass" unify_printed 2 [["untyped"; "Float"]; ["Integer"]] = ["Union<untyped Integer>"; "Union<Float NilClass>"].
Proof. vm_compute. reflexivity. Qed.

(* "the type declared by the method's block_parameters, resolved against the receiver": on the model of
   appendParameterBeforeTypeCalculate (tied to the code through a hook, receiver compared afterwards).  Unify is the union of
   the receiver's element types; Flatten with at most one block variable is the same; with two or more block variables a
   receiver holding tuples [x1, ..., xk] gives variable j the type xj *)
Theorem C17_resolve_unify : forall count args recv p, t_tag p = UNIFY -> resolve_params count args recv [p] = [UnifyVariants recv].
Proof. exact resolve_unify. Qed.
Print Assumptions C17_resolve_unify.
Theorem C17_resolve_flatten_one : forall count args recv p, t_tag p = FLATTEN -> count <= 1 ->
  resolve_params count args recv [p] = [UnifyVariants recv].
Proof. exact resolve_flatten_one. Qed.
Print Assumptions C17_resolve_flatten_one.
Theorem C17_resolve_flatten_tuple : forall count args xs p, t_tag p = FLATTEN -> 2 <= count -> xs <> [] -> forallb plain xs = true ->
  resolve_params count args (MakeArray [MakeArray xs]) [p] = xs.
Proof. exact resolve_flatten_tuple. Qed.
Print Assumptions C17_resolve_flatten_tuple.

Example C17_resolve_example :
  let F := NewT "Flatten" FLATTEN (VStr "flatten") in
  map TypeToString (resolve_params 2 [] (MakeArray [MakeArray [MakeIntLit; MakeString "a"]]) [F]) = ["Integer"; "String"] /\
  map TypeToString (resolve_params 2 [] (MakeArray [MakeArray [MakeIntLit; MakeString "a"]; MakeFloatLit]) [F]) = ["Union<Integer Float>"; "Union<String NilClass>"] /\
  forallb plain [MakeIntLit; MakeString "a"] = true.
Proof. vm_compute. repeat split; reflexivity. Qed.

Example C17_example :
  let e := [("x", "String")] in
  let blk := SBlk string ["x"; "i"; "z"] ["Integer"; "Integer"]
                  [SSet string "loc" "Float"; SBlk string ["f"] ["Float"] [SSet string "deep" "Float"]; SSet string "x" "Symbol"] in
  let e' := exec string "NilClass" "untyped" (String.eqb "Unknown") blk e in
  (aget e' "x", aget e' "loc", aget e' "deep", aget e' "i") = (Some "String", None, None, Some "untyped").
Proof. vm_compute. reflexivity. Qed.
