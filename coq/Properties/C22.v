(* C22 — definition info points at the right definition: the c/ i/ tag and the visibility of every method of a
   class body are the ones Ruby's section rules give, for every sequence of `private` / `protected` / `public`
   sections, `def`, `def self.`, `class << self` bodies, `private def m` and `private :m` (which open no section).
   Rows and hover are exercised end to end. *)
From RT Require Import Model.Visibility Proofs.VisibilityP.

Theorem C22_tags : forall items, class_tags items = ruby_tags items.
Proof. exact class_tags_ruby. Qed.
Print Assumptions C22_tags.

(* a `class << self` body leaves the enclosing section as it found it, whatever it contains *)
Theorem C22_singleton_section_is_local : forall body v,
  snd (singleton_section body (vis_flags v)) = vis_flags v /\
  fst (singleton_section body (vis_flags v)) = ruby_singleton body Public.
Proof. intros body v. rewrite singleton_section_spec. split; reflexivity. Qed.
Print Assumptions C22_singleton_section_is_local.

(* the pinned code: private; class << self; def t; end; def c; def self.s *)
Theorem C22_pinned_refuted :
  pinned_class_loop [IPrivate; ISingleton [SDef "t"]; IDef "c"; IDefSelf "s"] {| f_priv := false; f_prot := false |}
  <> ruby_tags [IPrivate; ISingleton [SDef "t"]; IDef "c"; IDefSelf "s"].
Proof. exact pinned_refuted. Qed.

(* the code before the `private` repair: the keyword opened a section whatever followed it *)
Theorem C22_private_arguments_pinned_refuted :
  section_class_loop [IPrivateDef "a"; IDef "b"] {| f_priv := false; f_prot := false |} <> ruby_tags [IPrivateDef "a"; IDef "b"] /\
  section_class_loop [IDef "a"; IPrivateSym ["a"]; IDef "b"] {| f_priv := false; f_prot := false |} <> ruby_tags [IDef "a"; IPrivateSym ["a"]; IDef "b"].
Proof. exact section_refuted. Qed.
Print Assumptions C22_private_arguments_pinned_refuted.

Example C22_example :
  map (fun t => (tg_name t, tg_class_method t, tg_vis t))
      (class_tags [IDef "a"; IPrivate; IDef "b"; IDefSelf "s"; ISingleton [SDef "t"; SPrivate; SDef "u"]; IDef "c"; IProtected; IDef "d"; IPublic; IDef "e";
                   IPrivateDef "f"; IDef "g"; IPrivateSym ["g"]; IDef "h"]) =
  [("a", false, Public); ("b", false, Private); ("s", true, Public); ("t", true, Public); ("u", true, Private);
   ("c", false, Private); ("d", false, Protected); ("e", false, Public); ("f", false, Private); ("g", false, Public); ("h", false, Public)].
Proof. vm_compute. reflexivity. Qed.
