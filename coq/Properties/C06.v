(* C06 — layout changes only shift reported rows (token layer).
   The row ti reports is the parser's Row.  Proved: each Read moves Row by exactly the line breaks the token
   stands for (a line-break token: 1; a freshly lexed string literal: the breaks inside it; a token replayed after
   Unget: 0) — so Row = 1 + the line breaks consumed, independently of anything else in the text (repaired code: the
   BeforeString exemption is gone).  That an extra line-break token at a statement boundary does not change what the
   evaluator answers is the evaluator's business and is evaluated end-to-end. *)
From RT Require Import Model.Lexer Model.Parser Proofs.RowsP Proofs.StreamP.
Open Scope Z_scope.

Theorem C06_row_accounting :
  forall is_uspace is_udigit is_uupper is_ulower V bc fuel p r p',
  parser_read is_uspace is_udigit is_uupper is_ulower V bc fuel p = Some (r, p') ->
  r <> RError ->
  prow p' = prow p + breaks_of r (pungot p).
Proof. exact read_row_accounting. Qed.
Print Assumptions C06_row_accounting.

(* the pinned code skipped the adjustment when a string literal repeated the previous one; the model variant with
   BeforeString is no longer in the development — the regression witness is the corpus probe
   c06_identical_multiline_strings.rb (row 5 must be reported, the pinned code said 4) *)
Example C06_string_breaks_counted : breaks_of (RTok (KString [97%N; 10%N; 98%N]) false) false = 1.
Proof. reflexivity. Qed.

(* the whole token stream (read_all: the function the correspondence runs against parser.Read on generated and corpus
   texts): from a parser with no pending Unget, for every source text and every number of Reads, the Row after each
   Read is the Row before it plus the line breaks of that token — nothing else in the text moves a row *)
Theorem C06_stream_rows :
  forall is_uspace is_udigit is_uupper is_ulower V bc n fuel p l,
  read_all is_uspace is_udigit is_uupper is_ulower V bc n fuel p = Some l ->
  pungot p = false ->
  (forall x, In x l -> fst (fst x) <> RError) ->
  rows_from (prow p) l.
Proof. exact read_all_rows. Qed.
Print Assumptions C06_stream_rows.

(* closed form: after k Reads the reported row is the start row plus the line breaks of the first k tokens — so k
   extra line-break tokens anywhere before a position move its row by exactly k *)
Theorem C06_row_closed_form : forall row l, rows_from row l ->
  forall k, (k <= List.length l)%nat ->
  List.last (map (fun x => snd (fst x)) (firstn k l)) row = row + total_breaks (firstn k l).
Proof. exact rows_from_last. Qed.
Print Assumptions C06_row_closed_form.

(* non-vacuity: `a`, line break, a two-line string, line break, `b` — rows 1, 2, 3, 4, 4, 5, 5 (the reader supplies the final
   line break the text lacks; the last entry is EOS) *)
Example C06_stream_example :
  let sp := fun c => (c =? 32)%N in
  let dg := fun c => ((48 <=? c) && (c <=? 57))%N in
  let up := fun c => ((65 <=? c) && (c <=? 90))%N in
  let lo := fun c => ((97 <=? c) && (c <=? 122))%N in
  let src := [97; 10; 34; 120; 10; 121; 34; 10; 98]%N in
  exists l, read_all sp dg up lo fixed_lex [] 20 40 (ps_new src) = Some l /\
            map (fun x => snd (fst x)) l = [1; 2; 3; 4; 4; 5; 5] /\
            (forall x, In x l -> fst (fst x) <> RError) /\ total_breaks l = 4.
Proof.
  eexists. split; [vm_compute; reflexivity|]. split; [reflexivity|]. split; [|reflexivity].
  intros x Hx. cbn in Hx. repeat (destruct Hx as [Hx|Hx]; [subst x; discriminate|]). destruct Hx.
Qed.

(* for every source text at all (no hypothesis on the stream left): the stream read from it is total and its rows
   start at 1 and move by the line breaks of each token *)
Theorem C06_rows_every_text : forall is_uspace is_udigit is_uupper is_ulower bc,
  is_uspace 0%N = false -> is_udigit 0%N = false -> is_uspace ch_dot = false ->
  (forall c, is_udigit c = true -> ((c =? 120) || (c =? 111) || (c =? 98))%N = false /\ (c =? ch_under)%N = false /\ (c =? ch_dot)%N = false) ->
  forall s, exists l,
    read_all is_uspace is_udigit is_uupper is_ulower fixed_lex bc (3 * length s + 4) (3 * length s + 7) (ps_new s) = Some l /\
    rows_from 1 l /\ (length l <= 3 * length s + 4)%nat.
Proof. intros sp dg up lo bc H1 H2 H3 H4. exact (read_all_rows_total sp dg up lo bc H1 H2 H3 H4). Qed.
Print Assumptions C06_rows_every_text.
