(* C06 — layout changes only shift reported rows (token layer).
   The row ti reports is the parser's Row.  Proved: each Read moves Row by exactly the line breaks the token
   stands for (a line-break token: 1; a freshly lexed string literal: the breaks inside it; a token replayed after
   Unget: 0) — so Row = 1 + the line breaks consumed, independently of anything else in the text (repaired code: the
   BeforeString exemption is gone).  That an extra line-break token at a statement boundary does not change what the
   evaluator answers is the evaluator's business and is evaluated end-to-end. *)
From RT Require Import Model.Lexer Model.Parser Proofs.RowsP.
Open Scope Z_scope.

Theorem C06_row_accounting :
  forall is_uspace is_udigit is_uupper is_ulower V bc fuel p r p',
  parser_read is_uspace is_udigit is_uupper is_ulower V bc fuel p = Some (r, p') ->
  r <> RError ->
  prow p' = prow p + breaks_of r (pungot p).
Proof. exact read_row_accounting. Qed.
Print Assumptions C06_row_accounting.

(* the pinned code skipped the adjustment when a string literal repeated the previous one; the model variant with
   BeforeString is no longer in the development — the regression witness is the corpus probe
   c06_identical_multiline_strings.rb (row 5 must be reported, the pinned code said 4) *)
Example C06_string_breaks_counted : breaks_of (RTok (KString [97%N; 10%N; 98%N]) false) false = 1.
Proof. reflexivity. Qed.
