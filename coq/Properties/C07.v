(* C07 — definite misuse of configured builtin methods is reported.
   Function-level statements over the faithful models of checkArgType / checkAndPropagateArgs
   (repaired code).  Proofs in Proofs/ArgsP.v. *)
From RT Require Import Model.Args Model.CallSpec Proofs.ArgsP.

(* an argument all of whose possible classes the declaration rejects fails the check, in every round *)
Theorem C07_argument_rejected : forall d a,
  flat d = true -> flat a = true -> known a = true -> variants_of a <> [] ->
  forallb (fun k => negb (decl_admits d k)) (possible a) = true ->
  check_arg_type fixed_args d a = false.
Proof. exact check_arg_type_sound. Qed.
Print Assumptions C07_argument_rejected.

(* on a positional call of a configured method the walk of checkAndPropagateArgs is exactly the
   declarative rule pos_spec (parameter i takes argument i; missing ones need a default; no surplus) *)
Theorem C07_positional_call_rule : forall cr ra names t args,
  forallb plain_name names = true -> forallb plain_arg args = true -> forallb (declared t) names = true ->
  check_args fixed_args cr ra names t args = (pos_spec cr ra (map (param_ty t) names) args, t).
Proof. exact check_args_positional. Qed.
Print Assumptions C07_positional_call_rule.

(* an argument count outside what the declaration accepts is an error in the check round *)
Theorem C07_too_many_reported : forall ptys args,
  List.length ptys < List.length args -> exists k, pos_spec true false ptys args = CErr k.
Proof. exact positional_too_many. Qed.
Print Assumptions C07_too_many_reported.

Theorem C07_too_few_reported : forall ptys args,
  (exists i, List.length args <= i < List.length ptys /\ has_default (nth i ptys zero_ty) = false) ->
  exists k, pos_spec true false ptys args = CErr k.
Proof. exact positional_too_few. Qed.
Print Assumptions C07_too_few_reported.

(* the spec predicate used end-to-end ("the call certainly fails": count outside the declaration, or an
   argument all of whose classes are rejected) implies an error of the modelled check in the check round *)
Theorem C07_certain_failure_reported : forall ptys args,
  certainly_fails ptys args = true -> exists k, pos_spec true false ptys args = CErr k.
Proof. exact certainly_fails_reported. Qed.
Print Assumptions C07_certain_failure_reported.

(* the pinned code accepted an object of the wrong class inside a union: witness kept *)
Theorem C07_pinned_refuted :
  exists d a, flat d = true /\ flat a = true /\ known a = true /\ variants_of a <> [] /\
              forallb (fun k => negb (decl_admits d k)) (possible a) = true /\
              check_arg_type pinned_args d a = true.
Proof. exact pinned_sound_refuted. Qed.

Example C07_hyps_satisfiable :
  flat (MakeUnion [MakeObject "K"; MakeNil]) = true /\ known (MakeUnion [MakeObject "L"; MakeAnyInt]) = true /\
  forallb (fun k => negb (decl_admits (MakeUnion [MakeObject "K"; MakeNil]) k))
          (possible (MakeUnion [MakeObject "L"; MakeAnyInt])) = true.
Proof. repeat split. Qed.
