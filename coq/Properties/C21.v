(* C21 — equivalent type notations in config mean the same thing.
   Statements only; proofs are in Proofs/C21P.v.  The parsed `ty` carries every field the rest of
   the analyzer reads, so equal parses give equal diagnostics, types and signatures. *)
From RT Require Import Model.Config Proofs.StrsP Proofs.ConfigP Proofs.C21P Generated.

(* "A|B|…" ≡ ["A","B",…] (return types) *)
Theorem C21_union_return : forall a b r c d p,
  Forall part_ok (a :: b :: r) ->
  plain_head (join_char c_bar (a :: b :: r)) = true ->
  parse_return_type (mkret [join_char c_bar (a :: b :: r)] c d p) =
  parse_return_type (mkret (a :: b :: r) c d p).
Proof. exact union_return. Qed.
Print Assumptions C21_union_return.

(* "A|B|…" ≡ ["A","B",…] (arguments) *)
Theorem C21_union_arg : forall a b r k ast def,
  Forall part_ok (a :: b :: r) ->
  plain_head (join_char c_bar (a :: b :: r)) = true ->
  is_name_space (join_char c_bar (a :: b :: r)) = false ->
  parse_argument fixed_cfg (mkarg [join_char c_bar (a :: b :: r)] k ast def) =
  parse_argument fixed_cfg (mkarg (a :: b :: r) k ast def).
Proof. exact (union_arg fixed_cfg). Qed.
Print Assumptions C21_union_arg.

(* "?T" (return) ≡ [T, "NilClass"] *)
Theorem C21_opt_return : forall T c d p,
  T <> "" ->
  parse_return_type (mkret [String c_q T] c d p) = parse_return_type (mkret [T; "NilClass"] c d p).
Proof. exact opt_return. Qed.
Print Assumptions C21_opt_return.

(* "?T" (argument) ≡ T with is_default — every T, composite included *)
Theorem C21_opt_arg : forall T k ast def,
  T <> "" -> arg_plain T = true ->
  parse_argument fixed_cfg (mkarg [String c_q T] k ast def) =
  parse_argument fixed_cfg (mkarg [T] k ast true).
Proof. exact opt_arg_fixed. Qed.
Print Assumptions C21_opt_arg.

(* "*T" (argument) ≡ T with is_asterisk — every T, composite included *)
Theorem C21_ast_arg : forall T k ast def,
  T <> "" -> arg_plain T = true ->
  parse_argument fixed_cfg (mkarg [String c_star T] k ast def) =
  parse_argument fixed_cfg (mkarg [T] k true def).
Proof. exact ast_arg_fixed. Qed.
Print Assumptions C21_ast_arg.

(* "[T]" ≡ array of T, and the three named arrays *)
Theorem C21_array : forall T,
  T <> "" -> parse_type_string (String c_lb (T ++ "]")) = MakeArray [parse_type_string T].
Proof. exact array_of. Qed.
Print Assumptions C21_array.

Theorem C21_named_arrays :
  parse_type_string "[String]" = parse_type_string "StringArray" /\
  parse_type_string "[Int]" = parse_type_string "IntArray" /\
  parse_type_string "[Float]" = parse_type_string "FloatArray".
Proof. exact named_arrays. Qed.
Print Assumptions C21_named_arrays.

(* "Int" ≡ "Integer" *)
Theorem C21_int_integer : parse_type_string "Int" = parse_type_string "Integer".
Proof. exact int_integer. Qed.
Print Assumptions C21_int_integer.

(* OptionalX / DefaultX ≡ their expansions *)
Theorem C21_optional_names : forall c d p,
  parse_return_type (mkret ["OptionalString"] c d p) = parse_return_type (mkret ["String"; "NilClass"] c d p) /\
  parse_return_type (mkret ["OptionalInt"] c d p) = parse_return_type (mkret ["Int"; "NilClass"] c d p) /\
  parse_return_type (mkret ["OptionalFloat"] c d p) = parse_return_type (mkret ["Float"; "NilClass"] c d p).
Proof. exact optional_names. Qed.
Print Assumptions C21_optional_names.

Theorem C21_default_names : forall k ast def,
  Forall (fun X => parse_argument fixed_cfg (mkarg [("Default" ++ X)%string] k ast def) =
                   parse_argument fixed_cfg (mkarg [X] k ast true))
         ["Bool"; "Block"; "Untyped"; "String"; "Int"; "Float"].
Proof. exact (default_names fixed_cfg). Qed.
Print Assumptions C21_default_names.

(* the pinned (pre-fix) parser violates the two prefix equivalences for composite T: kept so that
   a regression to that behaviour has a ready witness *)
Theorem C21_opt_arg_pinned_refuted :
  exists T, T <> "" /\ arg_plain T = true /\
    parse_argument pinned_cfg (mkarg [String c_q T] "" false false) <>
    parse_argument pinned_cfg (mkarg [T] "" false true).
Proof. exact opt_arg_pinned_refuted. Qed.

Theorem C21_ast_arg_pinned_refuted :
  exists T, T <> "" /\ arg_plain T = true /\
    parse_argument pinned_cfg (mkarg [String c_star T] "" false false) <>
    parse_argument pinned_cfg (mkarg [T] "" true false).
Proof. exact ast_arg_pinned_refuted. Qed.

(* non-vacuity: the hypotheses are satisfiable by ordinary notations *)
Example C21_hyps_satisfiable :
  Forall part_ok ["Int"; "String"; "K"] /\ plain_head (join_char c_bar ["Int"; "String"; "K"]) = true /\
  arg_plain "Int|[String]" = true.
Proof. repeat split; repeat constructor. Qed.
