(* C11 — independent code does not change the analysis of other code.
   ti keeps its state in global tables and in flags of the parser; an independent fragment can reach other code only
   through them.  Three such channels are closed by theorems; the property as a whole is run as a metamorphic test.
   (1) the parser flag: a `[` opening a line is never an index on the value of the previous line (ParserP.v);
   (2) narrowing: after any conditional every variable has its previous type (C10_restore, NarrowP.v);
   (3) the configuration: no call of a fragment alters an entry of the builtin table (C12, HeapP.v). *)
From RT Require Import Model.Lexer Model.Parser Proofs.ParserP Model.Narrow Proofs.NarrowP Model.Heap Proofs.HeapP.

Theorem C11_bracket_opens_a_statement : forall sp dg up lo V bc fuel p0 r p',
  pungot p0 = false -> ((ptoken p0 =? Z.of_N ch_nl)%Z || negb (phas_token p0)) = true ->
  parser_read sp dg up lo V bc fuel p0 = Some (r, p') ->
  match r with RTok (KPunct c) before_space => c = ch_lb -> before_space = true | _ => True end.
Proof. exact bracket_at_line_head. Qed.
Print Assumptions C11_bracket_opens_a_statement.

Theorem C11_conditionals_leave_no_trace : forall k c e x, ty_of (snd (conditional k c e)) x = ty_of e x.
Proof. exact conditional_restores. Qed.
Print Assumptions C11_conditionals_leave_no_trace.

Theorem C11_calls_leave_the_table : forall append matches h mts,
  preserved (next h) h (fst (union_accumulate fixed_heap append matches h mts)).
Proof. exact union_accumulate_frame. Qed.
Print Assumptions C11_calls_leave_the_table.
