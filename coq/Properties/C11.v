(* C11 — independent code does not change the analysis of other code.
   ti keeps its state in global tables and in flags of the parser; an independent fragment can reach other code only
   through them.  Four such channels are closed by theorems; the property as a whole is run as a metamorphic test.
   (1) the parser flag: a `[` opening a line is never an index on the value of the previous line (ParserP.v);
   (2) narrowing: after any conditional every variable has its previous type (C10_restore, NarrowP.v);
   (3) the configuration: no call of a fragment alters an entry of the builtin table (C12, HeapP.v);
   (4) the parser's list of returned types: a lambda leaves it as it found it (ReturnsP.v). *)
From RT Require Import Model.Lexer Model.Parser Proofs.ParserP Model.Narrow Proofs.NarrowP Model.Heap Proofs.HeapP Model.Returns Proofs.ReturnsP.

Theorem C11_bracket_opens_a_statement : forall sp dg up lo V bc fuel p0 r p',
  pungot p0 = false -> ((ptoken p0 =? Z.of_N ch_nl)%Z || negb (phas_token p0)) = true ->
  parser_read sp dg up lo V bc fuel p0 = Some (r, p') ->
  match r with RTok (KPunct c) before_space => c = ch_lb -> before_space = true | _ => True end.
Proof. exact bracket_at_line_head. Qed.
Print Assumptions C11_bracket_opens_a_statement.

Theorem C11_conditionals_leave_no_trace : forall k c e x, ty_of (snd (conditional k c e)) x = ty_of e x.
Proof. exact conditional_restores. Qed.
Print Assumptions C11_conditionals_leave_no_trace.

Theorem C11_calls_leave_the_table : forall append matches h mts,
  preserved (next h) h (fst (union_accumulate fixed_heap append matches h mts)).
Proof. exact union_accumulate_frame. Qed.
Print Assumptions C11_calls_leave_the_table.

(* inserting a lambda — whatever its body returns — anywhere before the last statement of a method body, also inside
   the blocks and lambdas of that body at any depth, leaves the type of the method unchanged *)
Theorem C11_lambda_returns_are_local : forall lb pre pre' post, ins (RLambda lb) pre pre' -> post <> [] ->
  method_type true (pre' ++ post) = method_type true (pre ++ post).
Proof. exact lambda_insertion. Qed.
Print Assumptions C11_lambda_returns_are_local.

(* the pinned code treated a lambda as a block: `return` in it counted for the method (repaired by a fix: commit) *)
Theorem C11_lambda_pinned_refuted : exists lb pre post, post <> [] /\
  method_type false (pre ++ RLambda lb :: post) <> method_type false (pre ++ post).
Proof. exact lambda_pinned_refuted. Qed.
Print Assumptions C11_lambda_pinned_refuted.

Example C11_lambda_example :
  method_type true [RBlock [RLambda [RReturn "String"]; RReturn "Symbol"] "Array<Integer>"; RExpr "Integer"] = ["Symbol"; "Integer"] /\
  ins (RLambda [RReturn "String"]) [RBlock [RReturn "Symbol"] "Array<Integer>"] [RBlock [RLambda [RReturn "String"]; RReturn "Symbol"] "Array<Integer>"].
Proof. split; [vm_compute; reflexivity|]. apply (ins_block _ [] [RReturn "Symbol"] _ "Array<Integer>" []). apply (ins_here _ [] [RReturn "Symbol"]). Qed.
