(* C25 — rbs2json conversion is deterministic and keeps signature shape.  Proofs in Rbs2JsonP.v. *)
From RT Require Import Model.Rbs2Json Proofs.Rbs2JsonP.
From Coq Require Import Permutation.

(* the arguments of an overload come out as: required positionals, optional positionals (is_default), rest
   (is_asterisk), trailing positionals, required keywords, optional keywords (is_default) — with one argument per
   typed parameter — whatever convertType answers *)
Theorem C25_order : forall conv f, exists g1 g2 g3 g4 g5 g6,
  convert_arguments conv f = g1 ++ g2 ++ g3 ++ g4 ++ g5 ++ g6 /\
  Forall is_req g1 /\ List.length g1 = n_typed (ft_req f) /\
  Forall is_opt g2 /\ List.length g2 = n_typed (ft_opt f) /\
  Forall is_rest g3 /\ List.length g3 = (match ft_rest f with Some _ => 1 | None => 0 end) /\
  Forall is_req g4 /\ List.length g4 = n_typed (ft_trail f) /\
  Forall is_kwreq g5 /\ Forall is_kwopt g6.
Proof. exact convert_arguments_order. Qed.
Print Assumptions C25_order.

(* the keyword parameters are Go maps: for ANY two orders in which the maps are enumerated the output is the same *)
Theorem C25_deterministic : forall conv f f',
  ft_req f = ft_req f' -> ft_opt f = ft_opt f' -> ft_rest f = ft_rest f' -> ft_trail f = ft_trail f' ->
  NoDup (map fst (ft_kwreq f)) -> NoDup (map fst (ft_kwopt f)) ->
  Permutation (ft_kwreq f) (ft_kwreq f') -> Permutation (ft_kwopt f) (ft_kwopt f') ->
  convert_arguments conv f = convert_arguments conv f'.
Proof. exact convert_arguments_deterministic. Qed.
Print Assumptions C25_deterministic.

(* non-vacuity: (Integer a, ?String b, *untyped, Symbol z, k: Integer, j: Integer, ?o: Float) *)
Definition ci (n : string) : rtype := RT "class_instance" n [] None [] "".
Definition example_ft (swap : bool) : functype :=
  let k := ("k", {| rp_type := Some (ci "::Integer"); rp_name := "k" |}) in
  let j := ("j", {| rp_type := Some (ci "Integer"); rp_name := "j" |}) in
  {| ft_req := [{| rp_type := Some (ci "::Integer"); rp_name := "a" |}];
     ft_opt := [{| rp_type := Some (ci "String"); rp_name := "b" |}];
     ft_rest := Some {| rp_type := Some (RT "untyped" "" [] None [] ""); rp_name := "r" |};
     ft_trail := [{| rp_type := Some (ci "Symbol"); rp_name := "z" |}];
     ft_kwreq := if swap then [j; k] else [k; j];
     ft_kwopt := [("o", {| rp_type := Some (ci "Float"); rp_name := "o" |})]; ft_kwrest := None |}.
Definition conv0 (t : rtype) : list string := match convert_type 8 [] "Widget" t with Some l => l | None => [] end.
Example C25_example :
  map (fun a => (ta_types a, ta_key a, ta_ast a, ta_def a)) (convert_arguments conv0 (example_ft false)) =
  [(["Int"], "", false, false); (["String"], "", false, true); (["Untyped"], "", true, false); (["Symbol"], "", false, false);
   (["Int"], "j:", false, false); (["Int"], "k:", false, false); (["Float"], "o:", false, true)]
  /\ convert_arguments conv0 (example_ft true) = convert_arguments conv0 (example_ft false).
Proof. vm_compute. split; reflexivity. Qed.

(* the conversion of a type terminates on every document, type aliases that name each other included: fuel beyond the
   size of the type plus the sizes of the alias definitions is never exhausted *)
From RT Require Import Proofs.Rbs2JsonTermP.
Theorem C25_convert_type_terminates : forall f al cname t, rsize t + asize al < f -> convert_type f al cname t <> None.
Proof. exact convert_type_total. Qed.
Print Assumptions C25_convert_type_terminates.

Example C25_cyclic_aliases :
  convert_type 10 [("a", RT "alias" "b" [] None [] ""); ("b", RT "alias" "a" [] None [] "")] "Widget" (RT "alias" "a" [] None [] "") = Some ["Untyped"].
Proof. vm_compute. reflexivity. Qed.
