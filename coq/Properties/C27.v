(* C27 — same-named classes in different namespaces do not interfere.
   Proved on the model of the ancestor walk (Model/Lookup.v): classes and inheritance edges registered under nodes
   that the walk from the receiver's class cannot meet — a class of the same short name in another namespace is
   another node — change no lookup (C27_decoy), and the walk commutes with every consistent renaming of the nodes
   (C27_rename), in particular with the renaming `module M ... end` performs on the frames of a group that mentions
   no configured class (C27_wrap: frame F becomes M or M::F, base/t_frame.go CalculateFrame).  The frame computation
   itself and constant lookup are exercised end to end.  Proofs in LookupP.v and LookupRenameP.v. *)
From RT Require Import Model.Lookup Proofs.LookupP Proofs.LookupRenameP.

Theorem C27_decoy : forall has builtin m d f static uv n,
  (forall x, In x uv -> ~ In x (map fst d)) ->
  plookup has builtin f (m ++ d) static uv n = plookup has builtin f m static uv n.
Proof. exact plookup_decoy. Qed.
Print Assumptions C27_decoy.

(* non-vacuity: M::Gauge has no parents; a top-level Gauge < Sensor (Sensor defines the method) is registered too *)
Example C27_example :
  let has := fun n (_ : bool) => fc_eqb n ("", "Sensor") in
  let m := [(("M", "Gauge"), [])] in
  let d := [(("", "Gauge"), [{| pn_frame := ""; pn_class := "Sensor"; pn_include := false; pn_extend := false |}])] in
  plookup has [] 3 (m ++ d) false [("M", "Gauge")] ("M", "Gauge") = Some (None, []) /\
  plookup has [] 3 (m ++ d) false [("", "Gauge"); ("", "Sensor")] ("", "Gauge") = Some (Some ("", "Sensor"), [("", "Sensor")]).
Proof. vm_compute. split; reflexivity. Qed.

(* the walk over a consistently renamed inheritance map, method table and visited set, from the renamed class, gives
   the renamed answer: same order of visits, same class found, same nodes left unvisited *)
Theorem C27_rename : forall (has has' : node -> bool -> bool) builtin (phi : node -> node),
  (forall a b, fc_eqb (phi a) (phi b) = fc_eqb a b) ->
  (forall n, norm builtin (phi n) = phi (norm builtin n)) ->
  (forall n b, has' (phi n) b = has n b) ->
  forall m f static uv n,
  plookup has' builtin f (rename_map phi m) static (map phi uv) (phi n)
  = rename_res phi (plookup has builtin f m static uv n).
Proof. exact plookup_rename. Qed.
Print Assumptions C27_rename.

(* wrapping in `module M`: no hypothesis on the renaming is left — it is injective for every M and every frame *)
Theorem C27_wrap : forall (has has' : node -> bool -> bool) (M : string) m f static uv n,
  (forall x b, has' (wrap_frame M x) b = has x b) ->
  plookup has' [] f (rename_map (wrap_frame M) m) static (map (wrap_frame M) uv) (wrap_frame M n)
  = rename_res (wrap_frame M) (plookup has [] f m static uv n).
Proof. exact plookup_wrap. Qed.
Print Assumptions C27_wrap.

(* non-vacuity: Gauge < Sensor and Inner::Dial < Gauge at top level; wrapped in module M the walk from M::Inner::Dial
   finds the method in M::Sensor and leaves the same (renamed) nodes unvisited *)
Example C27_wrap_example :
  let has := fun n (_ : bool) => fc_eqb n ("", "Sensor") in
  let has' := fun n (_ : bool) => fc_eqb n ("M", "Sensor") in
  let sup f c := {| pn_frame := f; pn_class := c; pn_include := false; pn_extend := false |} in
  let m := [(("", "Gauge"), [sup "" "Sensor"]); (("Inner", "Dial"), [sup "" "Gauge"]); (("", "Sensor"), [])] in
  let uv := [("Inner", "Dial"); ("", "Gauge"); ("", "Sensor"); ("", "Other")] in
  plookup has [] 5 m false uv ("Inner", "Dial") = Some (Some ("", "Sensor"), [("", "Sensor"); ("", "Other")]) /\
  plookup has' [] 5 (rename_map (wrap_frame "M") m) false (map (wrap_frame "M") uv) ("M::Inner", "Dial")
    = Some (Some ("M", "Sensor"), [("M", "Sensor"); ("M", "Other")]).
Proof. vm_compute. split; reflexivity. Qed.
