(* C27 — same-named classes in different namespaces do not interfere.
   Proved on the model of the ancestor walk (Model/Lookup.v): classes and inheritance edges registered under nodes
   that the walk from the receiver's class cannot meet — a class of the same short name in another namespace is
   another node — change no lookup.  Wrapping in a module is exercised end to end.  Proofs in LookupP.v. *)
From RT Require Import Model.Lookup Proofs.LookupP.

Theorem C27_decoy : forall has builtin m d f static uv n,
  (forall x, In x uv -> ~ In x (map fst d)) ->
  plookup has builtin f (m ++ d) static uv n = plookup has builtin f m static uv n.
Proof. exact plookup_decoy. Qed.
Print Assumptions C27_decoy.

(* non-vacuity: M::Gauge has no parents; a top-level Gauge < Sensor (Sensor defines the method) is registered too *)
Example C27_example :
  let has := fun n (_ : bool) => fc_eqb n ("", "Sensor") in
  let m := [(("M", "Gauge"), [])] in
  let d := [(("", "Gauge"), [{| pn_frame := ""; pn_class := "Sensor"; pn_include := false; pn_extend := false |}])] in
  plookup has [] 3 (m ++ d) false [("M", "Gauge")] ("M", "Gauge") = Some (None, []) /\
  plookup has [] 3 (m ++ d) false [("", "Gauge"); ("", "Sensor")] ("", "Gauge") = Some (Some ("", "Sensor"), [("", "Sensor")]).
Proof. vm_compute. split; reflexivity. Qed.
