(* C09 — inferred types agree with literals and declared return types.
   Proved here: the two data-structure rules of the reference model that do not hold by definition.  Literals (their
   own class) and variables (latest assignment) are definitional in any reference model and are exercised end to
   end, as are declared return types.  Proofs in InferP.v. *)
From RT Require Import Model.Infer Proofs.InferP.

(* a hash lookup with a literal key has the type stored last under that key, for every hash built by a literal and
   by h[k] = v in any order, and for every stored type — NilClass included *)
Theorem C09_hash_lookup : forall pairs k v, last_value pairs k = Some v -> hash_reference (hash_of pairs) k = v.
Proof. exact hash_lookup_stored. Qed.
Print Assumptions C09_hash_lookup.

Theorem C09_hash_lookup_missing : forall pairs k, last_value pairs k = None ->
  hash_reference (hash_of pairs) k = UnifyVariants (hash_of pairs).
Proof. exact hash_lookup_missing. Qed.
Print Assumptions C09_hash_lookup_missing.

(* the union of scalar types (what an array of scalars, a ternary, a reassigned element list unify to): one variant
   per distinct class, in order of first occurrence *)
Theorem C09_union_of_scalars : forall n es seen, forallb scalar es = true ->
  fold_left (fun acc v => append_variant (S n) acc v) es (MakeUnion seen) = MakeUnion (seen ++ distinct_kinds seen es).
Proof. exact union_of_scalars. Qed.
Print Assumptions C09_union_of_scalars.

(* taking a stored nil for a missing key is refuted by {a: nil, b: 1}[:a] *)
Theorem C09_nil_as_missing_refuted :
  let h := hash_of [("a", MakeNil); ("b", MakeIntLit)] in
  hash_reference h "a" = MakeNil /\ hash_reference_nil_as_missing h "a" <> MakeNil.
Proof. exact nil_as_missing_refuted. Qed.

Example C09_example :
  t_vars (fold_left (fun acc v => AppendVariant acc v) [MakeIntLit; MakeString "s"; MakeIntLit; MakeFloatLit; MakeString "t"] (MakeUnion []))
  = [MakeIntLit; MakeString "s"; MakeFloatLit].
Proof. vm_compute. reflexivity. Qed.
