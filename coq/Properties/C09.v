(* C09 — inferred types agree with literals and declared return types.
   Proved here: the two data-structure rules of the reference model that do not hold by definition.  Literals (their
   own class) and variables (latest assignment) are definitional in any reference model and are exercised end to
   end, as are declared return types.  Proofs in InferP.v. *)
From RT Require Import Model.Infer Proofs.InferP.
From RT Require Import Model.ExecType Proofs.ExecTypeP Model.CondReturn.

(* a hash lookup with a literal key has the type stored last under that key, for every hash built by a literal and
   by h[k] = v in any order, and for every stored type — NilClass included *)
Theorem C09_hash_lookup : forall pairs k v, last_value pairs k = Some v -> hash_reference (hash_of pairs) k = v.
Proof. exact hash_lookup_stored. Qed.
Print Assumptions C09_hash_lookup.

Theorem C09_hash_lookup_missing : forall pairs k, last_value pairs k = None ->
  hash_reference (hash_of pairs) k = UnifyVariants (hash_of pairs).
Proof. exact hash_lookup_missing. Qed.
Print Assumptions C09_hash_lookup_missing.

(* the union of scalar types (what an array of scalars, a ternary, a reassigned element list unify to): one variant
   per distinct class, in order of first occurrence *)
Theorem C09_union_of_scalars : forall n es seen, forallb scalar es = true ->
  fold_left (fun acc v => append_variant (S n) acc v) es (MakeUnion seen) = MakeUnion (seen ++ distinct_kinds seen es).
Proof. exact union_of_scalars. Qed.
Print Assumptions C09_union_of_scalars.

(* taking a stored nil for a missing key is refuted by {a: nil, b: 1}[:a] *)
Theorem C09_nil_as_missing_refuted :
  let h := hash_of [("a", MakeNil); ("b", MakeIntLit)] in
  hash_reference h "a" = MakeNil /\ hash_reference_nil_as_missing h "a" <> MakeNil.
Proof. exact nil_as_missing_refuted. Qed.

(* "a certainly-valid builtin call has its declared return type with Self, Unify, OptionalUnify, Argument, SelfArray,
   KeyValueArray and union returns resolved as documented": on the model of calculateExecutionType (tied to the code
   through a hook; the tie also checks that the receiver is left as it was) *)
Theorem C09_return_self : forall recv blk args ret, String.eqb (t_meth ret) "new" = false -> t_tag ret = SELF ->
  ExecType recv args blk ret = recv.
Proof. exact resolve_self. Qed.
Print Assumptions C09_return_self.
Theorem C09_return_unify : forall recv blk args ret, String.eqb (t_meth ret) "new" = false -> t_tag ret = UNIFY ->
  ExecType recv args blk ret = UnifyVariants recv.
Proof. exact resolve_unify. Qed.
Print Assumptions C09_return_unify.
Theorem C09_return_optional_unify : forall recv blk args ret, String.eqb (t_meth ret) "new" = false -> t_tag ret = OPTIONAL_UNIFY ->
  ExecType recv args blk ret = MakeUnifiedT (t_vars (AppendVariant recv MakeNil)).
Proof. exact resolve_optional_unify. Qed.
Print Assumptions C09_return_optional_unify.
Theorem C09_return_argument : forall recv blk args ret, String.eqb (t_meth ret) "new" = false -> t_tag ret = ARGUMENT ->
  ExecType recv args blk ret = match args with [] => MakeNil | [a] => a | _ => array_of args end.
Proof. exact resolve_argument. Qed.
Print Assumptions C09_return_argument.
Theorem C09_return_self_array : forall recv blk args ret, String.eqb (t_meth ret) "new" = false -> t_tag ret = SELF_ARRAY ->
  ExecType recv args blk ret = MakeArray (t_vars recv).
Proof. exact resolve_self_array. Qed.
Print Assumptions C09_return_self_array.
Theorem C09_return_keyvalue_array : forall recv blk args ret, String.eqb (t_meth ret) "new" = false -> t_tag ret = KEYVALUE_ARRAY ->
  ExecType recv args blk ret = array_of (map get_key_value (t_vars recv)).
Proof. exact resolve_keyvalue_array. Qed.
Print Assumptions C09_return_keyvalue_array.
Theorem C09_return_union : forall recv blk args ret, String.eqb (t_meth ret) "new" = false -> t_tag ret = UNION ->
  ExecType recv args blk ret = MakeUnifiedT (map (exec_type (ty_size ret) recv args blk) (t_vars ret)).
Proof. exact resolve_union. Qed.
Print Assumptions C09_return_union.

(* conditional return types (`is_conditional`): with an optional first parameter the alternative is chosen by the number of
   arguments that are not blocks — `arr.last` gets the first alternative, `arr.last(2)` the second; None is the Go code
   indexing past the alternatives (the tie checks the panic too) *)
Theorem C09_conditional_return_by_count : forall d rest ret args whole, has_default d = true ->
  cond_return (d :: rest) ret args whole = nth_error (t_vars ret) (List.length (non_block args)).
Proof. intros d rest ret args whole H. unfold cond_return. cbn [cond_return_from]. rewrite H. reflexivity. Qed.
Print Assumptions C09_conditional_return_by_count.

(* a plain parameter: the alternative has the index of the first argument of the parameter's kind (or of any kind, when one
   of the two is untyped); no such argument and no further parameter: the declared type itself *)
Theorem C09_conditional_return_by_kind : forall d ret args whole, has_default d = false -> is_union_type d = false ->
  cond_return [d] ret args whole =
  match find_index (same_or_any d) args 0 with Some idx => nth_error (t_vars ret) idx | None => Some whole end.
Proof. intros d ret args whole H1 H2. unfold cond_return. cbn [cond_return_from]. rewrite H1, H2. destruct (find_index _ args 0); reflexivity. Qed.
Print Assumptions C09_conditional_return_by_kind.

Example C09_conditional_return_example :
  let opt := set_hd MakeAnyInt true in
  let O := NewT "OptiionalUnify" OPTIONAL_UNIFY (VStr "optionalUnify") in
  let S := NewT "Self" SELF (VStr "self") in
  let recv := MakeArray [MakeIntLit; MakeString "s"] in
  let pick args := match cond_return [opt] (MakeUnion [O; S]) args (MakeUnion [O; S]) with Some t => TypeToString (ExecType recv args zero_ty t) | None => "panic" end in
  (pick [], pick [MakeIntLit], pick [MakeIntLit; MakeIntLit]) = ("Union<Integer String NilClass>", "Array<Integer String>", "panic").
Proof. vm_compute. reflexivity. Qed.

Example C09_return_example :
  let recv := MakeArray [MakeIntLit; MakeString "s"] in
  let U := NewT "Unify" UNIFY (VStr "unify") in
  let O := NewT "OptiionalUnify" OPTIONAL_UNIFY (VStr "optionalUnify") in
  (TypeToString (ExecType recv [] zero_ty U), TypeToString (ExecType recv [] zero_ty O), TypeToString (ExecType recv [] zero_ty (MakeUnion [O; MakeBool])))
  = ("Union<Integer String>", "Union<Integer String NilClass>", "Union<Integer String NilClass Bool>").
Proof. vm_compute. reflexivity. Qed.

Example C09_example :
  t_vars (fold_left (fun acc v => AppendVariant acc v) [MakeIntLit; MakeString "s"; MakeIntLit; MakeFloatLit; MakeString "t"] (MakeUnion []))
  = [MakeIntLit; MakeString "s"; MakeFloatLit].
Proof. vm_compute. reflexivity. Qed.
