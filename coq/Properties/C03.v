(* C03 — tokenizing any text terminates and consumes the whole input.
   Statements only; proofs in Proofs/LexerP.v, Proofs/ParserP.v, Proofs/TablesP.v. *)
From RT Require Import Model.Lexer Model.Parser Proofs.LexerP Proofs.ParserP Proofs.TablesP Proofs.StreamP Generated.
Open Scope N_scope.

(* what the theorems assume of unicode.IsSpace / unicode.IsDigit (true of Go's tables, below) *)
Definition unicode_ok (is_uspace is_udigit : N -> bool) : Prop :=
  is_uspace 0 = false /\ is_udigit 0 = false /\ is_uspace ch_dot = false /\
  forall c, is_udigit c = true ->
    ((c =? 120) || (c =? 111) || (c =? 98)) = false /\ (c =? ch_under) = false /\ (c =? ch_dot) = false.

(* (a) + (b): for every rune sequence, advancing the lexer reaches end of stream with fuel linear in
   the input, after at most 3*|s|+3 tokens, and only when every rune has been consumed *)
Theorem C03_tokenizing_terminates_and_consumes :
  forall is_uspace is_udigit, unicode_ok is_uspace is_udigit ->
  forall s : list N,
  exists ts lf,
    lex_all is_uspace is_udigit fixed_lex (3 * length s + 4) (3 * length s + 7) (lx_new s) = Some (ts, lf) /\
    (length ts <= 3 * length s + 3)%nat /\
    rest (rd lf) = [] /\ hist (rd lf) = [] /\ ungot (rd lf) = false /\
    Forall tok_wf ts.
Proof.
  intros sp dg (H1 & H2 & H3 & H4) s.
  exact (lexer_total sp dg fixed_lex eq_refl eq_refl H1 H2 H3 H4 s).
Qed.
Print Assumptions C03_tokenizing_terminates_and_consumes.

(* each successful Advance strictly decreases the potential phi (so the bound above is per step) *)
Theorem C03_every_token_makes_progress :
  forall is_uspace is_udigit, unicode_ok is_uspace is_udigit ->
  forall fuel l, inv is_udigit (rd l) -> (phi (rd l) + 3 < fuel)%nat ->
  exists b l', advance is_uspace is_udigit fixed_lex fuel l = Some (b, l') /\ inv is_udigit (rd l') /\
    (b = true -> (phi (rd l') < phi (rd l))%nat /\ tok_wf l') /\
    (b = false -> rd_eof (rd l') = true).
Proof.
  intros sp dg (H1 & H2 & H3 & H4) fuel l.
  exact (advance_ok sp dg fixed_lex eq_refl eq_refl H1 H2 H3 H4 fuel l).
Qed.
Print Assumptions C03_every_token_makes_progress.

(* (c): every token the parser builds from the stream has a defined kind; `read error` never *)
Theorem C03_read_never_errors :
  forall is_uspace is_udigit is_uupper is_ulower builtin_classes, unicode_ok is_uspace is_udigit ->
  forall fuel p, inv is_udigit (rd (lx p)) -> pwf p -> (phi (rd (lx p)) + 3 < fuel)%nat ->
  exists r p', parser_read is_uspace is_udigit is_uupper is_ulower fixed_lex builtin_classes fuel p = Some (r, p') /\
    r <> RError /\ inv is_udigit (rd (lx p')) /\ pwf p' /\
    (phi (rd (lx p')) <= phi (rd (lx p)))%nat /\
    (pungot p = false -> r <> REos -> (phi (rd (lx p')) < phi (rd (lx p)))%nat) /\
    (pungot p = false -> r = REos -> rd_eof (rd (lx p')) = true).
Proof.
  intros sp dg up lo bc (H1 & H2 & H3 & H4) fuel p.
  exact (parser_read_ok sp dg up lo fixed_lex bc eq_refl eq_refl eq_refl H1 H2 H3 H4 fuel p).
Qed.
Print Assumptions C03_read_never_errors.

(* Go's own unicode tables (regenerated from the toolchain on every run) meet the assumption *)
Theorem C03_go_unicode_ok : unicode_ok go_is_space go_is_digit.
Proof. exact (conj go_space_0 (conj go_digit_0 (conj go_space_dot go_digit_plain))). Qed.
Print Assumptions C03_go_unicode_ok.

(* the model's character tables are the ones the current source declares *)
Theorem C03_tables :
  same_set single_tokens lexer_single_tokens = true /\ lexer_emits_dot = true /\
  same_set (ch_btick :: read_puncts) parser_puncts = true /\
  subset (ch_dot :: lexer_single_tokens) parser_puncts = true /\
  same_set model_ident_nonchars ident_nonchars = true.
Proof.
  exact (conj (proj1 tbl_single_tokens) (conj (proj2 tbl_single_tokens)
        (conj tbl_read_puncts (conj tbl_lexer_subset_parser tbl_ident_nonchars)))).
Qed.
Print Assumptions C03_tables.

(* non-vacuity: the initial state of every input satisfies the invariant and the parser precondition *)
Example C03_initial_state_ok : forall s, inv go_is_digit (rd (lx_new s)) /\ pwf (ps_new s).
Proof. intros s. split; [left; reflexivity|]. right; left; reflexivity. Qed.

(* all of the above composed, with Go's own tables and no hypothesis left: for every rune sequence, parser.Read driven
   to end of stream (read_all — the very term the correspondence evaluates against the code) answers with tokens of
   defined kinds only, then end of stream, after at most 3*|s|+3 tokens, with fuel linear in the input *)
Theorem C03_read_stream_go : forall bc (s : list N),
  exists toks row erow,
    read_all go_is_space go_is_digit go_is_upper go_is_lower fixed_lex bc (3 * length s + 4) (3 * length s + 7) (ps_new s)
      = Some (toks ++ [(REos, row, erow)]) /\
    Forall is_tok toks /\ (length toks <= 3 * length s + 3)%nat.
Proof.
  intros bc. destruct C03_go_unicode_ok as (H1 & H2 & H3 & H4).
  exact (read_all_total go_is_space go_is_digit go_is_upper go_is_lower bc H1 H2 H3 H4).
Qed.
Print Assumptions C03_read_stream_go.
