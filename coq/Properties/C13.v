(* C13 — consistently renaming user identifiers changes nothing but the names.
   What is proved: the two places where the NAME of an identifier (rather than its binding) decides what ti does.
   (1) parser.Read classifies a token by its lexical category only; (2) keyword arguments are paired with keyword
   parameters through two sorts, and the pairing is the same for every choice of names.  Everything else is
   exercised by renaming runs.  Proofs in RenameP.v. *)
From RT Require Import Model.Lexer Model.Parser Model.Args Proofs.ArgsP Proofs.RenameP.
From Coq Require Import Permutation.

(* a local / method name: not upper-case-initial, not a symbol, not true/false, not a configured class name *)
Theorem C13_lower_names : forall is_uupper is_ulower builtin_classes s,
  plain_start is_uupper s = true -> in_builtin builtin_classes s = false ->
  list_N_eqb s s_true = false -> list_N_eqb s s_false = false ->
  classify is_uupper is_ulower builtin_classes s = KIdent s.
Proof. exact classify_lower. Qed.
Print Assumptions C13_lower_names.

(* a class name: upper-case-initial with a lower-case letter somewhere *)
Theorem C13_class_names : forall is_uupper is_ulower builtin_classes s,
  first_byte_upper is_uupper s = true -> existsb is_ulower s = true ->
  list_N_eqb s s_true = false -> list_N_eqb s s_false = false ->
  classify is_uupper is_ulower builtin_classes s = KClass s.
Proof. exact classify_class. Qed.
Print Assumptions C13_class_names.

(* FINDING (kept): an upper-case-initial name WITHOUT a lower-case letter (AB, A1) is a constant, not a class —
   renaming class Foo to AB changes its category *)
Theorem C13_class_without_lowercase_refuted :
  let up := fun c => (65 <=? c)%N && (c <=? 90)%N in let lo := fun c => (97 <=? c)%N && (c <=? 122)%N in
  classify up lo [] [70; 111; 111]%N = KClass [70; 111; 111]%N /\ classify up lo [] [65; 66]%N = KConst [65; 66]%N.
Proof. vm_compute. split; reflexivity. Qed.

(* keyword arguments meet their parameters for every choice of names *)
Theorem C13_keyword_pairing : forall (kws : list ty) (names : list string),
  Permutation (map t_key kws) names -> NoDup names ->
  map t_key (sort_by t_key kws) = sort_by (fun s => s) names.
Proof. exact keyword_pairing. Qed.
Print Assumptions C13_keyword_pairing.
