(* C14 — keyword argument order at a call site is irrelevant.  Proofs in Proofs/ArgsP.v. *)
From Coq Require Import Permutation.
From RT Require Import Model.Args Proofs.ArgsP.

(* the argument list handed to the walk is the same for every order of the keyword arguments *)
Theorem C14_sorted_arguments : forall l l',
  Permutation l l' ->
  filter (fun t => negb (is_keyvalue_type t)) l = filter (fun t => negb (is_keyvalue_type t)) l' ->
  NoDup (map t_key (filter is_keyvalue_type l)) ->
  prioritize_args l = prioritize_args l'.
Proof. exact prioritize_args_perm. Qed.
Print Assumptions C14_sorted_arguments.

(* hence result and parameter bindings of checkAndPropagateArgs do not depend on that order: any model
   variant, any round *)
Theorem C14_call_site : forall V cr ra dargs t pos kws kws',
  forallb (fun a => negb (is_keyvalue_type a)) pos = true ->
  forallb is_keyvalue_type kws = true ->
  Permutation kws kws' -> NoDup (map t_key kws) ->
  check_args V cr ra dargs t (pos ++ kws) = check_args V cr ra dargs t (pos ++ kws').
Proof. exact check_args_call_site. Qed.
Print Assumptions C14_call_site.

(* Go's sort.Slice / sort.Strings enter as the insertion sort `sort_by`; for pairwise distinct keys any
   correct sort returns the same list, which is the content of this lemma *)
Theorem C14_sort_is_canonical : forall (l l' : list ty),
  Permutation l l' -> NoDup (map t_key l) -> sort_by t_key l = sort_by t_key l'.
Proof. exact (sort_by_perm t_key). Qed.
Print Assumptions C14_sort_is_canonical.

Example C14_hyps_satisfiable :
  let kws := [MakeKeyValue "b:" MakeIntLit; MakeKeyValue "a:" (MakeString "s")] in
  forallb is_keyvalue_type kws = true /\ NoDup (map t_key kws).
Proof. split; [reflexivity|]. repeat constructor; cbn; intuition discriminate. Qed.
