(* C08 — no false alarms on calls the configuration certainly accepts.  Proofs in Proofs/ArgsP.v. *)
From RT Require Import Model.Args Model.CallSpec Proofs.ArgsP.

(* if the declaration admits every possible class of the argument — a union argument whose variants are
   all admitted included — the check passes *)
Theorem C08_argument_accepted : forall d a,
  flat d = true -> variants_of a <> [] ->
  forallb (decl_admits d) (possible a) = true ->
  check_arg_type fixed_args d a = true.
Proof. exact check_arg_type_complete. Qed.
Print Assumptions C08_argument_accepted.

(* accepted count + every argument fits => no error from checkAndPropagateArgs, in every round *)
Theorem C08_call_accepted : forall cr ra names t args,
  forallb plain_name names = true -> forallb plain_arg args = true -> forallb (declared t) names = true ->
  List.length args <= List.length names ->
  (forall i, i < List.length args ->
     check_arg_type fixed_args (nth i (map (param_ty t) names) zero_ty) (nth i args zero_ty) = true) ->
  (forall i, List.length args <= i < List.length names ->
     has_default (nth i (map (param_ty t) names) zero_ty) = true) ->
  check_args fixed_args cr ra names t args = (COk, t).
Proof.
  intros cr ra names t args Hn Ha Hd Hlen Hfit Hdef.
  rewrite (check_args_positional cr ra names t args Hn Ha Hd).
  rewrite positional_accepts; [reflexivity|rewrite map_length; exact Hlen|exact Hfit|].
  intros i Hi. apply Hdef. rewrite map_length in Hi. exact Hi.
Qed.
Print Assumptions C08_call_accepted.

(* the spec predicate used end-to-end ("the call certainly fits") implies acceptance in every round *)
Theorem C08_certain_fit_accepted : forall cr ra ptys args,
  certainly_fits ptys args = true -> pos_spec cr ra ptys args = COk.
Proof. exact certainly_fits_accepted. Qed.
Print Assumptions C08_certain_fit_accepted.

(* the pinned code rejected a union argument that is a strict subset of the declared union: witness *)
Theorem C08_pinned_refuted :
  exists d a, flat d = true /\ variants_of a <> [] /\ forallb (decl_admits d) (possible a) = true /\
              check_arg_type pinned_args d a = false.
Proof. exact pinned_complete_refuted. Qed.

Example C08_hyps_satisfiable :
  forallb (decl_admits (MakeUnion [MakeAnyInt; MakeAnyString; MakeAnySymbol]))
          (possible (MakeUnion [MakeIntLit; MakeString "s"])) = true.
Proof. reflexivity. Qed.
