(* C23 — completion lists exactly the methods the receiver can answer.
   isSuggest is characterised, for every target, signature and inheritance map, as `callable`: visible, and
   defined by the class around the cursor / the receiver's class or one of their ancestors over superclass,
   include (instance) and extend (class) edges.  Proofs in SuggestP.v. *)
From RT Require Import Model.Suggest Proofs.SuggestP.

(* the ancestor search is the ancestor relation (anc: superclass edges, include edges for instance methods,
   extend edges — which turn to the module's instance methods — for class methods), on cyclic maps too.
   Sound on every map. *)
Theorem C23_ancestors_sound : forall m bl s n st,
  IsParentClass m bl s n st = true -> ancestor_spec m bl s n st.
Proof. exact is_parent_class_sound. Qed.
Print Assumptions C23_ancestors_sound.

(* Complete for instance receivers on every map ... *)
Theorem C23_ancestors_complete_instance : forall m bl s n,
  ancestor_spec m bl s n false -> IsParentClass m bl s n false = true.
Proof. intros m bl s n. apply is_parent_class_complete, moded_instance. Qed.
Print Assumptions C23_ancestors_complete_instance.

(* ... and for class receivers on every map in which each class is searched in one way only (classes for class
   methods, modules for their instance methods): the visited set of the code is keyed by the class alone *)
Theorem C23_ancestors_complete : forall m bl s n st, moded m bl n st ->
  ancestor_spec m bl s n st -> IsParentClass m bl s n st = true.
Proof. exact is_parent_class_complete. Qed.
Print Assumptions C23_ancestors_complete.

(* listed -> callable, on every map *)
Theorem C23_listed_callable : forall m bl t s oc st, calc_object_class true t = Some (oc, st) ->
  is_suggest true true m bl t s = Some true -> callable m bl t s oc st.
Proof. exact is_suggest_sound. Qed.
Print Assumptions C23_listed_callable.

(* listed <-> callable *)
Theorem C23_exact : forall m bl t s oc st, calc_object_class true t = Some (oc, st) ->
  moded m bl (tg_df t, tg_dc t) (tg_static t) -> moded m bl (tg_frame t, oc) st ->
  (is_suggest true true m bl t s = Some true <-> callable m bl t s oc st).
Proof. exact is_suggest_callable. Qed.
Print Assumptions C23_exact.

(* no private method of another class, whatever the receiver and the map *)
Theorem C23_no_foreign_private : forall m bl t s, s_private s = true -> s_class s <> tg_dc t ->
  is_suggest true true m bl t s <> Some true.
Proof.
  intros m bl t s Hp Hc H. destruct (calc_object_class true t) as [[oc st]|] eqn:E.
  - apply (is_suggest_sound m bl t s oc st E) in H. destruct H as [_ [_ [_ [V _]]]]. destruct (V Hp) as [_ H2]. contradiction.
  - unfold is_suggest in H. rewrite E in H. destruct (String.eqb (s_class s) ""); [discriminate|].
    destruct (String.eqb (s_class s) "Kernel"); discriminate.
Qed.
Print Assumptions C23_no_foreign_private.

(* an explicit receiver (the result of a call) is offered only its own class and the ancestors of it *)
Theorem C23_no_unrelated : forall m bl t s oc st, calc_object_class true t = Some (oc, st) -> tg_meth t <> ""%string ->
  is_suggest true true m bl t s = Some true -> receiver m bl t s oc st.
Proof.
  intros m bl t s oc st E Hm H. apply (is_suggest_sound m bl t s oc st E) in H.
  destruct H as [_ [_ [_ [_ [[Hi _]|Hr]]]]]; [contradiction | exact Hr].
Qed.
Print Assumptions C23_no_unrelated.

(* non-vacuity: class Par extends Ext (a module), Kid < Par: `Kid.` is offered Ext#ext_m, and the map is well-moded *)
Definition ext_map : inh_map :=
  [(("", "Kid"), [{| pn_frame := ""; pn_class := "Par"; pn_include := false; pn_extend := false |}]);
   (("", "Par"), [{| pn_frame := "Builtin"; pn_class := ""; pn_include := false; pn_extend := false |};
                  {| pn_frame := ""; pn_class := "Ext"; pn_include := false; pn_extend := true |}])].
Definition ext_m : sig :=
  {| s_method := "ext_m"; s_detail := "ext_m() -> Integer"; s_frame := ""; s_class := "Ext";
     s_static := false; s_private := false; s_file := "s.rb"; s_row := 2%Z; s_doc := "" |}.
Example C23_extend_example :
  IsParentClass ext_map [] ext_m ("", "Kid") true = true /\ IsParentClass ext_map [] ext_m ("", "Kid") false = false /\ moded ext_map [] ("", "Kid") true.
Proof.
  split; [vm_compute; reflexivity|]. split; [vm_compute; reflexivity|].
  exists (fun n => negb (String.eqb (snd n) "Ext")). split; [|reflexivity].
  intros n p Hp Ad. unfold ext_map in Hp. cbn [parents_of] in Hp.
  destruct (fc_eqb n ("", "Kid")) eqn:E1.
  - apply fc_eqb_eq in E1; subst n. destruct Hp as [<-|[]]. reflexivity.
  - destruct (fc_eqb n ("", "Par")) eqn:E2; [|destruct Hp].
    apply fc_eqb_eq in E2; subst n. destruct Hp as [<-|[<-|[]]]; reflexivity.
Qed.

(* witnesses: y = f.ccc, a String returned by Foo#ccc, and Foo's private method ppp *)
Definition y_target : target :=
  {| tg_tag := STRING; tg_str := "String"; tg_cls := "String"; tg_bec := "y"; tg_frame := "Builtin"; tg_meth := "ccc";
     tg_df := ""; tg_dc := "Foo"; tg_dm := ""; tg_static := false |}.
Definition foo_ppp : sig :=
  {| s_method := "ppp"; s_detail := "ppp() -> Integer"; s_frame := ""; s_class := "Foo";
     s_static := false; s_private := true; s_file := "m.rb"; s_row := 12%Z; s_doc := "" |}.
(* the pinned code offers it *)
Theorem C23_pinned_refuted : is_suggest true false [] [] y_target foo_ppp = Some true.
Proof. vm_compute. reflexivity. Qed.
Example C23_repaired_example : is_suggest true true [] [] y_target foo_ppp = Some false.
Proof. vm_compute. reflexivity. Qed.

(* FINDING (kept): the methods of Object are signatures of class "" and are filtered out first; they are
   offered only through isSuggestForKernelOrObjectClass, i.e. to targets that do not render with an upper-case
   first letter.  An object of a user class is not offered `inspect`, although Object is its ancestor. *)
Definition foo_target : target :=
  {| tg_tag := OBJECT; tg_str := "Foo"; tg_cls := "Foo"; tg_bec := "f"; tg_frame := ""; tg_meth := "new";
     tg_df := ""; tg_dc := ""; tg_dm := ""; tg_static := false |}.
Definition object_inspect : sig :=
  {| s_method := "inspect"; s_detail := "inspect() -> String"; s_frame := "Builtin"; s_class := "";
     s_static := false; s_private := false; s_file := ""; s_row := 0%Z; s_doc := "" |}.
Definition foo_map : inh_map := [(("", "Foo"), [{| pn_frame := "Builtin"; pn_class := ""; pn_include := false; pn_extend := false |}])].
Theorem C23_object_methods_refuted :
  anc foo_map [] false ("", "Foo") false (s_frame object_inspect, s_class object_inspect) /\
  is_suggest true true foo_map [] foo_target object_inspect = Some false /\
  is_suggest_kernel_or_object foo_target (s_class object_inspect) = false.
Proof.
  split; [|split; vm_compute; reflexivity].
  eapply anc_step; [left; reflexivity | reflexivity | apply anc_here].
Qed.

(* FINDING (kept): the receiver's own class is compared by name only: a class of the same name in another
   module is offered too *)
Definition afoo_target : target :=
  {| tg_tag := OBJECT; tg_str := "Foo"; tg_cls := "Foo"; tg_bec := "x"; tg_frame := "A"; tg_meth := "new";
     tg_df := ""; tg_dc := ""; tg_dm := ""; tg_static := false |}.
Definition bfoo_bm : sig :=
  {| s_method := "b_m"; s_detail := "b_m() -> Integer"; s_frame := "B"; s_class := "Foo";
     s_static := false; s_private := false; s_file := "q.rb"; s_row := 10%Z; s_doc := "" |}.
Theorem C23_same_name_refuted : is_suggest true true [] [] afoo_target bfoo_bm = Some true /\ s_frame bfoo_bm <> tg_frame afoo_target.
Proof. split; [vm_compute; reflexivity | discriminate]. Qed.
