(* C20 — declarations for classes a program never mentions do not affect it.  Proofs in Proofs/LoaderP.v. *)
From Coq Require Import Permutation.
From RT Require Import Model.Loader Model.Parser Proofs.LoaderP.

(* no method lookup on a class of the base configuration changes, wherever the extra files sort *)
Theorem C20_method_lookups_unchanged : forall cfg extra f c m s,
  forallb (fun cd => negb (mentions cd f c)) extra = true ->
  forall cfg', Permutation cfg' (cfg ++ extra) -> NoDup (map class_id cfg') ->
  methods_at (load cfg') (f, c, m, s) = methods_at (load cfg) (f, c, m, s).
Proof. exact extra_classes_invisible_methods. Qed.
Print Assumptions C20_method_lookups_unchanged.

(* nor does the parent list of any class the extra files do not declare *)
Theorem C20_parents_unchanged : forall extra w n,
  forallb (fun cd => negb (mentions cd (fst n) (snd n))) extra = true ->
  edges_at (fold_left load_one extra w) n = edges_at w n.
Proof. exact extra_classes_invisible_edges. Qed.
Print Assumptions C20_parents_unchanged.

(* the token classifier consults BuiltinClasses by name only: a name the extra classes do not carry is
   classified as before *)
Theorem C20_classification_unchanged : forall up lo (bc extra : list (list N)) (s : list N),
  existsb (list_N_eqb s) extra = false ->
  classify up lo (bc ++ extra) s = classify up lo bc s.
Proof.
  intros up lo bc extra s H. unfold classify, is_class_name, is_const_name, in_builtin.
  rewrite !existsb_app, H, !orb_false_r. reflexivity.
Qed.
Print Assumptions C20_classification_unchanged.

Example C20_hyps_satisfiable :
  forallb (fun cd => negb (mentions cd "Builtin" "K"))
          [ {| cd_frame := "Zed"; cd_class := "K"; cd_ims := []; cd_cms := []; cd_consts := []; cd_extends := [] |} ] = true.
Proof. reflexivity. Qed.
