(* C19 — config file names and splitting do not matter.  Proofs in Proofs/LoaderP.v.
   `methods_at w (frame, class, method, static)` is what every method lookup reads: the declaration of that key
   followed by its overloads. *)
From Coq Require Import Permutation.
From RT Require Import Model.Loader Proofs.LoaderP.

(* the loader (executable model, repaired code) computes exactly the declarative table: the declarations of a
   key, in file order *)
Theorem C19_loader_is_declarative : forall cds k, methods_at (load cds) k = spec_methods cds k.
Proof. exact load_methods. Qed.
Print Assumptions C19_loader_is_declarative.

(* renaming the files (= permuting the load order), one class per file: every lookup sees the same declarations *)
Theorem C19_file_order_irrelevant : forall cds cds' k,
  Permutation cds cds' -> NoDup (map class_id cds) -> methods_at (load cds) k = methods_at (load cds') k.
Proof. exact load_perm. Qed.
Print Assumptions C19_file_order_irrelevant.

(* splitting one class's method declarations over two files, loaded in either order (the overloads of one
   method staying together) *)
Theorem C19_split_irrelevant : forall cd i1 i2 c1 c2 rest k,
  (forall m, filter (fun d => String.eqb m (md_name d)) i1 = [] \/ filter (fun d => String.eqb m (md_name d)) i2 = []) ->
  (forall m, filter (fun d => String.eqb m (md_name d)) c1 = [] \/ filter (fun d => String.eqb m (md_name d)) c2 = []) ->
  spec_methods (with_methods cd (i1 ++ i2) (c1 ++ c2) :: rest) k = spec_methods (with_methods cd i1 c1 :: with_methods cd i2 c2 :: rest) k /\
  spec_methods (with_methods cd (i1 ++ i2) (c1 ++ c2) :: rest) k = spec_methods (with_methods cd i2 c2 :: with_methods cd i1 c1 :: rest) k.
Proof. exact spec_methods_split. Qed.
Print Assumptions C19_split_irrelevant.

Example C19_hyps_satisfiable :
  NoDup (map class_id [ {| cd_frame := "Builtin"; cd_class := "K"; cd_ims := []; cd_cms := []; cd_consts := []; cd_extends := ["P"] |};
                        {| cd_frame := "Builtin"; cd_class := "P"; cd_ims := []; cd_cms := []; cd_consts := []; cd_extends := [] |} ]).
Proof. repeat constructor; cbn; intuition discriminate. Qed.
