(* C04 — the editor query modes never crash or hang, whatever row is asked about.
   The row decides which value the evaluator captures as the target (p.LspSuggestTargetT, base.GlobT): the
   theorems quantify over EVERY captured target, every signature table, every inheritance map (cyclic ones
   included) and every behaviour of the evaluator short of a Go fatal error.  Proofs in QueryP.v, SuggestP.v. *)
From RT Require Import Model.Query Proofs.DriverP Proofs.SuggestP Proofs.QueryP.

(* --suggest, --hover, --define: the run ends with status 0, and every printed line is a well-formed
   %, @ or $ record on one line, or a one-line diagnostic of the target file *)
Theorem C04_query_modes : forall scoped mode m bl t is_union is_identifier variants glob_dc glob_meth sigs preloads tfile tsrc articles,
  exists ls, run_query true scoped mode m bl t is_union is_identifier variants glob_dc glob_meth sigs
                       preloads (tfile, tsrc) articles = Some (ls, 0%Z)
             /\ Forall (wf_qline tfile) ls.
Proof. exact run_query_ok. Qed.
Print Assumptions C04_query_modes.

(* the ancestor search of the completion filter ends on every inheritance map, with fuel |universe|+1 *)
Theorem C04_ancestor_search_terminates : forall m bl s n st, exists b uv',
  is_parent_class (S (List.length (universe m n))) m bl s st (universe m n) n false false = Some (b, uv').
Proof. exact is_parent_class_terminates. Qed.
Print Assumptions C04_ancestor_search_terminates.

(* the pinned code (no guard on the empty rendering): completion on an implicit receiver dies *)
Theorem C04_pinned_refuted :
  print_suggestions false false [] [] empty_target false false [] [some_sig] = None.
Proof. exact pinned_suggest_panics. Qed.
Print Assumptions C04_pinned_refuted.

(* non-vacuity: a run whose evaluator panics on the queried row still prints only well-formed lines *)
Example C04_example :
  run_query true true QSuggest [] [] empty_target false false [] "" "" [(some_sig, "3")] []
            ("a.rb", fun _ => [{| st_row := 3%Z; st_out := OPanic ("x" ++ String (ascii_of_nat 10) "y"); st_infos := [] |}]) []
  = Some ([QDiag (LDiag "a.rb" 3%Z "internal error: x\ny")], 0%Z).
Proof. vm_compute. reflexivity. Qed.
