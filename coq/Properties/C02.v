(* C02 — analysis terminates on every finite input without the watchdog.
   Proved: the lexer (every Advance strictly decreases a potential; total with linear fuel), the token stream as the
   evaluation loop reads it (parser.Read driven to end of stream: total, at most 3|s|+4 Reads), the main loop of the
   driver (one iteration per top-level step).  The evaluator's own loops are reached by exploration only. *)
From RT Require Import Model.Driver Model.Lexer Model.Parser Proofs.DriverP Proofs.LexerP Proofs.ParserP Proofs.StreamP.

Theorem C02_lexer : forall is_uspace is_udigit,
  is_uspace 0%N = false -> is_udigit 0%N = false -> is_uspace ch_dot = false ->
  (forall c, is_udigit c = true -> ((c =? 120) || (c =? 111) || (c =? 98))%N = false /\ (c =? ch_under)%N = false /\ (c =? ch_dot)%N = false) ->
  forall s, exists ts lf,
    lex_all is_uspace is_udigit fixed_lex (3 * length s + 4) (3 * length s + 7) (lx_new s) = Some (ts, lf) /\
    (length ts <= 3 * length s + 3)%nat.
Proof.
  intros sp dg H1 H2 H3 H4 s.
  destruct (lexer_total sp dg fixed_lex eq_refl eq_refl H1 H2 H3 H4 s) as (ts & lf & Hs & Hl & _).
  exists ts, lf. split; assumption.
Qed.
Print Assumptions C02_lexer.

Theorem C02_loop : forall cr file s, po_iterations (eval_loop cr file s empty_out) = List.length s.
Proof. exact loop_iterations_bounded. Qed.
Print Assumptions C02_loop.

(* the token stream the evaluator consumes (read_all = parser.Read until end of stream; the function the correspondence
   runs against the code): for every source text it is produced with fuel linear in the text, ends with end-of-stream
   after at most 3|s|+3 tokens and contains no `read error` — files ending inside a comment, a string or a definition
   included, since s is arbitrary *)
Theorem C02_token_stream : forall is_uspace is_udigit is_uupper is_ulower bc,
  is_uspace 0%N = false -> is_udigit 0%N = false -> is_uspace ch_dot = false ->
  (forall c, is_udigit c = true -> ((c =? 120) || (c =? 111) || (c =? 98))%N = false /\ (c =? ch_under)%N = false /\ (c =? ch_dot)%N = false) ->
  forall s, exists toks row erow,
    read_all is_uspace is_udigit is_uupper is_ulower fixed_lex bc (3 * length s + 4) (3 * length s + 7) (ps_new s)
      = Some (toks ++ [(REos, row, erow)]) /\
    Forall is_tok toks /\ (length toks <= 3 * length s + 3)%nat.
Proof. intros sp dg up lo bc H1 H2 H3 H4. exact (read_all_total sp dg up lo bc H1 H2 H3 H4). Qed.
Print Assumptions C02_token_stream.

(* non-vacuity: a text that ends inside a string literal, with ASCII classes: two tokens, then end of stream *)
Example C02_token_stream_example :
  let sp := fun c => (c =? 32)%N in
  let dg := fun c => ((48 <=? c) && (c <=? 57))%N in
  let src := [120; 32; 34; 97]%N in
  exists l, read_all sp dg (fun _ => false) (fun _ => true) fixed_lex [] (3 * 4 + 4) (3 * 4 + 7) (ps_new src) = Some l /\
            map (fun x => fst (fst x)) l = [RTok (KIdent [120%N]) false; RTok (KString [97%N; 10%N]) true; REos].
Proof. eexists. split; vm_compute; reflexivity. Qed.
