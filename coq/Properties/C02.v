(* C02 — analysis terminates on every finite input without the watchdog.
   Proved: the lexer (every Advance strictly decreases a potential; total with linear fuel), the main loop of the
   driver (one iteration per top-level step).  The evaluator's own loops are reached by exploration only. *)
From RT Require Import Model.Driver Model.Lexer Model.Parser Proofs.DriverP Proofs.LexerP Proofs.ParserP.

Theorem C02_lexer : forall is_uspace is_udigit,
  is_uspace 0%N = false -> is_udigit 0%N = false -> is_uspace ch_dot = false ->
  (forall c, is_udigit c = true -> ((c =? 120) || (c =? 111) || (c =? 98))%N = false /\ (c =? ch_under)%N = false /\ (c =? ch_dot)%N = false) ->
  forall s, exists ts lf,
    lex_all is_uspace is_udigit fixed_lex (3 * length s + 4) (3 * length s + 7) (lx_new s) = Some (ts, lf) /\
    (length ts <= 3 * length s + 3)%nat.
Proof.
  intros sp dg H1 H2 H3 H4 s.
  destruct (lexer_total sp dg fixed_lex eq_refl eq_refl H1 H2 H3 H4 s) as (ts & lf & Hs & Hl & _).
  exists ts, lf. split; assumption.
Qed.
Print Assumptions C02_lexer.

Theorem C02_loop : forall cr file s, po_iterations (eval_loop cr file s empty_out) = List.length s.
Proof. exact loop_iterations_bounded. Qed.
Print Assumptions C02_loop.
