(* C05 — same input, same output.  Go's map iteration is an adversary: it may deliver the entries of a map
   in any order (any permutation).  Proofs in Proofs/SortP.v, Proofs/SigsP.v. *)
From Coq Require Import Permutation.
From RT Require Import Model.Sigs Proofs.SortP Proofs.SigsP Generated.

(* the two listings every ordered output mode is computed from are the same for any two iteration orders *)
Theorem C05_listing_by_method_canonical : forall vals vals',
  Permutation vals vals' -> sorted_by_method vals = sorted_by_method vals'.
Proof. exact sorted_by_method_canonical. Qed.
Print Assumptions C05_listing_by_method_canonical.

Theorem C05_listing_by_class_canonical : forall vals vals',
  Permutation vals vals' -> sorted_by_class vals = sorted_by_class vals'.
Proof. exact sorted_by_class_canonical. Qed.
Print Assumptions C05_listing_by_class_canonical.

(* hence every output that is a function of a sorted listing (--hover, --suggest, --llm-define, --llm-class,
   --llm-nav with and without --target/--all) is byte-identical under any iteration order *)
Theorem C05_modes_deterministic : forall (Out : Type) (printer : list sig -> list sig -> Out) vals vals',
  Permutation vals vals' ->
  printer (sorted_by_method vals) (sorted_by_class vals) = printer (sorted_by_method vals') (sorted_by_class vals').
Proof.
  intros Out printer vals vals' Hp.
  rewrite (sorted_by_method_canonical vals vals' Hp), (sorted_by_class_canonical vals vals' Hp). reflexivity.
Qed.
Print Assumptions C05_modes_deterministic.

(* every `for … range <map>` in the current source is one of the audited sites (sorted afterwards, commutative
   body, or --define whose line order is free): a new or moved map iteration breaks this theorem *)
Theorem C05_sites : sites_eqb audited_sites map_range_sites = true.
Proof. exact sites_audited. Qed.
Print Assumptions C05_sites.

(* the comparators are total orders: ties are impossible between different signatures *)
Theorem C05_comparators_total : total_order le_by_method /\ total_order le_by_class.
Proof. exact (conj le_by_method_order le_by_class_order). Qed.
Print Assumptions C05_comparators_total.

Example C05_hyps_satisfiable :
  Permutation [Sig "a" "d" "" "K" false false "f" 1 ""; Sig "a" "d" "" "K" true false "f" 1 ""]
              [Sig "a" "d" "" "K" true false "f" 1 ""; Sig "a" "d" "" "K" false false "f" 1 ""].
Proof. apply perm_swap. Qed.
