(* C15 — user method parameter and return types are inferred from all call sites.
   The reference rule: a parameter's type is the union (T.AppendVariant) of the argument types of all call sites; the
   type of a call is the union of the body's result and the explicit return values.  Proved: that union covers every
   call site (scalar argument types).  How ti reaches it — four rounds of replace-or-union in
   propagationForCalledTo — is exercised end to end, not modelled.  Proofs in InferP.v. *)
From RT Require Import Model.Infer Proofs.InferP Model.Returns Proofs.ReturnsP.

Theorem C15_parameter_covers_call_sites : forall n args a, forallb scalar args = true -> In a args ->
  exists v, In v (t_vars (fold_left (fun acc v => append_variant (S n) acc v) args (MakeUnion []))) /\ same_kind v a = true.
Proof. exact parameter_union_covers. Qed.
Print Assumptions C15_parameter_covers_call_sites.

(* ... and holds nothing else: one variant per distinct class among the call sites *)
Theorem C15_parameter_is_the_union : forall n args, forallb scalar args = true ->
  fold_left (fun acc v => append_variant (S n) acc v) args (MakeUnion []) = MakeUnion (distinct_kinds [] args).
Proof. intros n args H. exact (union_of_scalars n args [] H). Qed.
Print Assumptions C15_parameter_is_the_union.

Example C15_example :
  map t_cls (t_vars (fold_left (fun acc v => AppendVariant acc v) [MakeIntLit; MakeString "s"; MakeIntLit] (MakeUnion []))) = ["Integer"; "String"].
Proof. vm_compute. reflexivity. Qed.

(* "A call returns the type of the body's result, including explicit `return` values": on the model of the return
   collection (parser.AppendLastReturnT, Return.Evaluation, Def.evaluationBody, the block of a lambda), the type of a
   method holds exactly the value of the body's last statement and the `return` values written outside lambdas — at any
   depth of blocks — and nothing else *)
Theorem C15_returns_collected : forall body x,
  In x (method_type true body) <-> In x (flat_map outer_returns body) \/ x = last_value body.
Proof. exact method_type_exact. Qed.
Print Assumptions C15_returns_collected.

Example C15_returns_example :
  method_type true [RReturn "Symbol"; RLambda [RReturn "String"]; RBlock [RReturn "Integer"] "Array<Integer>"] = ["Symbol"; "Integer"; "Array<Integer>"].
Proof. vm_compute. reflexivity. Qed.
