(* C15 — user method parameter and return types are inferred from all call sites.
   The reference rule: a parameter's type is the union (T.AppendVariant) of the argument types of all call sites; the
   type of a call is the union of the body's result and the explicit return values.  Proved: that union covers every
   call site (scalar argument types).  How ti reaches it — four rounds of replace-or-union in
   propagationForCalledTo — is exercised end to end, not modelled.  Proofs in InferP.v. *)
From RT Require Import Model.Infer Proofs.InferP Model.Returns Proofs.ReturnsP Model.Propagate Proofs.PropagateP Proofs.PropagateCoverP.

Theorem C15_parameter_covers_call_sites : forall n args a, forallb scalar args = true -> In a args ->
  exists v, In v (t_vars (fold_left (fun acc v => append_variant (S n) acc v) args (MakeUnion []))) /\ same_kind v a = true.
Proof. exact parameter_union_covers. Qed.
Print Assumptions C15_parameter_covers_call_sites.

(* ... and holds nothing else: one variant per distinct class among the call sites *)
Theorem C15_parameter_is_the_union : forall n args, forallb scalar args = true ->
  fold_left (fun acc v => append_variant (S n) acc v) args (MakeUnion []) = MakeUnion (distinct_kinds [] args).
Proof. intros n args H. exact (union_of_scalars n args [] H). Qed.
Print Assumptions C15_parameter_is_the_union.

Example C15_example :
  map t_cls (t_vars (fold_left (fun acc v => AppendVariant acc v) [MakeIntLit; MakeString "s"; MakeIntLit] (MakeUnion []))) = ["Integer"; "String"].
Proof. vm_compute. reflexivity. Qed.

(* "A call returns the type of the body's result, including explicit `return` values": on the model of the return
   collection (parser.AppendLastReturnT, Return.Evaluation, Def.evaluationBody, the block of a lambda), the type of a
   method holds exactly the value of the body's last statement and the `return` values written outside lambdas — at any
   depth of blocks — and nothing else *)
Theorem C15_returns_collected : forall body x,
  In x (method_type true body) <-> In x (flat_map outer_returns body) \/ x = last_value body.
Proof. exact method_type_exact. Qed.
Print Assumptions C15_returns_collected.

Example C15_returns_example :
  method_type true [RReturn "Symbol"; RLambda [RReturn "String"]; RBlock [RReturn "Integer"] "Array<Integer>"] = ["Symbol"; "Integer"; "Array<Integer>"].
Proof. vm_compute. reflexivity. Qed.

(* How ti reaches the union, one round at a time: on the model of propagationForCalledTo for a parameter of a user-defined
   method (Model/Propagate.v: the table entry is the type and its Round tag), the call sites of ONE round — evaluated in
   any number, starting from a parameter nothing is known about — leave the parameter with exactly the distinct types of
   their arguments, in order of first occurrence.  `dom` is any set of scalar argument types on which T.IsMatchType is
   equality of tag and class. *)
Theorem C15_round_collects : forall V bm r (dom : ty -> Prop),
  (forall a, dom a -> arg_ok a = true) -> (forall a b, dom a -> dom b -> is_match_type a b = same_kind a b) ->
  forall args, args <> [] -> Forall dom args ->
  exists dt, round_run V bm r None args = Some (dt, r) /\ map kind (variants_or_self dt) = map kind (distinct_kinds [] args).
Proof. exact round_from_fresh. Qed.
Print Assumptions C15_round_collects.

(* ... but the first call site of a NEW round replaces what the previous round collected: the four rounds reach the union
   of all call sites only if each round reaches every call site again (the kept finding C15-call-before-def lives there).
   The pinned code also CHECKED that call site against the type of the earlier round — a false `type mismatch` that ended the
   walk over the remaining parameters, so that n parameters needed n+1 rounds (the former finding C15-round-heuristic);
   the repaired code accepts it. *)
Theorem C15_new_round_replaces :
  let I := set_inf (Ty INT "Integer" VInt64 None "" "" "" [] no_flags "" "" "" [] [] []) true in
  let S := Ty STRING "String" (VStr "s") None "" "" "" [] no_flags "" "" "" [] [] [] in
  propagate pinned_prop false "check" (Some (I, "inference")) S = (false, Some (set_inf S true, "check")) /\
  propagate fixed_prop false "check" (Some (I, "inference")) S = (true, Some (set_inf S true, "check")).
Proof. exact new_round_replaces. Qed.
Print Assumptions C15_new_round_replaces.

(* ... and from ANY state earlier rounds may have left — no entry, or an inferred single type or union (wf_ty), under any
   Round tag — the call sites of a round leave the parameter admitting the argument of every one of them: what a round
   replaces (the first call site of a new round; the two-variant heuristic) it replaces before it has recorded anything
   of this round.  This is the per-round form of "covers the union of the argument types at all call sites". *)
Theorem C15_round_covers : forall V bm r (dom : ty -> Prop), (forall a, dom a -> arg_ok a = true) ->
  forall e args a, start_ok e -> Forall dom args -> In a args -> covered (round_run V bm r e args) a.
Proof. exact round_covers. Qed.
Print Assumptions C15_round_covers.

Example C15_round_covers_example :
  let I := Ty INT "Integer" VInt64 None "" "" "" [] no_flags "" "" "" [] [] [] in
  let S := Ty STRING "String" (VStr "s") None "" "" "" [] no_flags "" "" "" [] [] [] in
  let U := set_inf (MakeUnion [MakeUntyped; I]) true in
  start_ok (Some (U, "inference")) /\
  option_map (fun e => (map t_cls (variants_or_self (fst e)), snd e)) (round_run fixed_prop false "check" (Some (U, "inference")) [I; S]) =
    Some (["Integer"; "String"], "check") /\
  option_map (fun e => (map t_cls (variants_or_self (fst e)), snd e)) (round_run fixed_prop false "check" (Some (U, "inference")) [S; I]) =
    Some (["Untyped"; "Integer"; "String"], "inference").
Proof. cbv zeta. split; [|split; vm_compute; reflexivity]. repeat split; try reflexivity. right. repeat split; cbn; lia. Qed.

Example C15_round_example :
  let I := Ty INT "Integer" VInt64 None "" "" "" [] no_flags "" "" "" [] [] [] in
  let S := Ty STRING "String" (VStr "s") None "" "" "" [] no_flags "" "" "" [] [] [] in
  let K := Ty OBJECT "K" (VStr "K") None "" "" "" [] no_flags "" "" "" [] [] [] in
  let dom := fun a => In a [I; S; K] in
  (forall a, dom a -> arg_ok a = true) /\ (forall a b, dom a -> dom b -> is_match_type a b = same_kind a b) /\
  option_map (fun e => map t_cls (variants_or_self (fst e))) (round_run fixed_prop false "check" None [I; S; I; K; S]) = Some ["Integer"; "String"; "K"].
Proof.
  cbv zeta. split; [|split].
  - intros a [<-|[<-|[<-|[]]]]; reflexivity.
  - intros a b [<-|[<-|[<-|[]]]] [<-|[<-|[<-|[]]]]; reflexivity.
  - vm_compute. reflexivity.
Qed.
