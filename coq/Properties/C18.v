(* C18 — preloaded files act like a prefix whose diagnostics are hidden (driver part).
   Proved on the driver skeleton: what is printed is a function of the target's check-round steps and of the
   recorded definitions of the target file; no line names a preloaded file.  That the target's steps are the ones
   of the concatenation (the evaluator's global state carries over, its parser-local state does not matter) is the
   evaluator's business and is evaluated end-to-end. *)
From RT Require Import Model.Driver Proofs.DriverP.

Theorem C18_preloads_print_nothing : forall fl preloads preloads' target articles,
  fst (fst (run_driver fl preloads target articles)) = fst (fst (run_driver fl preloads' target articles)).
Proof. exact preloads_print_nothing. Qed.
Print Assumptions C18_preloads_print_nothing.

Theorem C18_no_line_for_a_preload : forall fl preloads tfile tsrc articles,
  Forall (fun l => line_file l = tfile) (fst (fst (run_driver fl preloads (tfile, tsrc) articles))).
Proof.
  intros fl preloads tfile tsrc articles. pose proof (driver_output_wf fl preloads tfile tsrc articles) as H.
  destruct (run_driver fl preloads (tfile, tsrc) articles) as [[lines status] it]. apply H.
Qed.
Print Assumptions C18_no_line_for_a_preload.

(* definitions recorded while preloaded files were parsed give no -i hint for the target (repaired code) *)
Theorem C18_foreign_definitions_hidden : forall fl preloads tfile tsrc articles extra,
  Forall (fun a => fst (fst a) <> tfile) extra ->
  fst (fst (run_driver fl preloads (tfile, tsrc) (articles ++ extra))) = fst (fst (run_driver fl preloads (tfile, tsrc) articles)).
Proof. exact foreign_definitions_print_nothing. Qed.
Print Assumptions C18_foreign_definitions_hidden.
