(* C18 — preloaded files act like a prefix whose diagnostics are hidden (driver part).
   Proved on the driver skeleton: what is printed is a function of the target's check-round steps and of the
   recorded definitions of the target file; no line names a preloaded file.  That the target's steps are the ones
   of the concatenation (the evaluator's global state carries over, its parser-local state does not matter) is the
   evaluator's business and is evaluated end-to-end. *)
From RT Require Import Model.Driver Proofs.DriverP.

Theorem C18_preloads_print_nothing : forall fl preloads preloads' target articles,
  fst (fst (run_driver fl preloads target articles)) = fst (fst (run_driver fl preloads' target articles)).
Proof. exact preloads_print_nothing. Qed.
Print Assumptions C18_preloads_print_nothing.

Theorem C18_no_line_for_a_preload : forall fl preloads tfile tsrc articles,
  Forall (fun l => line_file l = tfile) (fst (fst (run_driver fl preloads (tfile, tsrc) articles))).
Proof.
  intros fl preloads tfile tsrc articles. pose proof (driver_output_wf fl preloads tfile tsrc articles) as H.
  destruct (run_driver fl preloads (tfile, tsrc) articles) as [[lines status] it]. apply H.
Qed.
Print Assumptions C18_no_line_for_a_preload.

(* definitions recorded while preloaded files were parsed give no -i hint for the target (repaired code) *)
Theorem C18_foreign_definitions_hidden : forall fl preloads tfile tsrc articles extra,
  Forall (fun a => fst (fst a) <> tfile) extra ->
  fst (fst (run_driver fl preloads (tfile, tsrc) (articles ++ extra))) = fst (fst (run_driver fl preloads (tfile, tsrc) articles)).
Proof. exact foreign_definitions_print_nothing. Qed.
Print Assumptions C18_foreign_definitions_hidden.

(* rows rebased: when every row of the target's steps and of its recorded definitions moves by k — the target analysed
   after a k-line prefix — every printed line moves by k: same lines, same order, same texts *)
Theorem C18_rows_rebased : forall fl preloads tfile tsrc articles k,
  fst (fst (run_driver fl preloads (tfile, shift_src k tsrc) (map (shift_article k tfile) articles)))
  = map (shift_line k) (fst (fst (run_driver fl preloads (tfile, tsrc) articles))).
Proof. exact rows_rebased. Qed.
Print Assumptions C18_rows_rebased.

(* non-vacuity: a target with one error step and one hint, a definition of its own and one recorded from a preload,
   analysed after a 7-line prefix *)
Example C18_rows_rebased_example :
  let src := fun _ : string => [{| st_row := 2%Z; st_out := OErr "boom"; st_infos := [(1%Z, "hint")] |}] in
  let arts := [("m.rb", 3%Z, "def a"); ("p.rb", 1%Z, "def b")] in
  fst (fst (run_driver {| fl_define_info := true |} [] ("m.rb", shift_src 7 src) (map (shift_article 7 "m.rb") arts)))
  = [LInfo "m.rb" 8%Z "hint"; LInfo "m.rb" 10%Z "def a"; LDiag "m.rb" 9%Z "boom"].
Proof. vm_compute. reflexivity. Qed.
