(* C24 — the LLM navigator's call graph matches the source.
   The recorder is modelled over the sequence of call-site evaluations (four rounds, condition scans included);
   the printer lists what is filed under the method's key.  Proofs in CallGraphP.v. *)
From RT Require Import Model.CallGraph Proofs.CallGraphP.

(* the caller entries of a method are exactly the call sites that reach it — one entry each, in source order, with
   the row and the enclosing method — however often a site was evaluated in other rounds or by a condition scan *)
Theorem C24_callers : forall ss k,
  callers_of (record_all ss) k = map (fun s => (s_row s, s_caller s)) (filter (fun s => mkey_eqb (s_callee s) k) (real_sites ss)).
Proof. exact callers_exact. Qed.
Print Assumptions C24_callers.

Theorem C24_total_callers : forall ss k,
  total (callers_of (record_all ss) k) = List.length (filter (fun s => mkey_eqb (s_callee s) k) (real_sites ss)).
Proof. exact total_callers. Qed.
Print Assumptions C24_total_callers.

(* every listed callee is a call written in the method's body, and every such call is listed *)
Theorem C24_callees : forall ss k,
  callees_of (record_all ss) k = map (fun s => (s_row s, s_callee s)) (filter (fun s => mkey_eqb (s_caller s) k) (real_sites ss)).
Proof. exact callees_exact. Qed.
Print Assumptions C24_callees.

(* two calls of one method on one row are two entries; a call in a condition is one *)
Example C24_example :
  let tick := ("", "", "tick") in let host := ("", "", "host") in
  let s row scan chk := {| s_row := row; s_callee := tick; s_caller := host; s_check_round := chk; s_condition_scan := scan |} in
  callers_of (record_all [s 8%Z false false; s 8%Z true true; s 8%Z false true; s 16%Z false true; s 16%Z false true]) tick
  = [(8%Z, host); (16%Z, host); (16%Z, host)].
Proof. vm_compute. reflexivity. Qed.
