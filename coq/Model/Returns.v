(* M12 — how a method body collects its result: parser.AppendLastReturnT / ConsumeLastReturnT (parser/parser.go),
   Return.Evaluation (eval/return.go), Def.evaluationBody / unifyReturnT (eval/def.go) and the block of a lambda
   (eval/block.go, Do.Evaluation: a lambda drops the returns it collected when it ends).  A type is the string ti
   prints for it; the parser keeps ONE list of returned types, consumed by the def that encloses the statement.
   Definitions only. *)
From RT Require Export Model.Strs.

Inductive rstmt :=
| RExpr (c : string)                       (* an expression statement of type c *)
| RReturn (c : string)                     (* return <expression of type c> *)
| RBlock (body : list rstmt) (v : string)  (* a call with a do-block; the call has type v *)
| RLambda (body : list rstmt).             (* zl = lambda do |x| ... end / ->(x) { ... }: a Proc *)

Definition rstate := (list string * string)%type.      (* lastReturnT, lastEvaluatedT *)

(* AppendLastReturnT: a type already in the list is not added again *)
Definition add_ret (r : list string) (c : string) : list string := if existsb (String.eqb c) r then r else r ++ [c].

(* scoped = true: the repaired Do.Evaluation; false: the pinned one (a lambda is a block like any other) *)
Fixpoint exec_stmt (scoped : bool) (s : rstmt) (st : rstate) : rstate :=
  match s with
  | RExpr c => (fst st, c)
  | RReturn c => (add_ret (fst st) c, c)
  | RBlock b v => (fst (fold_left (fun a x => exec_stmt scoped x a) b st), v)
  | RLambda b =>
      let r' := fst (fold_left (fun a x => exec_stmt scoped x a) b st) in
      (if scoped then firstn (List.length (fst st)) r' else r', "Proc")
  end.
Definition exec_body (scoped : bool) (b : list rstmt) (st : rstate) : rstate := fold_left (fun a x => exec_stmt scoped x a) b st.

(* def m; BODY; end: the body starts with lastEvaluatedT = nil; `end` appends the last value; the def consumes the
   list (one element: that type; otherwise their union, in this order) *)
Definition method_type (scoped : bool) (body : list rstmt) : list string :=
  let '(r, l) := exec_body scoped body ([], "NilClass") in add_ret r l.

(* the reference: the returns written outside lambdas, in order, and the value of the last statement *)
Fixpoint outer_returns (s : rstmt) : list string :=
  match s with
  | RExpr _ => []
  | RReturn c => [c]
  | RBlock b _ => flat_map outer_returns b
  | RLambda _ => []
  end.
Definition value_of (s : rstmt) : string :=
  match s with RExpr c => c | RReturn c => c | RBlock _ v => v | RLambda _ => "Proc" end.
Definition last_value (body : list rstmt) : string := match rev body with [] => "NilClass" | s :: _ => value_of s end.

(* inserting a statement s somewhere in a body: at top level or inside a block or lambda, at any depth *)
Inductive ins (s : rstmt) : list rstmt -> list rstmt -> Prop :=
| ins_here pre post : ins s (pre ++ post) (pre ++ s :: post)
| ins_block pre b b' v post : ins s b b' -> ins s (pre ++ RBlock b v :: post) (pre ++ RBlock b' v :: post)
| ins_lambda pre b b' post : ins s b b' -> ins s (pre ++ RLambda b :: post) (pre ++ RLambda b' :: post).
