(* M3 (continued) — the .ti-config loader (builtin/json_loader.go loadBuiltinFromJSON,
   builtin/define_builtin_method.go), repaired code.  Definitions only.
   Abstraction: the generated parameter identifiers (base.GenId) are not modelled — a method declaration keeps
   its parsed parameter types in place; documents and signature articles are not modelled. *)
From RT Require Export Model.Config.

Record mdecl := { md_name : string; md_args : list ty; md_ret : ty; md_bps : list ty }.
Record classdef := {
  cd_frame : string; cd_class : string;
  cd_ims : list mdecl; cd_cms : list mdecl;
  cd_consts : list (string * ty);
  cd_extends : list string
}.

Definition mkey := (string * string * string * bool)%type.   (* frame, class, method, static *)
Definition node := (string * string)%type.                    (* frame, class *)

Definition mkey_eqb (a b : mkey) : bool :=
  let '(f1, c1, m1, s1) := a in let '(f2, c2, m2, s2) := b in
  String.eqb f1 f2 && String.eqb c1 c2 && String.eqb m1 m2 && Bool.eqb s1 s2.
Definition node_eqb (a b : node) : bool := String.eqb (fst a) (fst b) && String.eqb (snd a) (snd b).

Section Assoc.
  Context {K V : Type} (eqb : K -> K -> bool).
  Fixpoint aget (l : list (K * V)) (k : K) : option V :=
    match l with [] => None | (k', v) :: r => if eqb k k' then Some v else aget r k end.
  Fixpoint aset (l : list (K * V)) (k : K) (v : V) : list (K * V) :=
    match l with
    | [] => [(k, v)]
    | (k', v') :: r => if eqb k k' then (k, v) :: r else (k', v') :: aset r k v
    end.
End Assoc.

Record world := {
  w_methods : list (mkey * list mdecl);    (* TFrame method entries: main declaration followed by its overloads *)
  w_edges : list (node * list node);       (* ClassInheritanceMap *)
  w_builtin : list string;                 (* BuiltinClasses *)
  w_consts : list (string * string * ty)   (* (frame::class, name) -> type, last write wins *)
}.
Definition empty_world := {| w_methods := []; w_edges := []; w_builtin := []; w_consts := [] |}.

Definition methods_at (w : world) (k : mkey) : list mdecl :=
  match aget mkey_eqb (w_methods w) k with Some l => l | None => [] end.
Definition edges_at (w : world) (n : node) : list node :=
  match aget node_eqb (w_edges w) n with Some l => l | None => [] end.

(* defineBuiltinInstanceMethod / defineBuiltinStaticMethod: the first declaration of a key becomes the entry,
   later ones of the same class are appended as overloads *)
Definition define_method (ms : list (mkey * list mdecl)) (k : mkey) (d : mdecl) :=
  aset mkey_eqb ms k (match aget mkey_eqb ms k with Some l => l ++ [d] | None => [d] end).

Definition parent_node (frame : string) (p : string) : node :=
  match split_dcolon p with
  | [a; b] => (a, b)
  | _ => (frame, p)
  end.

Definition add_edge (es : list (node * list node)) (n p : node) (dedup : bool) :=
  let cur := match aget node_eqb es n with Some l => l | None => [] end in
  if dedup && existsb (node_eqb p) cur then es else aset node_eqb es n (cur ++ [p]).

Definition load_one (w : world) (cd : classdef) : world :=
  if is_name_space (cd_class cd) then w else
  let f := cd_frame cd in let c := cd_class cd in
  let ms1 := fold_left (fun ms d => define_method ms (f, c, md_name d, false) d) (cd_ims cd) (w_methods w) in
  let ms2 := fold_left (fun ms d => define_method ms (f, c, md_name d, true) d) (cd_cms cd) ms1 in
  let es1 := if negb (String.eqb c "") && negb (String.eqb c "Kernel")
             then add_edge (w_edges w) (f, c) ("Builtin", "") false else w_edges w in
  let es2 := fold_left (fun es p => add_edge es (f, c) (parent_node f p) true) (cd_extends cd) es1 in
  {| w_methods := ms2; w_edges := es2; w_builtin := w_builtin w ++ [c];
     w_consts := w_consts w ++ map (fun kv => (calculate_frame f c, fst kv, snd kv)) (cd_consts cd) |}.

Definition load (cds : list classdef) : world := fold_left load_one cds empty_world.

(* ---- the declarative reading: what a lookup sees is a function of the set of declarations ---- *)
Definition decls_for (cd : classdef) (k : mkey) : list mdecl :=
  let '(f, c, m, s) := k in
  if is_name_space (cd_class cd) then [] else
  if String.eqb f (cd_frame cd) && String.eqb c (cd_class cd)
  then filter (fun d => String.eqb m (md_name d)) (if s then cd_cms cd else cd_ims cd) else [].

Definition spec_methods (cds : list classdef) (k : mkey) : list mdecl := flat_map (fun cd => decls_for cd k) cds.

(* one JSON method definition -> mdecl (parseArguments, parseReturnType, appendBlockParameters) *)
Definition mk_mdecl (v : cfg_variant) (name : string) (args : list jarg) (ret : jret) (bps : list string) : mdecl :=
  let r := parse_return_type ret in
  let r' := match bps with [] => r | _ => set_bg (set_bps r (map parse_type_string bps)) true end in
  {| md_name := name; md_args := parse_arguments v args; md_ret := r'; md_bps := map parse_type_string bps |}.

(* executable equality used by the correspondence *)
Definition mdecl_eqb (a b : mdecl) : bool :=
  String.eqb (md_name a) (md_name b) && list_eqb ty_eqb (md_args a) (md_args b) && ty_eqb (md_ret a) (md_ret b).
Definition nodes_eqb (a b : list node) : bool := list_eqb node_eqb a b.
