(* M9 — cmd/rbs2json (repaired code): convertType, convertArguments, on the decoded AST document.
   Keyword parameters arrive as JSON objects, i.e. Go maps: they are association lists in an arbitrary order.
   Definitions only. *)
From RT Require Export Model.Args.
From RT Require Import Proofs.SortP.
Local Infix "+++" := String.append (right associativity, at level 60).

Inductive rtype := RT (cls name : string) (args : list rtype) (inner : option rtype) (types : list rtype) (literal : string).
Definition rt_cls (t : rtype) := let 'RT c _ _ _ _ _ := t in c.
Definition rt_literal (t : rtype) := let 'RT _ _ _ _ _ l := t in l.

Record rparam := { rp_type : option rtype; rp_name : string }.
Record functype := {
  ft_req : list rparam; ft_opt : list rparam; ft_rest : option rparam; ft_trail : list rparam;
  ft_kwreq : list (string * rparam); ft_kwopt : list (string * rparam); ft_kwrest : option rparam
}.

Definition starts_with (p s : string) : bool := String.eqb (substring 0 (String.length p) s) p.
Definition trim_colons (s : string) : string := if starts_with "::" s then substring 2 (String.length s - 2) s else s.
Definition contains_dot (s : string) : bool := existsb (fun i => String.eqb (substring i 1 s) ".") (seq 0 (String.length s)).

Definition convert_literal (lit : string) : list string :=
  if starts_with ":" lit then ["Symbol"]
  else if String.eqb lit "true" || String.eqb lit "false" then ["Bool"]
  else match lit with
       | String c _ =>
           let n := nat_of_ascii c in
           if (Nat.leb 48 n && Nat.leb n 57) || Nat.eqb n 45 then (if contains_dot lit then ["Float"] else ["Int"])
           else if Nat.eqb n 34 || Nat.eqb n 39 then ["String"] else ["Untyped"]
       | EmptyString => ["Untyped"]
       end.

Definition is_symbol_literal (t : rtype) : bool := String.eqb (rt_cls t) "literal" && starts_with ":" (rt_literal t).

Fixpoint alias_get (al : list (string * rtype)) (k : string) : option rtype :=
  match al with [] => None | (k', v) :: r => if String.eqb k k' then Some v else alias_get r k end.

Fixpoint alias_remove (al : list (string * rtype)) (k : string) : list (string * rtype) :=
  match al with [] => [] | (k', v) :: r => if String.eqb k k' then alias_remove r k else (k', v) :: alias_remove r k end.

Definition dedup_append (acc l : list string) : list string :=
  fold_left (fun a x => if existsb (String.eqb x) a then a else a ++ [x]) l acc.

(* convertType; fuel bounds the depth (type aliases may refer to each other); None = out of fuel *)
Fixpoint convert_type (fuel : nat) (al : list (string * rtype)) (cname : string) (t : rtype) : option (list string) :=
  match fuel with
  | O => None
  | S f =>
      let 'RT cls name args inner types literal := t in
      if String.eqb cls "class_instance" then
        let n := trim_colons name in
        if String.eqb n "Integer" || String.eqb n "int" then Some ["Int"]
        else if String.eqb n "Float" then Some ["Float"]
        else if String.eqb n "String" then Some ["String"]
        else if String.eqb n "Symbol" then Some ["Symbol"]
        else if String.eqb n "NilClass" then Some ["NilClass"]
        else if String.eqb n "TrueClass" || String.eqb n "FalseClass" then Some ["Bool"]
        else if String.eqb n "Object" then Some ["Untyped"]
        else if String.eqb n "Array" then
          match args with
          | a :: _ => match convert_type f al cname a with
                      | None => None
                      | Some [x] => Some ["[" +++ x +++ "]"]
                      | Some _ => Some ["Array"]
                      end
          | [] => Some ["Array"]
          end
        else if String.eqb n "Hash" then Some ["Hash"]
        else Some [n]
      else if String.eqb cls "bool" then Some ["Bool"]
      else if String.eqb cls "nil" || String.eqb cls "void" then Some ["NilClass"]
      else if String.eqb cls "untyped" then Some ["Untyped"]
      else if String.eqb cls "self" then Some ["Self"]
      else if String.eqb cls "instance" then Some [cname]
      else if String.eqb cls "variable" then Some ["Untyped"]
      else if String.eqb cls "optional" then
        match inner with
        | Some i => match convert_type f al cname i with
                    | None => None
                    | Some ts => Some (if existsb (String.eqb "NilClass") ts then ts else ts ++ ["NilClass"])
                    end
        | None => Some ["NilClass"]
        end
      else if String.eqb cls "union" then
        fold_left (fun acc ut => match acc, convert_type f al cname ut with
                                 | Some a, Some ts => Some (dedup_append a (if is_symbol_literal ut then map (fun _ => "Symbol") ts else ts))
                                 | _, _ => None
                                 end) types (Some [])
      else if String.eqb cls "literal" then Some (convert_literal literal)
      else if String.eqb cls "tuple" then Some ["Array"]
      else if String.eqb cls "alias" then
        if String.eqb name "int" then Some ["Int"]
        else if String.eqb name "float" then Some ["Float"]
        else if String.eqb name "string" || String.eqb name "path" || String.eqb name "encoding" then Some ["String"]
        else if String.eqb name "boolish" || String.eqb name "bool" then Some ["Bool"]
        else if String.eqb name "real" then Some ["Float"; "Int"]
        else if String.eqb name "interned" then Some ["Symbol"; "String"]
        else if String.eqb name "io" then Some ["Untyped"]
        else if String.eqb name "range" then Some ["Range"]
        else if String.eqb name "array" then Some ["Array"]
        else if String.eqb name "hash" then Some ["Hash"]
        else match alias_get al name with
             | Some r => convert_type f (alias_remove al name) cname r     (* the definition is read without the alias itself *)
             | None => Some ["Untyped"]
             end
      else if String.eqb cls "intersection" then
        match types with x :: _ => convert_type f al cname x | [] => Some ["Untyped"] end
      else Some ["Untyped"]
  end.

(* one TiArgument *)
Record tiarg := { ta_types : list string; ta_key : string; ta_ast : bool; ta_def : bool }.

Section Convert.
  Variable conv : rtype -> list string.       (* convertType with the aliases and the class name of the declaration *)

  Definition typed (mk : list string -> tiarg) (p : rparam) : list tiarg :=
    match rp_type p with Some t => [mk (conv t)] | None => [] end.
  Definition kw_lookup (kws : list (string * rparam)) (n : string) : list rparam :=
    match find (fun kv => String.eqb (fst kv) n) kws with Some kv => [snd kv] | None => [] end.

  (* convertArguments: the keyword names of each map are sorted *)
  Definition convert_arguments (f : functype) : list tiarg :=
    flat_map (typed (fun ts => {| ta_types := ts; ta_key := ""; ta_ast := false; ta_def := false |})) (ft_req f)
    ++ flat_map (typed (fun ts => {| ta_types := ts; ta_key := ""; ta_ast := false; ta_def := true |})) (ft_opt f)
    ++ match ft_rest f with
       | Some p => [{| ta_types := match rp_type p with Some t => conv t | None => [] end; ta_key := ""; ta_ast := true; ta_def := false |}]
       | None => []
       end
    ++ flat_map (typed (fun ts => {| ta_types := ts; ta_key := ""; ta_ast := false; ta_def := false |})) (ft_trail f)
    ++ flat_map (fun n => flat_map (typed (fun ts => {| ta_types := ts; ta_key := n +++ ":"; ta_ast := false; ta_def := false |})) (kw_lookup (ft_kwreq f) n))
                (sort str_leb (map fst (ft_kwreq f)))
    ++ flat_map (fun n => flat_map (typed (fun ts => {| ta_types := ts; ta_key := n +++ ":"; ta_ast := false; ta_def := true |})) (kw_lookup (ft_kwopt f) n))
                (sort str_leb (map fst (ft_kwopt f))).
End Convert.

(* the class of an emitted argument, in the order the property demands *)
Definition arg_rank (a : tiarg) : nat :=
  if String.eqb (ta_key a) "" then
    (if ta_ast a then 2 else if ta_def a then 1 else 0)        (* 0 also ranks a trailing positional, see rank_list *)
  else if ta_def a then 5 else 4.

Definition tiarg_eqb (a b : tiarg) : bool :=
  list_eqb String.eqb (ta_types a) (ta_types b) && String.eqb (ta_key a) (ta_key b) && Bool.eqb (ta_ast a) (ta_ast b) && Bool.eqb (ta_def a) (ta_def b).
