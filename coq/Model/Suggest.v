(* M6 (continued) — the completion predicates of cmd/out.go: isParentClass (repaired code: visited set),
   calculateObjectClassAndIsStatic, isSuggest, isSuggestForKernelOrObjectClass.  Definitions only. *)
From RT Require Export Model.Sigs.

(* a node of ClassInheritanceMap with its edge flags *)
Record pnode := { pn_frame : string; pn_class : string; pn_include : bool; pn_extend : bool }.
Definition node := (string * string)%type.                        (* (frame, class) *)
Definition inh_map := list (node * list pnode).                  (* keyed by the node with both flags false *)
Definition pn_node (p : pnode) : node := (pn_frame p, pn_class p).

Definition fc_eqb (a b : node) : bool := String.eqb (fst a) (fst b) && String.eqb (snd a) (snd b).
Fixpoint parents_of (m : inh_map) (n : node) : list pnode :=
  match m with [] => [] | (k, ps) :: r => if fc_eqb n k then ps else parents_of r n end.

Definition mem_fc (n : node) (l : list node) : bool := existsb (fc_eqb n) l.
Fixpoint remove_fc (n : node) (l : list node) : list node :=
  match l with [] => [] | x :: r => if fc_eqb n x then remove_fc n r else x :: remove_fc n r end.

(* `if frame == "" && slices.Contains(base.BuiltinClasses, class) { frame = "Builtin" }` *)
Definition norm (builtin : list string) (n : node) : node :=
  if String.eqb (fst n) "" && existsb (String.eqb (snd n)) builtin then ("Builtin", snd n) else n.

(* the loop over the parents: the first search that succeeds ends it; the visited set is threaded through *)
Fixpoint first_true {A : Type} (step : A -> list node -> option (bool * list node)) (ps : list A) (uv : list node)
  : option (bool * list node) :=
  match ps with
  | [] => Some (false, uv)
  | p :: r => match step p uv with
              | None => None
              | Some (true, uv') => Some (true, uv')
              | Some (false, uv') => first_true step r uv'
              end
  end.

(* isParentClassVisited: [uv] is the set of nodes not yet expanded (Go's visited map, complemented); the result
   carries the set on, because the visited map is shared by the whole search.  None = out of fuel.
   An extend edge turns the search to the instance methods of the module. *)
Fixpoint is_parent_class (fuel : nat) (m : inh_map) (builtin : list string) (s : sig) (static_target : bool)
         (uv : list node) (n : node) (is_ext is_inc : bool) : option (bool * list node) :=
  match fuel with
  | O => None
  | S f =>
      if is_ext && negb static_target then Some (false, uv)
      else if is_inc && static_target then Some (false, uv)
      else
        let st := if is_ext then false else static_target in
        if String.eqb (s_method s) "new" then Some (false, uv)
        else
          let n' := norm builtin n in
          if fc_eqb (s_frame s, s_class s) n' then Some (Bool.eqb (s_static s) st, uv)
          else if negb (mem_fc n' uv) then Some (false, uv)
          else first_true (fun p uv1 => is_parent_class f m builtin s st uv1 (pn_node p) (pn_extend p) (pn_include p))
                          (parents_of m n') (remove_fc n' uv)
  end.

(* every node the search can meet: the start, the keys and the parents, each also under the Builtin frame *)
Definition universe (m : inh_map) (start : node) : list node :=
  start :: ("Builtin", snd start)
        :: flat_map (fun kv => fst kv :: map pn_node (snd kv) ++ map (fun p => ("Builtin", pn_class p)) (snd kv)) m.

Definition IsParentClass (m : inh_map) (builtin : list string) (s : sig) (n : node) (static_target : bool) : bool :=
  let u := universe m n in
  match is_parent_class (S (List.length u)) m builtin s static_target u n false false with
  | Some (b, _) => b
  | None => false
  end.

(* the fields of the captured target T that the predicates read; tg_str is T.ToString() *)
Record target := {
  tg_tag : tag; tg_str : string; tg_cls : string; tg_bec : string; tg_frame : string; tg_meth : string;
  tg_df : string; tg_dc : string; tg_dm : string; tg_static : bool
}.

Definition first_upper (s : string) : bool :=
  match s with String c _ => let n := nat_of_ascii c in Nat.leb 65 n && Nat.leb n 90 | EmptyString => false end.

(* calculateObjectClassAndIsStatic (ASCII names).  None = index out of range (`target[0]` of the empty string);
   [guarded] is the repaired code, which tests for the empty string first. *)
Definition calc_object_class (guarded : bool) (t : target) : option (string * bool) :=
  if tag_eqb (tg_tag t) CLASS then Some (tg_str t, true)
  else
    match (match tg_bec t with
           | EmptyString => if String.eqb (tg_str t) "" then (if guarded then Some false else None)
                            else Some (first_upper (tg_str t))
           | b => Some (first_upper b)
           end) with
    | None => None
    | Some is_static =>
        Some (if tag_eqb (tg_tag t) SELF && negb is_static then (tg_dc t, false)
              else if existsb (tag_eqb (tg_tag t)) [INT; FLOAT; ARRAY; HASH; STRING; OBJECT] then (tg_cls t, false)
              else if tag_eqb (tg_tag t) UNKNOWN && negb is_static then
                     (if String.eqb (tg_dm t) "" then (tg_dc t, true) else (tg_dc t, tg_static t))
              else if String.eqb (tg_bec t) "" || is_static then (tg_str t, is_static)
              else (tg_cls t, is_static))
    end.

(* isSuggest; [scoped] is the repaired code: the class around the cursor is consulted only for an implicit
   receiver (no method name on the target).  None = the panic of calc_object_class. *)
Definition is_suggest (guarded scoped : bool) (m : inh_map) (builtin : list string) (t : target) (s : sig) : option bool :=
  if String.eqb (s_class s) "" then Some false
  else if String.eqb (s_class s) "Kernel" then Some false
  else
    match calc_object_class guarded t with
    | None => None
    | Some (oc, st) =>
        Some (
        let implicit := negb scoped || String.eqb (tg_meth t) "" in
        if Nat.ltb (String.length oc) 1 then false
        else if s_private s && (negb implicit || negb (String.eqb (s_class s) (tg_dc t))) then false
        else if implicit && String.eqb (s_class s) (tg_dc t) && Bool.eqb (s_static s) (tg_static t) then true
        else if implicit && IsParentClass m builtin s (tg_df t, tg_dc t) (tg_static t) then true
        else if String.eqb (s_class s) oc then Bool.eqb st (s_static s)
        else IsParentClass m builtin s (tg_frame t, oc) st)
    end.

Definition is_suggest_kernel_or_object (t : target) (sig_class : string) : bool :=
  if String.eqb (tg_str t) "" then false
  else if first_upper (tg_str t) then false
  else String.eqb sig_class "" || String.eqb sig_class "Kernel".
