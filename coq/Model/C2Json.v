(* M9 — cmd/c2json inferArguments (repaired code), on what the regular expressions extract from the C source:
   the MRB_ARGS words of the definition, the mrb_get_args format of the body, the GET_*_ARG uses and the
   `if (argc >= n)` guards.  Definitions only. *)
From RT Require Export Model.Config.
Local Infix "+++" := String.append (right associativity, at level 60).

Record aspec := { a_none : bool; a_any : bool; a_req : nat; a_opt : nat; a_rest : bool; a_post : nat; a_block : bool }.
Definition targ := (string * string)%type.         (* type name, key — one TiArgument *)

Definition fmt_type (c : ascii) : option string :=
  if existsb (Ascii.eqb c) ["i"]%char then Some "Int"
  else if existsb (Ascii.eqb c) ["f"]%char then Some "Float"
  else if existsb (Ascii.eqb c) ["s"; "z"; "S"]%char then Some "String"
  else if existsb (Ascii.eqb c) ["A"; "a"]%char then Some "Array"
  else if existsb (Ascii.eqb c) ["H"]%char then Some "Hash"
  else if existsb (Ascii.eqb c) ["b"]%char then Some "Bool"
  else if existsb (Ascii.eqb c) ["n"]%char then Some "Symbol"
  else if existsb (Ascii.eqb c) ["C"; "o"; "c"; "d"; "I"]%char then Some "Untyped"
  else None.

Fixpoint infer_fmt (opt : bool) (s : string) : list targ :=
  match s with
  | EmptyString => []
  | String c r =>
      match fmt_type c with
      | Some t => ((if opt then "?" +++ t else t), "") :: infer_fmt opt r
      | None =>
          if Ascii.eqb c "|" then infer_fmt true r
          else if Ascii.eqb c "*" then ("Untyped", "*args") :: infer_fmt opt r
          else if Ascii.eqb c "&" then ("DefaultBlock", "") :: infer_fmt opt r
          else infer_fmt opt r
      end
  end.

Definition get_type (k : string) : string :=
  if String.eqb k "INT" then "Int" else if String.eqb k "FLOAT" then "Float" else if String.eqb k "STRING" then "String" else "Untyped".

(* argumentTypesByIndex: the last GET_x_ARG(i) for an index decides *)
Fixpoint type_at (gets : list (string * nat)) (i : nat) : option string :=
  match gets with
  | [] => None
  | (k, j) :: r => match type_at r i with Some t => Some t | None => if Nat.eqb i j then Some (get_type k) else None end
  end.
Definition min_guard (guards : list nat) : nat :=
  fold_left (fun m g => if Nat.eqb m 0 || Nat.ltb g m then g else m) guards 0.
Definition infer_gets (gets : list (string * nat)) (guards : list nat) : list targ :=
  let mx := fold_left Nat.max (map snd gets) 0 in
  let mg := min_guard guards in
  map (fun i => let t := match type_at gets i with Some t => t | None => "Untyped" end in
                ((if Nat.ltb 0 mg && Nat.leb mg i then "?" +++ t else t), ""))
      (seq 1 mx).

Definition infer_counts (a : aspec) : list targ :=
  repeat ("Untyped", "") (a_req a) ++ repeat ("?Untyped", "") (a_opt a)
  ++ (if a_rest a then [("Untyped", "*args")] else [])
  ++ repeat ("Untyped", "") (a_post a) ++ (if a_block a then [("?Block", "")] else []).

Definition infer_arguments (a : aspec) (fmt : option string) (gets : list (string * nat)) (guards : list nat) : list targ :=
  if a_none a then []
  else if a_any a then [("Untyped", "*args")]
  else match fmt with
       | Some f => infer_fmt false f
       | None =>
           let no_spec := Nat.eqb (a_req a) 0 && Nat.eqb (a_opt a) 0 && negb (a_rest a) && Nat.eqb (a_post a) 0 && negb (a_block a) in
           if no_spec && Nat.ltb 0 (List.length gets) then infer_gets gets guards
           else infer_counts a
       end.

(* --- how many arguments the C binding takes --- *)
Record shape := { sh_req : nat; sh_opt : nat; sh_rest : bool; sh_post : nat }.
Definition accepts (s : shape) (k : nat) : bool :=
  Nat.leb (sh_req s + sh_post s) k && (sh_rest s || Nat.leb k (sh_req s + sh_opt s + sh_post s)).

(* mrb_get_args: each argument letter takes one argument, after `|` an optional one; `*` takes the rest *)
Fixpoint fmt_shape (opt : bool) (s : string) (acc : shape) : shape :=
  match s with
  | EmptyString => acc
  | String c r =>
      match fmt_type c with
      | Some _ => fmt_shape opt r (if opt then {| sh_req := sh_req acc; sh_opt := S (sh_opt acc); sh_rest := sh_rest acc; sh_post := sh_post acc |}
                                   else {| sh_req := S (sh_req acc); sh_opt := sh_opt acc; sh_rest := sh_rest acc; sh_post := sh_post acc |})
      | None => if Ascii.eqb c "|" then fmt_shape true r acc
                else if Ascii.eqb c "*" then fmt_shape opt r {| sh_req := sh_req acc; sh_opt := sh_opt acc; sh_rest := true; sh_post := sh_post acc |}
                else fmt_shape opt r acc
      end
  end.
Definition empty_shape := {| sh_req := 0; sh_opt := 0; sh_rest := false; sh_post := 0 |}.
Definition aspec_shape (a : aspec) : shape :=
  if a_none a then empty_shape
  else if a_any a then {| sh_req := 0; sh_opt := 0; sh_rest := true; sh_post := 0 |}
  else {| sh_req := a_req a; sh_opt := a_opt a; sh_rest := a_rest a; sh_post := a_post a |}.

(* --- how many arguments the emitted declaration takes, as the loader reads it: `?T` has a default, the key
   "*args" is the rest parameter, a block parameter takes no positional argument --- *)
Definition is_opt_type (t : string) : bool := match t with String c _ => Ascii.eqb c "?" | _ => false end.
Definition is_block_decl (t : string) : bool := String.eqb t "DefaultBlock" || String.eqb t "?Block".
Fixpoint decl_shape (seen_rest : bool) (l : list targ) (acc : shape) : shape :=
  match l with
  | [] => acc
  | (t, k) :: r =>
      if String.eqb k "*args" then decl_shape true r {| sh_req := sh_req acc; sh_opt := sh_opt acc; sh_rest := true; sh_post := sh_post acc |}
      else if is_block_decl t then decl_shape seen_rest r acc
      else if is_opt_type t then decl_shape seen_rest r {| sh_req := sh_req acc; sh_opt := S (sh_opt acc); sh_rest := sh_rest acc; sh_post := sh_post acc |}
      else if seen_rest then decl_shape seen_rest r {| sh_req := sh_req acc; sh_opt := sh_opt acc; sh_rest := sh_rest acc; sh_post := S (sh_post acc) |}
      else decl_shape seen_rest r {| sh_req := S (sh_req acc); sh_opt := sh_opt acc; sh_rest := sh_rest acc; sh_post := sh_post acc |}
  end.

Definition shape_eqb (a b : shape) : bool :=
  Nat.eqb (sh_req a) (sh_req b) && Nat.eqb (sh_opt a) (sh_opt b) && Bool.eqb (sh_rest a) (sh_rest b) && Nat.eqb (sh_post a) (sh_post b).
