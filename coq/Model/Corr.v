(* helper for the correspondence files written by the harness *)
From Coq Require Import List.
Import ListNotations.

Fixpoint mismatch_from {A} (ok : A -> bool) (i : nat) (l : list A) : list nat :=
  match l with
  | [] => []
  | x :: r => if ok x then mismatch_from ok (S i) r else i :: mismatch_from ok (S i) r
  end.

Definition mismatches {A} (ok : A -> bool) (l : list A) : list nat := mismatch_from ok 0 l.
