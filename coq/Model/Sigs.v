(* M6 — signature records and the two listing orders (base/signature.go GetSortedTSignatures,
   GetSortedTSignaturesByClass, repaired comparators).  Definitions only. *)
From RT Require Export Model.Args.
From RT Require Import Proofs.SortP.

Record sig := Sig {
  s_method : string; s_detail : string; s_frame : string; s_class : string;
  s_static : bool; s_private : bool; s_file : string; s_row : Z; s_doc : string
}.

(* the tail every comparator ends with: compareSigRest *)
Definition rest_key (s : sig) := (s_static s, (s_detail s, (s_doc s, (s_file s, (s_row s, s_private s))))).
Definition rest_le := lex_le (fun a b : bool => implb a b) (lex_le str_leb (lex_le str_leb (lex_le str_leb
                        (lex_le Z.leb (fun a b : bool => implb a b))))).

Definition key_by_method (s : sig) := (s_method s, (s_class s, (s_frame s, rest_key s))).
Definition key_by_class (s : sig) := (s_class s, (s_method s, (s_frame s, rest_key s))).
Definition key_le := lex_le str_leb (lex_le str_leb (lex_le str_leb rest_le)).

Definition le_by_method (a b : sig) : bool := key_le (key_by_method a) (key_by_method b).
Definition le_by_class (a b : sig) : bool := key_le (key_by_class a) (key_by_class b).

(* GetSortedTSignatures / GetSortedTSignaturesByClass over the values of the TSignatures map, delivered in
   whatever order the map iteration chose *)
Definition sorted_by_method (vals : list sig) : list sig := sort le_by_method vals.
Definition sorted_by_class (vals : list sig) : list sig := sort le_by_class vals.

Definition sig_eqb (a b : sig) : bool :=
  String.eqb (s_method a) (s_method b) && String.eqb (s_detail a) (s_detail b) && String.eqb (s_frame a) (s_frame b) &&
  String.eqb (s_class a) (s_class b) && Bool.eqb (s_static a) (s_static b) && Bool.eqb (s_private a) (s_private b) &&
  String.eqb (s_file a) (s_file b) && Z.eqb (s_row a) (s_row b) && String.eqb (s_doc a) (s_doc b).

(* every `for … range <map>` of the source, with the reason its order cannot reach the output.
   The list itself is checked against the regenerated one in Proofs/SigsP.v. *)
Inductive site_class :=
| SortedAfterwards      (* values are sorted by a total order before use *)
| CommutativeBody       (* iterations act on distinct keys / compute a max or a set *)
| UnorderedOutput.      (* --define: the property allows any line order *)

Definition audited_sites : list (string * string * nat * string * site_class) :=
  [ ("base/signature.go", "GetSortedTSignatures", 0, "TSignatures", SortedAfterwards);
    ("base/signature.go", "GetSortedTSignaturesByClass", 0, "TSignatures", SortedAfterwards);
    ("base/t_frame.go", "RestoreArgumentTypes", 0, "ArgumentSnapShot", CommutativeBody);
    ("base/t_frame.go", "RestoreFrame", 0, "currentFrame", CommutativeBody);
    ("cmd/c2json/main.go", "inferArguments", 0, "argumentTypesByIndex", CommutativeBody);
    ("cmd/out.go", "PrintTargetClassExtends", 0, "base.ClassInheritanceMap", SortedAfterwards);
    ("cmd/out.go", "printAllClasses", 0, "base.TSignatures", CommutativeBody);
    ("cmd/out.go", "printAllClasses", 1, "classSet", SortedAfterwards);
    ("cmd/out.go", "printInheritanceMap", 0, "base.ClassInheritanceMap", UnorderedOutput);
    ("cmd/out.go", "printMatchingSignatures", 0, "base.TSignatures", UnorderedOutput);
    ("cmd/rbs2json/main.go", "convertArguments", 0, "funcType.RequiredKeywords", SortedAfterwards);
    ("cmd/rbs2json/main.go", "convertArguments", 1, "funcType.OptionalKeywords", SortedAfterwards);
    ("cmd/rbs2json/main.go", "convertDeclarations", 0, "topAliases", CommutativeBody);
    ("cmd/rbs2json/main.go", "convertType", 0, "aliases", CommutativeBody);     (* copies the map without one key *)
    ("eval/ifunless.go", "getBackupContext", 0, "i.narrowTs", CommutativeBody);
    ("eval/ifunless.go", "narrowing", 0, "i.originalTs", CommutativeBody);
    ("main.go", "cleanSimpleIdentifires", 0, "base.TFrame", CommutativeBody) ].
