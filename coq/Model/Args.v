(* M4 — argument checking (eval/method_evaluator/type_process.go, argument_process.go).
   Definitions only.  The parameter table of the called method is an association list; the model covers
   methods whose declared parameter types are configured (`isBuiltin`) or absent — the path every
   .ti-config method takes — and answers [CUnsupported] outside that domain. *)
From RT Require Export Model.TyOps.

Record args_variant := {
  fix_union_check : bool;     (* union subset admitted; object classes compared inside unions *)
  rest_skips_defaults : bool  (* a parameter with a default after the rest parameter reserves no argument *)
}.
Definition pinned_args := {| fix_union_check := false; rest_skips_defaults := false |}.
Definition fixed_args := {| fix_union_check := true; rest_skips_defaults := true |}.
(* the code between the two repairs: union check repaired, trailing `?Block` still reserving an argument *)
Definition rest_pinned_args := {| fix_union_check := true; rest_skips_defaults := false |}.

Inductive ekind :=
| ETypeMismatch | ETooFew | ETooMany | EExtraArg | ENamedMissing | ENotDefined | EKwargsExpected.

Inductive cres := COk | CErr (k : ekind) | CUnsupported.

Definition ekind_eqb (a b : ekind) : bool :=
  match a, b with
  | ETypeMismatch, ETypeMismatch | ETooFew, ETooFew | ETooMany, ETooMany | EExtraArg, EExtraArg
  | ENamedMissing, ENamedMissing | ENotDefined, ENotDefined | EKwargsExpected, EKwargsExpected => true
  | _, _ => false
  end.
Definition cres_eqb (a b : cres) : bool :=
  match a, b with
  | COk, COk | CUnsupported, CUnsupported => true
  | CErr x, CErr y => ekind_eqb x y
  | _, _ => false
  end.

Section Args.
  Variable V : args_variant.

  (* admits / isAcceptedByUnion / isAnyVariantAccepted (repaired code) *)
  Definition admits (d a : ty) : bool := is_any_type d || is_any_type a || is_match_type d a.
  Definition variants_of (a : ty) : list ty := if is_union_type a then t_vars a else [a].
  Definition accepted_by_union (d a : ty) : bool :=
    existsb is_any_type (t_vars d ++ variants_of a) ||
    forallb (fun x => existsb (fun y => admits y x) (t_vars d)) (variants_of a).
  Definition any_variant_accepted (d a : ty) : bool := existsb (admits d) (t_vars a).

  (* checkArgType *)
  Definition check_arg_type (d a : ty) : bool :=
    if is_block_type a then true
    else if is_any_type d || is_any_type a || is_unknown_type a then true
    else if (if fix_union_check V then negb (is_union_type d) else true) && is_match_type d a then true
    else if is_union_type d then
      if fix_union_check V then accepted_by_union d a else is_match_union_type d a
    else if is_union_type a then
      if fix_union_check V then any_variant_accepted d a else is_match_union_type a d
    else false.

  (* ---- sorting: prioritizeDefineArgNames / prioritizeArgTs ---- *)
  Definition is_named_darg (s : string) : bool :=
    match last_char s with Some c => Ascii.eqb c c_colon && Nat.leb 2 (String.length s) | None => false end.

  (* bytewise string order (Go's < on strings) *)
  Fixpoint str_ltb (a b : string) : bool :=
    match a, b with
    | _, EmptyString => false
    | EmptyString, String _ _ => true
    | String x r, String y s =>
        if Nat.ltb (nat_of_ascii x) (nat_of_ascii y) then true
        else if Nat.ltb (nat_of_ascii y) (nat_of_ascii x) then false
        else str_ltb r s
    end.
  Definition str_leb (a b : string) : bool := negb (str_ltb b a).

  Section Sort.
    Context {A : Type} (key : A -> string).
    Fixpoint insert_by (x : A) (l : list A) : list A :=
      match l with
      | [] => [x]
      | y :: r => if str_leb (key x) (key y) then x :: y :: r else y :: insert_by x r
      end.
    Definition sort_by (l : list A) : list A := fold_right insert_by [] l.
  End Sort.

  Definition prioritize_dargs (names : list string) : list string :=
    filter (fun n => negb (is_named_darg n)) names ++ sort_by (fun s => s) (filter is_named_darg names).

  Definition prioritize_args (args : list ty) : list ty :=
    filter (fun t => negb (is_keyvalue_type t)) args ++ sort_by t_key (filter is_keyvalue_type args).

  (* ---- the walk of checkAndPropagateArgs ---- *)
  Definition tbl := list (string * ty).
  Fixpoint tbl_get (t : tbl) (k : string) : option ty :=
    match t with [] => None | (k', v) :: r => if String.eqb k k' then Some v else tbl_get r k end.
  Fixpoint tbl_set (t : tbl) (k : string) (v : ty) : tbl :=
    match t with
    | [] => [(k, v)]
    | (k', v') :: r => if String.eqb k k' then (k, v) :: r else (k', v') :: tbl_set r k v
    end.

  Definition strip_star (s : string) : string :=
    match s with String c r => if Ascii.eqb c c_star then r else s | _ => s end.
  (* GetValueT / SetValueT strip one leading '*' from the variable name *)
  Definition tget (t : tbl) (k : string) := tbl_get t (strip_star k).
  Definition tset (t : tbl) (k : string) (v : ty) := tbl_set t (strip_star k) v.

  Definition is_dstar (s : string) : bool :=
    Nat.ltb 2 (String.length s) && match s with String a (String b _) => Ascii.eqb a c_star && Ascii.eqb b c_star | _ => false end.
  Definition is_star (s : string) : bool :=
    Nat.ltb 1 (String.length s) && match s with String a _ => Ascii.eqb a c_star | _ => false end.
  Definition drop1 (s : string) : string := match s with String _ r => r | _ => s end.

  Definition opt_has_default (o : option ty) : bool := match o with Some t => has_default t | None => false end.
  Definition arg_key_name (a : ty) : string := remove_suffix (t_key a).   (* GetRemoveSuffixKey *)

  Record wstate := { w_args : list ty; w_idx : nat; w_aster : bool; w_tbl : tbl }.

  Fixpoint set_nth (l : list ty) (i : nat) (v : ty) : list ty :=
    match l, i with
    | [], _ => []
    | _ :: r, O => v :: r
    | x :: r, S i' => x :: set_nth r i' v
    end.

  Fixpoint take_while {A} (p : A -> bool) (l : list A) : list A :=
    match l with [] => [] | x :: r => if p x then x :: take_while p r else [] end.

  Definition set_inf (t : ty) (b : bool) : ty :=
    let f := t_fl t in
    set_fl t (Flags (f_hd f) (f_bi f) b (f_ast f) (f_cond f) (f_des f) (f_cap f) (f_ro f) (f_bg f) (f_st f)).

  (* one parameter of the sorted parameter list; [rest] = the parameters after it *)
  Inductive step := SErr (k : ekind) | SUnsupported | SBreak (s : wstate) | SNext (s : wstate).

  Definition walk_step (check_round : bool) (d : string) (rest : list string) (s : wstate) : step :=
    let args := w_args s in
    let i := w_idx s in
    let n := List.length args in
    if is_dstar d then
      if Nat.ltb n i then SBreak s
      else
        let tail := skipn i args in
        if forallb is_keyvalue_type tail then
          let h := fold_left append_hash_variant tail MakeAnyHash in
          SNext {| w_args := args; w_idx := Nat.max i n; w_aster := true; w_tbl := tbl_set (w_tbl s) (drop1 (drop1 d)) h |}
        else SErr EKwargsExpected
    else if is_star d then
      if Nat.ltb n i then SBreak s
      else
        let must := List.length (filter (fun x => negb (is_key_suffix x) &&
                                                  negb (rest_skips_defaults V && opt_has_default (tget (w_tbl s) x))) rest) in
        let pos := take_while (fun t => negb (is_keyvalue_type t)) (skipn i args) in
        (* the rest parameter of a configured method keeps its declaration (repaired code) *)
        let bind := fun v => match tget (w_tbl s) (drop1 d) with
                             | Some dt => if is_builtin dt then w_tbl s else tset (w_tbl s) (drop1 d) v
                             | None => tset (w_tbl s) (drop1 d) v
                             end in
        if Nat.leb (List.length pos) must then
          SNext {| w_args := args; w_idx := i; w_aster := true; w_tbl := bind MakeAnyArray |}
        else
          let k := List.length pos - must in
          let collected := firstn k pos in
          SNext {| w_args := args; w_idx := i + k; w_aster := true; w_tbl := bind (MakeArray collected) |}
    else
      let isKey := is_key_suffix d in
      let name := if isKey then remove_suffix d else d in
      let dT := tget (w_tbl s) name in
      let has_arg := Nat.ltb i n in
      let cur := nth i args zero_ty in
      let cur_kv := has_arg && is_keyvalue_type cur in
      (* a *) if check_round && isKey && negb (opt_has_default dT) &&
                 negb (existsb (fun a => is_keyvalue_type a && String.eqb (arg_key_name a) name) args)
              then SErr ENamedMissing
      (* b *) else if check_round && isKey && has_arg && negb (is_keyvalue_type cur) then SErr EExtraArg
      (* c *) else if check_round && cur_kv && negb isKey && negb (opt_has_default dT) then SErr ENotDefined
      (* d *) else if cur_kv && negb (String.eqb (arg_key_name cur) name) then SNext s
      else
        let args' := if cur_kv then set_nth args i (get_key_value cur) else args in
        let cur' := nth i args' zero_ty in
      (* e *) if negb has_arg then
                if opt_has_default dT then SNext {| w_args := args'; w_idx := S i; w_aster := w_aster s; w_tbl := w_tbl s |}
                else if check_round then SErr ETooFew
                else SBreak {| w_args := args'; w_idx := i; w_aster := w_aster s; w_tbl := w_tbl s |}
      (* g: propagationForCalledTo, configured-method domain *)
              else
                let next := {| w_args := args'; w_idx := S i; w_aster := w_aster s; w_tbl := w_tbl s |} in
                let do_check (dt : ty) :=
                  if check_arg_type dt cur' then SNext next else SErr ETypeMismatch in
                if tag_is UNKNOWN cur' then SNext next
                else
                  match dT with
                  | None => SNext {| w_args := args'; w_idx := S i; w_aster := w_aster s;
                                     w_tbl := tset (w_tbl s) name (set_inf cur' true) |}
                  | Some dt =>
                      if tag_is UNKNOWN dt then
                        SNext {| w_args := args'; w_idx := S i; w_aster := w_aster s;
                                 w_tbl := tset (w_tbl s) name (set_inf cur' true) |}
                      else if is_builtin dt then do_check dt
                      else SUnsupported
                  end.

  Fixpoint walk (check_round : bool) (ds : list string) (s : wstate) : cres * wstate :=
    match ds with
    | [] => (COk, s)
    | d :: rest =>
        match walk_step check_round d rest s with
        | SErr k => (CErr k, s)
        | SUnsupported => (CUnsupported, s)
        | SBreak s' => (COk, s')
        | SNext s' => walk check_round rest s'
        end
    end.

  (* checkAndPropagateArgs: (result, parameter table afterwards) *)
  Definition check_args (check_round : bool) (ret_any : bool) (dargs : list string) (t : tbl) (args : list ty)
    : cres * tbl :=
    let sorted := prioritize_args args in
    let '(r, s) := walk check_round (prioritize_dargs dargs) {| w_args := sorted; w_idx := 0; w_aster := false; w_tbl := t |} in
    match r with
    | COk =>
        if ret_any then (COk, w_tbl s)
        else if check_round && Nat.ltb (List.length dargs) (List.length sorted) && negb (w_aster s)
             then (CErr ETooMany, w_tbl s)
             else (COk, w_tbl s)
    | _ => (r, w_tbl s)
    end.

End Args.
