(* M8 — block scopes (eval/block.go prepareBlockScope / makeRestoreFunc / setBlockParameters; base/t_frame.go
   DeepCopyTFrame / RestoreFrame): a snapshot of the variable table is taken, the block parameters get the
   declared types (surplus ones NilClass), the body runs, and the restore function deletes every key the
   snapshot does not have and re-binds the parameter names to what they were.  Definitions only. *)
From RT Require Export Model.Narrow.

Section Blocks.
  Variable A : Type.                      (* types *)
  Variables (nil_t untyped_t : A).        (* NilClass, Untyped *)
  Variable is_unknown : A -> bool.

  Inductive stmt :=
  | SSet (x : string) (v : A)                                        (* x = <value of type v> *)
  | SBlk (params : list string) (declared : list A) (body : list stmt).   (* recv.m do |params| body end *)

  Definition venv := amap A.
  Definition has_key (e : venv) (x : string) : bool := match aget e x with Some _ => true | None => false end.
  (* RestoreFrame: keys that the snapshot does not have are deleted *)
  Definition restore_frame (cur snap : venv) : venv := filter (fun kv => has_key snap (fst kv)) cur.

  (* setBlockParameters *)
  Fixpoint set_params (e : venv) (ps : list string) (ds : list A) (any_declared : bool) : venv :=
    match ps with
    | [] => e
    | p :: r =>
        if any_declared then
          match ds with
          | d :: ds' => set_params (aset e p d) r ds' any_declared
          | [] => set_params (aset e p nil_t) r [] any_declared
          end
        else e
    end.

  Fixpoint exec (s : stmt) (e : venv) {struct s} : venv :=
    match s with
    | SSet x v => aset e x v
    | SBlk ps ds body =>
        let snap := e in
        let saved := map (fun p => (p, match aget e p with
                                      | Some t => if is_unknown t then untyped_t else t
                                      | None => untyped_t
                                      end)) ps in
        let e1 := set_params e ps ds (match ds with [] => false | _ => true end) in
        let e2 := (fix run (l : list stmt) (e : venv) : venv := match l with [] => e | s :: r => run r (exec s e) end) body e1 in
        let e3 := restore_frame e2 snap in
        fold_left (fun e pt => aset e (fst pt) (snd pt)) saved e3
    end.
  Definition exec_list (l : list stmt) (e : venv) : venv := fold_left (fun e s => exec s e) l e.
End Blocks.

(* a receiver of union type (Do.unionBlockParameters): every variant that has the method gives one row of declared
   parameter types, padded with NilClass up to the number of block variables; parameter i is the union (`unify`) of
   column i, taken over the rows that reach it *)
Section UnionReceiver.
  Variable A : Type.
  Variable nil_t : A.
  Variable unify : list A -> A.            (* base.MakeUnifiedT *)

  Definition pad_row (n : nat) (ds : list A) : list A := ds ++ repeat nil_t (n - List.length ds).
  Definition column (i : nat) (rows : list (list A)) : list A :=
    flat_map (fun r => match nth_error r i with Some v => [v] | None => [] end) rows.
  Definition widest (rows : list (list A)) : nat := fold_left Nat.max (map (@List.length A) rows) 0.
  Definition union_declared (n : nat) (rows : list (list A)) : list A :=
    let padded := map (pad_row n) rows in
    map (fun i => unify (column i padded)) (seq 0 (widest padded)).
End UnionReceiver.

(* MakeUnifiedT on printed atomic types: first occurrences; one variant is itself *)
Definition unify_printed (l : list string) : string :=
  match uniq l with
  | [] => "Union<>"
  | [x] => x
  | x :: r => String.append "Union<" (String.append (fold_left (fun a b => String.append a (String.append " " b)) r x) ">")
  end.
