(* M2 — the type algebra on base.T: data type, equality, factories (base/t.go, t_factory.go,
   type.go).  Definitions only. *)
From Coq Require Export List String Ascii Bool Arith NArith ZArith Lia.
Export ListNotations.
Open Scope string_scope.
Open Scope list_scope.

(* byte list -> string, used by generated files for non-printable text *)
Definition bs (l : list N) : string :=
  fold_right (fun n s => String (ascii_of_N n) s) EmptyString l.

(* token / type tags of base/type.go *)
Inductive tag :=
| NIL | INT | UNKNOWN | STRING | BOOL | FLOAT | UNTYPED | ARRAY | HASH | UNION | OBJECT | BLOCK
| CLASS | SELF | SYMBOL | KEYVALUE | CONST | RANGE | UNIFY | OPTIONAL_UNIFY | BLOCK_RESULT_ARRAY
| SELF_ARRAY | ARGUMENT | UNIFY_ARGUMENT | KEYVALUE_ARRAY | FLATTEN | ITEM | OWNER.

Definition tag_code (t : tag) : Z :=
  match t with
  | NIL => 0 | INT => 257 | UNKNOWN => 258 | STRING => 259 | BOOL => 260 | FLOAT => 261
  | UNTYPED => 262 | ARRAY => 263 | HASH => 264 | UNION => 265 | OBJECT => 266 | BLOCK => 267
  | CLASS => 268 | SELF => 269 | SYMBOL => 270 | KEYVALUE => 271 | CONST => 272 | RANGE => 273
  | UNIFY => 274 | OPTIONAL_UNIFY => 275 | BLOCK_RESULT_ARRAY => 276 | SELF_ARRAY => 277
  | ARGUMENT => 278 | UNIFY_ARGUMENT => 279 | KEYVALUE_ARRAY => 280 | FLATTEN => 281
  | ITEM => 282 | OWNER => 283
  end%Z.

Definition all_tags : list tag :=
  [NIL; INT; UNKNOWN; STRING; BOOL; FLOAT; UNTYPED; ARRAY; HASH; UNION; OBJECT; BLOCK; CLASS; SELF;
   SYMBOL; KEYVALUE; CONST; RANGE; UNIFY; OPTIONAL_UNIFY; BLOCK_RESULT_ARRAY; SELF_ARRAY; ARGUMENT;
   UNIFY_ARGUMENT; KEYVALUE_ARRAY; FLATTEN; ITEM; OWNER].

Definition tag_eqb (a b : tag) : bool := Z.eqb (tag_code a) (tag_code b).

(* dynamic kind of the Go field `val any` *)
Inductive vkind := VNil | VStr (s : string) | VInt64 | VFloat64 | VT | VOther.

Definition vkind_eqb (a b : vkind) : bool :=
  match a, b with
  | VNil, VNil | VInt64, VInt64 | VFloat64, VFloat64 | VT, VT | VOther, VOther => true
  | VStr x, VStr y => String.eqb x y
  | _, _ => false
  end.

Record flags := Flags {
  f_hd : bool;   (* hasDefault *)
  f_bi : bool;   (* isBuiltin *)
  f_inf : bool;  (* isInfferedFromCall *)
  f_ast : bool;  (* IsBuiltinAsterisk *)
  f_cond : bool; (* IsConditionalReturn *)
  f_des : bool;  (* IsDestructive *)
  f_cap : bool;  (* IsCaptureOwner *)
  f_ro : bool;   (* isReadOnly *)
  f_bg : bool;   (* IsBlockGiven *)
  f_st : bool    (* IsStatic *)
}.

Definition no_flags := Flags false false false false false false false false false false.

Definition flags_eqb (a b : flags) : bool :=
  Bool.eqb (f_hd a) (f_hd b) && Bool.eqb (f_bi a) (f_bi b) && Bool.eqb (f_inf a) (f_inf b) &&
  Bool.eqb (f_ast a) (f_ast b) && Bool.eqb (f_cond a) (f_cond b) && Bool.eqb (f_des a) (f_des b) &&
  Bool.eqb (f_cap a) (f_cap b) && Bool.eqb (f_ro a) (f_ro b) && Bool.eqb (f_bg a) (f_bg b) &&
  Bool.eqb (f_st a) (f_st b).

(* base.T — every semantic field the verif projection keeps *)
Inductive ty : Type :=
  Ty (tg : tag) (cls : string) (vk : vkind) (vt : option ty)
     (key frame meth : string) (dargs : list string) (fl : flags)
     (bec df dc : string) (vars bps ovs : list ty).

Definition t_tag (t : ty) := let 'Ty tg _ _ _ _ _ _ _ _ _ _ _ _ _ _ := t in tg.
Definition t_cls (t : ty) := let 'Ty _ c _ _ _ _ _ _ _ _ _ _ _ _ _ := t in c.
Definition t_vk (t : ty) := let 'Ty _ _ v _ _ _ _ _ _ _ _ _ _ _ _ := t in v.
Definition t_vt (t : ty) := let 'Ty _ _ _ v _ _ _ _ _ _ _ _ _ _ _ := t in v.
Definition t_key (t : ty) := let 'Ty _ _ _ _ k _ _ _ _ _ _ _ _ _ _ := t in k.
Definition t_frame (t : ty) := let 'Ty _ _ _ _ _ f _ _ _ _ _ _ _ _ _ := t in f.
Definition t_meth (t : ty) := let 'Ty _ _ _ _ _ _ m _ _ _ _ _ _ _ _ := t in m.
Definition t_dargs (t : ty) := let 'Ty _ _ _ _ _ _ _ d _ _ _ _ _ _ _ := t in d.
Definition t_fl (t : ty) := let 'Ty _ _ _ _ _ _ _ _ f _ _ _ _ _ _ := t in f.
Definition t_bec (t : ty) := let 'Ty _ _ _ _ _ _ _ _ _ b _ _ _ _ _ := t in b.
Definition t_df (t : ty) := let 'Ty _ _ _ _ _ _ _ _ _ _ d _ _ _ _ := t in d.
Definition t_dc (t : ty) := let 'Ty _ _ _ _ _ _ _ _ _ _ _ d _ _ _ := t in d.
Definition t_vars (t : ty) := let 'Ty _ _ _ _ _ _ _ _ _ _ _ _ v _ _ := t in v.
Definition t_bps (t : ty) := let 'Ty _ _ _ _ _ _ _ _ _ _ _ _ _ b _ := t in b.
Definition t_ovs (t : ty) := let 'Ty _ _ _ _ _ _ _ _ _ _ _ _ _ _ o := t in o.

Definition set_vars (t : ty) (v : list ty) : ty :=
  let 'Ty a b c d e f g h i j k l _ n o := t in Ty a b c d e f g h i j k l v n o.
Definition set_bps (t : ty) (v : list ty) : ty :=
  let 'Ty a b c d e f g h i j k l m _ o := t in Ty a b c d e f g h i j k l m v o.
Definition set_ovs (t : ty) (v : list ty) : ty :=
  let 'Ty a b c d e f g h i j k l m n _ := t in Ty a b c d e f g h i j k l m n v.
Definition set_fl (t : ty) (v : flags) : ty :=
  let 'Ty a b c d e f g h _ j k l m n o := t in Ty a b c d e f g h v j k l m n o.
Definition set_frame (t : ty) (v : string) : ty :=
  let 'Ty a b c d e _ g h i j k l m n o := t in Ty a b c d e v g h i j k l m n o.
Definition set_meth (t : ty) (v : string) : ty :=
  let 'Ty a b c d e f _ h i j k l m n o := t in Ty a b c d e f v h i j k l m n o.
Definition set_dargs (t : ty) (v : list string) : ty :=
  let 'Ty a b c d e f g _ i j k l m n o := t in Ty a b c d e f g v i j k l m n o.
Definition set_bec (t : ty) (v : string) : ty :=
  let 'Ty a b c d e f g h i _ k l m n o := t in Ty a b c d e f g h i v k l m n o.
Definition set_df (t : ty) (v : string) : ty :=
  let 'Ty a b c d e f g h i j _ l m n o := t in Ty a b c d e f g h i j v l m n o.
Definition set_dc (t : ty) (v : string) : ty :=
  let 'Ty a b c d e f g h i j k _ m n o := t in Ty a b c d e f g h i j k v m n o.
Definition set_key (t : ty) (v : string) : ty :=
  let 'Ty a b c d _ f g h i j k l m n o := t in Ty a b c d v f g h i j k l m n o.

Definition set_hd (t : ty) (b : bool) : ty :=
  let f := t_fl t in
  set_fl t (Flags b (f_bi f) (f_inf f) (f_ast f) (f_cond f) (f_des f) (f_cap f) (f_ro f) (f_bg f) (f_st f)).
Definition set_bi (t : ty) (b : bool) : ty :=
  let f := t_fl t in
  set_fl t (Flags (f_hd f) b (f_inf f) (f_ast f) (f_cond f) (f_des f) (f_cap f) (f_ro f) (f_bg f) (f_st f)).
Definition set_ast (t : ty) (b : bool) : ty :=
  let f := t_fl t in
  set_fl t (Flags (f_hd f) (f_bi f) (f_inf f) b (f_cond f) (f_des f) (f_cap f) (f_ro f) (f_bg f) (f_st f)).
Definition set_cond_des_cap (t : ty) (c d p : bool) : ty :=
  let f := t_fl t in
  set_fl t (Flags (f_hd f) (f_bi f) (f_inf f) (f_ast f) c d p (f_ro f) (f_bg f) (f_st f)).
Definition set_ro (t : ty) (b : bool) : ty :=
  let f := t_fl t in
  set_fl t (Flags (f_hd f) (f_bi f) (f_inf f) (f_ast f) (f_cond f) (f_des f) (f_cap f) b (f_bg f) (f_st f)).
Definition set_bg (t : ty) (b : bool) : ty :=
  let f := t_fl t in
  set_fl t (Flags (f_hd f) (f_bi f) (f_inf f) (f_ast f) (f_cond f) (f_des f) (f_cap f) (f_ro f) b (f_st f)).
Definition set_st (t : ty) (b : bool) : ty :=
  let f := t_fl t in
  set_fl t (Flags (f_hd f) (f_bi f) (f_inf f) (f_ast f) (f_cond f) (f_des f) (f_cap f) (f_ro f) (f_bg f) b).

Definition has_default (t : ty) := f_hd (t_fl t).
Definition is_builtin (t : ty) := f_bi (t_fl t).
Definition is_asterisk (t : ty) := f_ast (t_fl t).

(* decidable structural equality (executable; used by the correspondence) *)
Section ListEqb.
  Context {A : Type} (f : A -> A -> bool).
  Fixpoint list_eqb (l1 l2 : list A) : bool :=
    match l1, l2 with
    | [], [] => true
    | x :: xs, y :: ys => f x y && list_eqb xs ys
    | _, _ => false
    end.
End ListEqb.

Fixpoint ty_eqb (a b : ty) : bool :=
  match a, b with
  | Ty tg1 c1 vk1 vt1 k1 f1 m1 d1 fl1 be1 df1 dc1 vs1 bp1 ov1,
    Ty tg2 c2 vk2 vt2 k2 f2 m2 d2 fl2 be2 df2 dc2 vs2 bp2 ov2 =>
      tag_eqb tg1 tg2 && String.eqb c1 c2 && vkind_eqb vk1 vk2 &&
      match vt1, vt2 with
      | Some x, Some y => ty_eqb x y
      | None, None => true
      | _, _ => false
      end &&
      String.eqb k1 k2 && String.eqb f1 f2 && String.eqb m1 m2 && list_eqb String.eqb d1 d2 &&
      flags_eqb fl1 fl2 && String.eqb be1 be2 && String.eqb df1 df2 && String.eqb dc1 dc2 &&
      list_eqb ty_eqb vs1 vs2 && list_eqb ty_eqb bp1 bp2 && list_eqb ty_eqb ov1 ov2
  end.

(* factories of base/t_factory.go *)
Definition NewT (cls : string) (tg : tag) (v : vkind) : ty :=
  Ty tg cls v None "" "" "" [] no_flags "" "" "" [] [] [].

Definition MakeNil := NewT "NilClass" NIL (VStr "nil").
Definition MakeIntLit := NewT "Integer" INT VInt64.          (* MakeInt(v) *)
Definition MakeAnyInt := NewT "Integer" INT VOther.          (* val is the untyped constant 1 *)
Definition MakeFloatLit := NewT "Float" FLOAT VFloat64.
Definition MakeAnyFloat := NewT "Float" FLOAT VOther.
Definition MakeString (s : string) := NewT "String" STRING (VStr s).
Definition MakeAnyString := MakeString "String".
Definition MakeArray (vs : list ty) := set_vars (NewT "Array" ARRAY (VStr "array")) vs.
Definition MakeAnyArray := MakeArray [].
Definition MakeAnyHash := NewT "Hash" HASH (VStr "hash").
Definition MakeRange := NewT "Range" RANGE (VStr "range").
Definition MakeBool := NewT "Bool" BOOL (VStr "bool").
Definition MakeIdentifier (s : string) := NewT "Identifier" UNKNOWN (VStr s).
Definition MakeUnknown := NewT "Unknown" UNKNOWN (VStr "unknown").
Definition MakeObject (s : string) := NewT s OBJECT (VStr s).
Definition MakeClass (s : string) := NewT s CLASS (VStr s).
Definition MakeConst (s : string) := NewT s CONST (VStr s).
Definition MakeUnion (vs : list ty) := set_vars (NewT "Union" UNION (VStr "union")) vs.
Definition MakeBlock := NewT "Block" BLOCK (VStr "block").
Definition MakeUntyped := NewT "Untyped" UNTYPED (VStr "untyped").
Definition MakeSymbol (s : string) := NewT "Symbol" SYMBOL (VStr s).
Definition MakeAnySymbol := MakeSymbol "symbol".
Definition MakeKeyValue (k : string) (v : ty) : ty :=
  Ty KEYVALUE "KeyValue" VT (Some v) k "" "" [] no_flags "" "" "" [] [] [].

(* T.ToString (base/t_util.go) *)
Definition to_string (t : ty) : string :=
  match t_vk t with
  | VStr s => s
  | VInt64 => "Integer"
  | VFloat64 => "Float"
  | _ => "Unknown"
  end.
