(* M5 (continued) — calculateExecutionType (eval/method_evaluator/evaluate_process.go): how the declared return type of a
   configured method is resolved against the receiver, the evaluated arguments and the block value.  Definitions only.
   Not modelled: OWNER (the owner of a T is not part of the projection) and return types written as a namespace path. *)
From RT Require Export Model.TyOps.

Definition block_value (b : ty) : ty := match t_vt b with Some v => v | None => zero_ty end.
Definition array_of (vs : list ty) : ty := fold_left AppendArrayVariant vs MakeAnyArray.

Fixpoint exec_type (n : nat) (recv : ty) (args : list ty) (blk : ty) (ret : ty) {struct n} : ty :=
  match n with
  | O => ret
  | S n' =>
      if String.eqb (t_meth ret) "new" then set_dargs ret []
      else
        match t_tag ret with
        | BLOCK => block_value ret
        | UNION => MakeUnifiedT (map (exec_type n' recv args blk) (t_vars ret))
        | SELF => recv
        | SELF_ARRAY => array_of (t_vars recv)
        | ARGUMENT => match args with [] => MakeNil | [a] => a | _ => array_of args end
        | ARRAY => array_of (map (exec_type n' recv args blk) (t_vars ret))
        | UNIFY => UnifyVariants recv
        | OPTIONAL_UNIFY => MakeUnifiedT (t_vars (AppendVariant recv MakeNil))
        | BLOCK_RESULT_ARRAY => AppendArrayVariant MakeAnyArray (block_value blk)
        | KEYVALUE_ARRAY => array_of (map get_key_value (t_vars recv))
        | _ => ret
        end
  end.
Definition ExecType (recv : ty) (args : list ty) (blk ret : ty) : ty := exec_type (S (ty_size ret)) recv args blk ret.
