(* M4 (continued) — which writes of a method call reach an object of the builtin method table.
   T values are heap cells; the method table maps keys to cells allocated by the loader.  Two paths are modelled
   (repaired code, with the pinned code as variants):
   - checkAndPropagateArgsForUnionWithReturnT (eval/method_evaluator/type_process.go): the return type of a call on
     a union receiver is accumulated over the method entries of the variants;
   - the destructive binding of evaluateNoUnionInstanceMethod followed by assignments (eval/bind.go
     handleScalarAsigntment overwrites the cell a variable is bound to: `*leftT = rightT`).
   Definitions only. *)
From RT Require Export Model.TyOps.

Definition ref := nat.
Record heap := { cells : list (ref * ty); next : ref }.
Fixpoint cell_get (l : list (ref * ty)) (r : ref) : option ty :=
  match l with [] => None | (k, v) :: t => if Nat.eqb k r then Some v else cell_get t r end.
Definition hget (h : heap) (r : ref) : ty := match cell_get (cells h) r with Some v => v | None => nil_ptr end.
Definition hset (h : heap) (r : ref) (v : ty) : heap := {| cells := (r, v) :: cells h; next := next h |}.
Definition alloc (h : heap) (v : ty) : heap * ref := ({| cells := (next h, v) :: cells h; next := S (next h) |}, next h).

Record heap_variant := { copy_first : bool; copy_union : bool; copy_bind : bool }.
Definition fixed_heap := {| copy_first := true; copy_union := true; copy_bind := true |}.
Definition pinned_heap := {| copy_first := false; copy_union := false; copy_bind := false |}.

Section Union.
  Variable V : heap_variant.
  Variable append : ty -> ty -> ty.           (* AppendVariant *)
  Variable matches : ty -> ty -> bool.        (* IsMatchType *)

  (* one iteration of the loop over the variants' method entries; acc = the returnT pointer *)
  Definition union_step (st : heap * option ref) (mt : ref) : heap * option ref :=
    let '(h, acc) := st in
    match acc with
    | None => if copy_first V then let '(h', r) := alloc h (hget h mt) in (h', Some r) else (h, Some mt)
    | Some r =>
        let rt := hget h r in
        let m := hget h mt in
        if is_union_type rt then (hset h r (append rt m), Some r)
        else if is_union_type m then
          if copy_union V then
            let '(h1, u) := alloc h m in
            let h2 := hset h1 u (append m rt) in
            let '(h3, r') := alloc h2 (MakeUnion (t_vars (hget h2 u))) in (h3, Some r')
          else
            let h2 := hset h mt (append m rt) in
            let '(h3, r') := alloc h2 (MakeUnion (t_vars (hget h2 mt))) in (h3, Some r')
        else if negb (matches rt m) then let '(h', r') := alloc h (MakeUnion [rt; m]) in (h', Some r')
        else (h, Some r)
    end.
  Definition union_accumulate (h : heap) (mts : list ref) : heap * option ref := fold_left union_step mts (h, None).
End Union.

(* ---- destructive methods and assignments ---- *)
Inductive stmt :=
| SAssign (x : string) (v : ty)                          (* x = <value>: overwrites the cell x is bound to *)
| SDestructive (x : string) (mt : ref) (copied : bool).  (* x.m! for a destructive configured method whose entry is mt;
                                                             copied: the entry's frame is "Builtin" (DeepCopy before use) *)
Definition env := list (string * ref).
Fixpoint env_get (e : env) (x : string) : option ref :=
  match e with [] => None | (k, r) :: t => if String.eqb k x then Some r else env_get t x end.

Definition run_stmt (V : heap_variant) (st : heap * env) (s : stmt) : heap * env :=
  let '(h, e) := st in
  match s with
  | SAssign x v =>
      match env_get e x with
      | Some r => (hset h r v, e)
      | None => let '(h', r) := alloc h v in (h', (x, r) :: e)
      end
  | SDestructive x mt copied =>
      let '(h1, res) := if copied then alloc h (hget h mt) else (h, mt) in
      if copy_bind V then let '(h2, r) := alloc h1 (hget h1 res) in (h2, (x, r) :: e)
      else (h1, (x, res) :: e)
  end.
Definition run_stmts (V : heap_variant) (h : heap) (ss : list stmt) : heap * env := fold_left (run_stmt V) ss (h, []).
