(* M1 (continued) — the token layer of the parser: getToken / Read / Unget with Row, ErrorRow and
   BeforeString accounting, and the classification of identifier tokens (parser/read.go,
   base/t_predicate.go).  Definitions only. *)
From RT Require Export Model.Lexer.
Open Scope N_scope.

Inductive tkind :=
| KInt (z : Z) | KFloat | KString (s : list N) | KNil | KPunct (c : N)
| KBool | KClass (s : list N) | KConst (s : list N) | KSymbol (s : list N) | KIdent (s : list N).

Inductive read_result := RTok (k : tkind) (before_space : bool) | REos | RError.

Record parser := Ps {
  lx : lexer; ptoken : Z; pungot : bool; prow : Z; perror_row : Z; preplayed : bool;
  pline_head : bool; phas_token : bool
}.

Definition ps_new (s : list N) : parser := Ps (lx_new s) 0%Z false 1%Z 0%Z false false false.

(* UTF-8 facts about a rune string, as Go's string(bytes) indexing sees it *)
Definition utf8_len (c : N) : N := if c <? 128 then 1 else if c <? 2048 then 2 else if c <? 65536 then 3 else 4.
Definition utf8_first_byte (c : N) : N :=
  if c <? 128 then c else if c <? 2048 then 192 + c / 64 else if c <? 65536 then 224 + c / 4096 else 240 + c / 262144.
Definition byte_len (s : list N) : N := fold_right (fun c a => utf8_len c + a) 0 s.

Definition s_true : list N := [116; 114; 117; 101].
Definition s_false : list N := [102; 97; 108; 115; 101].

Section Parser.
  Variable is_uspace is_udigit is_uupper is_ulower : N -> bool.
  Variable V : lex_variant.
  Variable builtin_classes : list (list N).     (* base.BuiltinClasses, as rune strings *)

  Definition in_builtin (s : list N) : bool := existsb (list_N_eqb s) builtin_classes.

  Definition first_byte_upper (s : list N) : bool :=
    match s with c :: _ => is_uupper (utf8_first_byte c) | [] => false end.

  (* T.IsClassIdentifier / IsConstIdentifier / IsSymbolIdentifier on an identifier name *)
  Definition is_class_name (s : list N) : bool :=
    in_builtin s || (first_byte_upper s && existsb is_ulower s).
  Definition is_const_name (s : list N) : bool :=
    (2 <=? byte_len s) && negb (in_builtin s) && first_byte_upper s &&
    negb (existsb (fun c => (c =? ch_colon) || is_ulower c) s).
  Definition is_symbol_name (s : list N) : bool :=
    (1 <? byte_len s) && match s with c :: _ => c =? ch_colon | [] => false end.

  Definition classify (s : list N) : tkind :=
    if list_N_eqb s s_true || list_N_eqb s s_false then KBool
    else if is_class_name s then KClass s
    else if is_const_name s then KConst s
    else if is_symbol_name s then KSymbol s
    else KIdent s.

  (* the rune set of parser.Read's punctuation case *)
  Definition read_puncts : list N :=
    [ch_semi; ch_caret; ch_plus; ch_minus; ch_slash; ch_star; ch_gt; ch_lt; ch_lp; ch_rp; ch_comma; ch_nl;
     ch_lc; ch_rc; ch_lb; ch_rb; ch_bang; ch_bar; ch_eq; ch_dot].

  Definition accepted_punct (c : N) : bool :=
    existsb (N.eqb c) read_puncts || (fix_backtick V && (c =? ch_btick)).

  (* getToken *)
  Definition get_token (fuel : nat) (p : parser) : option parser :=
    if pungot p then
      let l := lx p in
      Some (Ps (Lx (tok l) (val l) (is_space_prev l) (is_space_prev l) (rd l) (doc_comment l) (llm_comment l))
               (ptoken p) false (prow p) (perror_row p) true (pline_head p) (phas_token p))
    else
      let lh := (ptoken p =? Z.of_N ch_nl)%Z || negb (phas_token p) in
      match advance is_uspace is_udigit V fuel (lx p) with
      | None => None
      | Some (true, l') =>
          let t := tok l' in
          if (t =? Z.of_N ch_nl)%Z
          then Some (Ps l' t false (prow p + 1)%Z (perror_row p) false lh true)
          else Some (Ps l' t false (prow p) (prow p) false lh true)
      | Some (false, l') => Some (Ps l' T_EOS false (prow p) (perror_row p) false lh true)
      end.

  Definition count_nl (s : list N) : Z := Z.of_nat (List.length (filter (N.eqb ch_nl) s)).

  Definition finish (p : parser) : parser :=   (* IsSpacePrev := IsSpace; IsSpace := false *)
    let l := lx p in
    Ps (Lx (tok l) (val l) false (is_space l) (rd l) (doc_comment l) (llm_comment l))
       (ptoken p) (pungot p) (prow p) (perror_row p) (preplayed p) (pline_head p) (phas_token p).

  (* Read *)
  Definition parser_read (fuel : nat) (p0 : parser) : option (read_result * parser) :=
    match get_token fuel p0 with
    | None => None
    | Some p =>
        let t := ptoken p in
        let sp := is_space (lx p) || ((t =? Z.of_N ch_lb)%Z && pline_head p) in
        if (t =? T_INT)%Z then
          match val (lx p) with
          | VIntLit z => Some (RTok (KInt z) sp, finish p)
          | _ => Some (RError, p)      (* Go: type assertion panic; unreachable, see Proofs *)
          end
        else if (t =? T_FLOAT)%Z then Some (RTok KFloat sp, finish p)
        else if (t =? T_STRING)%Z then
          match val (lx p) with
          | VStrLit s =>
              let row' := if preplayed p then prow p else (prow p + count_nl s)%Z in
              Some (RTok (KString s) sp, finish (Ps (lx p) t (pungot p) row' (perror_row p) (preplayed p) (pline_head p) (phas_token p)))
          | _ => Some (RError, p)
          end
        else if (t =? T_NIL)%Z then Some (RTok KNil sp, finish p)
        else if (t =? T_UNKNOWN)%Z then
          match val (lx p) with
          | VId s => Some (RTok (classify s) sp, finish p)
          | _ => Some (RError, p)
          end
        else if (t =? T_EOS)%Z then Some (REos, p)
        else if (0 <? t)%Z && accepted_punct (Z.to_N t) then Some (RTok (KPunct (Z.to_N t)) sp, finish p)
        else Some (RError, p)
    end.

  Definition unget (p : parser) : parser :=
    Ps (lx p) (ptoken p) true (prow p) (perror_row p) (preplayed p) (pline_head p) (phas_token p).

  (* the whole token stream as the evaluation loop sees it: (result, Row, ErrorRow) per Read, up to and
     including the first REos / RError *)
  Fixpoint read_all (n : nat) (fuel : nat) (p : parser) : option (list (read_result * Z * Z)) :=
    match n with
    | O => Some []
    | S n' =>
        match parser_read fuel p with
        | None => None
        | Some (r, p') =>
            match r with
            | RTok _ _ =>
                match read_all n' fuel p' with
                | Some l => Some ((r, prow p', perror_row p') :: l)
                | None => None
                end
            | _ => Some [(r, prow p', perror_row p')]
            end
        end
    end.

End Parser.

(* executable equality on observations (for the correspondence) *)
Definition tkind_eqb (a b : tkind) : bool :=
  match a, b with
  | KInt x, KInt y => Z.eqb x y
  | KFloat, KFloat | KNil, KNil | KBool, KBool => true
  | KString x, KString y | KClass x, KClass y | KConst x, KConst y
  | KSymbol x, KSymbol y | KIdent x, KIdent y => list_N_eqb x y
  | KPunct x, KPunct y => N.eqb x y
  | _, _ => false
  end.

(* base.MakeIdentifier(string(p.token)) and an identifier token of the same name are the same T *)
Definition norm_kind (k : tkind) : tkind := match k with KPunct c => KIdent [c] | _ => k end.

Definition result_eqb (a b : read_result) : bool :=
  match a, b with
  | RTok k1 s1, RTok k2 s2 => tkind_eqb (norm_kind k1) (norm_kind k2) && Bool.eqb s1 s2
  | REos, REos | RError, RError => true
  | _, _ => false
  end.

Fixpoint obs_eqb (a b : list (read_result * Z * Z)) : bool :=
  match a, b with
  | [], [] => true
  | (r1, x1, y1) :: t1, (r2, x2, y2) :: t2 => result_eqb r1 r2 && Z.eqb x1 x2 && Z.eqb y1 y2 && obs_eqb t1 t2
  | _, _ => false
  end.
