(* M5 — the ancestor walk of method lookup (base/t_frame.go getParentMethodTVisited, repaired code): superclass
   edges are followed; an included module answers instance lookups and an extended module class lookups, with
   its instance methods, and so do the modules it includes.  The method table is abstract.  Definitions only. *)
From RT Require Export Model.Suggest.

Section Lookup.
  Variable has : node -> bool -> bool.      (* does (frame, class) define the method — as class method (true) / instance method *)
  Variable builtin : list string.

  Fixpoint first_found {A : Type} (step : A -> list node -> option (option node * list node)) (ps : list A) (uv : list node)
    : option (option node * list node) :=
    match ps with
    | [] => Some (None, uv)
    | p :: r => match step p uv with
                | None => None
                | Some (Some x, uv') => Some (Some x, uv')
                | Some (None, uv') => first_found step r uv'
                end
    end.

  (* what the walk does with one parent edge; rec is the walk itself one level down *)
  Definition lstep (rec : bool -> list node -> node -> option (option node * list node)) (static : bool)
             (p : pnode) (uv1 : list node) : option (option node * list node) :=
    if pn_extend p then
      let n' := norm builtin (pn_node p) in
      if has n' false && static then Some (Some n', uv1)
      else if static then rec false uv1 n' else Some (None, uv1)
    else if pn_include p then
      let n' := norm builtin (pn_node p) in
      if has n' false && negb static then Some (Some n', uv1)
      else if negb static then rec false uv1 n' else Some (None, uv1)
    else if has (pn_node p) static then Some (Some (pn_node p), uv1)
    else rec static uv1 (pn_node p).

  (* None = out of fuel; Some (Some x, _) = found in class / module x *)
  Fixpoint plookup (fuel : nat) (m : inh_map) (static : bool) (uv : list node) (n : node) : option (option node * list node) :=
    match fuel with
    | O => None
    | S f =>
        if negb (mem_fc n uv) then Some (None, uv)
        else first_found (lstep (plookup f m) static) (parents_of m n) (remove_fc n uv)
    end.

  (* where Ruby looks: up the superclass chain, and in the modules mixed in along it *)
  Inductive answers (m : inh_map) : bool -> node -> node -> Prop :=
  | a_super static n p : In p (parents_of m n) -> pn_extend p = false -> pn_include p = false ->
      has (pn_node p) static = true -> answers m static n (pn_node p)
  | a_super_up static n p x : In p (parents_of m n) -> pn_extend p = false -> pn_include p = false ->
      answers m static (pn_node p) x -> answers m static n x
  | a_include n p : In p (parents_of m n) -> pn_extend p = false -> pn_include p = true ->
      has (norm builtin (pn_node p)) false = true -> answers m false n (norm builtin (pn_node p))
  | a_include_up n p x : In p (parents_of m n) -> pn_extend p = false -> pn_include p = true ->
      answers m false (norm builtin (pn_node p)) x -> answers m false n x
  | a_extend n p : In p (parents_of m n) -> pn_extend p = true ->
      has (norm builtin (pn_node p)) false = true -> answers m true n (norm builtin (pn_node p))
  | a_extend_up n p x : In p (parents_of m n) -> pn_extend p = true ->
      answers m false (norm builtin (pn_node p)) x -> answers m true n x.
End Lookup.
