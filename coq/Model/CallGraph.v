(* M6 (continued) — the call graph of --llm-nav (eval/method_evaluator/core.go NewMethodEvaluator's recorder, repaired
   code; cmd/out.go printLlmNavDetail): every call site evaluated in the check round, outside a condition scan,
   appends one call point under the key of the method it reaches and one callee point under the key of the
   method it is written in.  Definitions only. *)
From RT Require Export Model.Strs.

Definition mkey := (string * string * string)%type.          (* frame, class, method *)
Definition mkey_eqb (a b : mkey) : bool :=
  String.eqb (fst (fst a)) (fst (fst b)) && String.eqb (snd (fst a)) (snd (fst b)) && String.eqb (snd a) (snd b).

(* one evaluated call site *)
Record site := {
  s_row : Z;
  s_callee : mkey;          (* the method the call reaches (callPointOwner) *)
  s_caller : mkey;          (* the method (class, frame) the call is written in; ("","","") at top level *)
  s_check_round : bool;
  s_condition_scan : bool   (* met by the narrowing scan of an if/unless condition, evaluated again afterwards *)
}.

Record tables := { call_points : list (mkey * (Z * mkey)); callee_points : list (mkey * (Z * mkey)) }.
Definition record (t : tables) (s : site) : tables :=
  if s_check_round s && negb (s_condition_scan s) then
    {| call_points := call_points t ++ [(s_callee s, (s_row s, s_caller s))];
       callee_points := callee_points t ++ [(s_caller s, (s_row s, s_callee s))] |}
  else t.
Definition record_all (ss : list site) : tables := fold_left record ss {| call_points := []; callee_points := [] |}.

(* printLlmNavDetail: the caller entries of a method, and the total *)
Definition callers_of (t : tables) (k : mkey) : list (Z * mkey) := map snd (filter (fun e => mkey_eqb (fst e) k) (call_points t)).
Definition callees_of (t : tables) (k : mkey) : list (Z * mkey) := map snd (filter (fun e => mkey_eqb (fst e) k) (callee_points t)).
Definition total (l : list (Z * mkey)) : nat := List.length l.

(* the call sites as the source has them: one per evaluation in the check round that is not the condition scan *)
Definition real_sites (ss : list site) : list site := filter (fun s => s_check_round s && negb (s_condition_scan s)) ss.
