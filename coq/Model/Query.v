(* M6 (continued) — what the editor query modes print (cmd/out.go PrintSuggestionsForLsp, PrintHover,
   PrintAllDefinitionsForLsp, followed by the diagnostics of main.go).  Definitions only. *)
From RT Require Export Model.Suggest Model.Driver.
From RT Require Import Proofs.SortP.

Definition sep : string := ":::".
(* oneLine is the replacer of parser.Fatal: escape_msg *)
Definition suggestion_record (contents detail doc : string) : string :=
  escape_msg ("%" +++ contents +++ sep +++ detail +++ sep +++ doc).
Definition print_detail (s : sig) : string :=
  if String.eqb (s_class s) "" then s_detail s else s_class s +++ "." +++ s_detail s.
Definition sig_suggestion (s : sig) : string := suggestion_record (s_method s) (print_detail s) (s_doc s).
Definition signature_record (s : sig) (row_text : string) : string :=
  escape_msg ("%" +++ s_frame s +++ sep +++ s_class s +++ sep +++ s_method s +++ sep +++ s_file s +++ sep +++ row_text).
Definition inheritance_record (child : node) (parent : pnode) : string :=
  escape_msg ("$" +++ fst child +++ sep +++ snd child +++ sep +++ pn_frame parent +++ sep +++ pn_class parent).
Definition target_record (frame cls : string) : string := escape_msg ("@" +++ frame +++ sep +++ cls).
Definition class_record (name : string) : string := escape_msg ("%" +++ name +++ sep +++ name).

(* printAllClasses: the set of class names, sorted *)
Definition class_name_of (s : sig) : option string :=
  if String.eqb (s_class s) "" || String.eqb (s_class s) "Kernel" then None
  else if String.eqb (s_frame s) "" || String.eqb (s_frame s) "Builtin" then Some (s_class s)
  else Some (s_frame s +++ "::" +++ s_class s).
Fixpoint dedup (l : list string) : list string :=
  match l with [] => [] | x :: r => if existsb (String.eqb x) r then dedup r else x :: dedup r end.
Fixpoint filter_some {A} (l : list (option A)) : list A :=
  match l with [] => [] | Some x :: r => x :: filter_some r | None :: r => filter_some r end.
Definition all_classes (sigs : list sig) : list string :=
  sort str_leb (dedup (filter_some (map class_name_of sigs))).

Fixpoint collect {A B} (f : A -> option (list B)) (l : list A) : option (list B) :=
  match l with
  | [] => Some []
  | x :: r => match f x with None => None
                        | Some ys => match collect f r with None => None | Some zs => Some (ys ++ zs) end end
  end.

(* PrintSuggestionsForLsp.  [variants] are the members of a union target.  None = panic. *)
Definition print_suggestions (guarded scoped : bool) (m : inh_map) (bl : list string)
           (t : target) (is_union is_identifier : bool) (variants : list target) (sigs : list sig)
  : option (list string) :=
  let sorted := sorted_by_method sigs in
  if is_union then
    collect (fun v => collect (fun s => match is_suggest guarded scoped m bl v s with
                                        | None => None
                                        | Some true => Some [sig_suggestion s]
                                        | Some false => Some []
                                        end) sorted) variants
  else
    match collect (fun s => if is_suggest_kernel_or_object t (s_class s) then Some [sig_suggestion s]
                            else match is_suggest guarded scoped m bl t s with
                                 | None => None
                                 | Some true => Some [sig_suggestion s]
                                 | Some false => Some []
                                 end) sorted with
    | None => None
    | Some [] => if is_identifier && negb (String.eqb (tg_str t) "") && first_upper (tg_str t)
                 then Some (map class_record (all_classes sigs)) else Some []
    | Some ls => Some ls
    end.

(* PrintHover: the signatures of the method resolved on the row *)
Definition print_hover (glob_dc glob_meth : string) (sigs : list sig) : list string :=
  map sig_suggestion (filter (fun s => String.eqb glob_dc (s_class s) && String.eqb glob_meth (s_method s))
                             (sorted_by_method sigs)).

(* PrintAllDefinitionsForLsp: map iteration orders are arbitrary: [sigs_in_map_order], [edges_in_map_order]
   are any enumeration of the maps.  row_text is strconv.Itoa(sig.Row). *)
Definition print_definitions (t : target) (sigs_in_map_order : list (sig * string))
           (edges_in_map_order : list (node * list pnode)) : list string :=
  target_record (tg_df t) (tg_dc t)
  :: map (fun sr => signature_record (fst sr) (snd sr))
         (filter (fun sr => Bool.eqb (tg_static t) (s_static (fst sr))) sigs_in_map_order)
  ++ flat_map (fun kv => map (inheritance_record (fst kv)) (snd kv)) edges_in_map_order.

Inductive qline := QRec (text : string) | QDiag (l : line).

Inductive qmode := QSuggest | QHover | QDefine.

(* what a query mode prints: its records, then the diagnostics of the run.  None = the process panicked. *)
Definition query_output (guarded scoped : bool) (mode : qmode) (m : inh_map) (bl : list string)
           (t : target) (is_union is_identifier : bool) (variants : list target)
           (glob_dc glob_meth : string) (sigs : list (sig * string)) (diags : list line) : option (list qline) :=
  let recs := match mode with
              | QSuggest => if Nat.ltb 0 (List.length sigs)
                            then print_suggestions guarded scoped m bl t is_union is_identifier variants (map fst sigs)
                            else Some []
              | QHover => Some (print_hover glob_dc glob_meth (map fst sigs))
              | QDefine => if Nat.ltb 0 (List.length sigs) then Some (print_definitions t sigs m) else Some []
              end in
  match recs with None => None | Some rs => Some (map QRec rs ++ map QDiag diags) end.

(* a well-formed record: one line, starting with the prefix of its kind *)
Definition record_prefix (s : string) : bool :=
  match s with String c _ => existsb (Ascii.eqb c) ["%"; "@"; "$"]%char | EmptyString => false end.
Definition wf_record (s : string) : bool := record_prefix s && no_eol s.

(* a whole run in a query mode: the driver (without -i), then the mode's records and the diagnostics.
   None = the process died with a Go panic. *)
Definition run_query (guarded scoped : bool) (mode : qmode) (m : inh_map) (bl : list string)
           (t : target) (is_union is_identifier : bool) (variants : list target)
           (glob_dc glob_meth : string) (sigs : list (sig * string))
           (preloads : list (string * source)) (target_file : string * source) (articles : list article)
  : option (list qline * Z) :=
  let '(lines, status, _) := run_driver {| fl_define_info := false |} preloads target_file articles in
  match query_output guarded scoped mode m bl t is_union is_identifier variants glob_dc glob_meth sigs lines with
  | None => None
  | Some ls => Some (ls, status)
  end.
