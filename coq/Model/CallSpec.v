(* The declarative reading of "a call certainly fails / certainly fits" under the declared signatures
   (the spec side of C07 / C08).  Independent of the walk of checkAndPropagateArgs. *)
From RT Require Export Model.Args.

(* a value's class is its tag plus, for objects, the class name; a declaration admits a class when one of
   its (flat) variants is untyped or has that class *)
Definition kind := (tag * string)%type.
Definition kind_of (t : ty) : kind := (t_tag t, if tag_is OBJECT t then t_cls t else "").
Definition kind_eqb (a b : kind) : bool := tag_eqb (fst a) (fst b) && String.eqb (snd a) (snd b).
Definition possible (a : ty) : list kind := map kind_of (variants_of a).
Definition decl_admits (d : ty) (k : kind) : bool :=
  existsb (fun v => is_any_type v || kind_eqb (kind_of v) k) (variants_of d).
Definition flat (t : ty) : bool := forallb (fun v => negb (is_union_type v)) (variants_of t).
(* an argument whose type is fully known: no untyped / unknown / block anywhere *)
Definition known (a : ty) : bool :=
  negb (is_block_type a) &&
  forallb (fun v => negb (is_any_type v || is_unknown_type v)) (variants_of a).


Definition arg_all_rejected (d a : ty) : bool :=
  flat d && flat a && known a && negb (match variants_of a with [] => true | _ => false end) &&
  forallb (fun k => negb (decl_admits d k)) (possible a).
Definition arg_all_admitted (d a : ty) : bool :=
  flat d && negb (match variants_of a with [] => true | _ => false end) && forallb (decl_admits d) (possible a).

(* the count rule of a positional signature: every parameter beyond the arguments has a default *)
Definition arity_ok (ptys : list ty) (n : nat) : bool :=
  Nat.leb n (List.length ptys) && forallb has_default (skipn n ptys).

Fixpoint zip_exists (f : ty -> ty -> bool) (ps args : list ty) : bool :=
  match ps, args with p :: ps', a :: as' => f p a || zip_exists f ps' as' | _, _ => false end.
Fixpoint zip_forall (f : ty -> ty -> bool) (ps args : list ty) : bool :=
  match ps, args with p :: ps', a :: as' => f p a && zip_forall f ps' as' | _, _ => true end.

Definition certainly_fails (ptys args : list ty) : bool :=
  negb (arity_ok ptys (List.length args)) || zip_exists arg_all_rejected ptys args.
Definition certainly_fits (ptys args : list ty) : bool :=
  arity_ok ptys (List.length args) && zip_forall arg_all_admitted ptys args.
