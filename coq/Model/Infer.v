(* Ref (fragment) — the types of hash literals and hash lookups with a literal key (base/t_util.go HashReference,
   StrictHashReference; base/t_accessors.go AppendHashVariant), and the union of scalar types (AppendVariant on
   scalars).  Definitions only. *)
From RT Require Export Model.TyOps.

(* T.HashReference: the value stored under the key, whatever it is; without the key, the union of all values *)
Definition hash_reference (h : ty) (k : string) : ty :=
  match find (fun v => String.eqb (t_key v) k) (t_vars h) with
  | Some kv => get_key_value kv
  | None => UnifyVariants h
  end.
(* the pinned mutant-style reading (C09A): a stored nil is taken for a missing key *)
Definition hash_reference_nil_as_missing (h : ty) (k : string) : ty :=
  let s := strict_hash_ref (t_vars h) k in if tag_is NIL s then UnifyVariants h else s.

(* a hash literal / a hash grown by h[k] = v: AppendHashVariant per pair, in order *)
Definition hash_of (pairs : list (string * ty)) : ty :=
  fold_left (fun h kv => append_hash_variant h (MakeKeyValue (fst kv) (snd kv))) pairs MakeAnyHash.

(* the latest value written under a key *)
Fixpoint last_value (pairs : list (string * ty)) (k : string) : option ty :=
  match pairs with
  | [] => None
  | (k', v) :: r => match last_value r k with Some w => Some w | None => if String.eqb k' k then Some v else None end
  end.

(* scalar types: no variants, and not a hash / array / union *)
Definition scalar (v : ty) : bool :=
  negb (tag_is UNION v || tag_is HASH v || tag_is ARRAY v) && match t_vars v with [] => true | _ => false end.
Definition same_kind (a b : ty) : bool := tag_eqb (t_tag a) (t_tag b) && String.eqb (t_cls a) (t_cls b).
(* first occurrences *)
Fixpoint distinct_kinds (seen l : list ty) : list ty :=
  match l with
  | [] => []
  | x :: r => if existsb (fun s => same_kind s x) seen then distinct_kinds seen r else x :: distinct_kinds (seen ++ [x]) r
  end.
