(* M1 — reader, lexer and the token layer of the parser
   (lexer/reader/reader.go, lexer/lexer.go, lexer/predicate.go, parser/read.go).
   Definitions only.  Runes are N (code points); source text is list N.
   Loops are recursion on explicit fuel; None = out of fuel. *)
From Coq Require Export List Bool Arith NArith ZArith Lia.
Export ListNotations.
Open Scope N_scope.

(* one boolean per repaired defect: false = the pinned code *)
Record lex_variant := {
  fix_eof : bool;       (* the four unbounded loops stop at end of input *)
  fix_nul : bool;       (* a NUL rune that is not end of input is skipped like white space *)
  fix_backtick : bool   (* parser.Read accepts the backtick token *)
}.
Definition pinned_lex := {| fix_eof := false; fix_nul := false; fix_backtick := false |}.
Definition fixed_lex := {| fix_eof := true; fix_nul := true; fix_backtick := true |}.

(* ---------------------------------------------------------------- reader.go *)
Record reader := Rd { rest : list N; ungot : bool; cur : N; hist : list N }.

(* reader.New: a last line without terminator gets one (repaired code) *)
Definition normalize_eof (s : list N) : list N :=
  match s with
  | [] => []
  | _ => if last s 0 =? 10 then s else s ++ [10]
  end.
Definition rd_new (s : list N) : reader := Rd (normalize_eof s) false 0 [].

Definition rd_read (r : reader) : N * reader :=
  if ungot r then (cur r, Rd (rest r) false (cur r) (hist r))
  else match hist r with
       | h :: hs => (h, Rd (rest r) false h hs)
       | [] => match rest r with
               | [] => (0, Rd [] false 0 [])
               | c :: cs => (c, Rd cs false c [])
               end
       end.

Definition rd_unread (r : reader) : reader := Rd (rest r) true (cur r) (hist r).
Definition rd_push_hist (r : reader) (c : N) : reader := Rd (rest r) (ungot r) (cur r) (hist r ++ [c]).

(* IsEOF of the repaired reader: nothing left to deliver *)
Definition rd_eof (r : reader) : bool :=
  match rest r, hist r with
  | [], [] => negb (ungot r)
  | _, _ => false
  end.

(* ---------------------------------------------------------------- characters *)
Definition ch_nl := 10.  Definition ch_sp := 32.  Definition ch_bang := 33.  Definition ch_dq := 34.
Definition ch_hash := 35. Definition ch_pct := 37. Definition ch_amp := 38.   Definition ch_sq := 39.
Definition ch_lp := 40.   Definition ch_rp := 41.  Definition ch_star := 42.  Definition ch_plus := 43.
Definition ch_comma := 44. Definition ch_minus := 45. Definition ch_dot := 46. Definition ch_slash := 47.
Definition ch_colon := 58. Definition ch_semi := 59. Definition ch_lt := 60.   Definition ch_eq := 61.
Definition ch_gt := 62.   Definition ch_lb := 91.  Definition ch_bslash := 92. Definition ch_rb := 93.
Definition ch_caret := 94. Definition ch_under := 95. Definition ch_btick := 96. Definition ch_lc := 123.
Definition ch_bar := 124. Definition ch_rc := 125.

(* token codes of base/type.go (as Z: EOS is -1) *)
Definition T_EOS := (-1)%Z.   Definition T_NIL := 0%Z.      Definition T_INT := 257%Z.
Definition T_UNKNOWN := 258%Z. Definition T_STRING := 259%Z. Definition T_FLOAT := 261%Z.

Inductive tokval :=
| VNone
| VId (s : list N)       (* lexer.Identifier *)
| VStrLit (s : list N)   (* string *)
| VIntLit (z : Z)        (* int64 *)
| VFloatLit.             (* float64, value not modelled *)

Record lexer := Lx {
  tok : Z; val : tokval; is_space : bool; is_space_prev : bool; rd : reader;
  doc_comment : option (list N);      (* raw text of the last comment containing "ti-doc:" *)
  llm_comment : option (list N)       (* raw text of the last comment containing "ti-for-llm:" *)
}.

Definition lx_new (s : list N) : lexer := Lx 0 VNone false false (rd_new s) None None.

Definition set_rd (l : lexer) (r : reader) : lexer :=
  Lx (tok l) (val l) (is_space l) (is_space_prev l) r (doc_comment l) (llm_comment l).
Definition set_space (l : lexer) (b : bool) : lexer :=
  Lx (tok l) (val l) b (is_space_prev l) (rd l) (doc_comment l) (llm_comment l).
Definition set_tok (l : lexer) (t : Z) (v : tokval) : lexer :=
  Lx t v (is_space l) (is_space_prev l) (rd l) (doc_comment l) (llm_comment l).
Definition set_tok_only (l : lexer) (t : Z) : lexer := set_tok l t (val l).

Fixpoint list_N_eqb (a b : list N) : bool :=
  match a, b with
  | [], [] => true
  | x :: xs, y :: ys => N.eqb x y && list_N_eqb xs ys
  | _, _ => false
  end.

Fixpoint is_prefix (p s : list N) : bool :=
  match p, s with
  | [], _ => true
  | x :: xs, y :: ys => N.eqb x y && is_prefix xs ys
  | _ :: _, [] => false
  end.

Fixpoint contains_sub (p s : list N) : bool :=
  is_prefix p s || match s with [] => false | _ :: r => contains_sub p r end.

Definition s_tidoc : list N := [116; 105; 45; 100; 111; 99; 58].                         (* "ti-doc:" *)
Definition s_tillm : list N := [116; 105; 45; 102; 111; 114; 45; 108; 108; 109; 58].    (* "ti-for-llm:" *)

Section Lexer.
  Variable is_uspace : N -> bool.   (* unicode.IsSpace *)
  Variable is_udigit : N -> bool.   (* unicode.IsDigit *)
  Variable V : lex_variant.

  (* lexer/predicate.go isIdentifierChar *)
  Definition is_ident_char (c : N) : bool :=
    negb (is_uspace c || (c =? ch_nl) || (c =? ch_lp) || (c =? ch_rp) || (c =? ch_comma) || (c =? ch_dot)
          || (c =? ch_lc) || (c =? ch_rc) || (c =? ch_eq) || (c =? ch_lb) || (c =? ch_rb) || (c =? ch_bar)
          || (c =? ch_amp) || (c =? ch_caret) || (c =? ch_semi) || (c =? 0)).

  (* "the rune just read is the end-of-input sentinel" — only consulted by the repaired code *)
  Definition hit_eof (c : N) (r : reader) : bool := fix_eof V && (c =? 0) && rd_eof r.

  (* lexToSpaceTokenEat: buffer (reversed), returns (buf, is_space', reader) *)
  Fixpoint to_space_eat (fuel : nat) (acc : list N) (sp : bool) (r : reader)
    : option (list N * bool * reader) :=
    match fuel with
    | O => None
    | S f =>
        let '(c, r1) := rd_read r in
        if is_uspace c then
          Some (rev acc, (if c =? ch_nl then sp else true), rd_unread r1)
        else if hit_eof c r1 then Some (rev acc, sp, rd_unread r1)
        else to_space_eat f (c :: acc) sp r1
    end.

  (* lexToNotIdentifierTokenEat *)
  Fixpoint to_nonident_eat (fuel : nat) (acc : list N) (sp : bool) (r : reader)
    : option (list N * bool * reader) :=
    match fuel with
    | O => None
    | S f =>
        let '(c, r1) := rd_read r in
        if negb (is_ident_char c) then
          Some (rev acc, (if c =? ch_sp then true else sp), rd_unread r1)
        else to_nonident_eat f (c :: acc) sp r1
    end.

  Definition is_hex (c : N) : bool :=
    ((48 <=? c) && (c <=? 57)) || ((97 <=? c) && (c <=? 102)) || ((65 <=? c) && (c <=? 70)).

  (* lexHexDigits (the buffer is discarded by the caller) *)
  Fixpoint hex_digits (fuel : nat) (r : reader) : option reader :=
    match fuel with
    | O => None
    | S f =>
        let '(c, r1) := rd_read r in
        if (c =? 120) || (c =? 111) || (c =? 98) then hex_digits f r1
        else if negb (is_hex c) then Some (rd_unread r1)
        else hex_digits f r1
    end.

  (* strconv.ParseInt(buf, 10, 64) succeeds iff buf is non-empty ASCII digits with value < 2^63 *)
  Fixpoint dec_value (acc : Z) (s : list N) : option Z :=
    match s with
    | [] => Some acc
    | c :: r => if (48 <=? c) && (c <=? 57) then dec_value (acc * 10 + Z.of_N (c - 48))%Z r else None
    end.

  Definition digit_token (buf : list N) : Z * tokval :=
    match buf with
    | [] => (T_FLOAT, VFloatLit)
    | _ => match dec_value 0%Z buf with
           | Some z => if (z <? 9223372036854775808)%Z then (T_INT, VIntLit z) else (T_FLOAT, VFloatLit)
           | None => (T_FLOAT, VFloatLit)
           end
    end.

  (* lexDigit *)
  Fixpoint lex_digit (fuel : nat) (acc : list N) (l : lexer) (r : reader) : option lexer :=
    match fuel with
    | O => None
    | S f =>
        let '(c, r1) := rd_read r in
        if (c =? 120) || (c =? 111) || (c =? 98) then
          match hex_digits f (rd_unread r1) with
          | Some r2 => Some (set_rd (set_tok l T_INT (VIntLit 0%Z)) r2)
          | None => None
          end
        else if c =? ch_under then lex_digit f acc l r1
        else if c =? ch_dot then
          let '(n, r2) := rd_read r1 in
          if negb (is_udigit n) then
            let '(t, v) := digit_token (rev acc) in
            Some (set_rd (set_tok l t v) (rd_push_hist (rd_push_hist r2 c) n))
          else lex_digit f (c :: acc) l r2
        else if negb (is_udigit c) then
          let '(t, v) := digit_token (rev acc) in
          Some (set_rd (set_tok l t v) (rd_unread r1))
        else lex_digit f (c :: acc) l r1
    end.

  Definition has_colon_quote (buf_rev : list N) : bool := contains_sub [ch_dq; ch_colon] buf_rev.

  (* lexIdentifier: buf is kept reversed; `:"` in the buffer reads `"` `:` in the reversed one *)
  Fixpoint lex_ident (fuel : nat) (first : N) (acc : list N) (r : reader) : option (list N * reader) :=
    match fuel with
    | O => None
    | S f =>
        let '(c, r1) := rd_read r in
        if (first =? ch_star) && (c =? ch_eq) then Some (rev (c :: acc), r1)
        else if negb (is_ident_char c) then
          if has_colon_quote acc && negb (c =? ch_nl) && negb (c =? ch_dq) && negb (hit_eof c r1)
          then lex_ident f first (c :: acc) r1
          else Some (rev acc, rd_unread r1)
        else lex_ident f first (c :: acc) r1
    end.

  (* lexString *)
  Fixpoint lex_string (fuel : nat) (start : N) (acc : list N) (r : reader) : option (list N * reader) :=
    match fuel with
    | O => None
    | S f =>
        let '(c, r1) := rd_read r in
        if c =? start then Some (rev acc, r1)
        else if hit_eof c r1 then Some (rev acc, r1)
        else if c =? ch_bslash then
          let '(c2, r2) := rd_read r1 in lex_string f start (c2 :: acc) r2
        else lex_string f start (c :: acc) r1
    end.

  (* skipSpace *)
  Fixpoint skip_space_loop (fuel : nat) (c : N) (l : lexer) (r : reader) : option lexer :=
    match fuel with
    | O => None
    | S f =>
        if negb (is_uspace c) || (c =? ch_nl) then Some (set_rd l (rd_unread r))
        else let '(c', r1) := rd_read r in skip_space_loop f c' (set_space l true) r1
    end.

  Definition skip_space (fuel : nat) (l : lexer) : option lexer :=
    let '(c, r1) := rd_read (rd l) in
    skip_space_loop fuel c (if is_uspace c then set_space l true else l) r1.

  (* skipLineComment *)
  Fixpoint skip_comment_loop (fuel : nat) (acc : list N) (r : reader) : option (list N * reader) :=
    match fuel with
    | O => None
    | S f =>
        let '(c, r1) := rd_read r in
        if c =? ch_nl then Some (rev acc, rd_unread r1)
        else if hit_eof c r1 then Some (rev acc, rd_unread r1)
        else skip_comment_loop f (c :: acc) r1
    end.

  Definition skip_line_comment (fuel : nat) (l : lexer) : option lexer :=
    match skip_comment_loop fuel [] (rd l) with
    | None => None
    | Some (text, r) =>
        let d := if contains_sub s_tidoc text then Some text else doc_comment l in
        let m := if contains_sub s_tillm text then Some text else llm_comment l in
        Some (Lx (tok l) (val l) (is_space l) (is_space_prev l) r d m)
    end.

  Definition single_tokens : list N :=
    [ch_nl; ch_lp; ch_rp; ch_btick; ch_comma; ch_lc; ch_rc; ch_lb; ch_rb; ch_caret; ch_semi].

  Definition id_tok (l : lexer) (s : list N) (r : reader) : lexer := set_rd (set_tok l T_UNKNOWN (VId s)) r.

  (* One pass through the body of Advance.  [Again l] stands for `return l.Advance()`. *)
  Inductive outcome := Tok (l : lexer) | Eos (l : lexer) | Again (l : lexer) | OutOfFuel.

  Definition advance_step (fuel : nat) (l0 : lexer) : outcome :=
      match skip_space fuel l0 with
      | None => OutOfFuel
      | Some l =>
        let '(c, r) := rd_read (rd l) in
        if (c =? ch_lt) || (c =? ch_gt) then
          match to_space_eat fuel [c] (is_space l) r with
          | Some (s, sp, r') => Tok (id_tok (set_space l sp) s r')
          | None => OutOfFuel
          end
        else if c =? ch_eq then
          let '(n, r1) := rd_read r in
          if n =? ch_gt then Tok (id_tok l [c; n] r1)
          else if negb (n =? ch_eq) then Tok (id_tok l [c] (rd_unread r1))
          else
            let '(n2, r2) := rd_read r1 in
            if negb (n2 =? ch_eq) then Tok (id_tok l [c; n] (rd_unread r2))
            else Tok (id_tok l [c; n; n2] r2)
        else if c =? ch_dot then
          let '(n, r1) := rd_read r in
          if n =? ch_dot then
            let '(n2, r2) := rd_read r1 in
            if n2 =? ch_dot then Tok (id_tok l [c; n; n2] r2)
            else Tok (id_tok l [c; n] (rd_unread r2))
          else Tok (set_rd (set_tok_only l (Z.of_N c)) (rd_unread r1))
        else if c =? ch_pct then
          let '(n, r1) := rd_read r in
          if (n =? ch_eq) || (n =? 87) || (n =? 119) || (n =? 105) || (n =? 81) || (n =? 113)
             || (n =? 114) || (n =? 115) || (n =? 108) || (n =? 120)
          then Tok (id_tok l [c; n] r1)
          else
            match to_space_eat fuel [c] (is_space l) (rd_unread r1) with
            | Some (s, sp, r') => Tok (id_tok (set_space l sp) s r')
            | None => OutOfFuel
            end
        else if (c =? ch_bang) || (c =? ch_plus) || (c =? ch_minus) || (c =? ch_slash) then
          let '(n, r1) := rd_read r in
          let '(buf, r2) :=
            if n =? ch_eq then ([c; n], r1)
            else if (c =? ch_minus) && (n =? ch_gt) then ([c; n], r1)
            else ([c], rd_unread r1) in
          if ((c =? ch_plus) || (c =? ch_minus)) && is_udigit n then
            match lex_digit fuel [] l r2 with
            | Some l' => Tok l'
            | None => OutOfFuel
            end
          else if (c =? ch_minus) && negb (is_uspace n) && negb (n =? ch_gt) && negb (n =? ch_eq) then
            Again (set_rd l (rd_unread r2))
          else Tok (id_tok l buf r2)
        else if c =? ch_amp then
          let '(n, r1) := rd_read r in
          if (n =? ch_dot) || (n =? ch_amp) then Tok (id_tok l [c; n] r1)
          else
            match to_nonident_eat fuel [c] (is_space l) (rd_unread r1) with
            | Some (s, sp, r') => Tok (id_tok (set_space l sp) s r')
            | None => OutOfFuel
            end
        else if c =? ch_bar then
          let '(n, r1) := rd_read r in
          let '(buf, r2) := if n =? ch_bar then ([c; n], r1) else ([c], rd_unread r1) in
          let '(n2, r3) := rd_read r2 in
          if n2 =? ch_eq then Tok (id_tok l (buf ++ [n2]) r3)
          else Tok (id_tok l buf (rd_unread r3))
        else if existsb (N.eqb c) single_tokens then
          Tok (set_rd (set_tok_only l (Z.of_N c)) r)
        else if (c =? ch_dq) || (c =? ch_sq) then
          match lex_string fuel c [] r with
          | Some (s, r') => Tok (set_rd (set_tok l T_STRING (VStrLit s)) r')
          | None => OutOfFuel
          end
        else if c =? ch_hash then
          let '(n, r1) := rd_read r in
          if n =? ch_lc then Tok (id_tok l [c; n] r1)
          else
            match skip_line_comment fuel (set_rd l (rd_unread r1)) with
            | Some l' => Again l'
            | None => OutOfFuel
            end
        else if is_udigit c then
          match lex_digit fuel [] l (rd_unread r) with
          | Some l' => Tok l'
          | None => OutOfFuel
          end
        else if is_ident_char c then
          match lex_ident fuel c [] (rd_unread r) with
          | Some (s, r') =>
              let t := if list_N_eqb s [110; 105; 108] then T_NIL else T_UNKNOWN in   (* reserved["nil"] *)
              Tok (set_rd (set_tok l t (VId s)) r')
          | None => OutOfFuel
          end
        else if fix_nul V && (c =? 0) && negb (rd_eof r) then Again (set_rd l r)
        else Eos (set_rd l r)
      end.

  (* Advance: Some (true, l') = a token was produced; Some (false, l') = end of stream *)
  Fixpoint advance (fuel : nat) (l0 : lexer) : option (bool * lexer) :=
    match fuel with
    | O => None
    | S f =>
        match advance_step fuel l0 with
        | Tok l => Some (true, l)
        | Eos l => Some (false, l)
        | Again l => advance f l
        | OutOfFuel => None
        end
    end.

End Lexer.
