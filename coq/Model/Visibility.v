(* M6 (continued) — the visibility sections of a class body (eval/class.go Evaluation and
   classIdentifierProcessing, eval/def.go getMethodNameAndSetIsStatic; repaired code) and the tags of -i.
   Definitions only. *)
From RT Require Export Model.Strs.

(* SPrivateDef / IPrivateDef: `private def name ... end`; IPrivateSym: `private :a, :b` (repaired code: neither opens a
   section) *)
Inductive sitem := SPrivate | SProtected | SPublic | SDef (name : string) | SPrivateDef (name : string).
Inductive item := IPrivate | IProtected | IPublic | IDef (name : string) | IDefSelf (name : string) | ISingleton (body : list sitem)
                | IPrivateDef (name : string) | IPrivateSym (names : list string).

Inductive vis := Public | Private | Protected.
Record tagged := { tg_name : string; tg_class_method : bool; tg_vis : vis }.

(* ---- the implementation: two flags on the context, deferred calls run when the function returns ---- *)
Record flags := { f_priv : bool; f_prot : bool }.
Definition start_private (f : flags) := {| f_priv := true; f_prot := false |}.
Definition start_protected (f : flags) := {| f_priv := false; f_prot := true |}.
Definition end_private (f : flags) := {| f_priv := false; f_prot := f_prot f |}.
Definition end_protected (f : flags) := {| f_priv := f_priv f; f_prot := false |}.
Definition tag_of (f : flags) : vis := if f_priv f then Private else if f_prot f then Protected else Public.

Inductive deferred := DEndPrivate | DEndProtected | DRestore (saved : flags).
Definition run_deferred (d : deferred) (f : flags) : flags :=
  match d with DEndPrivate => end_private f | DEndProtected => end_protected f | DRestore s => s end.
(* Go runs deferred calls last-in first-out: the stack is kept newest first *)
Definition run_defers (ds : list deferred) (f : flags) : flags := fold_left (fun f d => run_deferred d f) ds f.

(* the loop of classIdentifierProcessing: (emitted, flags, defer stack) *)
Fixpoint singleton_loop (body : list sitem) (f : flags) (ds : list deferred) : list tagged * flags * list deferred :=
  match body with
  | [] => ([], f, ds)
  | SPrivate :: r => singleton_loop r (start_private f) (DEndPrivate :: ds)
  | SProtected :: r => singleton_loop r (start_protected f) (DEndProtected :: ds)
  | SPublic :: r => singleton_loop r (end_protected (end_private f)) ds
  | SDef n :: r =>
      let '(out, f', ds') := singleton_loop r f ds in
      ({| tg_name := n; tg_class_method := true; tg_vis := tag_of f |} :: out, f', ds')
  | SPrivateDef n :: r =>
      (* the definition is evaluated with a copy of the context on which StartPrivate was called *)
      let '(out, f', ds') := singleton_loop r f ds in
      ({| tg_name := n; tg_class_method := true; tg_vis := tag_of (start_private f) |} :: out, f', ds')
  end.

(* classIdentifierProcessing (repaired): the outer flags are saved, the section starts public, and the restoring
   closure, deferred first, runs last *)
Definition singleton_section (body : list sitem) (f : flags) : list tagged * flags :=
  let saved := f in
  let f0 := end_protected (end_private f) in
  let '(out, f1, ds) := singleton_loop body f0 [DRestore saved] in
  (out, run_defers ds f1).

(* the class body loop *)
Fixpoint class_loop (items : list item) (f : flags) : list tagged :=
  match items with
  | [] => []
  | IPrivate :: r => class_loop r (start_private f)
  | IProtected :: r => class_loop r (start_protected f)
  | IPublic :: r => class_loop r (end_protected (end_private f))
  | IDef n :: r => {| tg_name := n; tg_class_method := false; tg_vis := tag_of f |} :: class_loop r f
  | IDefSelf n :: r =>
      (* def self.: the definition's own copy of the context leaves the section *)
      {| tg_name := n; tg_class_method := true; tg_vis := tag_of (end_protected (end_private f)) |} :: class_loop r f
  | ISingleton body :: r => let '(out, f') := singleton_section body f in out ++ class_loop r f'
  | IPrivateDef n :: r => {| tg_name := n; tg_class_method := false; tg_vis := tag_of (start_private f) |} :: class_loop r f
  | IPrivateSym _ :: r => class_loop r f
  end.
Definition class_tags (items : list item) : list tagged := class_loop items {| f_priv := false; f_prot := false |}.

(* ---- Ruby: a body has one default visibility; `class << self` is a body of its own; `def self.` ignores it ---- *)
Fixpoint ruby_singleton (body : list sitem) (v : vis) : list tagged :=
  match body with
  | [] => []
  | SPrivate :: r => ruby_singleton r Private
  | SProtected :: r => ruby_singleton r Protected
  | SPublic :: r => ruby_singleton r Public
  | SDef n :: r => {| tg_name := n; tg_class_method := true; tg_vis := v |} :: ruby_singleton r v
  | SPrivateDef n :: r => {| tg_name := n; tg_class_method := true; tg_vis := Private |} :: ruby_singleton r v
  end.
Fixpoint ruby_class (items : list item) (v : vis) : list tagged :=
  match items with
  | [] => []
  | IPrivate :: r => ruby_class r Private
  | IProtected :: r => ruby_class r Protected
  | IPublic :: r => ruby_class r Public
  | IDef n :: r => {| tg_name := n; tg_class_method := false; tg_vis := v |} :: ruby_class r v
  | IDefSelf n :: r => {| tg_name := n; tg_class_method := true; tg_vis := Public |} :: ruby_class r v
  | ISingleton body :: r => ruby_singleton body Public ++ ruby_class r v
  | IPrivateDef n :: r => {| tg_name := n; tg_class_method := false; tg_vis := Private |} :: ruby_class r v
  | IPrivateSym _ :: r => ruby_class r v
  end.
Definition ruby_tags (items : list item) : list tagged := ruby_class items Public.

(* the pinned code: no save/restore around the singleton section, def self. inherits the section *)
Definition pinned_singleton_section (body : list sitem) (f : flags) : list tagged * flags :=
  let '(out, f1, ds) := singleton_loop body f [] in (out, run_defers ds f1).
Fixpoint pinned_class_loop (items : list item) (f : flags) : list tagged :=
  match items with
  | [] => []
  | IPrivate :: r => pinned_class_loop r (start_private f)
  | IProtected :: r => pinned_class_loop r (start_protected f)
  | IPublic :: r => pinned_class_loop r (end_protected (end_private f))
  | IDef n :: r => {| tg_name := n; tg_class_method := false; tg_vis := tag_of f |} :: pinned_class_loop r f
  | IDefSelf n :: r => {| tg_name := n; tg_class_method := true; tg_vis := tag_of f |} :: pinned_class_loop r f
  | ISingleton body :: r => let '(out, f') := pinned_singleton_section body f in out ++ pinned_class_loop r f'
  | IPrivateDef n :: r => {| tg_name := n; tg_class_method := false; tg_vis := Private |} :: pinned_class_loop r (start_private f)
  | IPrivateSym _ :: r => pinned_class_loop r (start_private f)
  end.

(* the code before the `private` repair: the keyword opened a section whatever followed it *)
Fixpoint section_class_loop (items : list item) (f : flags) : list tagged :=
  match items with
  | [] => []
  | IPrivate :: r => section_class_loop r (start_private f)
  | IProtected :: r => section_class_loop r (start_protected f)
  | IPublic :: r => section_class_loop r (end_protected (end_private f))
  | IDef n :: r => {| tg_name := n; tg_class_method := false; tg_vis := tag_of f |} :: section_class_loop r f
  | IDefSelf n :: r =>
      {| tg_name := n; tg_class_method := true; tg_vis := tag_of (end_protected (end_private f)) |} :: section_class_loop r f
  | ISingleton body :: r => let '(out, f') := singleton_section body f in out ++ section_class_loop r f'
  | IPrivateDef n :: r => {| tg_name := n; tg_class_method := false; tg_vis := Private |} :: section_class_loop r (start_private f)
  | IPrivateSym _ :: r => section_class_loop r (start_private f)
  end.
