(* M8 (continued) — how the declared block parameters of a configured method are resolved against the receiver
   (eval/block.go: recursiveCalculateType, Do.appendParameterBeforeTypeCalculate, as setBlockParameters folds it over the
   declared list).  Definitions only.  Not modelled: ITEM on a hash receiver (it draws a fresh symbol id) and declared
   types written as a namespace path. *)
From RT Require Export Model.ExecType.

Fixpoint rec_calc (n : nat) (recv p : ty) {struct n} : ty :=
  match n with
  | O => p
  | S n' =>
      match t_tag p with
      | UNIFY => UnifyVariants recv
      | ARRAY => array_of (map (rec_calc n' recv) (t_vars p))
      | UNION => MakeUnifiedT (map (rec_calc n' recv) (t_vars p))
      | _ => p
      end
  end.

Fixpoint set_slot (l : list (option ty)) (i : nat) (f : option ty -> ty) : list (option ty) :=
  match l, i with
  | [], _ => []
  | x :: r, O => Some (f x) :: r
  | x :: r, S i' => x :: set_slot r i' f
  end.
Definition or_array (o : option ty) : ty := match o with Some t => t | None => MakeAnyArray end.

(* FLATTEN with at least two block variables and a receiver that unifies to something with variants *)
Definition flatten_slots (recv : ty) : list ty :=
  let U := UnifyVariants recv in
  let target := if is_array_type recv then t_vars recv else t_vars U in
  let widest := fold_left (fun m v => if is_array_type v then Nat.max m (List.length (t_vars v)) else m) target (List.length target) in
  let slot_count := match widest with O => 1 | _ => widest end in
  let tmp0 := repeat (@None ty) slot_count in
  let tmp :=
    fst (fold_left
      (fun (st : list (option ty) * nat) variant =>
         let '(tmp, idx) := st in
         let tmp' :=
           match t_tag variant with
           | ARRAY =>
               fst (fold_left (fun (s2 : list (option ty) * nat) av =>
                                 (set_slot (fst s2) (snd s2) (fun o => AppendArrayVariant (or_array o) av), S (snd s2)))
                              (t_vars variant) (tmp, 0))
           | KEYVALUE => set_slot tmp idx (fun _ => append_hash_variant MakeAnyHash variant)
           | OBJECT => set_slot tmp idx (fun o => AppendArrayVariant (or_array o) variant)
           | _ => set_slot tmp 0 (fun o => match o with None => MakeUnion [variant] | Some u => AppendVariant u variant end)
           end in
         (tmp', S idx))
      target (tmp0, 0)) in
  let present := flat_map (fun o => match o with Some v => [v] | None => [] end) tmp in
  let max_len := fold_left (fun m v => Nat.max m (List.length (t_vars v))) present 0 in
  map (fun v =>
         let v' := if is_array_type v && Nat.ltb (List.length (t_vars v)) max_len then AppendArrayVariant v MakeNil else v in
         if is_hash_type v' then v'
         else match t_vars v' with [] => v' | _ => UnifyVariants v' end)
      present.

(* one declared type; acc = the parameters resolved so far *)
Definition resolve_param (count : nat) (args : list ty) (recv : ty) (acc : list ty) (p : ty) : list ty :=
  match t_tag p with
  | ARRAY | UNION => acc ++ [rec_calc (S (ty_size p)) recv p]
  | UNIFY => acc ++ [UnifyVariants recv]
  | ITEM => acc ++ [UnifyVariants recv]                       (* receivers other than hashes *)
  | FLATTEN =>
      if Nat.leb count 1 then acc ++ [UnifyVariants recv]
      else match t_vars (UnifyVariants recv) with
           | [] => acc ++ [UnifyVariants recv]
           | _ => flatten_slots recv                          (* replaces what was resolved before *)
           end
  | SELF => acc ++ [recv]
  | UNIFY_ARGUMENT => acc ++ [UnifyVariants (match args with a :: _ => a | [] => zero_ty end)]
  | _ => acc ++ [p]
  end.
Definition resolve_params (count : nat) (args : list ty) (recv : ty) (declared : list ty) : list ty :=
  fold_left (resolve_param count args recv) declared [].
