(* M7 — nil? / is_a? narrowing of eval/ifunless.go (repaired code): setConditionalCtx, getBackupContext,
   narrowing, and the restore closures of Evaluation.  A type is the list of the classes of its variants.
   Definitions only. *)
From RT Require Export Model.Strs.

Definition cls := string.
Definition vty := list cls.                       (* the variants of a variable's type, by class *)
Definition amap (A : Type) := list (string * A).
Fixpoint aget {A} (m : amap A) (k : string) : option A :=
  match m with [] => None | (k', v) :: r => if String.eqb k k' then Some v else aget r k end.
Fixpoint aset {A} (m : amap A) (k : string) (v : A) : amap A :=
  match m with
  | [] => [(k, v)]
  | (k', v') :: r => if String.eqb k k' then (k, v) :: r else (k', v') :: aset r k v
  end.
Definition mem (c : cls) (l : list cls) : bool := existsb (String.eqb c) l.
Definition minus (l ex : list cls) : list cls := filter (fun v => negb (mem v ex)) l.
(* MakeUnifiedT of a list of classes: first occurrences *)
Fixpoint uniq (l : list cls) : list cls :=
  match l with [] => [] | x :: r => x :: filter (fun y => negb (String.eqb x y)) (uniq r) end.

Record test := { t_var : string; t_cls : cls; t_neg : bool }.     (* x.is_a?(C) / x.nil? (C = NilClass), with `!` *)
Inductive kind := KIf | KUnless.

Record nstate := {
  orig : amap vty;          (* originalTs: the type of a variable when it was first tested *)
  narrow : amap (list cls); (* narrowTs: what the later branches exclude *)
  ifn : amap (list cls);    (* ifNarrowTs: the classes tested in the current condition *)
  conj : nat;               (* conjunctCount *)
  excl : amap (list cls)    (* excludedBefore: what the branches before the current condition have taken *)
}.
Definition empty_state := {| orig := []; narrow := []; ifn := []; conj := 0; excl := [] |}.
Definition env := amap vty.
Definition ty_of (e : env) (x : string) : vty := match aget e x with Some t => t | None => [] end.
Definition lst {A} (m : amap (list A)) (x : string) : list A := match aget m x with Some l => l | None => [] end.

(* setConditionalCtx for nil? / is_a? (skipNarrow = false) *)
Definition set_ctx (k : kind) (t : test) (es : env * nstate) : env * nstate :=
  let '(e, s) := es in
  let x := t_var t in
  let is_narrow := match k with KIf => negb (t_neg t) | KUnless => t_neg t end in
  let orig' := match aget (orig s) x with Some _ => orig s | None => aset (orig s) x (ty_of e x) end in
  if is_narrow then
    let ifn' := aset (ifn s) x (lst (ifn s) x ++ [t_cls t]) in
    (aset e x (uniq (lst ifn' x)),
     {| orig := orig'; narrow := aset (narrow s) x (lst (narrow s) x ++ [t_cls t]); ifn := ifn'; conj := S (conj s); excl := excl s |})
  else
    let ifn' := aset (ifn s) x (lst (ifn s) x ++ [t_cls t]) in
    let remaining := minus (lst orig' x) (lst ifn' x) in
    (* an elsif branch is reached only by what the earlier branches left *)
    (aset e x (minus remaining (lst (excl s) x)),
     {| orig := orig'; narrow := aset (narrow s) x remaining; ifn := ifn'; conj := S (conj s); excl := excl s |}).

(* scanCondition over an && chain: every test first captures the current type in a restore closure *)
Fixpoint scan (k : kind) (c : list test) (es : env * nstate) (zs : list (string * vty)) : env * nstate * list (string * vty) :=
  match c with
  | [] => (es, zs)
  | t :: r => scan k r (set_ctx k t es) (zs ++ [(t_var t, ty_of (fst es) (t_var t))])
  end.

(* getBackupContext *)
Definition get_backup (k : kind) (c : list test) (e : env) (s : nstate) : env * nstate * list (string * vty) :=
  let saved := narrow s in
  let '(e', s', zs) := scan k c (e, {| orig := orig s; narrow := narrow s; ifn := ifn s; conj := 0; excl := narrow s |}) [] in
  let has_and := Nat.ltb 1 (List.length c) in
  let s'' := match k with
             | KIf => if has_and && Nat.ltb 1 (conj s') then {| orig := orig s'; narrow := saved; ifn := ifn s'; conj := conj s'; excl := excl s' |} else s'
             | KUnless => s'
             end in
  (e', s'', zs).

(* narrowing: what an else / elsif branch sees *)
Definition narrowing (e : env) (s : nstate) : env :=
  fold_left (fun e kv => let '(x, ov) := kv in
                         match aget (narrow s) x with
                         | None => aset e x ov
                         | Some nv => aset e x (minus ov nv)
                         end) (orig s) e.

(* the restore closures are deferred one by one: they run last to first *)
Definition run_restores (zs : list (string * vty)) (e : env) : env :=
  fold_left (fun e z => aset e (fst z) (snd z)) (rev zs) e.

(* if / unless COND; THEN; else; ELSE; end — the environments of the two branches and after `end` (no assignment
   in the branches) *)
Definition conditional (k : kind) (c : list test) (e : env) : env * env * env :=
  let '(e1, s1, zs) := get_backup k c e empty_state in
  let e2 := narrowing e1 s1 in
  (e1, e2, run_restores zs e2).

(* ---------------------------------------------------------------- elsif chains
   if C0; B0; elsif C1; B1; ...; [else; Be;] end.  At `elsif`: narrowing, ifNarrowTs reset, getBackupContext on the
   running state; the restore closures it returns are deferred as well (keep = true; the pinned code dropped them:
   keep = false).  At `else`: ifNarrowTs reset, narrowing.  Deferred closures run last to first. *)
Definition nrun := (env * nstate * list (string * vty))%type.
Definition reset_ifn (s : nstate) : nstate := {| orig := orig s; narrow := narrow s; ifn := []; conj := conj s; excl := excl s |}.

Definition elsif_step (keep : bool) (c : list test) (st : nrun) : nrun :=
  let '(e, s, zs) := st in
  let '(e2, s2, zs2) := get_backup KIf c (narrowing e s) (reset_ifn s) in
  (e2, s2, if keep then zs ++ zs2 else zs).

Fixpoint chain_from (keep : bool) (cs : list (list test)) (st : nrun) (acc : list env) : list env * nrun :=
  match cs with
  | [] => (acc, st)
  | c :: r => let st' := elsif_step keep c st in chain_from keep r st' (acc ++ [fst (fst st')])
  end.

(* the environments of the branches (then, elsif 1, ..., elsif n), of the else branch, and after `end` *)
Definition chain (keep : bool) (c0 : list test) (cs : list (list test)) (has_else : bool) (e : env) : list env * option env * env :=
  let st0 := get_backup KIf c0 e empty_state in
  let '(branches, (e1, s1, zs)) := chain_from keep cs st0 [fst (fst st0)] in
  let e_else := narrowing e1 (reset_ifn s1) in
  (branches, if has_else then Some e_else else None, run_restores zs (if has_else then e_else else e1)).
