(* M10 — the driver skeleton of main.go (repaired code): four rounds x (preload files, target), the
   evaluation loop with the evaluator as an oracle, Fatal formatting, output selection, exit status.
   Definitions only.  The evaluator is not modelled: one iteration of the loop is an abstract [step] saying how
   evaluator.Eval ended (normally, with an error, with a panic) and which -i hints it recorded. *)
From RT Require Export Model.Strs.

Inductive outcome := OOk | OErr (msg : string) | OPanic (msg : string).

Record step := {
  st_row : Z;                        (* p.ErrorRow when the step ends *)
  st_out : outcome;
  st_infos : list (Z * string)       (* hints appended to p.DefineInfos by this step: row, text after the prefix *)
}.

(* a source file as the loop sees it in one round: its top-level steps (the final Eval(nil) included) *)
Definition stream := list step.

Inductive line :=
| LDiag (file : string) (row : Z) (msg : string)       (* file:::row:::msg *)
| LInfo (file : string) (row : Z) (text : string).     (* @file:::row:::text *)

(* parser.Fatal: CR and LF are escaped, so a diagnostic is one output line *)
Definition is_eol (c : ascii) : bool := Ascii.eqb c (ascii_of_nat 10) || Ascii.eqb c (ascii_of_nat 13).
Fixpoint escape_msg (s : string) : string :=
  match s with
  | EmptyString => EmptyString
  | String c r =>
      if Ascii.eqb c (ascii_of_nat 10) then String "\" (String "n" (escape_msg r))
      else if Ascii.eqb c (ascii_of_nat 13) then String "\" (String "r" (escape_msg r))
      else String c (escape_msg r)
  end.
Fixpoint no_eol (s : string) : bool :=
  match s with EmptyString => true | String c r => negb (is_eol c) && no_eol r end.

Definition fatal_msg (o : outcome) : option string :=
  match o with
  | OOk => None
  | OErr m => Some (escape_msg m)
  | OPanic m => Some (escape_msg ("internal error: " ++ m))
  end.

Record parser_out := { po_errors : list line; po_infos : list line; po_iterations : nat }.

(* evaluationLoop over one file in one round: errors are recorded in the check round only *)
Fixpoint eval_loop (check_round : bool) (file : string) (s : stream) (acc : parser_out) : parser_out :=
  match s with
  | [] => acc
  | st :: rest =>
      let errs := match fatal_msg (st_out st) with
                  | Some m => if check_round then [LDiag file (st_row st) m] else []
                  | None => []
                  end in
      let infos := map (fun ri => LInfo file (fst ri) (snd ri)) (st_infos st) in
      eval_loop check_round file rest
        {| po_errors := po_errors acc ++ errs; po_infos := po_infos acc ++ infos;
           po_iterations := S (po_iterations acc) |}
  end.

Definition empty_out := {| po_errors := []; po_infos := []; po_iterations := 0 |}.

Record flags := { fl_define_info : bool (* -i *) }.

(* what a source file is in each of the four rounds *)
Definition rounds := ["define"; "collect"; "inference"; "check"].
Definition source := string -> stream.    (* round -> steps *)

(* recorded method definitions: (file they were parsed from, row, signature text) — eval.DefineInfoArticles *)
Definition article := (string * Z * string)%type.

(* main: for every round, preload files then the target; only the target's check round prints *)
Definition run_driver (fl : flags) (preloads : list (string * source)) (target : string * source)
                      (articles : list article) : list line * Z * nat :=
  let '(tfile, tsrc) := target in
  let iters :=
    fold_left (fun n r =>
                 fold_left (fun n pf => n + po_iterations (eval_loop (String.eqb r "check") (fst pf) (snd pf r) empty_out))
                           preloads n
                 + po_iterations (eval_loop (String.eqb r "check") tfile (tsrc r) empty_out))
              rounds 0 in
  let final := eval_loop true tfile (tsrc "check") empty_out in
  let defs := map (fun a => LInfo tfile (snd (fst a)) (snd a))
                  (filter (fun a => String.eqb (fst (fst a)) tfile) articles) in     (* setDefineInfos *)
  let printed := (if fl_define_info fl then po_infos final ++ defs else []) ++ po_errors final in
  (printed, 0%Z, iters).

Definition line_file (l : line) : string := match l with LDiag f _ _ | LInfo f _ _ => f end.
Definition line_text (l : line) : string := match l with LDiag _ _ m | LInfo _ _ m => m end.
