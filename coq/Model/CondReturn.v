(* M5 (continued) — conditioningMethodReturn (eval/method_evaluator/evaluate_process.go): which alternative of a
   conditional return type (`is_conditional`: the variants of the declared union are alternatives) a call gets, from the
   declared parameter types and the evaluated arguments.  None = the Go code indexes past the alternatives (a panic).
   Definitions only. *)
From RT Require Export Model.ExecType.

Definition non_block (args : list ty) : list ty := filter (fun a => negb (is_block_type a)) args.
Definition same_or_any (d a : ty) : bool := tag_eqb (t_tag d) (t_tag a) || is_any_type d || is_any_type a.

(* index of the first element satisfying p *)
Fixpoint find_index {A} (p : A -> bool) (l : list A) (i : nat) : option nat :=
  match l with [] => None | x :: r => if p x then Some i else find_index p r (S i) end.

Fixpoint cond_return_from (params : list ty) (ret : ty) (args : list ty) (whole : ty) : option ty :=
  match params with
  | [] => Some whole
  | d :: rest =>
      if has_default d then nth_error (t_vars ret) (List.length (non_block args))
      else if is_union_type d then
        match find_index (fun v => existsb (same_or_any v) args) (t_vars d) 0 with
        | Some idx => nth_error (t_vars ret) idx
        | None => cond_return_from rest ret args whole
        end
      else
        match find_index (same_or_any d) args 0 with
        | Some idx => nth_error (t_vars ret) idx
        | None => cond_return_from rest ret args whole
        end
  end.
Definition cond_return (params : list ty) (ret : ty) (args : list ty) (whole : ty) : option ty :=
  cond_return_from params ret args whole.
