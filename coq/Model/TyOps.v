(* M2 — operations of the type algebra (base/t_predicate.go, t_accessors.go, t_util.go, type.go).
   Definitions only.  Functions that Go writes with mutation return the new value; recursion that is
   not structural uses explicit fuel. *)
From RT Require Export Model.Strs.

Definition zero_ty : ty := Ty NIL "" VNil None "" "" "" [] no_flags "" "" "" [] [] [].
(* a nil *T (Go returns one from UnifyVariants in one corner; nil-safe accessors treat it specially) *)
Definition nil_ptr : ty := Ty NIL "<nil-pointer>" VNil None "" "" "" [] no_flags "" "" "" [] [] [].
Definition is_nil_ptr (t : ty) : bool := String.eqb (t_cls t) "<nil-pointer>".

Definition tag_is (tg : tag) (t : ty) : bool := tag_eqb (t_tag t) tg.
Definition is_any_type (t : ty) := tag_is UNTYPED t.
Definition is_unknown_type (t : ty) := negb (is_nil_ptr t) && tag_is UNKNOWN t.
Definition is_block_type (t : ty) := tag_is BLOCK t.
Definition is_union_type (t : ty) := tag_is UNION t.
Definition is_array_type (t : ty) := tag_is ARRAY t.
Definition is_hash_type (t : ty) := tag_is HASH t.
Definition is_keyvalue_type (t : ty) := tag_is KEYVALUE t.

Definition variant_tags (t : ty) : list tag := map t_tag (t_vars t).
Definition has_tag (tg : tag) (l : list tag) : bool := existsb (tag_eqb tg) l.

(* T.IsMatchType *)
Definition is_match_type (t target : ty) : bool :=
  if is_union_type t && is_union_type target then
    let tt := variant_tags t in
    let gt := variant_tags target in
    forallb (fun x => tag_eqb x UNTYPED || has_tag x gt) tt &&
    forallb (fun x => tag_eqb x UNTYPED || has_tag x tt) gt
  else if tag_is OBJECT t && tag_is OBJECT target then String.eqb (t_cls t) (t_cls target)
  else tag_eqb (t_tag t) (t_tag target).

(* T.IsMatchUnionType *)
Definition is_match_union_type (t target : ty) : bool :=
  if is_union_type target then
    let tt := variant_tags t in
    let gt := variant_tags target in
    if has_tag UNTYPED gt then true
    else if has_tag UNTYPED tt then true
    else forallb (fun x => has_tag x gt) tt && forallb (fun x => has_tag x tt) gt
  else existsb (fun v => is_any_type v || tag_eqb (t_tag v) (t_tag target)) (t_vars t).

(* T.IsEqualObject *)
Definition is_equal_object (t target : ty) : bool :=
  match t_vars t, t_vars target with
  | [], [] => tag_eqb (t_tag t) (t_tag target)
  | vs, _ => existsb (fun v => tag_eqb (t_tag v) (t_tag target) && String.eqb (t_cls v) (t_cls target)) vs
  end.

Definition get_key_value (t : ty) : ty := match t_vt t with Some v => v | None => zero_ty end.
Definition set_key_value (t : ty) (v : ty) : ty :=
  let 'Ty a b c _ e f g h i j k l m n o := t in Ty a b c (Some v) e f g h i j k l m n o.

(* T.AppendHashVariant *)
Fixpoint replace_or_append_key (vs : list ty) (kv : ty) : list ty :=
  match vs with
  | [] => [kv]
  | x :: r => if String.eqb (t_key x) (t_key kv) then kv :: r else x :: replace_or_append_key r kv
  end.
Definition append_hash_variant (t kv : ty) : ty := set_vars t (replace_or_append_key (t_vars t) kv).

(* T.StrictHashReference: the stored value of the first variant with that key, else nil *)
Fixpoint strict_hash_ref (vs : list ty) (k : string) : ty :=
  match vs with
  | [] => MakeNil
  | x :: r => if String.eqb (t_key x) k then get_key_value x else strict_hash_ref r k
  end.

(* in-place update of the value stored under the first variant with key k *)
Fixpoint update_key_value (vs : list ty) (k : string) (f : ty -> ty) : list ty :=
  match vs with
  | [] => []
  | x :: r => if String.eqb (t_key x) k then set_key_value x (f (get_key_value x)) :: r
              else x :: update_key_value r k f
  end.

Fixpoint ty_size (t : ty) : nat :=
  S (fold_right (fun v a => ty_size v + a) 0 (t_vars t) +
     match t_vt t with Some v => ty_size v | None => 0 end).

(* AppendVariant / MergeHash / UnifyVariants (mutually recursive in Go through MakeUnifiedT) *)
Fixpoint append_variant (n : nat) (t v : ty) {struct n} : ty :=
  match n with
  | O => t
  | S n' =>
      let make_unified (vs : list ty) := unify_variants n' (MakeUnion vs) in
      match t_tag v with
      | UNION => fold_left (fun acc uv => append_variant n' acc uv) (t_vars v) t
      | HASH =>
          (fix go (pre post : list ty) : ty :=
             match post with
             | [] => set_vars t (t_vars t ++ [v])
             | x :: r => if is_hash_type x then set_vars t (rev pre ++ merge_hash n' x v :: r)
                         else go (x :: pre) r
             end) [] (t_vars t)
      | ARRAY =>
          match t_vars t with
          | [] => set_vars t [v]
          | _ =>
              let merge_one (cur : ty) : ty :=
                let process (c tg : ty) : ty :=
                  if is_equal_object c tg then c
                  else if is_union_type c then append_variant n' c tg
                  else make_unified [c; tg] in
                MakeArray
                  ((fix zip (nv tv : list ty) : list ty :=
                      match tv with
                      | [] => nv
                      | tg :: tv' =>
                          match nv with
                          | [] => process tg tg :: zip [] tv'
                          | c :: nv' => process c tg :: zip nv' tv'
                          end
                      end) (t_vars cur) (t_vars v)) in
              if existsb is_array_type (t_vars t)
              then set_vars t (map (fun c => if is_array_type c then merge_one c else c) (t_vars t))
              else set_vars t (t_vars t ++ [v])
          end
      | _ => if is_equal_object t v then t else set_vars t (t_vars t ++ [v])
      end
  end
with merge_hash (n : nat) (t v : ty) {struct n} : ty :=
  match n with
  | O => t
  | S n' =>
      if negb (is_hash_type t && is_hash_type v) then t
      else
        fold_left
          (fun acc variant =>
             let newv := get_key_value variant in
             let exist := strict_hash_ref (t_vars acc) (t_key variant) in
             if tag_is NIL exist then append_hash_variant acc variant
             else if is_union_type exist then
               if is_match_union_type exist newv then acc
               else set_vars acc (update_key_value (t_vars acc) (t_key variant) (fun e => append_variant n' e newv))
             else if tag_eqb (t_tag exist) (t_tag newv) then acc
             else append_hash_variant acc (MakeKeyValue (t_key variant) (MakeUnion [exist; newv])))
          (t_vars v) t
  end
with unify_variants (n : nat) (t : ty) {struct n} : ty :=
  match n with
  | O => t
  | S n' =>
      let u :=
        fold_left (fun acc variant =>
                     append_variant n' acc (if is_hash_type t then get_key_value variant else variant))
                  (t_vars t) (MakeUnion []) in
      match t_vars u with
      | [] => MakeUntyped
      | [x] => x
      | [a; b] =>
          (* the `narrowed untyped union` rule *)
          let narrowed := (is_unknown_type a || is_unknown_type b) in
          let last_known := if is_unknown_type b then (if is_unknown_type a then nil_ptr else a) else b in
          if negb (is_unknown_type last_known) && narrowed then last_known else u
      | _ => u
      end
  end.

Definition fuel_for (t v : ty) : nat := 2 * (ty_size t + ty_size v) + 4.
Definition AppendVariant (t v : ty) : ty := append_variant (fuel_for t v) t v.
Definition UnifyVariants (t : ty) : ty := unify_variants (fuel_for t t) t.
Definition MakeUnifiedT (vs : list ty) : ty := UnifyVariants (MakeUnion vs).
Definition AppendArrayVariant (t v : ty) : ty := set_vars t (t_vars t ++ [v]).

(* ---- rendering: base/type.go ---- *)
Infix "+++" := String.append (right associativity, at level 60).
Definition drop_last_char (s : string) : string := drop_last s.

Fixpoint type_to_string (n : nat) (t : ty) {struct n} : string :=
  match n with
  | O => "<fuel>"
  | S n' =>
      let union_to_string :=
        (fix uts (m : nat) (vs : list ty) {struct m} : string :=
           match m with
           | O => "<fuel>"
           | S m' =>
               drop_last_char
                 (fold_left (fun acc v =>
                               acc +++ (if is_union_type v then uts m' (t_vars v) else type_to_string n' v) +++ " ")
                            vs "Union<") +++ ">"
           end) in
      if is_nil_ptr t then "Unknown" else
      match t_tag t with
      | NIL => "NilClass" | INT => "Integer" | UNKNOWN => "Unknown" | STRING => "String" | BOOL => "Bool"
      | FLOAT => "Float" | UNTYPED => "untyped" | HASH => "Hash"
      | ARRAY =>
          let u := UnifyVariants t in
          if negb (is_union_type u) || is_nil_ptr u then "Array<" +++ type_to_string n' u +++ ">"
          else
            match t_vars u with
            | [] => "Array<untyped>"
            | vs =>
                drop_last_char
                  (fold_left (fun acc v =>
                                acc +++ (if is_union_type v then union_to_string n' (t_vars v) else type_to_string n' v) +++ " ")
                             vs "Array<") +++ ">"
            end
      | UNION => union_to_string n' (t_vars t)
      | OBJECT =>
          match t_frame t with
          | "" | "Builtin" => t_cls t
          | f => f +++ "::" +++ t_cls t
          end
      | BLOCK => "Block" | CLASS => to_string t | SELF => "Self" | SYMBOL => "Symbol" | KEYVALUE => "KeyValue"
      | CONST => "Const" | RANGE => "Range" | UNIFY => "Unify" | OPTIONAL_UNIFY => "OptiionalUnify"
      | SELF_ARRAY => "SelfArray" | ARGUMENT => "Argument" | UNIFY_ARGUMENT => "UnifyArgument"
      | FLATTEN => "Flatten" | BLOCK_RESULT_ARRAY => "BlockResultArray" | KEYVALUE_ARRAY => "KeyValueArray"
      | ITEM => "Item" | OWNER => "Owner"
      end
  end.

Definition TypeToString (t : ty) : string := type_to_string (2 * ty_size t + 8) t.

Definition UnionTypeToString (vs : list ty) : string := TypeToString (MakeUnion vs).
