(* Byte-string helpers mirroring the Go `strings` functions the modelled code uses, and
   base/strings.go.  Definitions only. *)
From RT Require Export Model.Ty.

Definition ch (n : nat) : ascii := ascii_of_nat n.
Definition c_q := "?"%char.   Definition c_star := "*"%char.
Definition c_lb := "["%char.  Definition c_rb := "]"%char.
Definition c_bar := "|"%char. Definition c_colon := ":"%char.

Definition ascii_eqb := Ascii.eqb.

Fixpoint contains_char (c : ascii) (s : string) : bool :=
  match s with
  | EmptyString => false
  | String x r => Ascii.eqb x c || contains_char c r
  end.

Fixpoint last_char (s : string) : option ascii :=
  match s with
  | EmptyString => None
  | String x EmptyString => Some x
  | String _ r => last_char r
  end.

Fixpoint drop_last (s : string) : string :=
  match s with
  | EmptyString => EmptyString
  | String x EmptyString => EmptyString
  | String x r => String x (drop_last r)
  end.

(* strings.Split(s, "|") for a single-byte separator: always non-empty *)
Fixpoint split_char (c : ascii) (s : string) : list string :=
  match s with
  | EmptyString => [EmptyString]
  | String x r =>
      if Ascii.eqb x c then EmptyString :: split_char c r
      else match split_char c r with
           | [] => [String x EmptyString]
           | p :: ps => String x p :: ps
           end
  end.

(* ASCII white space (strings.TrimSpace also strips U+0085/U+00A0/… multi-byte spaces: not
   modelled, generators keep type strings ASCII) *)
Definition is_ascii_space (c : ascii) : bool :=
  let n := nat_of_ascii c in
  (Nat.eqb n 32) || (Nat.eqb n 9) || (Nat.eqb n 10) || (Nat.eqb n 11) || (Nat.eqb n 12) || (Nat.eqb n 13).

Fixpoint trim_left (s : string) : string :=
  match s with
  | String x r => if is_ascii_space x then trim_left r else s
  | EmptyString => s
  end.

Fixpoint rev_string_acc (s acc : string) : string :=
  match s with
  | EmptyString => acc
  | String x r => rev_string_acc r (String x acc)
  end.
Definition rev_string (s : string) := rev_string_acc s EmptyString.

Definition trim_space (s : string) : string :=
  rev_string (trim_left (rev_string (trim_left s))).

(* strings.Contains(s, "::") *)
Fixpoint contains_dcolon (s : string) : bool :=
  match s with
  | String a ((String b _) as r) => (Ascii.eqb a c_colon && Ascii.eqb b c_colon) || contains_dcolon r
  | _ => false
  end.

Definition cons_head (a : ascii) (l : list string) : list string :=
  match l with [] => [String a EmptyString] | p :: ps => String a p :: ps end.

(* strings.Split(s, "::") — leftmost, non-overlapping *)
Fixpoint split_dcolon (s : string) : list string :=
  match s with
  | EmptyString => [EmptyString]
  | String a r =>
      match r with
      | String b r' =>
          if Ascii.eqb a c_colon && Ascii.eqb b c_colon then EmptyString :: split_dcolon r'
          else cons_head a (split_dcolon r)
      | EmptyString => [String a EmptyString]
      end
  end.

Definition join_dcolon (l : list string) : string := String.concat "::" l.

(* base/strings.go *)
Definition is_name_space (s : string) : bool := Nat.ltb 1 (List.length (split_dcolon s)).

(* SeparateNameSpaces: (frame, parentClass, class) *)
Definition separate_name_spaces (s : string) : string * string * string :=
  let sp := split_dcolon s in
  match sp with
  | [a] => ("", "", a)
  | [a; b] => ("", a, b)
  | _ =>
      let n := List.length sp in
      (join_dcolon (firstn (n - 2) sp), nth (n - 2) sp "", nth (n - 1) sp "")
  end.

(* base/t_frame.go CalculateFrame *)
Definition calculate_frame (frame cls : string) : string :=
  match frame, cls with
  | "", "" => ""
  | "", _ => cls
  | _, "" => frame
  | _, _ => frame ++ "::" ++ cls
  end.

Definition is_key_suffix (s : string) : bool := (Nat.ltb 1 (String.length s)) && (match last_char s with Some c => Ascii.eqb c c_colon | None => false end).
Definition remove_suffix (s : string) : string := drop_last s.
