(* M4 (continued) — propagationForCalledTo on a parameter of a USER-DEFINED method
   (eval/method_evaluator/type_process.go): how one call site changes the type recorded for a parameter.  The table
   entry of a parameter is its type and the Round tag of that type ("" = none); `round` is the round the call is
   evaluated in.  The result says whether the argument is accepted without a type check (true) or goes on to
   checkArgType against the OLD entry (false), and what the table holds afterwards.  Definitions only. *)
From RT Require Export Model.Args.

Definition pentry := (ty * string)%type.
Definition is_inferred (t : ty) : bool := f_inf (t_fl t).
Definition variants_or_self (t : ty) : list ty := if is_union_type t then t_vars t else [t].

(* the pinned code checked the first call site of a new round against the type the earlier round had recorded *)
Record prop_variant := { check_after_replace : bool }.
Definition pinned_prop := {| check_after_replace := true |}.
Definition fixed_prop := {| check_after_replace := false |}.

Definition propagate (V : prop_variant) (builtin_method : bool) (round : string) (d : option pentry) (a : ty) : bool * option pentry :=
  (* argT.Round = round; an identifier argument is not propagated (the caller has excluded it) *)
  let fresh := (true, Some (set_inf a true, round)) in
  match d with
  | None => fresh
  | Some (dt, dr) =>
      if tag_is UNKNOWN dt then fresh
      else if is_builtin dt then (false, d)
      else if is_union_type dt && has_default dt then (true, Some (AppendVariant dt a, dr))
      else
        (* a two-variant union from another round: the argument is marked as inferred, whatever happens next *)
        let two := negb (String.eqb dr "") && negb (String.eqb dr round) && is_union_type dt && negb builtin_method &&
                   Nat.eqb (List.length (t_vars dt)) 2 in
        let a := if two then set_inf a true else a in
        if two && existsb is_any_type (t_vars dt) && existsb (fun v => is_match_type v a) (t_vars dt)
        then (false, Some (set_inf a true, round))                 (* untyped + a matching variant: replace, then check *)
        else if is_union_type dt && is_inferred dt then (true, Some (AppendVariant dt a, dr))
        else if negb (String.eqb dr "") && negb (String.eqb dr round)
             then (negb (check_after_replace V), Some (set_inf a true, round))   (* first call of a new round: the entry is replaced *)
        else if is_match_type dt a then (true, d)
        else if has_default dt || is_inferred dt then
               let u := UnifyVariants (MakeUnion (variants_or_self dt ++ variants_or_self a)) in
               (true, Some (set_inf (set_hd u (has_default dt)) (is_inferred dt), round))
      else (false, d)
  end.

(* the call sites of one round, in evaluation order *)
Definition round_run (V : prop_variant) (builtin_method : bool) (round : string) (d : option pentry) (args : list ty) : option pentry :=
  fold_left (fun d a => snd (propagate V builtin_method round d a)) args d.
