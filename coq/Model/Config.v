(* M3 — the .ti-config type notation parser (builtin/json_loader.go: parseTypeString,
   parseArguments, parseReturnType; builtin/defined_type.go: ConvertToBuiltinT).
   Definitions only.  The name table and NilT come from Generated.v (regenerated from source). *)
From RT Require Export Model.Strs.
From RT Require Import Generated.

(* --- a boolean model parameter per repaired defect (DESIGN 3.1): false = pinned code --- *)
Record cfg_variant := { fix_arg_prefix : bool }.
Definition pinned_cfg := {| fix_arg_prefix := false |}.
Definition fixed_cfg := {| fix_arg_prefix := true |}.

Fixpoint assoc_str {A} (k : string) (l : list (string * A)) : option A :=
  match l with
  | [] => None
  | (k', v) :: r => if String.eqb k k' then Some v else assoc_str k r
  end.

(* ConvertToBuiltinT *)
Definition convert_to_builtin (s : string) : ty :=
  match assoc_str s builtin_table with
  | Some t => t
  | None => if is_name_space s then MakeIdentifier s else MakeObject s
  end.

Fixpoint map_opt {A B} (f : A -> option B) (l : list A) : option (list B) :=
  match l with
  | [] => Some []
  | x :: r => match f x, map_opt f r with
              | Some y, Some ys => Some (y :: ys)
              | _, _ => None
              end
  end.

(* parseTypeString; None = out of fuel (never, for fuel > length: Proofs/ConfigP.v) *)
Fixpoint parse_ts_fuel (fuel : nat) (s : string) : option ty :=
  match fuel with
  | O => None
  | S fuel' =>
      let n := String.length s in
      match s with
      | String c rest =>
          if (Nat.ltb 1 n) && Ascii.eqb c c_q then
            match parse_ts_fuel fuel' rest with
            | Some inner => Some (MakeUnion [inner; NilT])
            | None => None
            end
          else if (Nat.ltb 1 n) && Ascii.eqb c c_star then
            match parse_ts_fuel fuel' rest with
            | Some inner => Some (set_ast inner true)
            | None => None
            end
          else if (Nat.ltb 2 n) && Ascii.eqb c c_lb &&
                  (match last_char s with Some l => Ascii.eqb l c_rb | None => false end) then
            match parse_ts_fuel fuel' (drop_last rest) with
            | Some inner => Some (MakeArray [inner])
            | None => None
            end
          else if contains_char c_bar s then
            match map_opt (fun p => parse_ts_fuel fuel' (trim_space p)) (split_char c_bar s) with
            | Some ts => Some (MakeUnion ts)
            | None => None
            end
          else Some (convert_to_builtin s)
      | EmptyString => Some (convert_to_builtin s)
      end
  end.

Definition parse_type_string (s : string) : ty :=
  match parse_ts_fuel (S (String.length s)) s with
  | Some t => t
  | None => NilT
  end.

(* the decoded JSON argument / return objects (encoding/json is glue, not modelled) *)
Record jarg := { ja_types : list string; ja_key : string; ja_ast : bool; ja_def : bool }.
Record jret := { jr_types : list string; jr_cond : bool; jr_des : bool; jr_cap : bool }.

Definition zeroT : ty := Ty NIL "" VNil None "" "" "" [] no_flags "" "" "" [] [] [].

Definition no_bar_no_bracket (s : string) : bool :=
  negb (contains_char c_bar s) && negb (contains_char c_lb s).

(* one iteration of parseArguments' loop: the type before the keyword wrapper *)
Definition arg_base (v : cfg_variant) (types : list string) (ast def : bool) : ty :=
  let '(baseT, isAst) :=
    match types with
    | [] => (NilT, ast)
    | [s] =>
        match s with
        | EmptyString => (zeroT, ast)
        | String c rest =>
            if Ascii.eqb c c_star then
              if no_bar_no_bracket s || fix_arg_prefix v
              then (parse_type_string rest, true)
              else (parse_type_string s, ast)
            else if Ascii.eqb c c_q then
              if no_bar_no_bracket s || fix_arg_prefix v
              then (set_hd (parse_type_string rest) true, ast)
              else (parse_type_string s, ast)
            else if is_name_space s then
              let '(fr, parent, cls) := separate_name_spaces s in
              (set_frame (MakeObject cls) (calculate_frame fr parent), ast)
            else (parse_type_string s, ast)
        end
    | ts => (MakeUnion (map parse_type_string ts), ast)
    end in
  let b1 := set_bi (set_ast baseT isAst) true in
  if def then set_hd b1 true else b1.

Definition wrap_key (k : string) (t : ty) : ty :=
  match k with
  | EmptyString => t
  | _ => MakeKeyValue k t
  end.

Definition parse_argument (v : cfg_variant) (a : jarg) : ty :=
  wrap_key (ja_key a) (arg_base v (ja_types a) (ja_ast a) (ja_def a)).

Definition parse_arguments (v : cfg_variant) (args : list jarg) : list ty :=
  map (parse_argument v) args.

Definition parse_return_type (r : jret) : ty :=
  let t := match jr_types r with
           | [] => NilT
           | [s] => parse_type_string s
           | ts => MakeUnion (map parse_type_string ts)
           end in
  set_cond_des_cap t (jr_cond r) (jr_des r) (jr_cap r).
