"""C24 — the LLM navigator's call graph matches the source."""
import json
import os
import re
from collections import Counter

from lib import common as C
from lib import corr
from lib import navgen
from lib.flow import Failure

MANIFEST = {
    "text": "Theorems C24_* (Coq) on a model of the recorder and the printer: over ANY sequence of call-site evaluations (four "
            "rounds, condition scans included) the caller entries printed for a method are exactly the call sites that reach "
            "it — one entry per site, in order, with row and enclosing method — `total callers` is their number, and the "
            "callees of a method are exactly the calls written in its body. Tie: the recorded tables are dumped through the "
            "__verif_dump__ hook after generated programs and compared by vm_compute with the model run on the program's call "
            "sites (each evaluated in four rounds, sites in if/elsif/unless conditions once more as a scan); end to end, "
            "`--llm-nav --target=<name>` is run for every user-defined method of generated programs (top-level functions, "
            "instance and class methods, inherited methods, explicit / self / implicit receivers, calls in conditions, "
            "arguments, sums, blocks; several calls of one method on one row) and callers, totals and callees are compared "
            "with the known call sites.",
    "note": "Trusted: Coq kernel + vm_compute; lib/navgen.py (the call sites of the programs it writes and the class that defines "
            "each callee). Which evaluations happen (rounds, scans) is an input of the model, taken from the generator.",
    "technique": "Coq proof (exactness of the printed caller / callee lists over arbitrary evaluation sequences); correspondence by "
                 "vm_compute on tables dumped through a build-tag hook; end-to-end comparison of --llm-nav with known call sites",
}
REQUIRES = ["Model/CallGraph.v"]
RULE = ("programs of 1-2 functions and 1-3 classes (inheritance, class methods), 1-4 call statements per body from 7 forms; every "
        "user method queried; non-trivial = the method has at least two call sites or a call site in a condition")
TRUSTED = []
ASSUMPTIONS = ["call sites that ti cannot resolve are not generated: a top-level function called from inside a class body is "
               "reported as undefined by ti (kept finding of the evaluator, not of the navigator)"]
PARTIAL = ["calls of top-level functions from class bodies: not generated"]


def parse_nav(out):
    secs, cur, mode, entry = {}, None, None, None
    for l in out.split("\n"):
        m = re.match(r'^## (?:(\S+)\.)?([^.(]+)\(', l)
        if m:
            cur = {"callers": [], "callees": [], "tc": None, "te": None}
            secs[(m.group(1), m.group(2))] = cur
            continue
        if cur is None:
            continue
        if l.startswith("- callers"):
            mode = "callers"
        elif l.startswith("- callees"):
            mode = "callees"
        m = re.match(r'^\s+- method: (.*)$', l)
        if m and mode:
            entry = {"method": m.group(1)}
            cur[mode].append(entry)
            continue
        m = re.match(r'^\s+- class: (.*)$', l)
        if m and entry is not None:
            entry["class"] = m.group(1)
            continue
        m = re.match(r'^\s+- call point: \S+:(\d+)$', l)
        if m and entry is not None:
            entry["row"] = int(m.group(1))
            continue
        m = re.match(r'^\s+- total callers: (\d+)', l)
        if m:
            cur["tc"] = int(m.group(1))
        m = re.match(r'^\s+- total callees: (\d+)', l)
        if m:
            cur["te"] = int(m.group(1))
    return secs


def owner(p, name):
    for c in p.classes:
        if any(m == name for m, _ in c["inst"] + c["static"]):
            return c["name"]
    return ""


def part_nav(ctx, part):
    def one(i):
        r = C.rng_for(ctx.pid, ctx.seed, "nav%d" % i)
        src, p = navgen.gen_program(r)
        names = [f for f, _ in p.funcs] + [m for c in p.classes for m, _ in c["inst"] + c["static"]]
        with C.Workdir() as wd:
            f = wd.write(src, "t.rb")
            plain = wd.ti([f])
            d = wd.write(src + '__verif_dump__ "dump.json"\n', "d.rb")
            wd.ti([d])
            dump = json.load(open(os.path.join(wd.path, "dump.json"))) if os.path.exists(os.path.join(wd.path, "dump.json")) else None
            navs = {n: wd.ti([f, "--llm-nav", "--target=%s" % n]) for n in names[:ctx.n(5, 12)]}
        return src, p, plain, dump, navs

    terms, kept = [], []
    for src, p, plain, dump, navs in C.pmap(one, list(range(ctx.n(50, 500))), par=8):
        if plain.timeout or re.search(r'^t\.rb:::\d+:::', plain.out, re.M):
            part.count("program_with_diagnostics")     # a diagnostic ends the evaluation of a body: the sites behind it are not met
            continue
        for name, x in navs.items():
            part.evaluations += 1
            want = Counter((row, cm or "top level", cc or "none") for row, callee, cm, cc in p.sites if callee == name)
            want_callees = Counter(callee for row, callee, cm, cc in p.sites if cm == name)
            if sum(want.values()) >= 2:
                part.nontrivial.add(src + name)
            sec = [v for k, v in parse_nav(x.out).items() if k[1] == name]
            data = {"program": src, "target": name}
            if not sec:
                if want or want_callees:
                    part.failures.append(Failure("call_site_missing", "--llm-nav --target=%s prints nothing, the method has %d call site(s)" % (name, sum(want.values())), data))
                else:
                    part.agreed += 1
                continue
            got = Counter((e.get("row"), e.get("method"), e.get("class")) for e in sec[0]["callers"])
            got_callees = Counter(e.get("method") for e in sec[0]["callees"])
            if got != want:
                part.failures.append(Failure("wrong_callers", "callers of %s: missing %s, unexpected %s" % (name, dict(want - got), dict(got - want)), data))
            elif sec[0]["tc"] != sum(want.values()):
                part.failures.append(Failure("wrong_total", "total callers of %s is %s, the method has %d call sites" % (name, sec[0]["tc"], sum(want.values())), data))
            elif got_callees != want_callees or sec[0]["te"] != sum(want_callees.values()):
                part.failures.append(Failure("wrong_callees", "callees of %s: expected %s, listed %s (total %s)" % (name, dict(want_callees), dict(got_callees), sec[0]["te"]), data))
            else:
                part.agreed += 1
        # --- model tie: the dumped call-point table against the model run on the program's sites
        if dump is not None:
            user = set([f for f, _ in p.funcs] + [m for c in p.classes for m, _ in c["inst"] + c["static"]])
            obs = []
            for key, pts in sorted(dump["call_points"].items()):
                meth = next((u for u in sorted(user, key=len, reverse=True) if key.endswith(u)), None)
                if meth is None:
                    continue
                for pt in pts:
                    obs.append("(%s, %d%%Z, %s)" % (C.coq_str(key), int(pt["Point"].split(":")[-1]), C.coq_str(pt["CallerClass"] + "#" + pt["CallerMethod"])))
            sites = []
            cond_rows = set(i + 1 for i, l in enumerate(src.split("\n")) if re.match(r'^\s*(if|elsif|unless) ', l))
            for row, callee, cm, cc in p.sites:
                k = "(\"\"%%string, %s, %s)" % (C.coq_str(owner(p, callee)), C.coq_str(callee))
                c = "(\"\"%%string, %s, %s)" % (C.coq_str(cc or ""), C.coq_str(cm or ""))
                for rnd in range(4):
                    if row in cond_rows:
                        sites.append("(Build_site %d%%Z %s %s %s true)" % (row, k, c, C.coq_bool(rnd == 3)))
                    sites.append("(Build_site %d%%Z %s %s %s false)" % (row, k, c, C.coq_bool(rnd == 3)))
            terms.append("(%s, %s)" % (C.coq_list(sites), C.coq_list(obs)))
            kept.append(src)
        part.sample({"methods": len(navs), "sites": len(p.sites)})
    fn = ("fun c => let '(sites, obs) := c in let t := record_all sites in "
          "let mine := map (fun e => let '(k, (row, caller)) := e in (fst (fst k) +++ snd (fst k) +++ snd k, row, snd (fst caller) +++ \"#\" +++ snd caller)) (call_points t) in "
          "let cnt := fun (l : list (string * Z * string)) x => List.length (filter (fun y => String.eqb (fst (fst y)) (fst (fst x)) && Z.eqb (snd (fst y)) (snd (fst x)) && String.eqb (snd y) (snd x)) l) in "
          "forallb (fun x => Nat.eqb (cnt mine x) (cnt obs x)) (mine ++ obs)")
    bad = corr.coq_mismatches(["Model.CallGraph", "Model.TyOps"], "list site * list (string * Z * string)", fn, terms, chunk=60)
    for i in bad:
        part.mismatches.append({"fn": "NewMethodEvaluator call-point recorder", "program": kept[i]})
    part.agreed += len(terms) - len(bad)
    part.evaluations += len(terms)


PARTS = [part_nav]


def replay(path):
    print(json.dumps(json.load(open(path)), indent=1)[:6000])
    return 0
