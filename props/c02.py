"""C02 — analysis terminates on every finite input without the watchdog."""
import json

from lib import robust

MANIFEST = {
    "text": "Theorems C02_* (Coq): the lexer model is total with fuel linear in the input and produces at most 3n+3 tokens "
            "(every Advance strictly decreases a potential — C03's development, repaired code), and the main loop of the "
            "driver performs exactly one iteration per top-level step. The loops inside the evaluator are not modelled; "
            "they are reached by the sweep (prefixes / mutations / malformed streams / cyclic hierarchies), where a run "
            "counts as hung when it prints `timeout` and still does so when re-run alone.",
    "note": "C02_token_stream: parser.Read driven to end of stream (read_all, the function C03's correspondence runs against "
            "the code) is total on every text with linear fuel, ends with end-of-stream after at most 3n+3 tokens and never "
            "holds `read error`. Partial: evaluator-internal loops are covered by exploration only; wall-clock effects (a slow machine tripping "
            "the 500 ms timer) are outside any executable model — suspected hangs are re-run alone up to three times.",
    "technique": "Coq proof (potential function on the lexer, lifted to the whole parser.Read stream by induction; loop bound "
                 "on the driver model); correspondence by vm_compute; "
                 "black-box sweep with idle re-runs for the unmodelled evaluator",
}
REQUIRES = ["Model/Driver.v", "Model/Parser.v"]
RULE = ("as C01 (sweep inputs and hook-driven scripts); a hang = prints `timeout` in three consecutive solo re-runs; "
        "non-trivial = more than 8 bytes")
TRUSTED = []
ASSUMPTIONS = ["each call into the evaluator returns (assumed by the loop theorem, explored by the sweep)"]
PARTIAL = ["evaluator-internal loops: exploration only"]


def part_sweep(ctx, part):
    inputs = robust.gen_inputs(ctx, "c02", ctx.n(25, 300), ctx.n(10, 100))
    robust.sweep(ctx, part, inputs, lambda src: [[]], lambda l: True, {"hang"})


PARTS = [robust.part_driver_corr, part_sweep]


def replay(path):
    print(json.dumps(json.load(open(path)), indent=1)[:6000])
    return 0
