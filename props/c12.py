"""C12 — analyzing a program never alters configured builtin signatures."""
import json
import os
import re

from lib import callgen
from lib import common as C
from lib import rbgen
from lib.flow import Failure

MANIFEST = {
    "text": "Theorems C12_* (Coq): with T values as heap cells and the table's cells allocated before the program runs, (1) the "
            "accumulation of the return type of a call on a union receiver (checkAndPropagateArgsForUnionWithReturnT: copy of "
            "the first entry, AppendVariant on the accumulator, copy of a union entry) leaves every pre-existing cell "
            "unchanged, for any method entries and any AppendVariant / IsMatchType; (2) any sequence of destructive "
            "configured calls and assignments (`*leftT = rightT` overwrites the cell a variable is bound to) leaves every "
            "pre-existing cell unchanged, because the receiver is bound to a copy. Both pinned paths are refuted by computed "
            "witnesses (Integer#* / String#* on a union; u.save! followed by u = ...). Tie: the global table is snapshot "
            "through the __verif_dump__ hook after corpus programs, generated programs, programs calling generated configured "
            "classes with union receivers and programs using destructive configured methods, and compared entry by entry with "
            "the snapshot of an empty program; a battery of probes on fresh literal receivers is run alone and after each "
            "program and must print the same types.",
    "note": "Trusted: Coq kernel; the heap model's reading of which Go values alias (DeepCopy, *leftT = rightT, SetValueT replacing "
            "the slot) — validated by the dump comparison, which sees every entry of the real table; base.VerifSnapshot.",
    "technique": "Coq proof (frame property of a heap model of the two writing paths); table snapshots through a build-tag hook "
                 "compared with the empty-program snapshot; metamorphic probe runs",
}
REQUIRES = ["Model/Heap.v"]
RULE = ("programs: corpus (those that do not reopen a configured class), rbgen programs, callgen programs on generated "
        "configurations (union receivers, rest parameters), hand-written destructive/conditional/union sequences; each followed "
        "by a table dump and by 40 probes; non-trivial = the program calls a configured method on a union receiver, a "
        "destructive method or a method with a rest parameter")
TRUSTED = []
ASSUMPTIONS = ["the program does not reopen a configured class"]
PARTIAL = ["the heap model covers the union path and the destructive binding; other writers are covered by the snapshots only"]

PROBES = ['dbtp 2 * 3', 'dbtp 2 * 1.5', 'dbtp "a" * 2', 'dbtp [1, "s"].first', 'dbtp [1].push("s")', 'dbtp "s".upcase', 'dbtp 1 + 1',
          'dbtp 1.5 + 1', 'dbtp [1, 2].size', 'dbtp({a: 1}.keys)', 'dbtp "abc".size', 'dbtp :a.to_s', 'dbtp 1.to_s', 'dbtp [1, 2].map { |q9| q9 }',
          'w9 = 3', 'z9 = 2 * w9', 'dbtp z9', 'dbtp [1, 2].first(1)', 'dbtp "s" + "t"', 'dbtp 3.times', 'dbtp [[1, "a"]].flatten',
          'dbtp (1..3).to_a', 'dbtp 1.nil?', 'dbtp "s".to_sym', 'dbtp [1].empty?', 'dbtp 10 / 3', 'dbtp 10 % 3', 'dbtp 2 ** 3',
          'dbtp "a,b".split(",")', 'dbtp [3, 1].sort', 'dbtp [1, nil].compact', 'dbtp "s".length', 'dbtp 1.5.to_i', 'dbtp 1.to_f',
          'dbtp [1, 2].join(",")', 'dbtp({a: 1}.values)', 'dbtp [1, 2].last', 'dbtp "s".empty?', 'dbtp 1 == 1', 'dbtp [1, "s"].reverse']
HAND = [
    'c = true\nx = c ? 1 : "s"\ny = x * 2\nz = x + 1\nv = x.to_s\n',
    'c = true\nx = c ? [1] : "s"\ny = x * 2\nq = x.size\nr = x.first\n',
    'class User < ApplicationRecord\nend\nu = User.new\nu.save!\nu = User.new\nu.save\nu.update(name: "x")\n',
    'a = [1, 2]\na.push("s")\na << 1.5\nb = a.first\na = [1]\nc = a.first\n',
    'h = {a: 1}\nh[:b] = "s"\nk = h.keys\nh = {}\n',
    'p1 = Proc.new { |x| x }\np1.call(1, 2, 3)\nputs 1, 2, 3\nprint "a", "b"\n',
    'c = true\nx = c ? 1 : 1.5\ny = 2 * x\nz = x * 2\nw = x / 2\nx = "s"\n',
    'c = true\ns = c ? "ab" : 3\nt = s * 2\nu = s + s\n',
]
CONFIGURED = None


def configured_names():
    global CONFIGURED
    if CONFIGURED is None:
        names = set()
        for f in os.listdir(C.SHIPPED_CONFIG):
            if f.endswith(".json"):
                try:
                    names.add(json.load(open(os.path.join(C.SHIPPED_CONFIG, f))).get("class", ""))
                except Exception:
                    pass
        CONFIGURED = names - {""}
    return CONFIGURED


def reopens(src):
    return any(re.search(r'^\s*(class|module)\s+(\w+::)*%s\b(?!\s*<)' % re.escape(n), src, re.M) for n in configured_names()) or \
        bool(re.search(r'^\s*(class|module)\s+(Object|Kernel)\b', src, re.M))


def key(e):
    return (e['frame'], e['class'], e['method'], e['variable'], e['private'], e['static'])


def strip(t):
    if t is None:
        return None
    t = dict(t)
    t.pop('bec', None)
    for k in ('vars', 'bps', 'ovs'):
        t[k] = [strip(x) for x in (t.get(k) or [])]
    if t.get('vt'):
        t['vt'] = strip(t['vt'])
    return t


def snapshot(wd, src, extra=""):
    f = wd.write(src + '\n__verif_dump__ "dump.json"\n' + extra, "t.rb")
    x = wd.ti([f])
    p = os.path.join(wd.path, "dump.json")
    if not os.path.exists(p):
        return x, None
    return x, {key(e): strip(e['t']) for e in json.load(open(p))['tframe']}


def probe_lines(out, first_row):
    res = {}
    for l in out.split("\n"):
        m = re.match(r'^t\.rb:::(\d+):::(.*)$', l)
        if m and int(m.group(1)) >= first_row:
            res[int(m.group(1)) - first_row] = m.group(2)
    return res


def gen_flagged(r):
    """A configured class whose methods combine is_conditional / is_destructive / is_capture_owner, and a program that
    calls them on a variable and reassigns the variable."""
    frame = r.choice(["Builtin", "Builtin", "Store"])
    methods = []
    for i in range(r.randint(2, 4)):
        cond = r.random() < 0.5
        ret = {"type": r.choice([["String", "Int"], ["Int", "Float"], ["Buf", "NilClass"]]) if cond else r.choice([["Int"], ["Self"], ["NilClass"], ["String"]])}
        if cond:
            ret["is_conditional"] = True
        if r.random() < 0.6:
            ret["is_destructive"] = True
        if r.random() < 0.15:
            ret["is_capture_owner"] = True
        args = [{"type": ["Int", "String"]}] if cond else r.choice([[], [{"type": ["Int"]}], [{"type": ["Untyped"], "is_asterisk": True}]])
        methods.append({"name": "t%d%s" % (i, "!" if ret.get("is_destructive") else ""), "arguments": args, "return_type": ret})
    files = {"zz_buf.json": json.dumps({"frame": frame, "class": "Buf", "extends": [], "instance_methods": methods,
                                        "class_methods": [{"name": "new", "arguments": [], "return_type": {"type": ["Buf"]}}]})}
    qual = "Buf" if frame == "Builtin" else "Store::Buf"
    lines = ["b = %s.new" % qual]
    for _ in range(r.randint(3, 8)):
        m = r.choice(methods)
        na = len(m["arguments"])
        arg = r.choice(["1", '"s"']) if na and m["arguments"][0].get("type") == ["Int", "String"] else ("1" if na else "")
        x = r.random()
        if x < 0.5:
            lines.append("b.%s(%s)" % (m["name"], arg))
        elif x < 0.75:
            lines.append("v%d = b.%s(%s)" % (len(lines), m["name"], arg))
            lines.append("v%d = %s" % (len(lines) - 1, r.choice(["5.5", ":sym", "[1]"])))
        else:
            lines.append("b = %s" % r.choice(["5.5", "%s.new" % qual, '"str"']))
            lines.append("b = %s.new" % qual)
    for m in methods:        # probes on fresh receivers
        na = len(m["arguments"])
        for arg in (["1", '"s"'] if na and m["arguments"][0].get("type") == ["Int", "String"] else ["1" if na else ""]):
            lines.append("dbtp %s.new.%s(%s)" % (qual, m["name"], arg))
    return "\n".join(lines) + "\n", files


def part_table_and_probes(ctx, part):
    r = ctx.rng("programs")
    progs = [("hand%d" % i, s, None) for i, s in enumerate(HAND)]
    gold = [p for p in C.golden_programs()]
    for p in r.sample(gold, ctx.n(60, 400)):
        src = open(p, encoding="utf-8", errors="replace").read()
        if not reopens(src) and "__" not in src:
            progs.append(("golden:" + os.path.basename(p), src, None))
    for i in range(ctx.n(25, 150)):
        rr = C.rng_for(ctx.pid, ctx.seed, "gen%d" % i)
        prog, _ = rbgen.gen_program(rr, size=rr.randint(6, 14))
        progs.append(("generated:%d" % i, rbgen.render(prog), None))
    for i in range(ctx.n(20, 120)):
        rr = C.rng_for(ctx.pid, ctx.seed, "call%d" % i)
        files, methods = callgen.gen_config(rr)
        src, _ = callgen.gen_program(rr, methods, ncalls=12)
        progs.append(("calls:%d" % i, src, files))
    for i in range(ctx.n(20, 120)):
        rr = C.rng_for(ctx.pid, ctx.seed, "flag%d" % i)
        progs.append(("flags:%d" % i,) + gen_flagged(rr))
    probes = "\n".join(PROBES) + "\n"

    baselines = {}

    def baseline(files):
        k = json.dumps(files, sort_keys=True) if files else ""
        if k not in baselines:
            with C.Workdir(extra_config=files) as wd:
                _, snap = snapshot(wd, "", "")          # the table as the loader leaves it
                x, _ = snapshot(wd, "", probes)
                baselines[k] = (snap, probe_lines(x.out, 3))
        return baselines[k]

    for _, _, files in progs:
        baseline(files)

    def one(item):
        name, src, files = item
        with C.Workdir(extra_config=files) as wd:
            x, snap = snapshot(wd, src.rstrip("\n"), probes)
        return item, x, snap

    for (name, src, files), x, snap in C.pmap(one, progs, par=8):
        part.evaluations += 1
        base, base_probes = baseline(files)
        part.count(name.split(":")[0].rstrip("0123456789"))
        if re.search(r'\?.*:|save!|\.push|<<|Proc\.new|u_[a-z]+\.', src):
            part.nontrivial.add(src)
        if x.timeout:
            part.count("timeout")
            continue
        if snap is None:
            part.count("no_dump")      # the program ends the analysis before its last statement (syntax error)
            continue
        changed = [k for k, v in base.items() if k in snap and snap[k] != v]
        missing = [k for k in base if k not in snap]
        data = {"program": src, "extra_config": files}
        if changed or missing:
            k = (changed or missing)[0]
            part.failures.append(Failure("table_changed", "after %s the table entry %s.%s%s (frame %s) differs from the configuration" % (
                name, k[1], k[2], "/" + k[3] if k[3] else "", k[0]),
                dict(data, entry=list(k[:4]), before=base.get(k), after=snap.get(k), changed=len(changed), missing=len(missing))))
            continue
        first = len(src.rstrip("\n").split("\n")) + 2 if src.strip() else 3
        got = probe_lines(x.out, first)
        diff = [i for i in base_probes if got.get(i) != base_probes[i]]
        if diff:
            i = diff[0]
            part.failures.append(Failure("probe_changed", "probe `%s` prints %r alone and %r after %s" % (
                PROBES[i] if i < len(PROBES) else "?", base_probes[i], got.get(i), name), dict(data, probe=PROBES[i] if i < len(PROBES) else "?")))
            continue
        part.agreed += 1
        part.sample({"program": name, "entries": len(snap), "probes": len(got)})


PARTS = [part_table_and_probes]


def replay(path):
    print(json.dumps(json.load(open(path)), indent=1)[:6000])
    return 0
