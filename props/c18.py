"""C18 — preloaded files act like a prefix whose diagnostics are hidden."""
import json
import re

from lib import common as C
from lib import rbgen
from lib import robust
from lib.flow import Failure

MANIFEST = {
    "text": "Theorems C18_* (Coq) on the driver skeleton: what ti prints is a function of the target file's check-round steps "
            "and of the recorded definitions of the target file only — nothing a preloaded file does is printed, no line "
            "names a preloaded file, and definitions recorded while preloads were parsed yield no -i hint (repaired code); and when all rows of the target's steps and definitions "
            "move by k (a k-line prefix) every printed line moves by k and nothing else changes (C18_rows_rebased). "
            "That the evaluator treats preload + target like the concatenation is evaluated end-to-end: generated programs "
            "split at top-level statement boundaries into 1-3 preload files plus a target, compared with the analysis of "
            "the concatenation restricted to the target's rows (rebased).",
    "note": "Partial: the equality with the concatenation rests on the evaluator (global state carried across files, "
            "parser-local state irrelevant at statement boundaries); that part is exploration.",
    "technique": "Coq proof over the driver model (output = function of the target's steps; equivariance under row shifts); correspondence by vm_compute on "
                 "hook-driven scripts with preloads; metamorphic split-vs-concatenation runs of ti",
}
REQUIRES = ["Model/Driver.v"]
RULE = ("generated programs (assignments, defs, classes, modules, conditionals, blocks, erroneous statements) split at every "
        "kind of top-level boundary into 1-3 preloads + target; plain and -i output compared with the concatenation's, rows "
        "rebased; non-trivial = the target uses a name defined in a preload")
TRUSTED = []
ASSUMPTIONS = ["a preload boundary is a top-level statement boundary"]
PARTIAL = ["equality with the concatenation: exploration only"]


def rebase(out, offset):
    res = []
    for l in out.split("\n"):
        m = re.match(r'^(@?t\.rb:::)(\d+)(:::.*)$', l)
        if not m:
            if l:
                res.append(l)
            continue
        row = int(m.group(2))
        if row > offset:
            res.append("%s%d%s" % (m.group(1), row - offset, m.group(3)))
    return res


def part_split(ctx, part):
    def one(i):
        r = C.rng_for(ctx.pid, ctx.seed, "split%d" % i)
        prog, _ = rbgen.gen_program(r, size=r.randint(5, 12), features=("assign", "dbtp", "def", "class", "module", "cond", "block", "error", "dbtp"))
        if len(prog) < 2:
            return None
        ncut = min(r.choice([1, 1, 2, 3]), len(prog) - 1)
        cuts = sorted(r.sample(range(1, len(prog)), ncut))
        pieces = [prog[a:b] for a, b in zip([0] + cuts, cuts + [len(prog)])]
        texts = [rbgen.render(p) for p in pieces]
        # order-sensitive preloads: a variable and a method that two preloads define differently; a preloaded class that
        # leaves placeholders behind (an attribute never assigned, a parameter no call ever types)
        if len(texts) >= 3 and r.random() < 0.7:
            texts[0] += "shared_v = 1\ndef shared_m\n  1\nend\n"
            texts[1] += "shared_v = \"s\"\ndef shared_m\n  \"s\"\nend\n"
            texts[-1] = "dbtp shared_v\ndbtp shared_m\n" + texts[-1]
        if r.random() < 0.6:
            texts[0] += "class Acct\n  attr_reader :owner\n  def pay(amount, note)\n    amount\n  end\nend\n"
            texts[-1] = "acct = Acct.new\ndbtp acct.owner\nacct.pay(1)\nacct.owner.zork\n" + texts[-1]
        whole = "".join(texts)
        offset = sum(t.count("\n") for t in texts[:-1])
        res = {}
        for flag in ([], ["-i"]):
            with C.Workdir() as wd:
                wd.write(whole, "t.rb")
                a = wd.ti(["t.rb"] + flag)
            with C.Workdir() as wd:
                wd.write(texts[-1], "t.rb")
                pool = ["zeta.rb", "alpha.rb", "mid.rb", "beta.rb"]
                r2 = C.rng_for(ctx.pid, ctx.seed, "names%d" % i)
                r2.shuffle(pool)                      # the configured order is not the lexicographic one
                names = [wd.write(t, pool[j]) for j, t in enumerate(texts[:-1])]
                wd.write(json.dumps({"preload": names}), ".ti-loader.json")
                b = wd.ti(["t.rb"] + flag)
            res[" ".join(flag)] = (a, b)
        return texts, offset, res

    for item in C.pmap(one, range(ctx.n(50, 400)), par=6):
        if item is None:
            continue
        texts, offset, res = item
        for flag, (a, b) in res.items():
            part.evaluations += 1
            part.nontrivial.add("".join(texts) + flag + str(offset))
            part.count("preloads=%d" % (len(texts) - 1))
            if a.timeout or b.timeout or a.crashed or b.crashed:
                part.count("crash_or_timeout_seen")
                continue
            want = rebase(a.out, offset)
            got = [l for l in b.out.split("\n") if l]
            foreign = [l for l in got if re.match(r'^@?(zeta|alpha|mid|beta)\.rb:::', l)]
            if foreign:
                part.failures.append(Failure("line_for_preload", "a line names a preloaded file: %r" % foreign[0],
                                             {"files": texts, "flag": flag, "out": b.out}))
            elif want == got:
                part.agreed += 1
            else:
                part.failures.append(Failure("preload_differs_from_concatenation",
                                             "target output with preloads differs from the concatenation restricted to the target",
                                             {"files": texts, "flag": flag, "expected": want, "got": got}))
        part.sample({"pieces": [t.count("\n") for t in texts], "offset": offset})


PARTS = [robust.part_driver_corr, part_split]


def replay(path):
    print(json.dumps(json.load(open(path)), indent=1)[:6000])
    return 0
