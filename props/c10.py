"""C10 — nil?/is_a? narrowing is exact inside branches and undone afterwards."""
import json
import re

from lib import common as C
from lib import corr
from lib import narrowgen
from lib.flow import Failure

MANIFEST = {
    "text": "Theorems C10_* (Coq) on a model of eval/ifunless.go (setConditionalCtx with its three maps and the conjunct counter, "
            "getBackupContext, narrowing, the deferred restore closures): for `if`/`unless` with an && chain of nil? / is_a? "
            "tests on distinct variables, inside the branch every tested variable has exactly the variants its test admits; "
            "the else branch of a single test has the complement; the else branch of `if a && b ...` admits every variant; and "
            "after `end` EVERY variable has its pre-conditional type for EVERY condition (also one testing a variable several "
            "times: the closures run last to first). elsif chains (`chain`): after `end` every variable has its pre-chain type "
            "for EVERY chain (any number of branches, any condition in each, with or without else; the dropped elsif closures "
            "of the pinned code are a refuted variant), and for chains of positive single tests on the same or on different "
            "variables branch i sees its variable as exactly the tested class and every other variable without what the earlier "
            "branches took, the else branch what nobody took; for chains of single tests of either polarity narrowing is sound "
            "(C10_elsif_sound: no branch loses a variant that can reach it). Tie: single conditionals and elsif chains (2-4 branches, negated "
            "tests, an && first condition, optional else) are run through ti and the types of every variable in every branch "
            "and after `end` are compared with the model by vm_compute; end to end, generated programs (1-3 union variables of 2-3 variants, "
            "if/unless/else, && chains, repeated tests, elsif chains with and without an earlier && condition, nesting two "
            "deep, unrelated statements in the branches) are compared with exact set semantics in every branch and after "
            "every conditional.",
    "note": "Trusted: Coq kernel + vm_compute; lib/narrowgen.py (set semantics of the tests). negated tests and && conditions inside elsif chains "
            "are covered by the model tie, nesting by the end-to-end comparison only; `==` tests and `||` are not narrowed by ti and not generated.",
    "technique": "Coq proof (exactness and restoration on a state-machine model of the narrowing, induction over the condition); "
                 "correspondence by vm_compute against `ti` on single conditionals; end-to-end comparison with set semantics",
}
REQUIRES = ["Model/Narrow.v"]
RULE = ("model tie: 1-3 variables, one conditional (if/unless, 1-3 conjuncts, optional else), dbtp of every variable in each "
        "branch and after; chain tie: 1-3 variables, if + 1-3 elsif (+ else), tests on one or on several variables;  end to end: 1-3 conditionals per program from 14 forms, nesting <= 2; non-trivial = a && chain, an "
        "elsif chain or a nested conditional")
TRUSTED = []
ASSUMPTIONS = ["no branch assigns a tested variable", "tested classes are variants of the variable (a test for a foreign class admits nothing)"]
PARTIAL = ["elsif chains with negated tests: restoration and soundness proved, exactness by correspondence only; && conditions inside chains: restoration proved, branch types by correspondence only", "nesting: exploration only", "a positive test repeated on one variable in one && chain is outside the theorem"]


def run(src):
    with C.Workdir() as wd:
        x = wd.ti([wd.write(src, "t.rb")])
    got = {}
    for l in x.out.split("\n"):
        m = re.match(r'^t\.rb:::(\d+):::(.*)$', l)
        if m:
            got.setdefault(int(m.group(1)), m.group(2))
    return x, got


def parse_type(s):
    if s is None:
        return None
    m = re.match(r'^Union<(.*)>$', s)
    return m.group(1).split(" ") if m else [s]


def part_e2e(ctx, part):
    def one(i):
        r = C.rng_for(ctx.pid, ctx.seed, "prog%d" % i)
        src, exp = narrowgen.gen_program(r)
        return src, exp, run(src)

    for src, exp, (x, got) in C.pmap(one, list(range(ctx.n(150, 1500))), par=8):
        if x.timeout:
            part.count("timeout")
            continue
        if "&&" in src or "elsif" in src or re.search(r'^\s+(if|unless) ', src, re.M):
            part.nontrivial.add(src)
        for row, var, vs, note in exp:
            part.evaluations += 1
            part.count(note.split("/")[0])
            want = narrowgen.render_type(vs)
            if got.get(row) == want:
                part.agreed += 1
            else:
                kind = "not_restored" if note == "after" else "inexact_branch"
                part.failures.append(Failure(kind, "%s on row %d (%s): exact type %s, ti reports %s" % (var, row, note, want, got.get(row)),
                                             {"program": src, "row": row, "variable": var, "branch": note}))
        part.sample({"lines": len(src.split("\n")), "probes": len(exp)})


def part_model_tie(ctx, part):
    r = ctx.rng("tie")
    cases = []
    for _ in range(ctx.n(80, 600)):
        vars_, setup = narrowgen.gen_vars(r, r.randint(1, 3))
        env = dict(vars_)
        kw = r.choice(["if", "if", "unless"])
        names = [v for v, _ in vars_]
        if kw == "unless":
            tests = [narrowgen.gen_test(r, r.choice(names), env[r.choice(names)])]
            tests = [(tests[0][0], r.choice(env[tests[0][0]]), tests[0][2])]
        else:
            k = r.choice([1, 1, 2, 3])
            picked = [r.choice(names) for _ in range(k)]
            if r.random() < 0.7:
                picked = r.sample(names, min(k, len(names)))
            tests = []
            for v in picked:
                neg = r.random() < 0.5 or any(t[0] == v for t in tests)      # a repeated variable: negated tests only
                if any(t[0] == v for t in tests):
                    tests = [(t[0], t[1], True) if t[0] == v else t for t in tests]
                tests.append((v, r.choice(env[v]), neg))
        with_else = r.random() < 0.6
        lines = list(setup) + ["%s %s" % (kw, " && ".join(narrowgen.test_text(t) for t in tests))]
        rows = {"then": {}, "else": {}, "after": {}}
        for v in names:
            lines.append("  dbtp %s" % v); rows["then"][v] = len(lines)
        if with_else:
            lines.append("else")
            for v in names:
                lines.append("  dbtp %s" % v); rows["else"][v] = len(lines)
        lines.append("end")
        for v in names:
            lines.append("dbtp %s" % v); rows["after"][v] = len(lines)
        cases.append((vars_, kw, tests, with_else, "\n".join(lines) + "\n", rows))

    outs = C.pmap(lambda c: run(c[4]), cases, par=8)
    terms, kept = [], []
    for (vars_, kw, tests, with_else, src, rows), (x, got) in zip(cases, outs):
        part.evaluations += 1
        if x.timeout:
            continue
        if len(tests) > 1:
            part.nontrivial.add(src)
        obs = []
        skip = False
        for br in ("then", "else", "after"):
            for v, _ in vars_:
                if br == "else" and not with_else:
                    continue
                t = parse_type(got.get(rows[br][v]))
                if t is None:
                    skip = True
                    continue
                obs.append("(%s, %s, %s)" % ({"then": "0", "else": "1", "after": "2"}[br], C.coq_str(v), C.coq_list([C.coq_str(c) for c in t])))
        if skip:
            part.count("untyped_row")
            continue
        env = C.coq_list(["(%s, %s)" % (C.coq_str(v), C.coq_list([C.coq_str(c) for c in cl])) for v, cl in vars_])
        cond = C.coq_list(["(Build_test %s %s %s)" % (C.coq_str(v), C.coq_str(c), C.coq_bool(n)) for v, c, n in tests])
        terms.append("(%s, %s, %s, %s)" % ("KIf" if kw == "if" else "KUnless", cond, env, C.coq_list(obs)))
        kept.append(src)
        part.sample({"condition": " && ".join(narrowgen.test_text(t) for t in tests), "kind": kw})
    fn = ("fun c => let '(k, cond, e, obs) := c in let '(e1, e2, e3) := conditional k cond e in "
          "forallb (fun o => let '(br, x, t) := o in "
          "  let m := ty_of (match br with 0 => e1 | 1 => e2 | _ => e3 end) x in "
          "  match m with [] => true | _ => list_eqb String.eqb m t end) obs")
    bad = corr.coq_mismatches(["Model.Narrow"], "kind * list test * env * list (nat * string * list string)", fn, terms, chunk=200)
    for i in bad:
        part.mismatches.append({"fn": "IfUnless.Evaluation (single conditional)", "program": kept[i]})
    part.agreed += len(terms) - len(bad)


def part_chain_tie(ctx, part):
    """if C0 / elsif C1 / ... / [else] / end: every variable in every branch and after `end`, ti against `chain true`"""
    r = ctx.rng("chain")
    cases = []
    for _ in range(ctx.n(80, 600)):
        vars_, setup = narrowgen.gen_vars(r, r.randint(1, 3))
        env = dict(vars_)
        names = [v for v, _ in vars_]
        nbr = r.choice([2, 2, 3, 4])
        same = r.random() < 0.4
        v0 = r.choice(names)
        conds = []
        for b in range(nbr):
            k = 2 if (b == 0 and len(names) >= 2 and r.random() < 0.2) else 1
            picked = r.sample(names, k) if k > 1 else [v0 if same else r.choice(names)]
            conds.append([(v, r.choice(env[v]), r.random() < 0.35) for v in picked])
        with_else = r.random() < 0.6
        lines = list(setup)
        rows = []
        for b, cond in enumerate(conds):
            lines.append(("if " if b == 0 else "elsif ") + " && ".join(narrowgen.test_text(t) for t in cond))
            rw = {}
            for v in names:
                lines.append("  dbtp %s" % v); rw[v] = len(lines)
            rows.append(rw)
        erow = {}
        if with_else:
            lines.append("else")
            for v in names:
                lines.append("  dbtp %s" % v); erow[v] = len(lines)
        lines.append("end")
        arow = {}
        for v in names:
            lines.append("dbtp %s" % v); arow[v] = len(lines)
        cases.append((vars_, conds, with_else, "\n".join(lines) + "\n", rows, erow, arow))

    outs = C.pmap(lambda c: run(c[3]), cases, par=8)
    terms, kept = [], []
    for (vars_, conds, with_else, src, rows, erow, arow), (x, got) in zip(cases, outs):
        part.evaluations += 1
        if x.timeout:
            continue
        part.nontrivial.add(src)
        obs = []
        untyped = False
        def ob(tag, v, row):
            nonlocal untyped
            t = parse_type(got.get(row))
            if t is None:
                untyped = True
                return
            obs.append("(%d, %s, %s)" % (tag, C.coq_str(v), C.coq_list([C.coq_str(c) for c in t])))
        for b, rw in enumerate(rows):
            for v, _ in vars_:
                ob(b, v, rw[v])
        for v, _ in vars_:
            if with_else:
                ob(100, v, erow[v])
            ob(200, v, arow[v])
        if untyped:
            part.count("untyped_row")
        env = C.coq_list(["(%s, %s)" % (C.coq_str(v), C.coq_list([C.coq_str(c) for c in cl])) for v, cl in vars_])
        def cond_term(cond):
            return C.coq_list(["(Build_test %s %s %s)" % (C.coq_str(v), C.coq_str(c), C.coq_bool(n)) for v, c, n in cond])
        terms.append("(%s, %s, %s, %s, %s)" % (cond_term(conds[0]), C.coq_list([cond_term(c) for c in conds[1:]]), C.coq_bool(with_else), env, C.coq_list(obs)))
        kept.append(src)
        part.sample({"branches": len(conds), "else": with_else,
                     "variables_tested": len({t[0] for c in conds for t in c}), "negated": sum(1 for c in conds for t in c if t[2])})
    fn = ("fun c => let '(c0, cs, he, e, obs) := c in let '(brs, ee, ea) := chain true c0 cs he e in "
          "forallb (fun o => let '(tag, x, t) := o in "
          "  let m := ty_of (if Nat.eqb tag 200 then ea else if Nat.eqb tag 100 then match ee with Some v => v | None => [] end "
          "                  else nth tag brs []) x in "
          "  match m with [] => true | _ => list_eqb String.eqb m t end) obs")
    bad = corr.coq_mismatches(["Model.Narrow"], "list test * list (list test) * bool * env * list (nat * string * list string)", fn, terms, chunk=200)
    for i in bad:
        part.mismatches.append({"fn": "IfUnless.Evaluation (elsif chain)", "program": kept[i]})
    part.agreed += len(terms) - len(bad)


PARTS = [part_model_tie, part_chain_tie, part_e2e]


def replay(path):
    print(json.dumps(json.load(open(path)), indent=1)[:6000])
    return 0
