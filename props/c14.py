"""C14 — keyword argument order at a call site is irrelevant."""
import itertools
import json
import re

from lib import common as C
from lib import corr
from lib import argscorr
from lib import argsgen as A
from lib import tygen as G
from lib.flow import Failure

MANIFEST = {
    "text": "Theorems C14_* (Coq) prove that the argument list handed to the walk of checkAndPropagateArgs — positional "
            "arguments in call order followed by the keyword arguments sorted by key — is the same for every permutation "
            "of pairwise distinct keywords, hence result and parameter bindings are equal, for every model variant and "
            "round; Go's sort enters as an insertion sort proved to be canonical for distinct keys. The sorters and the "
            "walk are tied to the code by differential execution; the property's own predicate (permuting keywords "
            "changes nothing) is evaluated on the real checkAndPropagateArgs and on ti end-to-end, against configured and "
            "user-defined methods (incl. union receivers, **opts, defaults).",
    "note": "Trusted: Coq kernel + vm_compute; sort.Slice/sort.Strings assumed to return a sorted permutation (modelled "
            "as insertion sort); user-defined methods (parameter propagation) are covered end-to-end only.",
    "technique": "Coq proof (permutation invariance of a canonical sort) over the Gallina model of the argument walk; "
                 "correspondence by vm_compute; metamorphic runs of ti",
}
REQUIRES = ["Model/Args.v"]
RULE = ("hook level: signatures with 2-5 keyword parameters (required, defaulted) mixed with positionals/rest/kwrest, calls "
        "with missing/unknown keywords, every permutation up to 4 keywords and sampled ones above; end-to-end: generated "
        "programs with user-defined and configured keyword methods, each call printed in two keyword orders; "
        "non-trivial = at least 2 keyword arguments; distinct = distinct (signature, call)")
TRUSTED = ["Go's sort.Slice / sort.Strings return a sorted permutation"]
ASSUMPTIONS = ["keyword keys at one call site are pairwise distinct (Ruby rejects duplicates)"]
PARTIAL = []


def part_sorters(ctx, part):
    r = ctx.rng("sort")
    cases = []
    for _ in range(ctx.n(300, 3000)):
        names = []
        for _ in range(r.randint(0, 6)):
            base = r.choice(["a", "b", "ab", "k", "k2", "k1", "k10", "a1", "zz", "var1", "Z", "a_b", "aa", "*r", "**o", "x"])
            names.append(base + r.choice(["", ":", ":"]))
        names = list(dict.fromkeys(names))
        keys = r.sample(["a:", "b:", "ab:", "k:", "k2:", "k1:", "k10:", "zz:", "Z:", "a_b:", "aa:", "a1:", "a", "", "é:"], r.randint(0, 6))
        ts = [G.KEYVALUE(k, G.gen_scalar(r, True)) for k in keys if k] + [G.gen_scalar(r, True) for _ in range(r.randint(0, 3))]
        r.shuffle(ts)
        cases.append((names, ts))
    outs = C.vh_batch([{"op": "prioritize", "names": n, "ts": t} for n, t in cases])
    terms = []
    for (names, ts), o in zip(cases, outs):
        part.evaluations += 1
        if sum(1 for t in ts if t["tag"] == 271) >= 2 or sum(1 for n in names if n.endswith(":")) >= 2:
            part.nontrivial.add(json.dumps([names, [t.get("key") for t in ts]]))
        terms.append("(%s, %s, %s, %s)" % (C.coq_list([C.coq_str(n) for n in names]), C.coq_list([C.coq_ty(t) for t in ts]),
                                           C.coq_list([C.coq_str(n) for n in (o["names"] or [])]), C.coq_list([C.coq_ty(t) for t in (o["ts"] or [])])))
        part.sample({"names": names, "keys": [t.get("key") for t in ts], "impl_names": o["names"]})
    bad = corr.coq_mismatches(["Model.Args"], "list string * list ty * list string * list ty",
                              "fun c => let '(n, t, en, et) := c in list_eqb String.eqb (prioritize_dargs n) en && "
                              "list_eqb ty_eqb (prioritize_args t) et", terms)
    for i in bad:
        part.mismatches.append({"fn": "prioritizeDefineArgNames/prioritizeArgTs", "names": cases[i][0],
                                "keys": [t.get("key") for t in cases[i][1]]})
    part.agreed = len(terms) - len(bad)


def kw_signature(r):
    dargs, params, meta = [], {}, []
    n = 0
    for _ in range(r.choice([0, 1, 2])):
        n += 1
        tn, f = r.choice(A.PARAM_TYPES)
        dargs.append("var%d" % n)
        params["var%d" % n] = A.builtin(f())
        meta.append(("req", "var%d" % n, tn))
    if r.random() < 0.2:
        n += 1
        dargs.append("*var%d" % n)
        params["var%d" % n] = A.builtin(G.UNTYPED(), ast=True)
        meta.append(("rest", "var%d" % n, "Untyped"))
    for key in r.sample(["a", "b", "c", "k", "k2", "k10", "a1", "zz", "ab"], r.choice([2, 2, 3, 4, 5])):
        tn, f = r.choice(A.PARAM_TYPES)
        hd = r.random() < 0.4
        dargs.append(key + ":")
        params[key] = A.builtin(f(), hd=hd)
        meta.append(("key_opt" if hd else "key_req", key, tn))
    if r.random() < 0.25:
        dargs.append("**opts")
        meta.append(("kwrest", "opts", ""))
    return dargs, params, meta


def perms(r, kws, limit=6):
    if len(kws) <= 3:
        ps = list(itertools.permutations(kws))
    else:
        ps = [tuple(r.sample(kws, len(kws))) for _ in range(limit)]
    return [list(p) for p in ps][:limit]


def part_hook_permutations(ctx, part):
    """The property's predicate on the real checkAndPropagateArgs: every keyword order gives the same error and the
    same parameter bindings."""
    r = ctx.rng("perm")
    reqs, groups = [], []
    for _ in range(ctx.n(250, 2500)):
        dargs, params, meta = kw_signature(r)
        call = A.gen_call(r, meta)
        pos = [a for a in call if a["tag"] != 271]
        kws = [a for a in call if a["tag"] == 271]
        if len(kws) < 2:
            continue
        rnd = r.choice(["check", "check", "inference", "define"])
        frame = r.choice(["Builtin", "Builtin", ""])
        variants = perms(r, kws)
        start = len(reqs)
        for p in variants:
            reqs.append({"op": "check_args", "spec": {"frame": frame, "dargs": dargs, "params": params, "ret": G.INT_ANY(),
                                                      "calls": [pos + p], "round": rnd, "static": False}})
        groups.append((start, len(variants), dargs, [[k["key"] for k in p] for p in variants], rnd))
    outs = C.vh_batch(reqs)
    for start, n, dargs, orders, rnd in groups:
        part.evaluations += n
        part.nontrivial.add(json.dumps([dargs, sorted(orders[0])]))
        part.count("keywords=%d" % len(orders[0]))
        res = [re.sub(r"VerifCls\d+", "VerifCls", json.dumps(outs[start + i], sort_keys=True)) for i in range(n)]
        if len(set(res)) == 1:
            part.agreed += 1
        else:
            part.failures.append(Failure("kw_order_changes_check", "checkAndPropagateArgs answers differently for keyword orders %s of %s" % (orders, dargs),
                                         {"dargs": dargs, "orders": orders, "round": rnd, "results": res[:4]}))
        part.sample({"dargs": dargs, "orders": orders[:2], "round": rnd, "impl": outs[start].get("errors")})


KW_VALUES = ["1", '"s"', ":a", "1.5", "nil", "true", "[1]", "x_u"]


def gen_e2e_program(r):
    """A program with user-defined and configured keyword methods; returns (lines, call sites) where a call site is
    (line index, prefix, positional texts, [(key, value text)], suffix)."""
    lines = ["c = true", 'x_u = c ? 1 : "s"']
    sites = []
    keys_pool = ["alpha", "beta", "gamma", "delta", "eps", "k", "k2", "k10", "alpha1"]
    # top-level method with keywords (+ optional **opts)
    ks = r.sample(keys_pool, r.randint(2, 4))
    defaults = {k: r.random() < 0.4 for k in ks}
    params = ["p1"] + ["%s:%s" % (k, " 1" if defaults[k] else "") for k in ks]
    kwrest = r.random() < 0.5
    if kwrest:
        params.append("**opts")
    lines.append("def conf(%s)" % ", ".join(params))
    for k in ks:
        lines.append("  dbtp %s" % k)
    if kwrest:
        lines += ["  dbtp opts", "  dbtp opts.values", "  dbtp opts[:x1]"]
    lines += ["  p1", "end"]
    # two classes with the same keyword method (union receiver)
    ck = r.sample(keys_pool, r.randint(2, 3))
    for cls in ("Cat", "Dog"):
        lines.append("class %s" % cls)
        lines.append("  def feed(%s)" % ", ".join("%s:%s" % (k, " 2.5" if i == len(ck) - 1 else "") for i, k in enumerate(ck)))
        lines.append("    dbtp %s" % ck[0])
        lines.append("    %s" % r.choice(ck))
        lines.append("  end")
        lines.append("  def self.make(%s)" % ", ".join("%s:" % k for k in ck[:2]))
        lines.append("    %s" % ck[0])
        lines.append("  end")
        lines.append("end")
    lines.append("pet = c ? Cat.new : Dog.new")
    lines.append("cat = Cat.new")

    def kwargs(keys, extra=()):
        out = [(k, r.choice(KW_VALUES)) for k in keys]
        out += [(k, r.choice(KW_VALUES)) for k in extra]
        return out

    for _ in range(r.randint(4, 8)):
        kind = r.randrange(5)
        if kind == 0:
            use = [k for k in ks if not defaults[k] or r.random() < 0.6]
            if r.random() < 0.2 and use:
                use.pop()
            extra = r.sample(["x1", "y1", "z1"], r.choice([0, 1, 2])) if kwrest else (["zz"] if r.random() < 0.15 else [])
            sites.append((len(lines), "dbtp conf(", [r.choice(KW_VALUES)], kwargs(use, extra), ")"))
            lines.append(None)
        elif kind == 1:
            sites.append((len(lines), "dbtp pet.feed(", [], kwargs(ck if r.random() < 0.8 else ck[:-1]), ")"))
            lines.append(None)
        elif kind == 2:
            sites.append((len(lines), "dbtp cat.feed(", [], kwargs(ck), ")"))
            lines.append(None)
        elif kind == 3:
            sites.append((len(lines), "dbtp Cat.make(", [], kwargs(ck[:2]), ")"))
            lines.append(None)
        else:
            sites.append((len(lines), "dbtp kk.km(", [r.choice(KW_VALUES)], kwargs(["a", "b", "k"] if r.random() < 0.7 else ["a", "b"]), ")"))
            lines.append(None)
    return lines, sites


K_CONFIG = {"frame": "Builtin", "class": "KK", "instance_methods": [
    {"name": "km", "arguments": [{"type": "Untyped"}, {"type": ["Int", "String"], "key": "a:"}, {"type": "Untyped", "key": "b:"},
                                  {"type": "Symbol", "key": "k:", "is_default": True}], "return_type": {"type": "Int"}}],
    "class_methods": [{"name": "new", "arguments": [], "return_type": {"type": ["KK"]}}]}


def render(lines, sites, order):
    out = list(lines)
    for idx, (li, pre, pos, kws, suf) in enumerate(sites):
        ks = list(kws)
        ks = order(idx, ks)
        out[li] = pre + ", ".join(pos + ["%s: %s" % kv for kv in ks]) + suf
    return "kk = KK.new\n" + "\n".join(out) + "\n"


def part_e2e_permutations(ctx, part):
    def one(i):
        r = C.rng_for(ctx.pid, ctx.seed, "e2e%d" % i)
        lines, sites = gen_e2e_program(r)
        base = render(lines, sites, lambda idx, ks: ks)
        variants = [render(lines, sites, lambda idx, ks: list(reversed(ks))),
                    render(lines, sites, lambda idx, ks: sorted(ks)),
                    render(lines, sites, lambda idx, ks: r.sample(ks, len(ks)))]
        with C.Workdir(extra_config={"zz_kk.json": json.dumps(K_CONFIG)}) as wd:
            outs = []
            for n, src in enumerate([base] + variants):
                f = wd.write(src, "t.rb")
                outs.append((wd.ti([f]).out, wd.ti([f, "-i"]).out))
        return base, variants, outs

    for base, variants, outs in C.pmap(one, range(ctx.n(16, 150)), par=6):
        part.evaluations += len(outs)
        part.nontrivial.add(base)
        if all(o == outs[0] for o in outs[1:]):
            part.agreed += 1
        else:
            j = next(i for i, o in enumerate(outs) if o != outs[0])
            part.failures.append(Failure("kw_order_changes_output", "ti output changes when keyword arguments are permuted",
                                         {"program": base, "permuted": variants[j - 1], "out": outs[0], "out_permuted": outs[j]}))
        part.sample({"program_head": base.split("\n")[:6], "calls": [l for l in base.split("\n") if l.startswith("dbtp ")][:3],
                     "first_output": outs[0][0].split("\n")[:2]})


PARTS = [part_sorters, argscorr.part_check_args, part_hook_permutations, part_e2e_permutations]


def replay(path):
    print(json.dumps(json.load(open(path)), indent=1)[:6000])
    return 0
