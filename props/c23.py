"""C23 — completion lists exactly the methods the receiver can answer."""
import json
import re

from lib import common as C
from lib import suggen
from lib import suggestcorr
from lib.flow import Failure

MANIFEST = {
    "text": "Theorems C23_* (Coq): the ancestor walk of the completion filter (isParentClass, with its visited set and fuel "
            "|universe|+1) is proved sound on every inheritance map and complete for instance receivers on every map and for "
            "class receivers on every map in which each class is searched in one way (the visited set is keyed by the class "
            "alone); isSuggest is proved equivalent to `callable` (visible; the class around the cursor or the receiver's "
            "class, or an ancestor over superclass / include / extend edges), with corollaries `no foreign private method` and "
            "`an explicit receiver is offered only its own class and its ancestors`. The pinned filter is refuted by a "
            "witness (private Foo#ppp offered on a String returned by Foo#ccc). Two refuted statements are kept as findings. "
            "Tie: isParentClass / isSuggest / calculateObjectClassAndIsStatic / isSuggestForKernelOrObjectClass are called "
            "through hooks on generated maps (cycles, include+extend of one module, configured classes), targets and "
            "signatures and compared with the model by vm_compute; end to end, `--suggest` runs on generated hierarchies "
            "(superclass chains, included / extended user modules, a configured module, visibility sections; instance, class "
            "and implicit receivers; `recv.` and `recv` rows) and the listed generated names are compared with an "
            "independent method-lookup oracle.",
    "note": "Trusted: Coq kernel + vm_compute; the harness; the oracle in lib/suggen.py (Ruby's lookup rules); receiver capture "
            "by the evaluator (parser.SetLastEvaluatedT) is exercised end to end only, not modelled. Names are ASCII.",
    "technique": "Coq proof (DFS with shared visited set: termination, soundness, completeness; characterisation of the filter); "
                 "correspondence by vm_compute through build-tag hooks; end-to-end differential runs against a lookup oracle",
}
REQUIRES = ["Model/Suggest.v"]
RULE = ("hook level: random maps over 8 class names x 4 frames with superclass/include/extend edges (cycles allowed), "
        "signatures aimed at map nodes, targets of 11 shapes; non-trivial = the map has an include/extend edge (walk) / the "
        "signature is listed (filter). End to end: generated worlds of 1-3 modules and 2-5 classes; 4 queries per world; "
        "non-trivial = the oracle demands at least one inherited or mixed-in method")
TRUSTED = ["lib/suggen.py oracle: public instance methods of the class, its superclasses and their included modules for an "
           "instance receiver; `def self.` methods of the class and its superclasses and the instance methods of extended "
           "modules for a class receiver; own methods of any visibility for an implicit receiver"]
ASSUMPTIONS = ["T.ToString() of the captured target is an input of the model (taken from the implementation per case)"]
PARTIAL = ["C23_object_methods_refuted: Object's methods are not offered to receivers that render with an upper-case first "
           "letter (kept finding)",
           "C23_same_name_refuted: the receiver's class is matched by name only (kept finding)",
           "completeness for class receivers assumes a well-moded map (C23_ancestors_complete)",
           "protected methods and the private methods of ancestors (implicit receiver) are don't-care in the oracle"]

OBJECT_METHODS = ["inspect", "nil?", "is_a?"]


def run_query(src, row):
    with C.Workdir() as wd:
        f = wd.write(src, "t.rb")
        return wd.ti([f, "--suggest", "--row=%d" % row])


def build_query(r, w):
    c = r.choice(w.classes)["name"]
    kind = r.choice(["instance", "instance", "class", "implicit_inst", "implicit_static"])
    form = r.choice(["dot", "bare"])
    if kind == "instance":
        lines, _ = suggen.render_world(w)
        lines += ["v = %s.new" % c, "v." if form == "dot" else "v"]
        row = len(lines)
    elif kind == "class":
        lines, _ = suggen.render_world(w)
        lines += [c + ("." if form == "dot" else "")]
        row = len(lines)
    else:
        lines, row = suggen.render_world(w, c, "inst_body" if kind == "implicit_inst" else "static_body", "zz")
    return c, kind, form, "\n".join(lines) + "\n", row


def part_e2e_completion(ctx, part):
    jobs = []
    for i in range(ctx.n(45, 500)):
        r = C.rng_for(ctx.pid, ctx.seed, "world%d" % i)
        w = suggen.gen_world(r)
        for _ in range(4):
            jobs.append((w,) + build_query(r, w))

    def one(job):
        w, c, kind, form, src, row = job
        return job, run_query(src, row)

    for (w, c, kind, form, src, row), x in C.pmap(one, jobs, par=8):
        part.evaluations += 1
        part.count(kind + "/" + form)
        listed = set(re.findall(r'^%([^:]+):::', x.out, re.M))
        names = suggen.all_names(w) | {"qmeth"}
        got = listed & names
        must, may = suggen.oracle(w, c, kind)
        own = set(n for n, _ in suggen.cls(w, c)["inst"]) | set(suggen.cls(w, c)["static"])
        if must - own:
            part.nontrivial.add(src + str(row))
        data = {"program": src, "row": row, "class": c, "receiver": kind, "form": form}
        if x.rc != 0 or x.crashed or x.timeout:
            part.failures.append(Failure("query_failed", "--suggest --row=%d ends with status %s" % (row, x.rc), dict(data, stderr=x.err[-400:])))
            continue
        missing, extra = sorted(must - got), sorted(got - must - may)
        if missing:
            part.failures.append(Failure("callable_not_listed", "%s receiver of %s (%s): callable %s not listed" % (kind, c, form, missing),
                                         dict(data, missing=missing, listed=sorted(got))))
        if extra:
            part.failures.append(Failure("unrelated_listed", "%s receiver of %s (%s): %s listed but not callable" % (kind, c, form, extra),
                                         dict(data, extra=extra, listed=sorted(got))))
        if kind == "instance" and not (set(OBJECT_METHODS) <= listed):
            part.count("object_methods_missing")
            part.failures.append(Failure("object_methods_missing", "Object's methods are not offered to an instance of a user class",
                                         {"receiver_kind": "instance of a user class", "example": data}))
        if not missing and not extra:
            part.agreed += 1
        part.sample({"receiver": kind, "form": form, "class": c, "listed_generated": sorted(got)[:6]})


SAME_NAME = ("module A\n  class Foo\n    def a_m\n      1\n    end\n  end\nend\nmodule B\n  class Foo\n    def b_m\n      1\n    end\n  end\nend\n"
             "x = A::Foo.new\nx\n")


def part_probes(ctx, part):
    """Hand-written receivers: results of calls (the class that defines the method is not the receiver's class),
    literals of configured classes, same-named classes in two modules."""
    prog = ("class Foo\n  def aaa\n    1\n  end\n  def ccc\n    \"s\"\n  end\n  private\n  def ppp\n    2\n  end\nend\n"
            "class Bar\n  def zzz\n    f = Foo.new\n    f.aaa\n  end\nend\nf = Foo.new\nf.ccc\ny = f.ccc\ny\nf.aaa.\n")
    checks = [(16, {"times"}, {"aaa", "ccc", "ppp", "zzz"}), (20, {"upcase"}, {"aaa", "ccc", "ppp", "zzz"}),
              (22, {"upcase"}, {"aaa", "ccc", "ppp", "zzz"}), (23, {"times"}, {"aaa", "ccc", "ppp", "zzz", "upcase"})]
    for row, present, absent in checks:
        x = run_query(prog, row)
        part.evaluations += 1
        listed = set(re.findall(r'^%([^:]+):::', x.out, re.M))
        part.nontrivial.add("probe%d" % row)
        if not present <= listed:
            part.failures.append(Failure("callable_not_listed", "row %d: %s not listed" % (row, sorted(present - listed)),
                                         {"program": prog, "row": row}))
        elif absent & listed:
            part.failures.append(Failure("unrelated_listed", "row %d: %s listed for the result of a call" % (row, sorted(absent & listed)),
                                         {"program": prog, "row": row, "extra": sorted(absent & listed)}))
        else:
            part.agreed += 1
    lits = [('"s".\n', 1, {"upcase"}), ("[1].\n", 1, {"first"}), ("1\n", 1, {"times"}), ("x = {a: 1}\nx.\n", 2, {"keys"})]
    for src, row, present in lits:
        x = run_query(src, row)
        part.evaluations += 1
        listed = set(re.findall(r'^%([^:]+):::', x.out, re.M))
        if not present <= listed:
            part.failures.append(Failure("callable_not_listed", "literal receiver %r: %s not listed" % (src, sorted(present - listed)),
                                         {"program": src, "row": row}))
        else:
            part.agreed += 1
    x = run_query(SAME_NAME, 16)
    part.evaluations += 1
    listed = set(re.findall(r'^%([^:]+):::', x.out, re.M))
    if "b_m" in listed:
        part.failures.append(Failure("same_name_class", "a class of the same name in another module is offered too (B::Foo#b_m on A::Foo)",
                                     {"receiver_kind": "same-named classes in two modules"}))
    part.sample({"probe": "same-name", "listed": sorted(listed)[:4]})


PARTS = [suggestcorr.part_parent_corr, suggestcorr.part_is_suggest_corr, part_e2e_completion, part_probes]


def replay_finding(ctx, k):
    if k["id"] == "C23-object-methods":
        x = run_query("class Foo\n  def aaa\n    1\n  end\nend\nf = Foo.new\nf.\n", 7)
        listed = set(re.findall(r'^%([^:]+):::', x.out, re.M))
        return "aaa" in listed and "inspect" not in listed
    if k["id"] == "C23-same-name-class":
        x = run_query(SAME_NAME, 16)
        return "b_m" in set(re.findall(r'^%([^:]+):::', x.out, re.M))
    return None


def replay(path):
    print(json.dumps(json.load(open(path)), indent=1)[:6000])
    return 0
