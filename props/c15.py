"""C15 — user method parameter and return types are inferred from all call sites."""
import json
import re

from lib import common as C
from lib import corr
from lib import methgen
from lib import propcorr
from lib import retgen
from lib.flow import Failure
from props import c09, c14

MANIFEST = {
    "text": "Theorems C15_* (Coq): the reference rule of the property — a parameter's type is the union, by T.AppendVariant, of "
            "the argument types of all call sites — is proved to cover every call site and to hold nothing else (one variant "
            "per distinct class, scalar argument types, through the model of AppendVariant). How ti reaches that union: propagationForCalledTo for a "
            "parameter of a user-defined method is modelled as a state machine on the table entry (type, flags, Round tag): within "
            "one round, from a parameter nothing is known about, the call sites leave exactly the distinct argument types "
            "(C15_round_collects); from ANY inferred state of earlier rounds the parameter afterwards admits the argument of every "
            "call site of the round — what a round replaces (first call site of a new round, the two-variant heuristic) it "
            "replaces before recording anything of this round (C15_round_covers; C15_new_round_replaces: the pinned code also checked the replacing call site against the old type, "
            "the repaired code accepts it). "
            "The orchestration of the four rounds (which call sites a round reaches) is not modelled: the kept finding lives "
            "there. Tie: checkAndPropagateArgs is driven through a hook with one user-defined parameter (absent, single or union "
            "entry, inferred / default flags, any Round tag) and 1-4 call sites in one round; error, type and Round tag after "
            "every call are compared with the model by vm_compute. The type of a "
            "call: on a model of the return collection (AppendLastReturnT, Return.Evaluation, Def.evaluationBody, the block of "
            "a lambda) the method's type holds exactly the value of the body's last statement and the `return` values written "
            "outside lambdas, at any depth of blocks (C15_returns_collected); generated bodies (expression statements, returns, "
            "three block forms, three lambda forms, nesting <= 2) are run through ti and compared with the model by vm_compute "
            "(order included) and with the reference. Tie: "
            "AppendVariant / UnifyVariants against the model (C09's correspondence) and the keyword sorters (C14's); end to "
            "end, generated programs with 1-4 user methods (positional, default and keyword parameters, explicit returns) and "
            "1-5 call sites each — after the definition, inside a method defined before the callee, inside a method defined "
            "after it — are compared at every `dbtp` of a parameter inside the body and of every call: the reported variants "
            "must be exactly the union over all call sites (the type of an overridden default value may be present); a body "
            "operation that fails for every argument type must be reported and one that succeeds for all must not.",
    "note": "Trusted: Coq kernel + vm_compute; lib/methgen.py (the union over the call sites it writes). The per-call mechanism "
            "is modelled and tied; the round orchestration is covered by exploration.",
    "technique": "Coq proof (the union over call sites covers each of them, via the AppendVariant model); correspondence by "
                 "vm_compute for the union operations; end-to-end comparison with the union over known call sites",
}
REQUIRES = ["Model/Infer.v", "Model/Returns.v", "Model/Propagate.v"]
RULE = ("return collection: bodies of 1-4 statements, nesting <= 2; programs of 1-4 methods, 1-2 positional parameters, 40% a default parameter, 40% a keyword parameter, 40% an explicit "
        "return; call sites at top level after the definition and inside early / late caller methods; variants compared as "
        "sets; non-trivial = a parameter meets at least two different types")
TRUSTED = []
ASSUMPTIONS = ["argument types are scalar (Integer, String, Float, Symbol)"]
PARTIAL = ["the orchestration of the four rounds (which call sites a round reaches, when a definition is evaluated) is explored, not modelled"]


def run(src):
    with C.Workdir() as wd:
        x = wd.ti([wd.write(src, "t.rb")])
    got = {}
    for l in x.out.split("\n"):
        m = re.match(r'^t\.rb:::(\d+):::(.*)$', l)
        if m:
            got.setdefault(int(m.group(1)), []).append(m.group(2))
    return x, got


def part_e2e(ctx, part):
    def one(i):
        r = C.rng_for(ctx.pid, ctx.seed, "meth%d" % i)
        src, probes = methgen.gen_program(r)
        return src, probes, run(src)

    for src, probes, (x, got) in C.pmap(one, list(range(ctx.n(150, 1500))), par=8):
        if x.timeout:
            continue
        for pr in probes:
            part.evaluations += 1
            want, opt = methgen.expected(pr), methgen.optional_types(pr)
            g = methgen.parse((got.get(pr[0]) or [None])[0])
            part.count(pr[1])
            if len(want) >= 2:
                part.nontrivial.add(src + str(pr[0]))
            if g is not None and want <= g <= (want | opt):
                part.agreed += 1
            elif pr[1] == "call_before_def" and g is not None and g and g <= (want | opt):
                part.count("call_before_def_narrow")
                part.failures.append(Failure("call_before_definition", "the value of a call written before the method's definition lacks variants that later call sites add",
                                             {"shape": "dbtp of a call placed before the def, result depending on a parameter"}))
            else:
                what = "parameter %s of %s" % (pr[3], pr[2].name) if pr[1] == "param" else "call of %s" % pr[2].name
                part.failures.append(Failure("wrong_inferred_type", "%s on row %d: the call sites give %s, ti reports %s" % (
                    what, pr[0], sorted(want), (got.get(pr[0]) or [None])[0]), {"program": src, "row": pr[0]}))
        part.sample({"lines": len(src.split("\n")), "probes": len(probes)})


BODY_OPS = [
    ("def op%d(n)\n  n.upcase\nend\n", [("1", False), ("2", False)], True),            # fails for every argument type
    ("def op%d(n)\n  n.upcase\nend\n", [('"a"', True), ('"b"', True)], False),
    ("def op%d(n)\n  n.to_s\nend\n", [("1", True), ('"s"', True), ("1.5", True)], False),     # succeeds for all
    ("def op%d(n)\n  n + 1\nend\n", [("1", True), ("1.5", True)], False),
    ("def op%d(n)\n  n.nope_zz\nend\n", [("1", False), ('"s"', False)], True),
]


def part_body_operations(ctx, part):
    r = ctx.rng("ops")
    for i in range(ctx.n(10, 60)):
        tmpl, calls, must_report = r.choice(BODY_OPS)
        src = tmpl % i + "".join("op%d(%s)\n" % (i, a) for a, _ in calls)
        x, got = run(src)
        part.evaluations += 1
        reported = 2 in got
        part.nontrivial.add(src)
        if reported == must_report:
            part.agreed += 1
        else:
            part.failures.append(Failure("body_operation", "a body operation that %s is %s" % (
                "fails for every argument type" if must_report else "succeeds for all argument types", "not reported" if must_report else "reported: %s" % got.get(2)),
                {"program": src}))


def part_keyword_prefix_names(ctx, part):
    """keyword parameters whose names are a prefix of one another plus a digit (k / k2, v1 / v10)"""
    r = ctx.rng("kwnames")
    for i in range(ctx.n(12, 80)):
        a, b = r.choice([("k", "k2"), ("v1", "v10"), ("a", "a1"), ("val", "val2")])
        t = r.sample(methgen.VALS, 4)
        order1, order2 = [(a, t[0]), (b, t[1])], [(b, t[2]), (a, t[3])]
        if r.random() < 0.5:
            order1.reverse()
        src = ("def kwp(%s:, %s:)\n  dbtp %s\n  dbtp %s\n  1\nend\nkwp(%s)\nkwp(%s)\n" % (
            a, b, a, b, ", ".join("%s: %s" % (k, v[0]) for k, v in order1), ", ".join("%s: %s" % (k, v[0]) for k, v in order2)))
        x, got = run(src)
        part.evaluations += 1
        part.nontrivial.add(src)
        want_a, want_b = frozenset([t[0][1], t[3][1]]), frozenset([t[1][1], t[2][1]])
        ga, gb = methgen.parse((got.get(2) or [None])[0]), methgen.parse((got.get(3) or [None])[0])
        if ga == want_a and gb == want_b:
            part.agreed += 1
        else:
            part.failures.append(Failure("wrong_inferred_type", "keyword parameters %s / %s: the call sites give %s / %s, ti reports %s / %s" % (
                a, b, sorted(want_a), sorted(want_b), (got.get(2) or [None])[0], (got.get(3) or [None])[0]), {"program": src}))


def part_returns_tie(ctx, part):
    """def bodies of expression statements, returns, blocks and lambdas: the type of the call against `method_type true`
    (by vm_compute) and against the reference (outer returns + last value)"""
    def one(i):
        r = C.rng_for(ctx.pid, ctx.seed, "ret%d" % i)
        body = retgen.gen_body(r)
        src, row = retgen.program(body)
        return body, src, row, run(src)

    terms, kept = [], []
    for body, src, row, (x, got) in C.pmap(one, list(range(ctx.n(150, 1500))), par=8):
        part.evaluations += 1
        if x.timeout:
            continue
        line = (got.get(row) or [None])[0]
        m = re.match(r'^Union<(.*)>$', line or "")
        g = m.group(1).split(" ") if m else [line]
        for k in ("return", "block", "lambda"):
            if retgen.has(body, k):
                part.count("has_" + k)
        if retgen.has(body, "lambda") or retgen.has(body, "block"):
            part.nontrivial.add(src)
        want = retgen.reference(body)
        if sorted(want) != sorted(str(c) for c in g) or len(x.out.strip().split("\n")) != 1:
            part.failures.append(Failure("call_type_wrong", "the call of a method whose body returns %s is reported as %s (output: %r)" % (
                want, line, x.out[:200]), {"program": src}))
        else:
            part.agreed += 1
        terms.append("(%s, %s)" % (retgen.coq_body(body), C.coq_list([C.coq_str(str(c)) for c in g])))
        kept.append(src)
        part.sample({"statements": len(body), "lambda": retgen.has(body, "lambda"), "block": retgen.has(body, "block")})
    # several array results: one array type with the element types of all of them
    def arr(i):
        src, row, want = retgen.array_returns(C.rng_for(ctx.pid, ctx.seed, "arr%d" % i))
        return src, row, want, run(src)
    for src, row, want, (x, got) in C.pmap(arr, list(range(ctx.n(30, 300))), par=8):
        part.evaluations += 1
        part.count("array_returns")
        if x.timeout:
            continue
        line = (got.get(row) or [None])[0]
        m2 = re.match(r'^Array<(.*)>$', line or "")
        # arrays merge position by position: the element types are compared as a set
        if m2 and sorted(m2.group(1).split(" ")) == sorted(want[6:-1].split(" ")):
            part.agreed += 1
        else:
            part.failures.append(Failure("call_type_wrong", "the call of a method whose results are arrays is reported as %s, the arrays hold %s" % (line, want),
                                         {"program": src}))
    bad = corr.coq_mismatches(["Model.Returns"], "list rstmt * list string",
                              "fun c => list_eqb String.eqb (method_type true (fst c)) (snd c)", terms, chunk=300)
    for i in bad:
        part.mismatches.append({"fn": "Return.Evaluation / Do.Evaluation / Def.evaluationBody (return collection)", "program": kept[i]})


PARTS = [c09.part_tyops_corr, c14.part_sorters, propcorr.part_propagate, part_returns_tie, part_e2e, part_keyword_prefix_names, part_body_operations]

CALL_BEFORE_DEF = "dbtp um2(1.5, \"s\", k2: 1)\ndef um2(p20, p21, k2:)\n  if p20\n    return \"s\"\n  end\n  p21\nend\ndbtp um2(1, :a, k2: 1)\n"


def replay_finding(ctx, k):
    if k["id"] == "C15-call-before-def":
        x, got = run(CALL_BEFORE_DEF)
        return methgen.parse((got.get(1) or [None])[0]) != methgen.parse((got.get(8) or [None])[0])
    return None


def replay(path):
    print(json.dumps(json.load(open(path)), indent=1)[:6000])
    return 0
