"""C16 — user classes: resolution, inheritance and visibility follow Ruby."""
import json
import re

from lib import common as C
from lib import corr
from lib import suggen
from lib import suggestcorr
from lib.flow import Failure

MANIFEST = {
    "text": "Theorems C16_* (Coq) on a model of getParentMethodT (visited set, superclass edges followed, an included module and "
            "what it includes answering instance lookups, an extended module and what it includes answering class lookups, "
            "over an abstract method table): the walk terminates on every inheritance map, cyclic ones included, with fuel "
            "|unvisited|+1, and whatever it answers is a class or module that Ruby's lookup reaches from the receiver's class; on a well-moded "
            "map (every node reached in one static mode) an empty answer means that no reachable class or module has the method "
            "(C16_lookup_complete). "
            "Visibility sections are C22_tags. Tie: the walk is executed through a hook on generated inheritance maps "
            "(cycles, include+extend of one module, configured names) and method tables and compared with the model by "
            "vm_compute; end to end, ti runs on generated hierarchies (superclass chains of depth 1-4, included and extended "
            "modules, modules including modules, reopenings, nested namespaces, initialize with parameters, public / private "
            "/ protected sections) and every call (instance and class receivers, every generated method name) is compared "
            "with Ruby's lookup: resolved, or reported (undefined, private with explicit receiver, protected from outside, "
            "wrong arity of new).",
    "note": "Trusted: Coq kernel + vm_compute; lib/suggen.py (Ruby's lookup and visibility rules); `new` and visibility "
            "are exercised end to end only.",
    "technique": "Coq proof (termination, soundness and completeness of the lookup DFS with a shared visited set); correspondence by "
                 "vm_compute through a build-tag hook; end-to-end comparison with Ruby's lookup rules",
}
REQUIRES = ["Model/Lookup.v"]
RULE = ("hook: maps over 8 class names x 4 frames (cycles allowed), 1-4 definitions, instance and class lookups; end to end: worlds "
        "of 1-3 modules (possibly nested includes) and 2-5 classes, every class x 6 instance calls + 4 class calls + new; "
        "non-trivial = the callee is inherited or mixed in / the map has an include or extend edge")
TRUSTED = []
ASSUMPTIONS = ["`new` of a class without any initialize in its chain takes anything in ti (Ruby: no arguments): not judged", "generated class and module names do not collide with configured class names (collisions: kept finding)"]
PARTIAL = ["completeness of the walk (C16_lookup_complete) assumes a well-moded inheritance map (every node reached in one static mode)", "a user class whose short name is a configured class (kept finding)"]


def part_lookup_corr(ctx, part):
    r = ctx.rng("lookup")
    cases = []
    for _ in range(ctx.n(300, 3000)):
        edges, builtin = suggestcorr.gen_map(r)
        nodes = sorted(set([(e["frame"], e["class"]) for e in edges] + [(p["frame"], p["class"]) for e in edges for p in e["parents"]]))
        nodes = [n for n in nodes if n[1]]
        if not nodes:
            continue
        defs = []
        for f, c in r.sample(nodes, min(len(nodes), r.randint(1, 3))):
            defs.append({"frame": r.choice([f, f, "Builtin"]) if c in builtin else f, "class": c, "static": r.random() < 0.4})
        start = r.choice([(e["frame"], e["class"]) for e in edges])
        cases.append((edges, builtin, defs, start, r.random() < 0.4))
    outs = C.vh_batch([{"op": "parent_lookup", "edges": e, "builtin": b, "defs": d, "frame": s[0], "class": s[1], "static": st}
                       for e, b, d, s, st in cases])
    terms = []
    for (e, b, d, s, st), o in zip(cases, outs):
        part.evaluations += 1
        if "found" not in o:
            part.mismatches.append({"fn": "getParentMethodT", "case": [e, b, d, s, st], "answer": o})
            continue
        part.count("found" if o["found"] else "none")
        if any(p["include"] or p["extend"] for ed in e for p in ed["parents"]):
            part.nontrivial.add(json.dumps([e, b, d, s, st], sort_keys=True))
        has = "(fun n st => %s)" % (" || ".join("(fc_eqb n (%s, %s) && Bool.eqb st %s)" % (C.coq_str(x["frame"]), C.coq_str(x["class"]), C.coq_bool(x["static"])) for x in d) or "false")
        res = "Some (%s, %s)" % (C.coq_str(o["frame"]), C.coq_str(o["class"])) if o["found"] else "None"
        terms.append("(%s, %s, %s, (%s, %s), %s, %s)" % (has, suggestcorr.coq_map(e), C.coq_list([C.coq_str(z) for z in b]),
                                                         C.coq_str(s[0]), C.coq_str(s[1]), C.coq_bool(st), res))
    fn = ("fun c => let '(has, m, b, n, st, res) := c in let u := universe m n in "
          "match plookup has b (S (List.length u)) m st u n, res with "
          "| Some (Some x, _), Some y => fc_eqb x y | Some (None, _), None => true | _, _ => false end")
    bad = corr.coq_mismatches(["Model.Lookup"], "(node -> bool -> bool) * inh_map * list string * node * bool * option node", fn, terms, chunk=200)
    for i in bad:
        part.mismatches.append({"fn": "getParentMethodT", "case": cases[i]})
    part.agreed += len(terms) - len(bad)


def gen_world(r):
    w = suggen.gen_world(r)
    # a module may include an earlier module; a class may take parameters in initialize; a class may be reopened
    for i, m in enumerate(w.modules):
        m["includes"] = [w.modules[j]["name"] for j in range(i) if r.random() < 0.4]
    for c in w.classes:
        c["init"] = r.choice([None, None, 0, 1, 2])
        c["reopen"] = [(w.fresh("r"), "public")] if r.random() < 0.3 else []
        c["singleton_block"] = r.random() < 0.5
    return w


def render(w):
    lines = []
    for m in w.modules:
        lines.append("module %s" % m["name"])
        for x in m.get("includes", []):
            lines.append("  include %s" % x)
        for n in m["inst"]:
            lines += ["  def %s" % n, "    1", "  end"]
        for n in m["static"]:
            lines += ["  def self.%s" % n, "    1", "  end"]
        lines.append("end")
    for c in w.classes:
        lines.append("class %s%s" % (c["name"], " < %s" % c["parent"] if c["parent"] else ""))
        for x in c["includes"]:
            lines.append("  include %s" % x)
        for x in c["extends"]:
            lines.append("  extend %s" % x)
        if c["init"] is not None:
            lines += ["  def initialize(%s)" % ", ".join("a%d" % i for i in range(c["init"])), "    @v = 1", "  end"]
        if c["static"] and len(c["name"]) % 2 == 0 or c.get("singleton_block"):
            lines.append("  class << self")
            for n in c["static"]:
                lines += ["    def %s" % n, "      1", "    end"]
            lines.append("  end")
        else:
            for n in c["static"]:
                lines += ["  def self.%s" % n, "    1", "  end"]
        lines += suggen.render_instance_methods(c)
        lines.append("end")
    for c in w.classes:
        for n, _ in c["reopen"]:
            lines += ["class %s" % c["name"], "  def %s" % n, "    1", "  end", "end"]
    return lines


def module_closure(w, name):
    out, todo = [], [name]
    while todo:
        x = todo.pop(0)
        if x in out or x in suggen.CONFIGURED:
            if x in suggen.CONFIGURED and x not in out:
                out.append(x)
            continue
        out.append(x)
        todo += suggen.mod(w, x).get("includes", [])
    return out


def instance_table(w, cname):
    """method name -> visibility, by Ruby's lookup order (class, its modules, superclass ...)"""
    tbl = {}
    for k in suggen.superchain(w, cname):
        c = suggen.cls(w, k)
        for n, v in c["inst"] + c["reopen"]:
            tbl.setdefault(n, v)
        for mname in c["includes"]:
            for mm in module_closure(w, mname):
                for n in suggen.mod(w, mm)["inst"]:
                    tbl.setdefault(n, "public")
    return tbl


def class_table(w, cname):
    s = set()
    for k in suggen.superchain(w, cname):
        c = suggen.cls(w, k)
        s.update(c["static"])
        for mname in c["extends"]:
            for mm in module_closure(w, mname):
                s.update(suggen.mod(w, mm)["inst"])
    return s


def init_arity(w, cname):
    for k in suggen.superchain(w, cname):
        if suggen.cls(w, k)["init"] is not None:
            return suggen.cls(w, k)["init"]
    return 0


def part_e2e(ctx, part):
    def one(i):
        r = C.rng_for(ctx.pid, ctx.seed, "world%d" % i)
        w = gen_world(r)
        lines = render(w)
        names = sorted((suggen.all_names(w) | set(n for c in w.classes for n, _ in c["reopen"])) - {"collect", "each_with_index"})
        calls = []
        for c in w.classes:
            cn = c["name"]
            ar = init_arity(w, cn)
            lines.append("o_%s = %s.new(%s)" % (cn.lower(), cn, ", ".join(["1"] * ar)))
            it, ct = instance_table(w, cn), class_table(w, cn)
            for n in r.sample(names, min(6, len(names))):
                lines.append("o_%s.%s" % (cn.lower(), n))
                calls.append((len(lines), "%s#%s" % (cn, n), "ok" if it.get(n) == "public" else "reported"))
            for n in r.sample(names, min(4, len(names))):
                lines.append("%s.%s" % (cn, n))
                calls.append((len(lines), "%s.%s" % (cn, n), "ok" if n in ct else "reported"))
            if any(suggen.cls(w, k)["init"] is not None for k in suggen.superchain(w, cn)):     # there is an initialize to check against
                wrong = ar + 1 if r.random() < 0.5 or ar == 0 else ar - 1
                lines.append("%s.new(%s)" % (cn, ", ".join(["1"] * wrong)))
                calls.append((len(lines), "%s.new/%d" % (cn, wrong), "reported"))
        # protected methods: callable on another instance from the class itself and from every descendant, not from outside
        for c in w.classes:
            chain = suggen.superchain(w, c["name"])
            prots = [n for k in chain for n, v in suggen.cls(w, k)["inst"] if v == "protected"]
            if not prots:
                continue
            pm = r.choice(prots)
            lines += ["class %s" % c["name"], "  def pcall_%s(other)" % c["name"].lower(), "    other.%s" % pm, "  end", "end"]
            calls.append((len(lines) - 2, "%s#pcall -> other.%s (inside the hierarchy)" % (c["name"], pm), "ok"))
            ar = init_arity(w, c["name"])
            lines.append("o_%s.pcall_%s(%s.new(%s))" % (c["name"].lower(), c["name"].lower(), c["name"], ", ".join(["1"] * ar)))
            lines += ["class Outsider%s" % c["name"], "  def pcall(other)", "    other.%s" % pm, "  end", "end"]
            calls.append((len(lines) - 2, "Outsider#pcall -> other.%s (outside the hierarchy)" % pm, "reported"))
            lines.append("Outsider%s.new.pcall(%s.new(%s))" % (c["name"], c["name"], ", ".join(["1"] * ar)))
        src = "\n".join(lines) + "\n"
        with C.Workdir() as wd:
            return w, src, calls, wd.ti([wd.write(src, "t.rb")])

    for w, src, calls, x in C.pmap(one, list(range(ctx.n(60, 600))), par=8):
        if x.timeout:
            continue
        errs = {}
        for l in x.out.split("\n"):
            m = re.match(r'^t\.rb:::(\d+):::(.*)', l)
            if m:
                errs.setdefault(int(m.group(1)), m.group(2))
        if any(c["parent"] or c["includes"] or c["extends"] for c in w.classes):
            part.nontrivial.add(src)
        for row, what, exp in calls:
            part.evaluations += 1
            got = "ok" if row not in errs else "reported"
            part.count(exp)
            if got == exp:
                part.agreed += 1
            else:
                part.failures.append(Failure("wrong_resolution", "%s on row %d: Ruby %s, ti %s (%s)" % (
                    what, row, "resolves it" if exp == "ok" else "rejects it", "accepts it" if got == "ok" else "reports", errs.get(row, "no diagnostic")),
                    {"program": src, "row": row, "call": what}))
        part.sample({"classes": len(w.classes), "modules": len(w.modules), "calls": len(calls)})


COLLISION = "class Parent\n  def mine\n    :a\n  end\nend\nclass Sub < Parent\nend\ndbtp Sub.new.mine\n"


def part_collision(ctx, part):
    """the kept finding: a user class named like a configured class"""
    with C.Workdir() as wd:
        x = wd.ti([wd.write(COLLISION, "t.rb")])
    part.evaluations += 1
    if "t.rb:::8:::Symbol" in x.out:
        part.agreed += 1
    else:
        part.failures.append(Failure("configured_name_collision", "a user class named like a configured class (Parent) is not the parent its subclass gets",
                                     {"shape": "user class with the short name of a configured class"}))


PARTS = [part_lookup_corr, part_e2e, part_collision]


PRIVATE_MODULE = ("module Zm\n  private\n  def m1\n    1\n  end\nend\nclass Zk\n  include Zm\n  def k1\n    m1\n  end\nend\n"
                  "z = Zk.new\nq = 2\ndbtp z.k1\n")


def replay_finding(ctx, k):
    if k["id"] == "C16-configured-name":
        with C.Workdir() as wd:
            return "t.rb:::8:::Symbol" not in wd.ti([wd.write(COLLISION, "t.rb")]).out
    if k["id"] == "C16-private-module-method":
        with C.Workdir() as wd:
            return "t.rb:::15:::Integer" not in wd.ti([wd.write(PRIVATE_MODULE, "t.rb")]).out
    return None


def replay(path):
    print(json.dumps(json.load(open(path)), indent=1)[:6000])
    return 0
