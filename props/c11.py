"""C11 — independent code does not change the analysis of other code."""
import json
import os
import re

from lib import common as C
from lib import rbgen
from lib.flow import Failure

MANIFEST = {
    "text": "Theorems C11_* (Coq): an independent fragment can reach other code only through ti's global state; four such "
            "channels are closed by theorems — a `[` that opens a line is read as preceded by a space for every parser state "
            "(never an index on the previous line's value), every conditional leaves every variable's type as it found it "
            "(C10_restore), no call alters an entry of the builtin table (C12's frame theorem), and a lambda inserted anywhere "
            "before the last statement of a method body — at any depth of blocks, whatever it returns — leaves the method's type "
            "unchanged (model of the parser's list of returned types, tied to ti by C15's return-collection correspondence; the "
            "pinned code is a refuted variant). The property as a whole is "
            "run as a metamorphic test: fragments generated from the typed grammar with fresh names (conditionals on unions, "
            "blocks with and without parameters, array literals opening a line, builtin calls on unions, lambdas with an "
            "explicit return, one-line do...end blocks and `;`-separated statements) are inserted at every kind of statement boundary that is not the end of a body — top level and "
            "nested, in generated hosts (defs, classes, modules, blocks on union receivers) and at top-level boundaries of "
            "corpus programs — and a whole independent program is appended; every output line from outside the fragment must "
            "be unchanged up to the row shift.",
    "note": "Trusted: Coq kernel; the boundary finder (tree-based for generated hosts, conservative line heuristics for the "
            "corpus); the fragment generator's freshness discipline (prefix zf). The evaluator's other global state is covered "
            "by the metamorphic runs only.",
    "technique": "Coq proof (four non-interference lemmas on the parser, narrowing, heap and return-collection models); metamorphic insertion "
                 "runs of ti",
}
REQUIRES = ["Model/Parser.v", "Model/Narrow.v", "Model/Heap.v", "Model/Returns.v"]
RULE = ("hosts: generated programs (11 features) and corpus programs; per host up to 4 boundaries x 2 fragments out of 12 shapes, "
        "plus one appended independent program; non-trivial = the boundary is nested or the host has a statement of more than "
        "one line after it")
TRUSTED = []
ASSUMPTIONS = ["the fragment shares no user-defined name with the host, defines no class or method and reopens no builtin class"]
PARTIAL = ["global evaluator state other than the modelled channels: exploration only",
           "a modifier `if` inside parentheses is read as a block `if` (kept finding; the form is not generated)"]


def all_fragments(n):
    f = lambda s: s.replace("#", str(n))
    return ([
        [f("zfa# = [1, \"s\"]"), f("zfb# = zfa#.first")],
        [f("zfc# = true"), f("zfu# = zfc# ? nil : \"s\""), f("if zfu#.nil?"), f("  zfd# = 1"), "else", f("  zfd# = zfu#.upcase"), "end"],
        [f("3.times do |zfi#|"), f("  zfj# = zfi#"), "end"],
        [f("zfl# = lambda do |zfx#|"), f("  return zfx#.to_s"), "end"],
        [f("[1, 2].each { |zfv#| zfw# = zfv# }")],
        [f("zfc# = true"), f("zfu# = zfc# ? 1 : \"s\""), f("zfm# = zfu# * 2")],
        [f("zfh# = {a: 1, b: \"s\"}"), f("zfk# = zfh#[:a]"), f("zfh#[:c] = 1.5")],
        [f("[[1, \"a\"]].each do |zfp#, zfq#|"), f("  zfr# = zfq#"), "end"],
        [f("zfc# = true"), f("zfu# = zfc# ? [1] : (1..2)"), f("zfu#.each do |zfe#|"), f("  zfs# = zfe#"), "end", f("zft# = 1.to_s")],
        [f("[1, 2].each do |zfv#| zfv#.to_s end")],
        [f("zfa# = 1; zfb# = zfa#.to_s; zfg# = 2")],
        [f("zfl# = ->(zfx#) { return zfx#.to_s }"), f("[1].each do |zfy#| zfz# = zfy#.to_s; end")],
    ])


def fragments(r):
    return r.choice(all_fragments(r.randint(0, 999)))


# small hosts whose method types are observable after the insertion point: every fragment is inserted at every listed
# boundary (line index, indent) of each, so that no fragment / position pair depends on the random draw
FIXED_HOSTS = [
    (["hn = 3", "def hm(ha)", "  ha + 1", "end", "dbtp hm(hn)", "hs = hm(hn).to_s", "dbtp hs"],
     [(1, 0), (2, 1), (4, 0), (5, 0), (6, 0)]),
    (["class Hk", "  def initialize(hv)", "    @hv = hv", "  end", "  def hget", "    @hv", "  end", "end", "ho = Hk.new(1)", "dbtp ho.hget",
      "def hlate", "  \"s\"", "end", "dbtp hlate"],
     [(1, 1), (2, 2), (4, 1), (5, 2), (8, 0), (9, 0), (10, 0), (11, 1), (13, 0)]),
    (["hq = [1, 2]", "def hsum(hl)", "  ht = 0", "  hl.each do |he|", "    ht = ht + he", "  end", "  ht", "end", "dbtp hsum(hq)",
      "hz = hsum(hq) + 1", "dbtp hz"],
     [(1, 0), (2, 1), (3, 1), (4, 2), (6, 1), (8, 0), (9, 0), (10, 0)]),
]


def part_every_fragment(ctx, part):
    frs = all_fragments(7)
    jobs = [(hi, fi, flags) for hi in range(len(FIXED_HOSTS)) for fi in range(len(frs)) for flags in ((), ("-i",))]
    base = {}
    for hi, (lines, _) in enumerate(FIXED_HOSTS):
        for flags in ((), ("-i",)):
            base[(hi, flags)] = run("\n".join(lines) + "\n", flags)

    def one(job):
        hi, fi, flags = job
        sub = type(part)("sub")
        lines, bounds = FIXED_HOSTS[hi]
        a = base[(hi, flags)]
        if a.timeout:
            return sub
        for k, indent in bounds:
            compare(sub, "fixed-host:%d/fragment:%d" % (hi, fi), lines, k, frs[fi], indent, out_lines(a.out), flags)
        return sub

    for sub in C.pmap(one, jobs, par=6):
        part.evaluations += sub.evaluations
        part.agreed += sub.agreed
        part.failures.extend(sub.failures)
        part.nontrivial |= sub.nontrivial
        part.count("fixed_host_insertions", sub.evaluations)


def statement_starts(block, indent=0, lines=None, starts=None):
    """Rendered lines and the (line index, indent) of every statement start, at every nesting level."""
    if lines is None:
        lines, starts = [], []
    for s in block:
        starts.append((len(lines), indent))
        if isinstance(s, rbgen.Simple):
            lines += s.lines(indent)
        else:
            lines.append(("  " * indent) + s.header)
            for i, b in enumerate(s.bodies):
                statement_starts(b, indent + 1, lines, starts)
                if i < len(s.mids):
                    lines.append(("  " * indent) + s.mids[i])
            lines.append(("  " * indent) + s.footer)
    return lines, starts


def out_lines(out):
    res = []
    for l in out.split("\n"):
        m = re.match(r'^(@?t\.rb):::(\d+):::(.*)$', l)
        if m:
            res.append((int(m.group(2)), m.group(1) + ":::" + m.group(3)))
        elif l:
            res.append((-1, l))
    return res


def run(src, flags=()):
    with C.Workdir() as wd:
        return wd.ti([wd.write(src, "t.rb")] + list(flags))


def compare(part, name, host_lines, k, frag, indent, a_out, flags):
    src = "\n".join(host_lines[:k] + [("  " * indent) + l for l in frag] + host_lines[k:]) + "\n"
    b = run(src, flags)
    part.evaluations += 1
    if b.timeout:
        part.count("timeout")
        return
    want = [(r + len(frag) if r > k else r, t) for r, t in a_out]
    got = [(r, t) for r, t in out_lines(b.out) if not (k < r <= k + len(frag))]
    if indent or any(l.startswith("  ") for l in host_lines[k:k + 3]):
        part.nontrivial.add(src)
    if want == got:
        part.agreed += 1
    else:
        diff = next(((x, y) for x, y in zip(want + [None] * len(got), got + [None] * len(want)) if x != y), None)
        part.failures.append(Failure("fragment_changes_host", "inserting an independent fragment before line %d of %s changes a host line: %r -> %r" % (
            k + 1, name, diff[0], diff[1]), {"program": src, "host": "\n".join(host_lines) + "\n", "fragment": frag, "at_line": k + 1, "flags": list(flags)}))


def part_generated_hosts(ctx, part):
    jobs = []
    for i in range(ctx.n(40, 400)):
        r = C.rng_for(ctx.pid, ctx.seed, "host%d" % i)
        prog, _ = rbgen.gen_program(r, size=r.randint(5, 10), features=("assign", "dbtp", "cond", "block", "ublock", "nblock", "nblock", "def", "def", "class",
                                                                       "module", "kwdef", "error", "dbtp"))
        lines, starts = statement_starts(prog)
        lines = [rbgen.subst(l) for l in lines]
        nested = [s for s in starts if s[1] > 0]
        picks = r.sample(starts, min(2, len(starts))) + r.sample(nested, min(2, len(nested)))
        flags = r.choice([(), (), ("-i",)])
        jobs.append(("generated:%d" % i, lines, picks, [fragments(r) for _ in picks] + [fragments(r) for _ in picks], flags, r.random()))

    def one(job):
        name, lines, picks, frags, flags, _ = job
        return job, run("\n".join(lines) + "\n", flags)

    for (name, lines, picks, frags, flags, _), a in C.pmap(one, jobs, par=6):
        if a.timeout:
            continue
        a_out = out_lines(a.out)
        for j, (k, indent) in enumerate(picks):
            for frag in (frags[j], frags[len(picks) + j]):
                compare(part, name, lines, k, frag, indent, a_out, flags)
                part.count("nested" if indent else "top")
        part.sample({"host": name, "boundaries": len(picks)})


CONT = re.compile(r'(,|\(|\{|\[|\||&&|\|\||\+|-|\*|/|\.|\\|=|<<|do|then)\s*$')


def part_corpus_hosts(ctx, part):
    r = ctx.rng("corpus")
    jobs = []
    for p in r.sample(C.golden_programs(), ctx.n(30, 300)):
        src = open(p, encoding="utf-8", errors="replace").read()
        if "<<" in src or "=begin" in src or "__END__" in src or "zf" in src:
            continue
        lines = src.rstrip("\n").split("\n")
        cands = []
        for k in range(1, len(lines)):
            l, prev = lines[k], lines[k - 1]
            if re.match(r'^[a-zA-Z@$]', l) and not re.match(r'^(end|else|elsif|when|in|rescue|ensure|then|do)\b', l) and prev.strip() \
                    and not CONT.search(prev) and not prev.lstrip().startswith("#") and not re.match(r'^\s', l):
                cands.append(k)
        if cands:
            jobs.append((os.path.basename(p), lines, r.sample(cands, min(2, len(cands))), [fragments(r), fragments(r)]))

    def one(job):
        return job, run("\n".join(job[1]) + "\n")

    for (name, lines, ks, frags), a in C.pmap(one, jobs, par=6):
        if a.timeout:
            continue
        a_out = out_lines(a.out)
        for k, frag in zip(ks, frags):
            compare(part, "golden:" + name, lines, k, frag, 0, a_out, ())
            part.count("corpus")


def part_append_program(ctx, part):
    def one(i):
        r = C.rng_for(ctx.pid, ctx.seed, "app%d" % i)
        host, _ = rbgen.gen_program(r, size=r.randint(4, 9), prefix="h")
        other, _ = rbgen.gen_program(r, size=r.randint(4, 9), prefix="zq", features=("assign", "dbtp", "cond", "block", "ublock", "error"))
        hs, os_ = rbgen.render(host), rbgen.render(other)
        return hs, os_, run(hs), run(hs + os_)

    for hs, os_, a, b in C.pmap(one, list(range(ctx.n(30, 300))), par=6):
        part.evaluations += 1
        if a.timeout or b.timeout:
            continue
        n = len(hs.rstrip("\n").split("\n"))
        want = out_lines(a.out)
        got = [(r, t) for r, t in out_lines(b.out) if r <= n]
        part.nontrivial.add(hs + os_)
        if want == got:
            part.agreed += 1
        else:
            part.failures.append(Failure("fragment_changes_host", "appending an independent program changes the output of the first one",
                                         {"program": hs + os_, "host": hs}))


PARTS = [part_generated_hosts, part_every_fragment, part_corpus_hosts, part_append_program]

PAREN_IF = "def zq(a)\n  zfx = (a.to_s if a)\n  a\nend\ndbtp zq(1)\n"


def replay_finding(ctx, k):
    if k["id"] == "C11-parenthesised-modifier-if":
        return "t.rb:::5:::Integer" not in run(PAREN_IF).out
    return None


def replay(path):
    print(json.dumps(json.load(open(path)), indent=1)[:6000])
    return 0
