"""C22 — definition info and hover point at the right definition."""
import json
import re

from lib import common as C
from lib import corr
from lib import visgen
from lib.flow import Failure

MANIFEST = {
    "text": "Theorems C22_* (Coq): the implementation of visibility sections — two flags on the context, `private` / "
            "`protected` registering deferred End calls, `class << self` saving the flags, starting public and restoring them "
            "by a closure deferred first (so run last), `def self.` leaving the section on its own copy of the context — is "
            "proved to tag every definition of EVERY class body (any sequence of sections, defs, `def self.` and singleton "
            "bodies) exactly as Ruby's rule does (one default visibility per body; a singleton body is a body of its own; "
            "`def self.` is public); the singleton section provably leaves the outer flags unchanged. The pinned code is "
            "refuted by a four-item body. Tie: `-i` runs on generated classes and modules (plain, endless and multi-line "
            "definitions) and each hint's c/ i/ tag and visibility is compared with the model by vm_compute and with Ruby's rule "
            "computed independently; rows of `-i` hints and `--define` records are compared with the row of the `def` token; "
            "every call row is hovered and must show the called method's signature.",
    "note": "Trusted: Coq kernel + vm_compute; lib/visgen.py (Ruby's section rule, rows of def tokens); the row bookkeeping of "
            "the parser and the hover lookup (base.GlobT) are exercised end to end only.",
    "technique": "Coq proof (refinement of Ruby's section rule by the flag/defer state machine, induction over class bodies); "
                 "correspondence by vm_compute against `ti -i`; end-to-end checks of rows and hover",
}
REQUIRES = ["Model/Visibility.v"]
RULE = ("class / module bodies of 3-8 items (sections, defs of 5 shapes, def self., class << self bodies of 1-4 items), each public "
        "method called on its own row; non-trivial = the body has a section keyword before a def self. or a singleton body")
TRUSTED = ["lib/visgen.py: Ruby's rule — `private`/`protected`/`public` without arguments set the default visibility of the "
           "instance methods defined after them in the same body; def self. methods are public"]
ASSUMPTIONS = []
PARTIAL = ["rows and hover: exploration only (not modelled)"]

HINT = re.compile(r'^@t\.rb:::(\d+):::(.*) \[([ci])/(public|private|protected)\]$')


def part_definitions(ctx, part):
    def one(i):
        r = C.rng_for(ctx.pid, ctx.seed, "body%d" % i)
        kind = r.choice(["class", "class", "class", "module"])
        items = visgen.gen_body(r, "zq", allow_singleton=(kind == "class"))
        wrap = "Shop" if r.random() < 0.4 else None
        lines, defs = visgen.render(kind, "Gadget", items, wrap)
        calls = []
        qual = "Shop::Gadget" if wrap else "Gadget"
        if kind == "class":
            lines.append("g = %s.new" % qual)
        for d in defs:
            if d["vis"] != "public" or d.get("call_vis") == "private":
                continue
            if kind == "module" and not d["class_method"]:
                continue
            recv = qual if d["class_method"] else "g"
            lines.append("%s.%s(%s)" % (recv, d["name"], ", ".join(["1"] * d["arity"])))
            calls.append((len(lines), d))
        src = "\n".join(lines) + "\n"
        with C.Workdir() as wd:
            f = wd.write(src, "t.rb")
            info = wd.ti([f, "-i"])
            define_i = wd.ti([f, "--define", "--row=%d" % (calls[0][0] if calls else 1)])
            hovers = [(row, d, wd.ti([f, "--hover", "--row=%d" % row])) for row, d in calls[:ctx.n(4, 12)]]
        return kind, items, src, defs, calls, info, define_i, hovers

    terms, kept = [], []
    for kind, items, src, defs, calls, info, define_i, hovers in C.pmap(one, list(range(ctx.n(120, 800))), par=8):
        part.evaluations += 1
        hints = {}
        for l in info.out.split("\n"):
            m = HINT.match(l)
            if m:
                hints[int(m.group(1))] = (m.group(3), m.group(4), m.group(2))
        sect = False
        for it in items:
            if it[0] in ("private", "protected"):
                sect = True
            if sect and it[0] in ("defself", "singleton") or it[0] in ("privdef", "privsym"):
                part.nontrivial.add(src)
        data = {"program": src}
        # every definition has a hint on the row of its def token, tagged as Ruby says
        ok = True
        for d in defs:
            h = hints.get(d["row"])
            want = ("c" if d["class_method"] else "i", d["vis"])
            part.count("%s/%s" % want)
            if h is None:
                ok = False
                part.failures.append(Failure("hint_missing", "no -i hint on row %d (def %s)" % (d["row"], d["name"]), dict(data, rows=sorted(hints))))
            elif (h[0], h[1]) != want:
                ok = False
                part.failures.append(Failure("wrong_tag", "def %s on row %d is tagged [%s/%s], Ruby: [%s/%s]" % (d["name"], d["row"], h[0], h[1], want[0], want[1]), data))
        extra = sorted(set(hints) - set(d["row"] for d in defs) - {2})      # row 2: Receipt#total of the preamble
        if extra:
            ok = False
            part.failures.append(Failure("wrong_row", "-i hints on rows %s where no def token is" % extra, data))
        # --define records name the def rows
        for l in define_i.out.split("\n"):
            m = re.match(r'^%([^:]*):::Gadget:::([^:]+):::t\.rb:::(\d+)$', l)
            if m:
                d = next((x for x in defs if x["name"] == m.group(2)), None)
                if d and d["row"] != int(m.group(3)):
                    ok = False
                    part.failures.append(Failure("wrong_row", "--define names row %s for %s, its def is on row %d" % (m.group(3), d["name"], d["row"]), data))
        # hover shows the called method
        for row, d, x in hovers:
            part.evaluations += 1
            if not re.search(r'^%%%s:::Gadget\.%s\(' % (re.escape(d["name"]), re.escape(d["name"])), x.out, re.M):
                ok = False
                part.failures.append(Failure("hover_missing", "--hover --row=%d (call of %s) does not show its signature" % (row, d["name"]),
                                             dict(data, row=row, output=x.out[:300])))
            else:
                part.agreed += 1
        if ok:
            part.agreed += 1
        # model tie: the tags in definition order
        order = [hints.get(d["row"]) for d in defs]
        if all(order):
            obs = "[%s]" % "; ".join('("%s", %s, %s)' % (d["name"], "true" if h[0] == "c" else "false", h[1].capitalize()) for d, h in zip(defs, order))
            terms.append("(%s, %s)" % (visgen.coq_items(items), obs))
            kept.append(src)
        part.sample({"kind": kind, "defs": len(defs), "hints": len(hints)})
    bad = corr.coq_mismatches(["Model.Visibility"], "list item * list (string * bool * vis)",
                              "fun c => list_eqb (fun (a b : string * bool * vis) => String.eqb (fst (fst a)) (fst (fst b)) && "
                              "Bool.eqb (snd (fst a)) (snd (fst b)) && "
                              "match snd a, snd b with Public, Public | Private, Private | Protected, Protected => true | _, _ => false end) "
                              "(map (fun t => (tg_name t, tg_class_method t, tg_vis t)) (class_tags (fst c))) (snd c)", terms, chunk=300)
    for i in bad:
        part.mismatches.append({"fn": "class body visibility sections", "program": kept[i]})
    part.agreed += len(terms) - len(bad)
    part.evaluations += len(terms)


PARTS = [part_definitions]


def replay(path):
    print(json.dumps(json.load(open(path)), indent=1)[:6000])
    return 0
