"""C13 — consistently renaming user identifiers changes nothing but the names."""
import json
import os
import re

from lib import common as C
from lib import rbgen
from lib.flow import Failure
from props import c03, c14

MANIFEST = {
    "text": "Theorems C13_* (Coq): the two places where the name of an identifier, rather than its binding, decides what ti "
            "does. (1) parser.Read's classification: every name that is not upper-case-initial, not a symbol, not true/false "
            "and not a configured class name is an identifier, whatever its length and characters; every upper-case-initial "
            "name with a lower-case letter is a class name; an upper-case-initial name WITHOUT a lower-case letter is a "
            "constant (refuted statement, kept as a finding). (2) keyword arguments meet their parameters through two sorts, "
            "and the pairing is proved identical for every choice of distinct names. Tie: the lexer/classifier model and the "
            "two sorters are compared with the implementation by vm_compute (C03's and C14's correspondences, with "
            "prefix+digit key pools); the property itself is run as a metamorphic test: every renameable local, method, class, "
            "keyword and block parameter of generated programs, and the user-defined names of corpus programs, are renamed to "
            "fresh names of length 1-12 (one-character names, names that are another name plus a digit) and the output must "
            "be the old output under the same substitution.",
    "note": "Trusted: Coq kernel + vm_compute; the renaming tool (whole-word substitution on placeholders / on names that the "
            "program defines and that no configured method or keyword uses). 'Fresh' excludes ti keywords and every name "
            "the configuration declares.",
    "technique": "Coq proof (category-only classification of names; name-independence of keyword pairing via a canonical sort); "
                 "correspondence by vm_compute; metamorphic renaming runs of ti",
}
REQUIRES = ["Model/Parser.v", "Model/Args.v"]
RULE = ("generated programs (assign, dbtp, conditionals, blocks, defs, classes, modules, keyword-parameter methods, &block "
        "methods) x 3 renamings of every placeholder; corpus programs x renaming of up to 3 user-defined names; fresh names: "
        "1 char, 2-12 chars, another renamed name plus a digit; non-trivial = the renamed name occurs at least twice")
TRUSTED = []
ASSUMPTIONS = ["fresh names are not keywords, not names declared by the configuration, not present in the program"]
PARTIAL = ["the evaluator's treatment of names is covered by the renaming runs only",
           "C13_class_without_lowercase_refuted: class names without a lower-case letter (kept finding)"]

RESERVED = None


def reserved():
    global RESERVED
    if RESERVED is None:
        s = set("if unless else elsif end def class module do while until for in case when then return yield self nil true false "
                "and or not begin rescue ensure break next redo retry super alias undef defined private public protected "
                "include extend attr_reader attr_writer attr_accessor require puts p print dbtp lambda proc loop raise new "
                "initialize call each map".split())
        for f in os.listdir(C.SHIPPED_CONFIG):
            if f.endswith(".json"):
                try:
                    d = json.load(open(os.path.join(C.SHIPPED_CONFIG, f)))
                except Exception:
                    continue
                s.add(d.get("class", ""))
                for k in ("instance_methods", "class_methods", "constants", "instance_properties"):
                    for m in d.get(k) or []:
                        s.add(m.get("name", ""))
                # every name the configuration mentions anywhere (types of arguments and returns, frames, parents)
                s.update(re.findall(r'[A-Za-z_][A-Za-z0-9_]*', json.dumps(d)))
        RESERVED = s
    return RESERVED


def fresh_name(r, kind, used, style):
    letters = "abcdefghijklmnopqrstuvwxyz"
    for _ in range(200):
        if style == "one":
            n = r.choice(letters)
        elif style == "digit" and [u for u in used if u[:1].islower() == (kind != "c")]:
            base = r.choice(sorted(u for u in used if u[:1].islower() == (kind != "c")))
            n = base + str(r.choice([1, 2, 10]))
        else:
            n = "".join(r.choice(letters + "_") for _ in range(r.randint(2, 12))).strip("_") or "q"
            if r.random() < 0.3:
                n += str(r.randint(0, 99))
        if kind == "c":
            n = n[0].upper() + n[1:] + ("x" if len(n) == 1 or not re.search("[a-z]", n[1:]) else "")
            if not re.match(r'^[A-Z][A-Za-z0-9_]*$', n):
                continue
        if n in reserved() or n in used or not re.match(r'^[A-Za-z_][A-Za-z0-9_]*$', n) or n[0] == "_":
            continue
        return n
    return None


def substitute(text, mapping):
    """whole-word substitution old -> new, simultaneously"""
    if not mapping:
        return text
    rx = re.compile(r'(?<![A-Za-z0-9_])(%s)(?![A-Za-z0-9_])' % "|".join(re.escape(k) for k in sorted(mapping, key=len, reverse=True)))
    return rx.sub(lambda m: mapping[m.group(1)], text)


def run(src):
    with C.Workdir() as wd:
        return wd.ti([wd.write(src, "t.rb")])


def part_generated(ctx, part):
    jobs = []
    for i in range(ctx.n(40, 400)):
        r = C.rng_for(ctx.pid, ctx.seed, "gen%d" % i)
        prog, g = rbgen.gen_program(r, size=r.randint(6, 12), features=("assign", "dbtp", "cond", "block", "def", "class", "module",
                                                                        "kwdef", "kwdef", "blockdef", "error", "assign", "dbtp"))
        names = sorted(rbgen.all_names(prog))
        base = rbgen.render(prog)
        for j in range(3):
            style = ["one", "digit", "long"][j]
            mapping, used = {}, set(n for _, n in names)
            for kind, n in names:
                if r.random() < (0.5 if style != "one" else 0.3):
                    taken = set(mapping.values()) | used
                    if style == "digit":        # another renamed name of the same kind plus a digit
                        pool = set(v for (k2, _), v in mapping.items() if (k2 == "c") == (kind == "c"))
                        nn = fresh_name(r, kind, pool, "digit") if pool else fresh_name(r, kind, taken, "long")
                    else:
                        nn = fresh_name(r, kind, taken, style)
                    if nn and nn not in taken:
                        mapping[(kind, n)] = nn
            if mapping:
                jobs.append((base, rbgen.render(prog, mapping), {n: v for (_, n), v in mapping.items()}, style))

    def one(job):
        base, renamed, mapping, style = job
        return job, run(base), run(renamed)

    for (base, renamed, mapping, style), a, b in C.pmap(one, jobs, par=8):
        part.evaluations += 1
        part.count(style)
        if a.timeout or b.timeout:
            part.count("timeout")
            continue
        if any(len(re.findall(r'(?<![A-Za-z0-9_])%s(?![A-Za-z0-9_])' % re.escape(k), base)) >= 2 for k in mapping):
            part.nontrivial.add(renamed)
        want = substitute(a.out, mapping)
        if want == b.out and a.rc == b.rc:
            part.agreed += 1
        else:
            la, lb = want.split("\n"), b.out.split("\n")
            diff = next(((x, y) for x, y in zip(la + [""] * len(lb), lb + [""] * len(la)) if x != y), ("", ""))
            part.failures.append(Failure("rename_changes_output", "renaming %s changes the analysis: expected %r, got %r" % (mapping, diff[0][:100], diff[1][:100]),
                                         {"program": base, "renamed": renamed, "mapping": mapping, "style": style}))
        part.sample({"mapping": mapping, "style": style})


DEF_RX = [(re.compile(r'^\s*([a-z_][A-Za-z0-9_]*) = ', re.M), "v"), (re.compile(r'^\s*def (?:self\.)?([a-z_][A-Za-z0-9_]*)', re.M), "m"),
          (re.compile(r'^\s*class ([A-Z][A-Za-z0-9_]*[a-z][A-Za-z0-9_]*)\b', re.M), "c")]


def part_corpus(ctx, part):
    r = ctx.rng("corpus")
    jobs = []
    for p in r.sample(C.golden_programs(), ctx.n(40, 400)):
        src = open(p, encoding="utf-8", errors="replace").read()
        cands = []
        for rx, kind in DEF_RX:
            for n in set(rx.findall(src)):
                if n in reserved() or re.search(r'\.%s\b' % re.escape(n), src) and kind == "v":
                    continue
                if re.search(r'[:@$"\'#]%s\b|\b%s:' % (re.escape(n), re.escape(n)), src):
                    continue        # also a symbol, key, ivar or inside a string: not a plain identifier
                cands.append((kind, n))
        r.shuffle(cands)
        used = set(re.findall(r'[A-Za-z_][A-Za-z0-9_]*', src))
        for kind, n in cands[:3]:
            nn = fresh_name(r, kind, used, r.choice(["one", "long", "long"]))
            if nn:
                jobs.append((os.path.basename(p), src, {n: nn}, kind))

    def one(job):
        name, src, mapping, kind = job
        return job, run(src), run(substitute(src, mapping))

    for (name, src, mapping, kind), a, b in C.pmap(one, jobs, par=8):
        part.evaluations += 1
        part.count("corpus_" + kind)
        if a.timeout or b.timeout:
            part.count("timeout")
            continue
        k = list(mapping)[0]
        if len(re.findall(r'(?<![A-Za-z0-9_])%s(?![A-Za-z0-9_])' % re.escape(k), src)) >= 2:
            part.nontrivial.add(name + k)
        if substitute(a.out, mapping) == b.out:
            part.agreed += 1
        else:
            part.failures.append(Failure("rename_changes_output", "renaming %s in %s changes the analysis" % (mapping, name),
                                         {"program": src, "mapping": mapping, "before": a.out[:600], "after": b.out[:600]}))


def part_class_without_lowercase(ctx, part):
    """the kept finding, observed on the implementation"""
    src = "class Foo\n  def bar(x)\n    1\n  end\nend\nf = Foo.new\ndbtp f.bar(1)\nf.nope\n"
    for new in ("AB", "A1"):
        a, b = run(src), run(substitute(src, {"Foo": new}))
        part.evaluations += 1
        if substitute(a.out, {"Foo": new}) != b.out:
            part.failures.append(Failure("class_name_without_lowercase", "renaming class Foo to %s changes the analysis" % new,
                                         {"shape": "upper-case-initial class name without a lower-case letter"}))
        else:
            part.agreed += 1


PARTS = [c03.part_lexer_corr, c14.part_sorters, part_generated, part_corpus, part_class_without_lowercase]


def replay_finding(ctx, k):
    if k["id"] == "C13-class-without-lowercase":
        src = "class Foo\n  def bar(x)\n    1\n  end\nend\nf = Foo.new\ndbtp f.bar(1)\nf.nope\n"
        a, b = run(src), run(substitute(src, {"Foo": "AB"}))
        return substitute(a.out, {"Foo": "AB"}) != b.out
    return None


def replay(path):
    print(json.dumps(json.load(open(path)), indent=1)[:6000])
    return 0
