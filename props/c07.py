"""C07 — definite misuse of configured builtin methods is reported on its line."""
import json

from lib import argscorr, calle2e, callscen

MANIFEST = {
    "text": "Theorems C07_* (Coq) prove, for every declared type and every fully known argument type, that the "
            "repaired checkArgType rejects an argument all of whose possible classes the declaration rejects; that on "
            "any positional call of a configured method checkAndPropagateArgs is exactly the declarative count/fit "
            "rule; and that the end-to-end spec predicate `certainly_fails` implies an error in the check round. The "
            "models are tied to the code by differential execution of checkArgType / checkAndPropagateArgs on generated "
            "signatures and calls, and the spec predicate is evaluated (vm_compute) on generated configurations and "
            "programs and compared with the rows on which ti prints a diagnostic.",
    "note": "Trusted: Coq kernel + vm_compute; the loader model (C21) supplies the declared types; receiver resolution "
            "(method declared or inherited) is exercised end-to-end only; keyword / rest / kwrest parameters are covered "
            "by the correspondence of the walk, not by the declarative rule.",
    "technique": "Coq proof over Gallina models of checkArgType/checkAndPropagateArgs; correspondence by vm_compute; "
                 "spec predicate evaluated in Coq against ti end-to-end",
}
REQUIRES = ["Model/Args.v", "Model/CallSpec.v", "Model/Config.v"]
RULE = ("(declared type, argument type) pairs: full cross product of 17 declared x 21 argument shapes + random types; "
        "signatures with required/default/rest/keyword/kwrest parameters and mostly-valid calls perturbed in one way; "
        "end-to-end: generated configurations (classes K, L, parent P) and straight-line programs, one call per row; "
        "non-trivial = involves a union or object class, or a call the spec classifies as certainly failing")
TRUSTED = ["argument types of the generated expressions are known by construction (literals, ternaries)"]
ASSUMPTIONS = ["a certainly-failing call is one whose count is outside the declaration or one of whose arguments has "
               "all its possible classes rejected (Model/CallSpec.v)"]
PARTIAL = ["C07_pinned_refuted: object of class L accepted for [K, NilClass] by the pre-fix code (fixed)",
           "rest arguments are not type-checked against the declared element type (ti's own golden tests "
           "3ef3d375/d9e690b4 expect that); generators keep rest parameters out of the end-to-end spec"]
PARTS = [argscorr.part_check_arg_type, argscorr.part_check_args, calle2e.part_e2e("C07"), callscen.part_scenarios("C07")]


def replay(path):
    print(json.dumps(json.load(open(path)), indent=1)[:6000])
    return 0
